package mqttproxy

// Correspondence harness for property C15, socket part: a real Broker (newBroker, its own
// listener on an ephemeral loopback port, the package's mock storage, real sessions with the
// real 200 ms resend ticker) and raw MQTT clients speaking the paho packets codec over TCP.
// Messages are injected through Broker.httpTopicsPublishHandler; clients acknowledge at once,
// after the first retransmission, or never; clients also send QoS0/QoS1 PUBLISH packets that go
// through the publish limiter and a recording Publish pipeline (topics "drop/…" are dropped by it),
// spaced or as one burst in a single TCP write. Before the messages some clients unsubscribe or
// disconnect again (delivery is checked after routing-state changes).
//
// Nothing here asserts an upper time bound. Ordering facts are obtained from PINGREQ/PINGRESP round
// trips (the broker's read loop handles a connection's packets one after the other and its writeCh is
// FIFO): a PINGRESP proves that everything the broker queued for this client before it, and every
// packet of this client before the PINGREQ, has been dealt with. Retransmission is awaited with a
// canary ticker of the same 200 ms period running in this process: "no retransmission" is reported
// as such only after the canary itself has fired at least 10 times.

import (
	"bytes"
	"encoding/json"
	"fmt"
	"net"
	"net/http"
	"net/http/httptest"
	"strings"
	"sync"
	"testing"
	"time"

	"github.com/eclipse/paho.mqtt.golang/packets"
	"github.com/megaease/easegress/pkg/context"
	"github.com/megaease/easegress/pkg/protocols/mqttprot"
	"github.com/megaease/easegress/pkg/util/verifh"
)

type c15wClient struct {
	ID   string   `json:"id"`
	Subs []c15Sub `json:"subs"`
	Ack  string   `json:"ack"` // now | late (after the first retransmission) | never
	// history before the messages: UNSUBSCRIBE these filters / leave (DISCONNECT) after everybody subscribed
	Unsub []string `json:"unsub,omitempty"`
	Leave bool     `json:"leave,omitempty"`
}

type c15wMsg struct {
	Topic   string `json:"topic"`
	QoS     int    `json:"qos"`
	Payload string `json:"payload"`
}

type c15wInbound struct {
	C     string `json:"c"`
	Topic string `json:"topic"`
	QoS   int    `json:"qos"`
	ID    int    `json:"id"`
	Dup   bool   `json:"dup,omitempty"` // DUP flag of the PUBLISH
}

type c15wInput struct {
	Clients  []c15wClient  `json:"clients"`
	Msgs     []c15wMsg     `json:"msgs"`
	Inbound  []c15wInbound `json:"inbound"`
	Burst    bool          `json:"burst,omitempty"` // each client writes all its PUBLISH packets in one TCP write
	Limit    int           `json:"limit"`           // ClientPublishLimit.RequestRate per 1000 s (0 = no limiter)
	WindowMs int           `json:"window_ms"`       // observation time after the last injection
}

type c15wPipe struct {
	C     string `json:"c"`
	Topic string `json:"topic"`
	ID    int    `json:"id"`
	QoS   int    `json:"qos"`
}

type c15wObs struct {
	HTTP []int `json:"http"`
	// client -> arrival order of PUBLISH packets "id:qos:payload" and of the markers "!ack:<id>" (the broker has
	// provably processed our PUBACK for <id>) and "!barrier" (PINGRESP of a barrier PINGREQ)
	Rx      map[string][]string `json:"rx"`
	Canary  int                 `json:"canary"`    // ticks of the in-process 200 ms canary during the retransmission watch
	Pubacks map[string][]int    `json:"pubacks"`   // client -> ids of PUBACKs received
	Pipe    []c15wPipe          `json:"pipe"`      // calls seen by the Publish pipeline
	Waited  int                 `json:"waited_ms"` // how long the harness observed after the last injection
	Err     string              `json:"err,omitempty"`
}

type c15wRecorder struct {
	mu    sync.Mutex
	calls []c15wPipe
}

func (h *c15wRecorder) Handle(ctx *context.Context) string {
	req := ctx.GetInputRequest().(*mqttprot.Request)
	if req.PacketType() != mqttprot.PublishType {
		return ""
	}
	p := req.PublishPacket()
	h.mu.Lock()
	h.calls = append(h.calls, c15wPipe{C: req.Client().ClientID(), Topic: p.TopicName, ID: int(p.MessageID), QoS: int(p.Qos)})
	h.mu.Unlock()
	if strings.HasPrefix(p.TopicName, "drop/") {
		ctx.GetOutputResponse().(*mqttprot.Response).SetDrop()
	}
	return ""
}

type c15wMapper struct{ h context.Handler }

func (m *c15wMapper) GetHandler(name string) (context.Handler, bool) { return m.h, true }

type c15wConn struct {
	id    string
	ack   string
	conn  net.Conn
	wmu   sync.Mutex // serialises writes and the queue of ping purposes
	pings []string
	mu    sync.Mutex
	rx    []string
	seen  map[uint16]int
	acks  []int
	nbar  int
	done  chan struct{}
}

const c15wIOTimeout = 30 * time.Second

func (c *c15wConn) write(p packets.ControlPacket) error {
	c.wmu.Lock()
	defer c.wmu.Unlock()
	c.conn.SetWriteDeadline(time.Now().Add(c15wIOTimeout))
	return p.Write(c.conn)
}

func (c *c15wConn) writeRaw(b []byte) error {
	c.wmu.Lock()
	defer c.wmu.Unlock()
	c.conn.SetWriteDeadline(time.Now().Add(c15wIOTimeout))
	_, err := c.conn.Write(b)
	return err
}

// ping sends a PINGREQ whose PINGRESP will be logged with the given purpose.
func (c *c15wConn) ping(purpose string) error {
	c.wmu.Lock()
	defer c.wmu.Unlock()
	c.pings = append(c.pings, purpose)
	c.conn.SetWriteDeadline(time.Now().Add(c15wIOTimeout))
	return packets.NewControlPacket(packets.Pingreq).Write(c.conn)
}

func (c *c15wConn) barriers() int {
	c.mu.Lock()
	defer c.mu.Unlock()
	return c.nbar
}

func (c *c15wConn) readLoop() {
	defer close(c.done)
	for {
		p, err := packets.ReadPacket(c.conn)
		if err != nil {
			return
		}
		switch pk := p.(type) {
		case *packets.PublishPacket:
			c.mu.Lock()
			c.rx = append(c.rx, fmt.Sprintf("%d:%d:%s", pk.MessageID, pk.Qos, string(pk.Payload)))
			n := 0
			if pk.Qos == 1 {
				c.seen[pk.MessageID]++
				n = c.seen[pk.MessageID]
			}
			c.mu.Unlock()
			if pk.Qos == 1 && ((c.ack == "now" && n == 1) || (c.ack == "late" && n == 2)) {
				a := packets.NewControlPacket(packets.Puback).(*packets.PubackPacket)
				a.MessageID = pk.MessageID
				c.write(a)
				c.ping(fmt.Sprintf("ack:%d", pk.MessageID))
			}
		case *packets.PubackPacket:
			c.mu.Lock()
			c.acks = append(c.acks, int(pk.MessageID))
			c.mu.Unlock()
		case *packets.PingrespPacket:
			c.wmu.Lock()
			purpose := ""
			if len(c.pings) > 0 {
				purpose = c.pings[0]
				c.pings = c.pings[1:]
			}
			c.wmu.Unlock()
			c.mu.Lock()
			if purpose == "barrier" {
				c.nbar++
			}
			c.rx = append(c.rx, "!"+purpose)
			c.mu.Unlock()
		}
	}
}

func c15wDial(addr string, cl c15wClient) (*c15wConn, error) {
	conn, err := net.DialTimeout("tcp", addr, c15wIOTimeout)
	if err != nil {
		return nil, err
	}
	c := &c15wConn{id: cl.ID, ack: cl.Ack, conn: conn, seen: map[uint16]int{}, done: make(chan struct{})}
	connect := packets.NewControlPacket(packets.Connect).(*packets.ConnectPacket)
	connect.ProtocolName = "MQTT"
	connect.ProtocolVersion = 4
	connect.CleanSession = true
	connect.ClientIdentifier = cl.ID
	connect.Keepalive = 0
	if err := c.write(connect); err != nil {
		return nil, err
	}
	conn.SetReadDeadline(time.Now().Add(c15wIOTimeout))
	p, err := packets.ReadPacket(conn)
	if err != nil {
		return nil, err
	}
	if ack, ok := p.(*packets.ConnackPacket); !ok || ack.ReturnCode != packets.Accepted {
		return nil, fmt.Errorf("connack refused")
	}
	if len(cl.Subs) > 0 {
		sub := packets.NewControlPacket(packets.Subscribe).(*packets.SubscribePacket)
		sub.MessageID = 1
		for _, s := range cl.Subs {
			sub.Topics = append(sub.Topics, s.F)
			sub.Qoss = append(sub.Qoss, byte(s.Q))
		}
		if err := c.write(sub); err != nil {
			return nil, err
		}
		p, err = packets.ReadPacket(conn)
		if err != nil {
			return nil, err
		}
		if _, ok := p.(*packets.SubackPacket); !ok {
			return nil, fmt.Errorf("no suback")
		}
	}
	return c, nil
}

// c15wWait polls cond (generously: the box may be slow) and reports whether it became true.
func c15wWait(cond func() bool) bool {
	deadline := time.Now().Add(c15wIOTimeout)
	for !cond() {
		if time.Now().After(deadline) {
			return false
		}
		time.Sleep(2 * time.Millisecond)
	}
	return true
}

func c15wExec(raw json.RawMessage) interface{} {
	var in c15wInput
	if err := json.Unmarshal(raw, &in); err != nil {
		return map[string]string{"error": "bad-input"}
	}
	if in.WindowMs <= 0 {
		in.WindowMs = 700
	}
	if in.WindowMs > 3000 {
		in.WindowMs = 3000
	}
	obs := c15wObs{Rx: map[string][]string{}, Pubacks: map[string][]int{}}
	rec := &c15wRecorder{}
	spec := &Spec{Name: "verif-c15w", EGName: "verif", Port: 0,
		Rules: []*Rule{{When: &When{PacketType: Publish}, Pipeline: "verif-publish"}}}
	if in.Limit > 0 {
		spec.ClientPublishLimit = &RateLimit{RequestRate: in.Limit, TimePeriod: 1000}
	}
	b := newBroker(spec, newStorage(nil), &c15wMapper{h: rec}, func(string, string) ([]string, error) { return nil, nil })
	if b == nil {
		obs.Err = "inconclusive: broker-nil"
		return obs
	}
	defer b.close()
	addr := b.listener.Addr().String()
	if i := strings.LastIndex(addr, ":"); i >= 0 {
		addr = "127.0.0.1" + addr[i:]
	}
	conns := map[string]*c15wConn{}
	var order []string
	defer func() {
		for _, c := range conns {
			c.conn.Close()
		}
	}()
	for _, cl := range in.Clients {
		if cl.ID == "" || conns[cl.ID] != nil {
			continue
		}
		c, err := c15wDial(addr, cl)
		if err != nil {
			obs.Err = "inconclusive: dial " + cl.ID + ": " + err.Error()
			return obs
		}
		conns[cl.ID] = c
		order = append(order, cl.ID)
	}
	// history before the messages (no reader goroutines yet: nothing else can arrive on the connections)
	seenCl := map[string]bool{}
	for _, cl := range in.Clients {
		c := conns[cl.ID]
		if c == nil || seenCl[cl.ID] {
			continue
		}
		seenCl[cl.ID] = true
		if len(cl.Unsub) > 0 {
			un := packets.NewControlPacket(packets.Unsubscribe).(*packets.UnsubscribePacket)
			un.MessageID = 2
			un.Topics = append([]string{}, cl.Unsub...)
			if err := c.write(un); err != nil {
				obs.Err = "inconclusive: unsubscribe " + cl.ID
				return obs
			}
			c.conn.SetReadDeadline(time.Now().Add(c15wIOTimeout))
			p, err := packets.ReadPacket(c.conn)
			if _, ok := p.(*packets.UnsubackPacket); err != nil || !ok {
				obs.Err = "inconclusive: no unsuback " + cl.ID
				return obs
			}
		}
	}
	seenCl = map[string]bool{}
	for _, cl := range in.Clients {
		c := conns[cl.ID]
		if c == nil || seenCl[cl.ID] || !cl.Leave {
			continue
		}
		seenCl[cl.ID] = true
		c.write(packets.NewControlPacket(packets.Disconnect))
		c.conn.Close()
		delete(conns, cl.ID)
		for i, id := range order {
			if id == cl.ID {
				order = append(order[:i:i], order[i+1:]...)
				break
			}
		}
		id := cl.ID
		// the broker removes the client (after closeAndDelSession) at the end of its read loop
		if !c15wWait(func() bool { return b.getClient(id) == nil }) {
			obs.Err = "inconclusive: broker did not finish the disconnect of " + id
			return obs
		}
	}
	for _, id := range order {
		conns[id].conn.SetReadDeadline(time.Time{})
		go conns[id].readLoop()
	}
	// messages
	for _, m := range in.Msgs {
		body, _ := json.Marshal(HTTPJsonData{Topic: m.Topic, QoS: m.QoS, Payload: m.Payload, Distributed: true})
		req := httptest.NewRequest(http.MethodPost, "http://verif/mqtt", bytes.NewReader(body))
		w := httptest.NewRecorder()
		b.httpTopicsPublishHandler(w, req)
		obs.HTTP = append(obs.HTTP, w.Code)
		time.Sleep(5 * time.Millisecond)
	}
	// barrier 1: all fan-outs finished (every copy is queued), then one round trip per client
	fanoutsDone := c15wWait(func() bool { return !c15FanoutRunning() })
	if fanoutsDone {
		for _, id := range order {
			conns[id].ping("barrier")
		}
		c15wWait(func() bool {
			for _, id := range order {
				if conns[id].barriers() < 1 {
					return false
				}
			}
			return true
		})
	}
	// client PUBLISH packets, then barrier 2
	per := map[string][]c15wInbound{}
	for _, ib := range in.Inbound {
		if conns[ib.C] != nil {
			per[ib.C] = append(per[ib.C], ib)
		}
	}
	for _, id := range order {
		c := conns[id]
		var burst bytes.Buffer
		for _, ib := range per[id] {
			p := packets.NewControlPacket(packets.Publish).(*packets.PublishPacket)
			p.TopicName = ib.Topic
			p.Qos = byte(ib.QoS)
			p.MessageID = uint16(ib.ID)
			p.Dup = ib.Dup
			p.Payload = []byte("up")
			if in.Burst {
				p.Write(&burst)
			} else {
				c.write(p)
				time.Sleep(2 * time.Millisecond)
			}
		}
		if burst.Len() > 0 {
			c.writeRaw(burst.Bytes())
		}
		if fanoutsDone {
			c.ping("barrier")
		}
	}
	if fanoutsDone {
		c15wWait(func() bool {
			for _, id := range order {
				if conns[id].barriers() < 2 {
					return false
				}
			}
			return true
		})
	}
	// retransmission watch: window_ms, extended while a client that withholds its PUBACK has not yet seen a
	// retransmission of its oldest QoS1 packet and the canary (same period as the broker's ticker) has
	// fired fewer than 12 times. The judge decides; it treats fewer than 10 canary ticks as inconclusive.
	var cmu sync.Mutex
	canary := 0
	stop := make(chan struct{})
	go func() {
		t := time.NewTicker(200 * time.Millisecond)
		defer t.Stop()
		for {
			select {
			case <-stop:
				return
			case <-t.C:
				cmu.Lock()
				canary++
				cmu.Unlock()
			}
		}
	}()
	start := time.Now()
	time.Sleep(time.Duration(in.WindowMs) * time.Millisecond)
	for time.Since(start) < 60*time.Second {
		waiting := false
		for _, id := range order {
			c := conns[id]
			if c.ack == "now" {
				continue
			}
			c.mu.Lock()
			first := -1
			for _, r := range c.rx {
				var pid, q int
				if _, err := fmt.Sscanf(r, "%d:%d:", &pid, &q); err == nil && q == 1 {
					first = pid
					break
				}
			}
			if first >= 0 && c.seen[uint16(first)] < 2 {
				waiting = true
			}
			c.mu.Unlock()
		}
		cmu.Lock()
		n := canary
		cmu.Unlock()
		if !waiting || n >= 12 {
			break
		}
		time.Sleep(50 * time.Millisecond)
	}
	close(stop)
	cmu.Lock()
	obs.Canary = canary
	cmu.Unlock()
	obs.Waited = int(time.Since(start) / time.Millisecond)
	for _, id := range order {
		c := conns[id]
		c.mu.Lock()
		obs.Rx[id] = append([]string{}, c.rx...)
		obs.Pubacks[id] = append([]int{}, c.acks...)
		c.mu.Unlock()
	}
	rec.mu.Lock()
	obs.Pipe = append([]c15wPipe{}, rec.calls...)
	rec.mu.Unlock()
	return obs
}

func c15wGen(r *verifh.Rand, i int) interface{} {
	in := c15wInput{WindowMs: 700}
	n := r.Range(2, 5)
	for k := 0; k < n; k++ {
		cl := c15wClient{ID: fmt.Sprintf("w%d", k), Ack: r.Pick("now", "now", "late", "never", "never")}
		ns := r.PickInt(1, 1, 2, 3)
		for j := 0; j < ns; j++ {
			cl.Subs = append(cl.Subs, c15Sub{F: r.Pick("t/a", "t/a", "t/+", "t/#", "+/a", "#", "t/b", "t/a/#", "t/a/x", "t/a/+"), Q: r.PickInt(0, 1, 1)})
		}
		// history: some subscribers unsubscribe or leave before the messages
		switch r.Intn(6) {
		case 0:
			cl.Leave = true
		case 1, 2:
			cl.Unsub = append(cl.Unsub, cl.Subs[r.Intn(len(cl.Subs))].F)
		}
		in.Clients = append(in.Clients, cl)
	}
	nm := r.Range(1, 6)
	for k := 0; k < nm; k++ {
		in.Msgs = append(in.Msgs, c15wMsg{Topic: r.Pick("t/a", "t/a", "t/a/x", "t/b", "x"), QoS: r.PickInt(0, 1, 1, 1), Payload: fmt.Sprintf("m%d", k)})
	}
	if r.Bool(1, 2) {
		// a burst of QoS1 PUBLISH packets with consecutive ids from one client, in one TCP write
		in.Burst = true
		c := fmt.Sprintf("w%d", r.Intn(n))
		base := r.PickInt(1, 11, 300, 65530)
		for k := r.Range(3, 8); k > 0; k-- {
			in.Inbound = append(in.Inbound, c15wInbound{C: c, Topic: r.Pick("up/x", "up/x", "up/y", "drop/x"), QoS: r.PickInt(1, 1, 1, 0), ID: base % 65536})
			base++
		}
		if r.Bool(1, 4) {
			in.Limit = r.PickInt(2, 3, 5)
		}
		return in
	}
	if r.Bool(1, 2) {
		in.Limit = r.PickInt(1, 2, 3)
	}
	ni := r.Range(0, 5)
	// packet-id discipline: arbitrary ids, always id 1 (in-flight window of 1), or alternating 1, 2 — the
	// latter two from ONE client, with DUP set on some packets (a client that retransmits / re-uses ids)
	mode := r.Intn(3)
	one := fmt.Sprintf("w%d", r.Intn(n))
	for k := 0; k < ni; k++ {
		ib := c15wInbound{C: fmt.Sprintf("w%d", r.Intn(n)), Topic: r.Pick("up/x", "up/y", "drop/x"),
			QoS: r.PickInt(0, 1, 1, 1), ID: r.PickInt(1, 2, 7, 100, 65535, 0)}
		switch mode {
		case 1:
			ib.C, ib.ID, ib.QoS, ib.Dup = one, 1, 1, r.Bool(1, 2)
		case 2:
			ib.C, ib.ID, ib.QoS, ib.Dup = one, 1+k%2, 1, r.Bool(1, 2)
		}
		in.Inbound = append(in.Inbound, ib)
	}
	return in
}

func TestVerifC15Wire(t *testing.T) {
	verifh.Run(t, c15wGen, c15wExec, 150*time.Second)
}
