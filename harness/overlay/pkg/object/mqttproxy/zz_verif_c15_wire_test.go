package mqttproxy

// Correspondence harness for property C15, socket part: a real Broker (newBroker, its own
// listener on an ephemeral loopback port, the package's mock storage, real sessions with the
// real 200 ms resend ticker) and raw MQTT clients speaking the paho packets codec over TCP.
// Messages are injected through Broker.httpTopicsPublishHandler; clients acknowledge at once,
// after the first retransmission, or never; clients also send QoS0/QoS1 PUBLISH packets that go
// through the publish limiter and a recording Publish pipeline (topics "drop/…" are dropped by it).

import (
	"bytes"
	"encoding/json"
	"fmt"
	"net"
	"net/http"
	"net/http/httptest"
	"strings"
	"sync"
	"testing"
	"time"

	"github.com/eclipse/paho.mqtt.golang/packets"
	"github.com/megaease/easegress/pkg/context"
	"github.com/megaease/easegress/pkg/protocols/mqttprot"
	"github.com/megaease/easegress/pkg/util/verifh"
)

type c15wClient struct {
	ID   string   `json:"id"`
	Subs []c15Sub `json:"subs"`
	Ack  string   `json:"ack"` // now | late (after the first retransmission) | never
}

type c15wMsg struct {
	Topic   string `json:"topic"`
	QoS     int    `json:"qos"`
	Payload string `json:"payload"`
}

type c15wInbound struct {
	C     string `json:"c"`
	Topic string `json:"topic"`
	QoS   int    `json:"qos"`
	ID    int    `json:"id"`
}

type c15wInput struct {
	Clients  []c15wClient  `json:"clients"`
	Msgs     []c15wMsg     `json:"msgs"`
	Inbound  []c15wInbound `json:"inbound"`
	Limit    int           `json:"limit"`     // ClientPublishLimit.RequestRate per 1000 s (0 = no limiter)
	WindowMs int           `json:"window_ms"` // observation time after the last injection
}

type c15wPipe struct {
	C     string `json:"c"`
	Topic string `json:"topic"`
	ID    int    `json:"id"`
	QoS   int    `json:"qos"`
}

type c15wObs struct {
	HTTP    []int               `json:"http"`
	Rx      map[string][]string `json:"rx"`      // client -> PUBLISH packets "id:qos:payload" in arrival order
	Pubacks map[string][]int    `json:"pubacks"` // client -> ids of PUBACKs received
	Pipe    []c15wPipe          `json:"pipe"`    // calls seen by the Publish pipeline
	Err     string              `json:"err,omitempty"`
}

type c15wRecorder struct {
	mu    sync.Mutex
	calls []c15wPipe
}

func (h *c15wRecorder) Handle(ctx *context.Context) string {
	req := ctx.GetInputRequest().(*mqttprot.Request)
	if req.PacketType() != mqttprot.PublishType {
		return ""
	}
	p := req.PublishPacket()
	h.mu.Lock()
	h.calls = append(h.calls, c15wPipe{C: req.Client().ClientID(), Topic: p.TopicName, ID: int(p.MessageID), QoS: int(p.Qos)})
	h.mu.Unlock()
	if strings.HasPrefix(p.TopicName, "drop/") {
		ctx.GetOutputResponse().(*mqttprot.Response).SetDrop()
	}
	return ""
}

type c15wMapper struct{ h context.Handler }

func (m *c15wMapper) GetHandler(name string) (context.Handler, bool) { return m.h, true }

type c15wConn struct {
	id   string
	ack  string
	conn net.Conn
	wmu  sync.Mutex
	mu   sync.Mutex
	rx   []string
	seen map[uint16]int
	acks []int
	done chan struct{}
}

func (c *c15wConn) write(p packets.ControlPacket) error {
	c.wmu.Lock()
	defer c.wmu.Unlock()
	c.conn.SetWriteDeadline(time.Now().Add(2 * time.Second))
	return p.Write(c.conn)
}

func (c *c15wConn) readLoop() {
	defer close(c.done)
	for {
		p, err := packets.ReadPacket(c.conn)
		if err != nil {
			return
		}
		switch pk := p.(type) {
		case *packets.PublishPacket:
			c.mu.Lock()
			c.rx = append(c.rx, fmt.Sprintf("%d:%d:%s", pk.MessageID, pk.Qos, string(pk.Payload)))
			c.seen[pk.MessageID]++
			n := c.seen[pk.MessageID]
			c.mu.Unlock()
			if pk.Qos == 1 && (c.ack == "now" || (c.ack == "late" && n >= 2)) {
				a := packets.NewControlPacket(packets.Puback).(*packets.PubackPacket)
				a.MessageID = pk.MessageID
				c.write(a)
			}
		case *packets.PubackPacket:
			c.mu.Lock()
			c.acks = append(c.acks, int(pk.MessageID))
			c.mu.Unlock()
		}
	}
}

func c15wDial(addr string, cl c15wClient) (*c15wConn, error) {
	conn, err := net.DialTimeout("tcp", addr, 2*time.Second)
	if err != nil {
		return nil, err
	}
	c := &c15wConn{id: cl.ID, ack: cl.Ack, conn: conn, seen: map[uint16]int{}, done: make(chan struct{})}
	connect := packets.NewControlPacket(packets.Connect).(*packets.ConnectPacket)
	connect.ProtocolName = "MQTT"
	connect.ProtocolVersion = 4
	connect.CleanSession = true
	connect.ClientIdentifier = cl.ID
	connect.Keepalive = 0
	if err := c.write(connect); err != nil {
		return nil, err
	}
	conn.SetReadDeadline(time.Now().Add(3 * time.Second))
	p, err := packets.ReadPacket(conn)
	if err != nil {
		return nil, err
	}
	if ack, ok := p.(*packets.ConnackPacket); !ok || ack.ReturnCode != packets.Accepted {
		return nil, fmt.Errorf("connack refused")
	}
	if len(cl.Subs) > 0 {
		sub := packets.NewControlPacket(packets.Subscribe).(*packets.SubscribePacket)
		sub.MessageID = 1
		for _, s := range cl.Subs {
			sub.Topics = append(sub.Topics, s.F)
			sub.Qoss = append(sub.Qoss, byte(s.Q))
		}
		if err := c.write(sub); err != nil {
			return nil, err
		}
		p, err = packets.ReadPacket(conn)
		if err != nil {
			return nil, err
		}
		if _, ok := p.(*packets.SubackPacket); !ok {
			return nil, fmt.Errorf("no suback")
		}
	}
	conn.SetReadDeadline(time.Time{})
	go c.readLoop()
	return c, nil
}

func c15wExec(raw json.RawMessage) interface{} {
	var in c15wInput
	if err := json.Unmarshal(raw, &in); err != nil {
		return map[string]string{"error": "bad-input"}
	}
	if in.WindowMs <= 0 {
		in.WindowMs = 700
	}
	if in.WindowMs > 3000 {
		in.WindowMs = 3000
	}
	obs := c15wObs{Rx: map[string][]string{}, Pubacks: map[string][]int{}}
	rec := &c15wRecorder{}
	spec := &Spec{Name: "verif-c15w", EGName: "verif", Port: 0,
		Rules: []*Rule{{When: &When{PacketType: Publish}, Pipeline: "verif-publish"}}}
	if in.Limit > 0 {
		spec.ClientPublishLimit = &RateLimit{RequestRate: in.Limit, TimePeriod: 1000}
	}
	b := newBroker(spec, newStorage(nil), &c15wMapper{h: rec}, func(string, string) ([]string, error) { return nil, nil })
	if b == nil {
		obs.Err = "broker-nil"
		return obs
	}
	defer b.close()
	addr := b.listener.Addr().String()
	if i := strings.LastIndex(addr, ":"); i >= 0 {
		addr = "127.0.0.1" + addr[i:]
	}
	conns := map[string]*c15wConn{}
	var order []string
	for _, cl := range in.Clients {
		if cl.ID == "" || conns[cl.ID] != nil {
			continue
		}
		c, err := c15wDial(addr, cl)
		if err != nil {
			obs.Err = "dial " + cl.ID + ": " + err.Error()
			return obs
		}
		conns[cl.ID] = c
		order = append(order, cl.ID)
	}
	defer func() {
		for _, c := range conns {
			c.conn.Close()
		}
	}()
	for _, m := range in.Msgs {
		body, _ := json.Marshal(HTTPJsonData{Topic: m.Topic, QoS: m.QoS, Payload: m.Payload, Distributed: true})
		req := httptest.NewRequest(http.MethodPost, "http://verif/mqtt", bytes.NewReader(body))
		w := httptest.NewRecorder()
		b.httpTopicsPublishHandler(w, req)
		obs.HTTP = append(obs.HTTP, w.Code)
		time.Sleep(8 * time.Millisecond)
	}
	for _, ib := range in.Inbound {
		c := conns[ib.C]
		if c == nil {
			continue
		}
		p := packets.NewControlPacket(packets.Publish).(*packets.PublishPacket)
		p.TopicName = ib.Topic
		p.Qos = byte(ib.QoS)
		p.MessageID = uint16(ib.ID)
		p.Payload = []byte("up")
		c.write(p)
		time.Sleep(3 * time.Millisecond)
	}
	time.Sleep(time.Duration(in.WindowMs) * time.Millisecond)
	for _, id := range order {
		c := conns[id]
		c.mu.Lock()
		obs.Rx[id] = append([]string{}, c.rx...)
		obs.Pubacks[id] = append([]int{}, c.acks...)
		c.mu.Unlock()
	}
	rec.mu.Lock()
	obs.Pipe = append([]c15wPipe{}, rec.calls...)
	rec.mu.Unlock()
	return obs
}

func c15wGen(r *verifh.Rand, i int) interface{} {
	in := c15wInput{WindowMs: 700}
	n := r.Range(2, 5)
	for k := 0; k < n; k++ {
		cl := c15wClient{ID: fmt.Sprintf("w%d", k), Ack: r.Pick("now", "now", "late", "never", "never")}
		ns := r.PickInt(1, 1, 2, 3)
		for j := 0; j < ns; j++ {
			cl.Subs = append(cl.Subs, c15Sub{F: r.Pick("t/a", "t/+", "t/#", "+/a", "#", "t/b", "t/a/#"), Q: r.PickInt(0, 1, 1)})
		}
		in.Clients = append(in.Clients, cl)
	}
	nm := r.Range(1, 6)
	for k := 0; k < nm; k++ {
		in.Msgs = append(in.Msgs, c15wMsg{Topic: r.Pick("t/a", "t/a", "t/b", "x"), QoS: r.PickInt(0, 1, 1, 1), Payload: fmt.Sprintf("m%d", k)})
	}
	if r.Bool(1, 2) {
		in.Limit = r.PickInt(1, 2, 3)
	}
	ni := r.Range(0, 5)
	for k := 0; k < ni; k++ {
		in.Inbound = append(in.Inbound, c15wInbound{C: fmt.Sprintf("w%d", r.Intn(n)), Topic: r.Pick("up/x", "up/y", "drop/x"),
			QoS: r.PickInt(0, 1, 1, 1), ID: r.PickInt(1, 2, 7, 100, 65535, 0)})
	}
	return in
}

func TestVerifC15Wire(t *testing.T) {
	verifh.Run(t, c15wGen, c15wExec, 30*time.Second)
}
