package mqttproxy

// Correspondence harness for property C17, MQTT side (maxAllowedConnection).
// Injected with `go test -overlay`. A real Broker on an ephemeral port; raw
// MQTT connections. Operations:
//
//	connect cid      CONNECT with client id cid on a fresh TCP connection, record the CONNACK code
//	drop cid         the live connection of cid ends (FIN); waits until the broker has torn it down
//	burst [cid…]     several CONNECTs at the same time (same or different ids, incl. ids that
//	                 are already connected = takeover), each on its own goroutine
//
// A sampler goroutine reads len(Broker.clients) under the broker lock all the
// time and keeps the maximum; after every operation the harness records the
// CONNACK codes, the registered ids and that maximum.

import (
	"encoding/json"
	"net"
	"runtime"
	"sort"
	"strings"
	"strconv"
	"sync"
	"sync/atomic"
	"testing"
	"time"

	"github.com/eclipse/paho.mqtt.golang/packets"
	"github.com/megaease/easegress/pkg/util/verifh"
)

type c17mOp struct {
	Op   string `json:"op"`
	Cid  int    `json:"cid,omitempty"`
	Cids []int  `json:"cids,omitempty"`
}

type c17mInput struct {
	Cap int      `json:"cap"`
	Ops []c17mOp `json:"ops"`
}

type c17mSnap struct {
	Codes   []int  `json:"codes"`   // CONNACK return codes, in the order of the op's cids (-1: none)
	Clients []int  `json:"clients"` // ids registered in Broker.clients
	MaxSeen int    `json:"maxSeen"` // maximum of len(Broker.clients) sampled since the start
	Skipped bool   `json:"skipped"`
	Err     string `json:"err,omitempty"`
}

type c17mObs struct {
	Snaps []c17mSnap `json:"snaps"`
}

const c17mPatience = 40 * time.Second // bound of polls for definite events; only ends a genuine hang

func c17mCid(i int) string { return "c17-" + strconv.Itoa(i) }

type c17mRun struct {
	b    *Broker
	addr string
	mu   sync.Mutex
	live map[int][]net.Conn // sockets whose CONNECT was accepted, per id, oldest first
}

func (r *c17mRun) connect(cid int) (int, string) {
	sock, err := net.DialTimeout("tcp", r.addr, c17mPatience)
	if err != nil {
		return -1, "dial"
	}
	cp := packets.NewControlPacket(packets.Connect).(*packets.ConnectPacket)
	cp.ProtocolName = "MQTT"
	cp.ProtocolVersion = 4
	cp.ClientIdentifier = c17mCid(cid)
	cp.CleanSession = false // persistent sessions: no delete event on teardown, C17 stays independent of C16
	if err := cp.Write(sock); err != nil {
		c17mKill(sock)
		return -1, "write"
	}
	sock.SetReadDeadline(time.Now().Add(c17mPatience))
	p, err := packets.ReadPacket(sock)
	sock.SetReadDeadline(time.Time{})
	if err != nil {
		c17mKill(sock)
		return -1, "read"
	}
	ca, ok := p.(*packets.ConnackPacket)
	if !ok {
		c17mKill(sock)
		return -1, "not-connack"
	}
	if ca.ReturnCode != packets.Accepted {
		c17mKill(sock)
		return int(ca.ReturnCode), ""
	}
	// round trip: the connection's read loop is running
	ping := packets.NewControlPacket(packets.Pingreq)
	ping.Write(sock)
	sock.SetReadDeadline(time.Now().Add(c17mPatience))
	_, err = packets.ReadPacket(sock)
	sock.SetReadDeadline(time.Time{})
	if err != nil {
		c17mKill(sock)
		return int(ca.ReturnCode), "ping"
	}
	r.mu.Lock()
	r.live[cid] = append(r.live[cid], sock)
	r.mu.Unlock()
	return int(ca.ReturnCode), ""
}

// c17mKill closes a client socket with a TCP reset (no TIME_WAIT socket is left behind;
// a run makes hundreds of thousands of connections).
func c17mKill(sock net.Conn) {
	if tc, ok := sock.(*net.TCPConn); ok {
		tc.SetLinger(0)
	}
	sock.Close()
}

// c17mHandlers counts the goroutines running Broker.handleConn.
func c17mHandlers() int {
	buf := make([]byte, 1<<16)
	for {
		n := runtime.Stack(buf, true)
		if n < len(buf) {
			buf = buf[:n]
			break
		}
		buf = make([]byte, 2*len(buf))
	}
	return strings.Count(string(buf), "\ngithub.com/megaease/easegress/pkg/object/mqttproxy.(*Broker).handleConn(")
}

func (r *c17mRun) liveCount() int {
	r.mu.Lock()
	defer r.mu.Unlock()
	n := 0
	for _, s := range r.live {
		n += len(s)
	}
	return n
}

// endSocks resets connections (already taken out of r.live) and waits until the broker has
// torn them down: their handleConn goroutines, which run readLoop's deferred cleanup, are gone.
func (r *c17mRun) endSocks(socks []net.Conn) string {
	if len(socks) == 0 {
		return ""
	}
	for _, s := range socks {
		c17mKill(s)
	}
	deadline := time.Now().Add(c17mPatience)
	for i := 0; ; i++ {
		live := r.liveCount() // before the goroutine dump, see the C16 harness
		if c17mHandlers() <= live {
			return ""
		}
		if time.Now().After(deadline) {
			return "teardown-timeout"
		}
		if i < 50 {
			time.Sleep(50 * time.Microsecond)
		} else {
			time.Sleep(time.Millisecond)
		}
	}
}

func (r *c17mRun) clients() []int {
	out := []int{}
	r.b.Lock()
	for k := range r.b.clients {
		if len(k) > 4 {
			if n, err := strconv.Atoi(k[4:]); err == nil {
				out = append(out, n)
			}
		}
	}
	r.b.Unlock()
	sort.Ints(out)
	return out
}

func c17mExec(raw json.RawMessage) interface{} {
	var in c17mInput
	if err := json.Unmarshal(raw, &in); err != nil {
		return map[string]string{"error": "bad-input"}
	}
	spec := &Spec{Name: "c17", EGName: "c17", Port: 0, MaxAllowedConnection: in.Cap}
	b := newBroker(spec, newStorage(nil), nil, func(s, ss string) ([]string, error) { return nil, nil })
	if b == nil {
		return map[string]string{"error": "no-broker"}
	}
	r := &c17mRun{b: b, live: map[int][]net.Conn{}}
	r.addr = "127.0.0.1:" + c17mPort(b.listener.Addr())
	var maxSeen int64
	stop := make(chan struct{})
	var swg sync.WaitGroup
	swg.Add(1)
	go func() {
		defer swg.Done()
		for {
			select {
			case <-stop:
				return
			default:
			}
			b.Lock()
			n := int64(len(b.clients))
			b.Unlock()
			if n > atomic.LoadInt64(&maxSeen) {
				atomic.StoreInt64(&maxSeen, n)
			}
			time.Sleep(20 * time.Microsecond)
		}
	}()
	obs := c17mObs{Snaps: []c17mSnap{}}
	for _, op := range in.Ops {
		sn := c17mSnap{Codes: []int{}}
		switch op.Op {
		case "connect":
			code, e := r.connect(op.Cid)
			sn.Codes = []int{code}
			sn.Err = e
			// a takeover leaves the superseded socket to the harness: end it now, so that
			// one id = at most one live socket between operations
			r.mu.Lock()
			socks := r.live[op.Cid]
			var old []net.Conn
			if len(socks) > 1 {
				old = socks[:len(socks)-1]
				r.live[op.Cid] = socks[len(socks)-1:]
			}
			r.mu.Unlock()
			sn.Err += r.endSocks(old)
		case "drop":
			r.mu.Lock()
			socks := r.live[op.Cid]
			delete(r.live, op.Cid)
			r.mu.Unlock()
			if len(socks) == 0 {
				sn.Skipped = true
			}
			sn.Err += r.endSocks(socks)
		case "burst":
			var wg sync.WaitGroup
			codes := make([]int, len(op.Cids))
			errs := make([]string, len(op.Cids))
			for i, cid := range op.Cids {
				wg.Add(1)
				go func(i, cid int) {
					defer wg.Done()
					codes[i], errs[i] = r.connect(cid)
				}(i, cid)
			}
			wg.Wait()
			sn.Codes = codes
			for _, e := range errs {
				// a connection superseded within the burst may be closed by the broker
				// before it answers the ping: that is a takeover, not an error
				if e != "ping" {
					sn.Err += e
				}
			}
			// superseded sockets: keep only the one the broker has registered
			for _, cid := range op.Cids {
				r.mu.Lock()
				socks := r.live[cid]
				r.mu.Unlock()
				if len(socks) <= 1 {
					continue
				}
				b.Lock()
				cur := b.clients[c17mCid(cid)]
				b.Unlock()
				keep, end := []net.Conn{}, []net.Conn{}
				for _, s := range socks {
					if cur != nil && cur.conn.RemoteAddr().String() == s.LocalAddr().String() {
						keep = append(keep, s)
					} else {
						end = append(end, s)
					}
				}
				r.mu.Lock()
				r.live[cid] = keep
				r.mu.Unlock()
				sn.Err += r.endSocks(end)
			}
		default:
			sn.Skipped = true
		}
		sn.Clients = r.clients()
		sn.MaxSeen = int(atomic.LoadInt64(&maxSeen))
		obs.Snaps = append(obs.Snaps, sn)
	}
	close(stop)
	swg.Wait()
	r.mu.Lock()
	for _, socks := range r.live {
		for _, s := range socks {
			c17mKill(s)
		}
	}
	r.mu.Unlock()
	b.close()
	return obs
}

func c17mPort(a net.Addr) string {
	s := a.String()
	for i := len(s) - 1; i >= 0; i-- {
		if s[i] == ':' {
			return s[i+1:]
		}
	}
	return s
}

func c17mGen(r *verifh.Rand, i int) interface{} {
	in := c17mInput{Cap: r.PickInt(1, 2, 2, 3, 3, 4, 0)}
	n := r.Range(3, 12)
	ids := in.Cap + 2
	if in.Cap == 0 {
		ids = 4
	}
	for len(in.Ops) < n {
		switch r.Intn(8) {
		case 0, 1, 2:
			in.Ops = append(in.Ops, c17mOp{Op: "connect", Cid: r.Intn(ids)})
		case 3, 4:
			in.Ops = append(in.Ops, c17mOp{Op: "drop", Cid: r.Intn(ids)})
		default:
			k := r.Range(2, 4)
			op := c17mOp{Op: "burst"}
			for j := 0; j < k; j++ {
				op.Cids = append(op.Cids, r.Intn(ids))
			}
			in.Ops = append(in.Ops, op)
		}
	}
	return in
}

func TestVerifC17Mqtt(t *testing.T) {
	verifh.Run(t, c17mGen, c17mExec, 180*time.Second)
}
