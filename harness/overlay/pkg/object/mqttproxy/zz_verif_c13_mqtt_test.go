package mqttproxy

// Correspondence harness for property C13, MQTTProxy object. Injected with `go test -overlay`.
// One case = an MQTTProxy spec tree (port 0 = any free port, topicCacheSize, maxAllowedConnection,
// connectionLimit / clientPublishLimit, rules with packet types incl. unknown / repeated ones and
// rules without `when`) + a short client script. supervisor.NewSpec decides accept / reject; an
// accepted spec is instantiated the way the supervisor does: MQTTProxy.Init (with a mock supervisor
// carrying default options and no cluster, as the package's own TestMQTTProxy does), a TCP client that
// sends CONNECT / SUBSCRIBE / PUBLISH / malformed bytes, Inherit of a second generation, the client
// script again, Close — Init / Inherit / Close under recover with phase + stack frames. Client packets
// are handled on the broker's own goroutines: a panic there kills the test process, which the runner
// reports as a crashed case (obs.panic).

import (
	"bytes"
	"encoding/json"
	"fmt"
	"net"
	"runtime/debug"
	"strings"
	"sync"
	"testing"
	"time"
	_ "unsafe" // go:linkname below

	"github.com/eclipse/paho.mqtt.golang/packets"
	yaml "gopkg.in/yaml.v2"

	"github.com/megaease/easegress/pkg/context"
	"github.com/megaease/easegress/pkg/logger"
	"github.com/megaease/easegress/pkg/option"
	"github.com/megaease/easegress/pkg/supervisor"
	"github.com/megaease/easegress/pkg/util/verifh"
)

// api.RegisterAPIs / UnregisterAPIs (called by MQTTProxy.Init / Close) signal the admin API server
// through a package-level channel of capacity 10; without an API server nobody receives and the 11th
// signal blocks for ever while holding the API mutex. The harness plays the API server's receiver.
//
//go:linkname c13mAPIChanges github.com/megaease/easegress/pkg/api.apisChangeChan
var c13mAPIChanges chan struct{}

func init() {
	go func() {
		for range c13mAPIChanges {
		}
	}()
}

type c13mM = map[string]interface{}

type c13mStep struct {
	Op    string `json:"op"` // connect | subscribe | publish | raw | disconnect
	ID    string `json:"id"`
	Topic string `json:"topic"`
	QoS   int    `json:"qos"`
	Raw   []int  `json:"raw"`
}

type c13mInput struct {
	Spec  c13mM      `json:"spec"`
	Steps []c13mStep `json:"steps"`
}

type c13mCrash struct {
	Phase  string   `json:"phase"`
	Site   string   `json:"site"`
	Msg    string   `json:"msg"`
	Frames []string `json:"frames"`
}

type c13mObs struct {
	Accepted bool       `json:"accepted"`
	Err      string     `json:"err"`
	Crash    *c13mCrash `json:"crash"`
	Replies  []string   `json:"replies"`
}

func c13mTry(phase string, f func()) (c *c13mCrash) {
	defer func() {
		if p := recover(); p != nil {
			msg := fmt.Sprint(p)
			if len(msg) > 160 {
				msg = msg[:160]
			}
			const pre = "github.com/megaease/easegress/pkg/"
			site, frames := "?", []string{}
			for _, ln := range strings.Split(string(debug.Stack()), "\n") {
				if ln == "" || ln[0] == '\t' || strings.HasPrefix(ln, "goroutine ") || strings.HasPrefix(ln, "runtime.") ||
					strings.HasPrefix(ln, "runtime/debug.") || strings.HasPrefix(ln, "panic(") || strings.HasPrefix(ln, "created by") {
					continue
				}
				if strings.Contains(ln, "verifh") || strings.Contains(ln, ".c13m") || strings.Contains(ln, "testing.") {
					continue
				}
				fn := strings.TrimPrefix(ln, pre)
				if i := strings.LastIndexByte(fn, '('); i > 0 {
					fn = fn[:i]
				}
				if site == "?" && strings.HasPrefix(ln, pre) {
					site = fn
				}
				if len(frames) < 30 && (len(frames) == 0 || frames[len(frames)-1] != fn) {
					frames = append(frames, fn)
				}
			}
			c = &c13mCrash{Phase: phase, Site: site, Msg: msg, Frames: frames}
		}
	}()
	f()
	return nil
}

type c13mHandler struct{}

func (h *c13mHandler) Handle(ctx *context.Context) string { return "" }

type c13mMapper struct{}

func (m *c13mMapper) GetHandler(name string) (context.Handler, bool) {
	if name == "nope" {
		return nil, false
	}
	return &c13mHandler{}, true
}

func c13mNum(v interface{}) interface{} {
	switch x := v.(type) {
	case json.Number:
		if i, err := x.Int64(); err == nil {
			return i
		}
		f, _ := x.Float64()
		return f
	case []interface{}:
		out := make([]interface{}, len(x))
		for i, e := range x {
			out[i] = c13mNum(e)
		}
		return out
	case map[string]interface{}:
		out := map[string]interface{}{}
		for k, e := range x {
			out[k] = c13mNum(e)
		}
		return out
	}
	return v
}

// c13mClient plays the script against the broker's listener and records what came back.
func c13mClient(addr string, steps []c13mStep) []string {
	out := []string{}
	var conn net.Conn
	read := func() string {
		if conn == nil {
			return "noconn"
		}
		conn.SetReadDeadline(time.Now().Add(150 * time.Millisecond))
		p, err := packets.ReadPacket(conn)
		if err != nil {
			return "none"
		}
		switch x := p.(type) {
		case *packets.ConnackPacket:
			return fmt.Sprintf("connack:%d", x.ReturnCode)
		case *packets.SubackPacket:
			return "suback"
		case *packets.PubackPacket:
			return "puback"
		case *packets.PublishPacket:
			return "publish"
		}
		return "other"
	}
	for _, st := range steps {
		switch st.Op {
		case "connect":
			if conn != nil {
				conn.Close()
			}
			c, err := net.DialTimeout("tcp", addr, time.Second)
			if err != nil {
				out = append(out, "dial-error")
				conn = nil
				continue
			}
			conn = c
			p := packets.NewControlPacket(packets.Connect).(*packets.ConnectPacket)
			p.ClientIdentifier, p.CleanSession, p.ProtocolName, p.ProtocolVersion, p.Keepalive = st.ID, true, "MQTT", 4, 30
			conn.SetWriteDeadline(time.Now().Add(time.Second))
			p.Write(conn)
			out = append(out, read())
		case "subscribe":
			if conn == nil {
				continue
			}
			p := packets.NewControlPacket(packets.Subscribe).(*packets.SubscribePacket)
			p.MessageID, p.Topics, p.Qoss = 1, []string{st.Topic}, []byte{byte(st.QoS)}
			conn.SetWriteDeadline(time.Now().Add(time.Second))
			p.Write(conn)
			out = append(out, read())
		case "publish":
			if conn == nil {
				continue
			}
			p := packets.NewControlPacket(packets.Publish).(*packets.PublishPacket)
			p.TopicName, p.Qos, p.MessageID, p.Payload = st.Topic, byte(st.QoS), 2, []byte("x")
			conn.SetWriteDeadline(time.Now().Add(time.Second))
			p.Write(conn)
			if st.QoS > 0 {
				out = append(out, read())
			}
		case "raw":
			if conn == nil {
				continue
			}
			b := make([]byte, len(st.Raw))
			for i, v := range st.Raw {
				b[i] = byte(v)
			}
			conn.SetWriteDeadline(time.Now().Add(time.Second))
			conn.Write(b)
			out = append(out, read())
		case "disconnect":
			if conn != nil {
				packets.NewControlPacket(packets.Disconnect).Write(conn)
				conn.Close()
				conn = nil
			}
		}
	}
	if conn != nil {
		conn.Close()
	}
	return out
}

func c13mExec(raw json.RawMessage) interface{} {
	var in c13mInput
	dec := json.NewDecoder(bytes.NewReader(raw))
	dec.UseNumber()
	if err := dec.Decode(&in); err != nil {
		return map[string]string{"error": "bad-input"}
	}
	obs := &c13mObs{Replies: []string{}}
	doc := c13mM{"name": "mq", "kind": "MQTTProxy"}
	for k, v := range in.Spec {
		doc[k] = c13mNum(v)
	}
	buf, err := yaml.Marshal(doc)
	if err != nil {
		obs.Err = "yaml-marshal"
		return obs
	}
	super := supervisor.NewMock(option.New(), nil, sync.Map{}, sync.Map{}, nil, nil, false, nil, nil)
	ss, err := super.NewSpec(string(buf))
	if err != nil {
		obs.Err = err.Error()
		if len(obs.Err) > 200 {
			obs.Err = obs.Err[:200]
		}
		return obs
	}
	obs.Accepted = true
	mapper := &c13mMapper{}
	mp := &MQTTProxy{}
	if c := c13mTry("Init", func() { mp.Init(ss, mapper) }); c != nil {
		obs.Crash = c
		return obs
	}
	obs.Replies = append(obs.Replies, c13mClient(mp.broker.listener.Addr().String(), in.Steps)...)
	ss2, err := super.NewSpec(string(buf))
	if err != nil {
		obs.Err = "second-newspec"
		c13mTry("Close", func() { mp.Close() })
		return obs
	}
	mp2 := &MQTTProxy{}
	if c := c13mTry("Inherit", func() { mp2.Inherit(ss2, mp, mapper) }); c != nil {
		obs.Crash = c
		return obs
	}
	c13mClient(mp2.broker.listener.Addr().String(), in.Steps)
	if c := c13mTry("Close", func() { mp2.Close() }); c != nil {
		obs.Crash = c
	}
	return obs
}

// ---------------------------------------------------------------- generator

var c13mSeedMix = verifh.NewRand(verifh.Env().Seed ^ 0x5DEECE66D).U64()

func c13mGen(r0 *verifh.Rand, i int) interface{} {
	r := verifh.NewRand(r0.U64() ^ c13mSeedMix)
	bad := r.PickInt(6, 10, 20, 40)
	odd := func() bool { return r.Intn(bad) == 0 }
	maybe := func(n int) bool { return r.Intn(n) == 0 }
	spec := c13mM{"port": 0}
	if odd() {
		delete(spec, "port")
	}
	if maybe(3) {
		spec["topicCacheSize"] = r.PickInt(-1, 0, 1, 10, 100000)
	}
	if maybe(3) {
		spec["maxAllowedConnection"] = r.PickInt(-1, 0, 1, 2, 100)
	}
	limit := func() c13mM {
		m := c13mM{}
		if maybe(2) {
			m["requestRate"] = r.PickInt(-1, 0, 1, 100)
		}
		if maybe(2) {
			m["bytesRate"] = r.PickInt(-1, 0, 1, 1000)
		}
		if maybe(2) {
			m["timePeriod"] = r.PickInt(-1, 0, 1, 60)
		}
		return m
	}
	if maybe(3) {
		spec["connectionLimit"] = limit()
	}
	if maybe(3) {
		spec["clientPublishLimit"] = limit()
	}
	if maybe(2) {
		rules := []interface{}{}
		types := []string{"Connect", "Disconnect", "Publish", "Subscribe", "Unsubscribe"}
		for k, n := 0, r.PickInt(0, 1, 1, 2, 3); k < n; k++ {
			rule := c13mM{"pipeline": r.Pick("p1", "p2", "nope", "")}
			t := types[r.Intn(len(types))]
			if odd() {
				t = r.Pick("publish", "Ping", "")
			}
			if !odd() {
				rule["when"] = c13mM{"packetType": t}
			}
			rules = append(rules, rule)
		}
		if odd() && len(rules) > 0 {
			rules = append(rules, rules[0])
		}
		spec["rules"] = rules
	}
	steps := []c13mStep{}
	for k, n := 0, r.PickInt(1, 2, 3, 4); k < n; k++ {
		switch r.Intn(6) {
		case 0, 1:
			steps = append(steps, c13mStep{Op: "connect", ID: r.Pick("c1", "c2", "", "c1")})
		case 2:
			steps = append(steps, c13mStep{Op: "subscribe", Topic: r.Pick("a/b", "a/+", "#", "", "a/#/b", "+"), QoS: r.PickInt(0, 1, 2)})
		case 3:
			steps = append(steps, c13mStep{Op: "publish", Topic: r.Pick("a/b", "a", "", "a/+", "$sys"), QoS: r.PickInt(0, 1)})
		case 4:
			raws := [][]int{{0x10, 0x00}, {0x30, 0xff, 0xff, 0xff, 0xff}, {0x82, 0x02, 0x00, 0x01}, {0xf0, 0x00}, {0x30, 0x02, 0x00, 0x05}, {0x00}}
			steps = append(steps, c13mStep{Op: "raw", Raw: raws[r.Intn(len(raws))]})
		default:
			steps = append(steps, c13mStep{Op: "disconnect"})
		}
	}
	if len(steps) > 0 && steps[0].Op != "connect" && !odd() {
		steps = append([]c13mStep{{Op: "connect", ID: "c0"}}, steps...)
	}
	return c13mInput{Spec: spec, Steps: steps}
}

func TestVerifC13MQTT(t *testing.T) {
	logger.InitNop()
	verifh.Run(t, c13mGen, c13mExec, 20*time.Second)
}
