package mqttproxy

// Correspondence harness for property C14 (topic routing). Injected with
// `go test -overlay`. Histories of SUBSCRIBE / UNSUBSCRIBE packets and disconnects
// are driven through the real packet entry of client.go (Client.processPacket,
// Client.closeAndDelSession) on a socket-less Broker whose TopicManager is a fresh
// newTopicManager(cacheSize); after every operation a batch of
// TopicManager.findSubscribers queries is recorded.

import (
	"encoding/json"
	"fmt"
	"sort"
	"strings"
	"sync"
	"testing"

	"github.com/eclipse/paho.mqtt.golang/packets"
	"github.com/megaease/easegress/pkg/util/verifh"
)

type c14Op struct {
	K string   `json:"k"` // "s" subscribe, "u" unsubscribe, "d" disconnect
	C string   `json:"c"` // client id
	F []string `json:"f,omitempty"`
	Q []int    `json:"q,omitempty"`
}

type c14Input struct {
	Cache  int      `json:"cache"`
	Ops    []c14Op  `json:"ops"`
	Topics []string `json:"topics"`
}

type c14Step struct {
	Ack bool     `json:"ack"`
	Res []string `json:"res"`
}

type c14Obs struct {
	Steps []c14Step `json:"steps"`
}

var (
	c14Once   sync.Once
	c14Broker *Broker
)

// c14GetBroker builds one socket-less broker per process: no listener, no pipelines,
// the package's mock storage. Only its TopicManager is replaced per history.
func c14GetBroker() *Broker {
	c14Once.Do(func() {
		b := &Broker{
			egName:    "verif",
			name:      "verif-c14",
			spec:      &Spec{Name: "verif-c14", EGName: "verif"},
			clients:   make(map[string]*Client),
			pipelines: make(map[PacketType]string),
			done:      make(chan struct{}),
		}
		b.topicMgr = newTopicManager(1)
		b.sessMgr = newSessionManager(b, newStorage(nil))
		b.connectionLimiter = newLimiter(nil)
		c14Broker = b
	})
	return c14Broker
}

func c14Connect(b *Broker, cid string) *Client {
	connect := packets.NewControlPacket(packets.Connect).(*packets.ConnectPacket)
	connect.ClientIdentifier = cid
	connect.CleanSession = true
	c := newClient(connect, b, nil, nil)
	b.Lock()
	b.clients[cid] = c
	b.setSession(c, connect)
	b.Unlock()
	return c
}

// c14Drain empties the client's outbound queue and reports whether a SUBACK / UNSUBACK was queued.
func c14Drain(c *Client) bool {
	ack := false
	for {
		select {
		case p := <-c.writeCh:
			switch p.(type) {
			case *packets.SubackPacket, *packets.UnsubackPacket:
				ack = true
			}
		default:
			return ack
		}
	}
}

func c14Query(mgr *TopicManager, topics []string) []string {
	res := make([]string, 0, len(topics))
	for _, t := range topics {
		m, err := mgr.findSubscribers(t)
		if err != nil {
			res = append(res, "!")
			continue
		}
		xs := make([]string, 0, len(m))
		for c, q := range m {
			xs = append(xs, fmt.Sprintf("%s:%d", c, q))
		}
		sort.Strings(xs)
		res = append(res, strings.Join(xs, ","))
	}
	return res
}

func c14Exec(raw json.RawMessage) interface{} {
	var in c14Input
	if err := json.Unmarshal(raw, &in); err != nil {
		return map[string]string{"error": "bad-input"}
	}
	if in.Cache <= 0 {
		in.Cache = 1
	}
	b := c14GetBroker()
	b.topicMgr = newTopicManager(in.Cache)
	clients := map[string]*Client{}
	defer func() {
		for cid, c := range clients {
			c.closeAndDelSession()
			b.removeClient(cid)
		}
	}()
	get := func(cid string) *Client {
		if c, ok := clients[cid]; ok {
			return c
		}
		c := c14Connect(b, cid)
		clients[cid] = c
		return c
	}
	obs := c14Obs{Steps: make([]c14Step, 0, len(in.Ops))}
	for _, op := range in.Ops {
		st := c14Step{}
		switch op.K {
		case "s":
			c := get(op.C)
			p := packets.NewControlPacket(packets.Subscribe).(*packets.SubscribePacket)
			p.MessageID = 7
			p.Topics = append([]string{}, op.F...)
			p.Qoss = make([]byte, len(op.F))
			for i := range op.F {
				if i < len(op.Q) {
					p.Qoss[i] = byte(op.Q[i])
				}
			}
			c.processPacket(p)
			st.Ack = c14Drain(c)
		case "u":
			c := get(op.C)
			p := packets.NewControlPacket(packets.Unsubscribe).(*packets.UnsubscribePacket)
			p.MessageID = 8
			p.Topics = append([]string{}, op.F...)
			c.processPacket(p)
			st.Ack = c14Drain(c)
		case "d":
			if c, ok := clients[op.C]; ok {
				c.closeAndDelSession()
				b.removeClient(op.C)
				delete(clients, op.C)
			}
		}
		st.Res = c14Query(b.topicMgr, in.Topics)
		obs.Steps = append(obs.Steps, st)
	}
	return obs
}

var c14Levels = []string{"a", "b", "", "+", "#"}

func c14Filter(r *verifh.Rand) string {
	if r.Bool(1, 9) { // malformed stream
		return r.Pick("a#", "#/a", "a+/b", "+a", "a/#/b", "##", "a/b#", "#/", "+/#/+", "a/+b", "#a/b", "b/+#")
	}
	if r.Bool(1, 12) {
		return r.Pick("a/b/a/b/a", "ab", "a b", "é/+", "$SYS/#", "/", "//", "+/+/+/+")
	}
	n := r.Range(1, 4)
	ls := make([]string, 0, n)
	for i := 0; i < n; i++ {
		last := i == n-1
		var l string
		switch x := r.Intn(10); {
		case x < 3:
			l = "a"
		case x < 5:
			l = "b"
		case x < 6:
			l = ""
		case x < 8:
			l = "+"
		default:
			if last {
				l = "#"
			} else {
				l = r.Pick("a", "+")
			}
		}
		ls = append(ls, l)
	}
	return strings.Join(ls, "/")
}

func c14Topic(r *verifh.Rand) string {
	if r.Bool(1, 25) {
		return r.Pick("a/#/b", "a#", "b+/a") // malformed query: error path
	}
	n := r.Range(1, 4)
	ls := make([]string, 0, n)
	for i := 0; i < n; i++ {
		ls = append(ls, r.Pick("a", "a", "b", "b", ""))
	}
	return strings.Join(ls, "/")
}

func c14Gen(r *verifh.Rand, i int) interface{} {
	in := c14Input{Cache: r.PickInt(1, 2, 64)}
	nClients := r.Range(1, 4)
	nOps := r.Range(1, 30)
	if verifh.Env().Thorough() {
		nOps = r.Range(1, 80)
	}
	held := map[string][]string{} // generator's idea of what a client subscribed (bias only)
	for k := 0; k < nOps; k++ {
		c := fmt.Sprintf("c%d", r.Intn(nClients))
		switch x := r.Intn(10); {
		case x < 6:
			n := r.PickInt(1, 1, 1, 2, 2, 3)
			op := c14Op{K: "s", C: c}
			for j := 0; j < n; j++ {
				f := c14Filter(r)
				if len(held[c]) > 0 && r.Bool(1, 6) { // re-subscription, often with another QoS
					f = held[c][r.Intn(len(held[c]))]
				}
				op.F = append(op.F, f)
				op.Q = append(op.Q, r.PickInt(0, 0, 1, 1, 2))
				held[c] = append(held[c], f)
			}
			in.Ops = append(in.Ops, op)
		case x < 9:
			n := r.PickInt(1, 1, 2, 3)
			op := c14Op{K: "u", C: c}
			for j := 0; j < n; j++ {
				if len(held[c]) > 0 && r.Bool(3, 4) {
					op.F = append(op.F, held[c][r.Intn(len(held[c]))])
				} else {
					op.F = append(op.F, c14Filter(r)) // never subscribed / malformed
				}
			}
			in.Ops = append(in.Ops, op)
		default:
			in.Ops = append(in.Ops, c14Op{K: "d", C: c})
			held[c] = nil
		}
	}
	seen := map[string]bool{}
	for len(in.Topics) < 20 {
		t := c14Topic(r)
		if seen[t] && r.Bool(3, 4) {
			continue
		}
		seen[t] = true
		in.Topics = append(in.Topics, t)
	}
	return in
}

func TestVerifC14(t *testing.T) {
	verifh.Run(t, c14Gen, c14Exec, 0)
}
