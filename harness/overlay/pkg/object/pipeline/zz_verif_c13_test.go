package pipeline

// Correspondence harness for property C13 (configs accepted by validation
// instantiate and serve requests without panicking). Injected with
// `go test -overlay`; nothing is written to /repo.
//
// One case = one Pipeline spec (filters of the first-wave kinds, optional flow,
// optional resilience section) + a list of HTTP requests. The spec is shipped as
// a JSON tree that is *exactly* the YAML document handed to the validation the
// admin API applies (supervisor.NewSpec -> pipeline.Spec.Validate ->
// filters.NewSpec / resilience.NewPolicy); the Lean judge evaluates its `valid`
// and `initOK` predicates on the same tree. For accepted specs the harness does
// what the runtime does: Pipeline.Init (Create + Init + InjectResiliencePolicy
// per filter), Handle for every request, then Pipeline.Inherit of a second
// generation and Handle again — each phase under recover.

import (
	"bytes"
	"compress/gzip"
	stdctx "context"
	"encoding/base64"
	"encoding/json"
	"fmt"
	"io"
	"net/http"
	"net/url"
	"regexp"
	"runtime/debug"
	"strings"
	"testing"
	"text/template"
	"time"

	sprig "github.com/go-task/slim-sprig"
	yaml "gopkg.in/yaml.v2"

	"github.com/megaease/easegress/pkg/context"
	_ "github.com/megaease/easegress/pkg/filters/builder"
	_ "github.com/megaease/easegress/pkg/filters/corsadaptor"
	_ "github.com/megaease/easegress/pkg/filters/fallback"
	_ "github.com/megaease/easegress/pkg/filters/mock"
	_ "github.com/megaease/easegress/pkg/filters/proxy"
	_ "github.com/megaease/easegress/pkg/filters/ratelimiter"
	_ "github.com/megaease/easegress/pkg/filters/requestadaptor"
	_ "github.com/megaease/easegress/pkg/filters/responseadaptor"
	_ "github.com/megaease/easegress/pkg/filters/validator"
	"github.com/megaease/easegress/pkg/logger"
	"github.com/megaease/easegress/pkg/protocols/httpprot"
	"github.com/megaease/easegress/pkg/supervisor"
	"github.com/megaease/easegress/pkg/tracing"
	"github.com/megaease/easegress/pkg/util/verifh"
)

func init() { logger.InitNop() }

type c13M = map[string]interface{}

type c13Req struct {
	Method  string      `json:"method"`
	Path    string      `json:"path"`
	Host    string      `json:"host"`
	Headers [][2]string `json:"headers"`
	Body    int         `json:"body"`
	Stream  bool        `json:"stream"`
	Gzip    bool        `json:"gzip"`
	// Pause: milliseconds to wait before this request (≤ 30), so that request SEQUENCES can walk the
	// state machines of the resilience policies (circuit breaker Open → HalfOpen after
	// waitDurationInOpenState, rate limiter cycles).
	Pause int `json:"pause,omitempty"`
	// Deadline: the request context's deadline in milliseconds (default 25), so that a context can end
	// DURING a retry back-off wait (retry waitDuration 5–10 ms, deadline 1–3 ms).
	Deadline int `json:"deadline,omitempty"`
}

type c13Input struct {
	Spec c13M     `json:"spec"`
	Reqs []c13Req `json:"reqs"`
}

type c13Crash struct {
	Phase string `json:"phase"` // Init | Inject | Handle | Inherit | Handle2
	Site  string `json:"site"`  // first easegress frame below the panic
	Msg   string `json:"msg"`
	Req   int    `json:"req"`
	// Frames: the function names on the stack at recover time, innermost first (easegress
	// prefix trimmed, runtime.* dropped). A panic raised in a deferred function while another
	// panic unwinds hides the first one's value; its frames are still on the stack.
	Frames []string `json:"frames"`
}

type c13Str struct {
	Re   bool  `json:"re"`   // regexp.Compile ok
	Dur  bool  `json:"dur"`  // time.ParseDuration ok
	Ns   int64 `json:"ns"`   // parsed duration
	URL  bool  `json:"url"`  // url.Parse ok
	B64  bool  `json:"b64"`  // base64.StdEncoding ok
	Tmpl bool  `json:"tmpl"` // only for keys "tmpl|l|r|text": text/template parses
}

type c13Obs struct {
	Accepted bool              `json:"accepted"`
	Err      string            `json:"err"`
	Crash    *c13Crash         `json:"crash"`
	Results  []string          `json:"results"`
	Oracle   map[string]c13Str `json:"oracle"`
}

// ---------------------------------------------------------------- oracles

var c13ExtraFuncNames = []string{"addf", "subf", "mulf", "divf", "log", "mergeObject", "jsonEscape"}

func c13TmplOK(l, r, text string) (ok bool) {
	defer func() {
		if recover() != nil {
			ok = false
		}
	}()
	fm := template.FuncMap{}
	for _, n := range c13ExtraFuncNames {
		fm[n] = func(a ...interface{}) string { return "" }
	}
	_, err := template.New("").Delims(l, r).Funcs(sprig.TxtFuncMap()).Funcs(fm).Parse(text)
	return err == nil
}

func c13Oracle(s string) c13Str {
	o := c13Str{}
	_, err := regexp.Compile(s)
	o.Re = err == nil
	d, err := time.ParseDuration(s)
	o.Dur = err == nil
	o.Ns = int64(d)
	_, err = url.Parse(s)
	o.URL = err == nil
	_, err = base64.StdEncoding.DecodeString(s)
	o.B64 = err == nil
	return o
}

func c13Walk(v interface{}, out map[string]c13Str) {
	switch x := v.(type) {
	case string:
		if _, ok := out[x]; !ok && len(out) < 400 {
			out[x] = c13Oracle(x)
		}
	case []interface{}:
		for _, e := range x {
			c13Walk(e, out)
		}
	case map[string]interface{}:
		for _, e := range x {
			c13Walk(e, out)
		}
		if k, _ := x["kind"].(string); k == "RequestBuilder" || k == "ResponseBuilder" {
			l, _ := x["leftDelim"].(string)
			r, _ := x["rightDelim"].(string)
			t, _ := x["template"].(string)
			out["tmpl|"+l+"|"+r+"|"+t] = c13Str{Tmpl: c13TmplOK(l, r, t)}
		}
	}
}

// ---------------------------------------------------------------- exec

func c13Site(stack string) string {
	const pre = "github.com/megaease/easegress/pkg/"
	lines := strings.Split(stack, "\n")
	// A panic raised in a deferred function while another panic unwinds is on top of the stack; the
	// root cause is the frame below the LAST (= chronologically first) panic entry.
	root := 0
	for i, ln := range lines {
		if strings.HasPrefix(ln, "panic(") || strings.HasPrefix(ln, "runtime.goPanic") || strings.HasPrefix(ln, "runtime.panic") || strings.HasPrefix(ln, "runtime.sigpanic") {
			root = i
		}
	}
	for _, ln := range lines[root:] {
		if !strings.HasPrefix(ln, pre) {
			continue
		}
		if strings.Contains(ln, "verifh") || strings.Contains(ln, ".c13") || strings.Contains(ln, "pipeline.TestVerif") {
			continue
		}
		f := strings.TrimPrefix(ln, pre)
		if i := strings.LastIndexByte(f, '('); i > 0 {
			f = f[:i]
		}
		return f
	}
	return "?"
}

func c13Frames(stack string) []string {
	const pre = "github.com/megaease/easegress/pkg/"
	out := []string{}
	for _, ln := range strings.Split(stack, "\n") {
		if ln == "" || ln[0] == '\t' || strings.HasPrefix(ln, "goroutine ") || strings.HasPrefix(ln, "runtime.") ||
			strings.HasPrefix(ln, "runtime/debug.") || strings.HasPrefix(ln, "panic(") || strings.HasPrefix(ln, "created by") {
			continue
		}
		if strings.Contains(ln, "verifh") || strings.Contains(ln, ".c13") || strings.Contains(ln, "testing.") {
			continue
		}
		f := strings.TrimPrefix(ln, pre)
		if i := strings.LastIndexByte(f, '('); i > 0 {
			f = f[:i]
		}
		if len(out) > 0 && out[len(out)-1] == f {
			continue
		}
		out = append(out, f)
		if len(out) >= 30 {
			break
		}
	}
	return out
}

func c13Try(phase string, req int, f func()) (c *c13Crash) {
	defer func() {
		if p := recover(); p != nil {
			st := string(debug.Stack())
			msg := fmt.Sprint(p)
			if len(msg) > 160 {
				msg = msg[:160]
			}
			if phase == "Init" && strings.Contains(st, "InjectResiliencePolicy") {
				phase = "Inject"
			}
			if phase == "Inherit" && strings.Contains(st, "InjectResiliencePolicy") {
				phase = "Inject"
			}
			c = &c13Crash{Phase: phase, Site: c13Site(st), Msg: msg, Req: req, Frames: c13Frames(st)}
		}
	}()
	f()
	return nil
}

func c13Body(n int, gz bool) []byte {
	b := bytes.Repeat([]byte("x"), n)
	if gz {
		var buf bytes.Buffer
		w := gzip.NewWriter(&buf)
		w.Write(b)
		w.Close()
		return buf.Bytes()
	}
	return b
}

func c13Handle(p *Pipeline, rq c13Req) string {
	return c13HandleWith(rq, func(ctx *context.Context) string { return p.Handle(ctx) })
}

// c13HandleWith builds the request and its context and lets `run` serve it (Pipeline.Handle here,
// GlobalFilter.Handle around a pipeline in the objects harness).
func c13HandleWith(rq c13Req, run func(ctx *context.Context) string) string {
	if rq.Pause > 0 {
		ms := rq.Pause
		if ms > 30 {
			ms = 30
		}
		time.Sleep(time.Duration(ms) * time.Millisecond)
	}
	method := rq.Method
	if method == "" {
		method = "GET"
	}
	path := rq.Path
	if !strings.HasPrefix(path, "/") {
		path = "/" + path
	}
	body := c13Body(rq.Body, rq.Gzip)
	u := &url.URL{Scheme: "http", Host: "h.test", Path: path}
	dl := 25 * time.Millisecond
	if rq.Deadline > 0 && rq.Deadline < 25 {
		dl = time.Duration(rq.Deadline) * time.Millisecond
	}
	tctx, cancel := stdctx.WithTimeout(stdctx.Background(), dl)
	defer cancel()
	stdr := (&http.Request{Method: method, URL: u, Proto: "HTTP/1.1", ProtoMajor: 1, ProtoMinor: 1,
		Header: http.Header{}, Host: "h.test", RemoteAddr: "127.0.0.1:5555", RequestURI: path}).WithContext(tctx)
	if rq.Host != "" {
		stdr.Host = rq.Host
	}
	for _, kv := range rq.Headers {
		stdr.Header.Add(kv[0], kv[1])
	}
	if rq.Gzip {
		stdr.Header.Set("Content-Encoding", "gzip")
	}
	stdr.Body = io.NopCloser(bytes.NewReader(body))
	stdr.ContentLength = int64(len(body))
	req, _ := httpprot.NewRequest(stdr)
	max := int64(0)
	if rq.Stream {
		max = -1
	}
	if err := req.FetchPayload(max); err != nil {
		return "fetch-error"
	}
	ctx := context.New(tracing.NoopSpan)
	ctx.SetRequest(context.DefaultNamespace, req)
	defer ctx.Finish()
	res := run(ctx)
	// what the HTTP server does with the response afterwards
	if v := ctx.GetResponse(context.DefaultNamespace); v != nil {
		if r, ok := v.(*httpprot.Response); ok {
			io.Copy(io.Discard, r.GetPayload())
		}
	}
	return res
}

func c13Exec(raw json.RawMessage) interface{} {
	var in c13Input
	dec := json.NewDecoder(bytes.NewReader(raw))
	dec.UseNumber()
	if err := dec.Decode(&in); err != nil {
		return map[string]string{"error": "bad-input"}
	}
	obs := &c13Obs{Oracle: map[string]c13Str{}, Results: []string{}}
	c13Walk(map[string]interface{}(in.Spec), obs.Oracle)

	doc := c13M{"name": "p", "kind": "Pipeline"}
	for k, v := range in.Spec {
		doc[k] = c13Num(v)
	}
	buf, err := yaml.Marshal(doc)
	if err != nil {
		obs.Err = "yaml-marshal"
		return obs
	}
	ss, err := supervisor.NewSpec(string(buf))
	if err != nil {
		obs.Err = c13Short(err.Error())
		return obs
	}
	obs.Accepted = true

	p := &Pipeline{}
	if c := c13Try("Init", -1, func() { p.Init(ss, nil) }); c != nil {
		obs.Crash = c
		return obs
	}
	if c13MirrorIllTyped(in.Spec) {
		// Proxy.Handle runs the mirror pool in its own goroutine, where a panic cannot be
		// recovered; never generated (nulls are not injected below mirrorPool), replay only.
		obs.Err = "handle-skipped: mirrorPool is not an object"
		c13Try("Close", -1, func() { p.Close() })
		return obs
	}
	for i, rq := range in.Reqs {
		var res string
		if c := c13Try("Handle", i, func() { res = c13Handle(p, rq) }); c != nil {
			obs.Crash = c
			c13Try("Close", -1, func() { p.Close() })
			return obs
		}
		obs.Results = append(obs.Results, res)
	}
	// second generation inherits the first one (hot update path)
	ss2, err := supervisor.NewSpec(string(buf))
	if err != nil {
		obs.Err = "second-newspec"
		return obs
	}
	p2 := &Pipeline{}
	if c := c13Try("Inherit", -1, func() { p2.Inherit(ss2, p, nil) }); c != nil {
		obs.Crash = c
		return obs
	}
	for i, rq := range in.Reqs {
		if c := c13Try("Handle2", i, func() { c13Handle(p2, rq) }); c != nil {
			obs.Crash = c
			break
		}
	}
	c13Try("Close", -1, func() { p2.Close() })
	return obs
}

func c13MirrorIllTyped(spec c13M) bool {
	fs, _ := spec["filters"].([]interface{})
	for _, f := range fs {
		fm, _ := f.(map[string]interface{})
		mp, present := fm["mirrorPool"]
		if !present {
			continue
		}
		mm, ok := mp.(map[string]interface{})
		if !ok {
			return true
		}
		if svs, ok := mm["servers"].([]interface{}); ok {
			for _, sv := range svs {
				if _, ok := sv.(map[string]interface{}); !ok {
					return true
				}
			}
		}
	}
	return false
}

// c13Num turns json.Number leaves into int64 / float64 so that yaml.Marshal
// writes plain numbers.
func c13Num(v interface{}) interface{} {
	switch x := v.(type) {
	case json.Number:
		if i, err := x.Int64(); err == nil {
			return i
		}
		f, _ := x.Float64()
		return f
	case []interface{}:
		o := make([]interface{}, len(x))
		for i, e := range x {
			o[i] = c13Num(e)
		}
		return o
	case map[string]interface{}:
		o := make(map[string]interface{}, len(x))
		for k, e := range x {
			o[k] = c13Num(e)
		}
		return o
	}
	return v
}

func c13Short(s string) string {
	s = strings.Join(strings.Fields(s), " ")
	if len(s) > 240 {
		s = s[:240]
	}
	return s
}

// ---------------------------------------------------------------- generator

type c13G struct {
	r     *verifh.Rand
	bad   int      // 1/bad = probability of an invalid choice at each decision point
	pols  []string // resilience policy names defined in this pipeline (with kinds)
	kinds []string
}

func (g *c13G) odd() bool         { return g.r.Intn(g.bad) == 0 }
func (g *c13G) maybe(n int) bool  { return g.r.Intn(n) == 0 }
func (g *c13G) pick(xs ...string) string { return xs[g.r.Intn(len(xs))] }

func (g *c13G) dur() string {
	if g.odd() {
		return g.pick("0s", "0", "-1s", "abc", "1", "0.1ns", "2000000h", "-0s")
	}
	return g.pick("1ms", "10ms", "5ms", "2ms", "100ms", "20ms", "3ms") // short: a replaced request loses the case deadline
}

func (g *c13G) re() string {
	if g.odd() {
		return g.pick("(", "[a-", "a**", "\\")
	}
	return g.pick("^/a", ".*", "^/[ab]+$", "b$", "x")
}

func (g *c13G) method() string {
	if g.odd() {
		return g.pick("bGET", "get", "", "FETCH")
	}
	return g.pick("GET", "POST", "PUT", "HEAD", "DELETE", "OPTIONS", "PATCH", "CONNECT", "TRACE")
}

func (g *c13G) methods() []interface{} {
	n := g.r.Intn(3)
	out := []interface{}{}
	for i := 0; i < n; i++ {
		out = append(out, g.method())
	}
	if g.odd() && len(out) > 0 {
		out = append(out, out[0]) // duplicate: uniqueItems
	}
	return out
}

func (g *c13G) code() int {
	if g.odd() {
		return g.r.PickInt(0, 99, 600, -1, 1000)
	}
	return g.r.PickInt(100, 200, 404, 500, 503, 599)
}

func (g *c13G) strMap() c13M {
	m := c13M{}
	for i, n := 0, g.r.Intn(3); i < n; i++ {
		m[g.pick("X-A", "X-B", "Content-Encoding", "Content-Length", "")] = g.pick("", "1", "gzip", "v")
	}
	return m
}

func (g *c13G) strList(xs ...string) []interface{} {
	out := []interface{}{}
	for i, n := 0, g.r.Intn(3); i < n; i++ {
		out = append(out, g.pick(xs...))
	}
	return out
}

func (g *c13G) path(bad ...string) string {
	if g.odd() {
		return g.pick(append(bad, "a", "b/")...)
	}
	return g.pick("/a", "/ab", "/b", "/")
}

// stringMatch: {exact, prefix, regex, empty}
func (g *c13G) stringMatch() c13M {
	m := c13M{}
	switch g.r.Intn(6) {
	case 0:
		m["exact"] = g.pick("/a", "/ab", "v", "1")
	case 1:
		m["prefix"] = g.pick("/a", "/", "v")
	case 2:
		m["regex"] = g.re()
	case 3:
		m["empty"] = true
		if g.odd() {
			m["exact"] = "/a"
		}
	case 4:
		m["exact"] = "/a"
		m["regex"] = g.re()
	default:
		if !g.odd() {
			m["prefix"] = "/"
		}
	}
	return m
}

func (g *c13G) headerAdapt() c13M {
	m := c13M{}
	if g.maybe(2) {
		d := g.strList("X-A", "X-B", "Host")
		if g.odd() && len(d) > 0 {
			d = append(d, d[0])
		}
		m["del"] = d
	}
	if g.maybe(2) {
		m["set"] = g.strMap()
	}
	if g.maybe(2) {
		m["add"] = g.strMap()
	}
	return m
}

func (g *c13G) compressPair(m c13M) {
	if g.maybe(3) {
		if g.odd() {
			m["compress"] = g.pick("zip", "GZIP", "deflate", "gzip ")
		} else {
			m["compress"] = g.pick("gzip", "")
		}
	}
	if g.maybe(3) {
		if g.odd() {
			m["decompress"] = g.pick("zip", "Gzip", "br")
		} else {
			m["decompress"] = g.pick("gzip", "")
		}
	}
	if g.maybe(3) {
		m["body"] = g.pick("", "hello", "{}")
	}
}

func (g *c13G) requestAdaptor() c13M {
	m := c13M{}
	if g.maybe(3) {
		m["host"] = g.pick("", "h2.test", "a b")
	}
	if g.maybe(3) {
		m["method"] = g.method()
	}
	if g.maybe(2) {
		p := c13M{}
		switch g.r.Intn(5) {
		case 0:
			p["replace"] = g.pick("/r", "r", "")
		case 1:
			p["addPrefix"] = g.path("")
		case 2:
			p["trimPrefix"] = g.path("")
		case 3:
			rr := c13M{"regexp": g.re(), "replace": g.pick("/x", "$1", "")}
			if g.odd() {
				delete(rr, "regexp")
			}
			p["regexpReplace"] = rr
		}
		m["path"] = p
	}
	if g.maybe(2) {
		m["header"] = g.headerAdapt()
	}
	g.compressPair(m)
	return m
}

func (g *c13G) responseAdaptor() c13M {
	m := c13M{}
	if g.maybe(2) {
		m["header"] = g.headerAdapt()
	}
	g.compressPair(m)
	return m
}

func (g *c13G) rateLimiter() c13M {
	names := []string{"p1", "p2", "", "pX"}
	pols := []interface{}{}
	for i, n := 0, g.r.Intn(3); i < n; i++ {
		p := c13M{"name": names[i]}
		if g.odd() {
			p["name"] = g.pick("", "p1")
		}
		if g.maybe(2) {
			p["timeoutDuration"] = g.dur()
		}
		if g.maybe(2) {
			p["limitRefreshPeriod"] = g.dur()
		}
		if g.maybe(2) {
			if g.odd() {
				p["limitForPeriod"] = g.r.PickInt(0, -1)
			} else {
				p["limitForPeriod"] = g.r.PickInt(1, 2, 50, 1000000)
			}
		}
		pols = append(pols, p)
	}
	m := c13M{"policies": pols}
	if g.maybe(2) {
		m["defaultPolicyRef"] = g.pick("p1", "p2", "pX")
	}
	urls := []interface{}{}
	for i, n := 0, g.r.Intn(3); i < n; i++ {
		u := c13M{"url": g.stringMatch()}
		if g.maybe(2) {
			u["methods"] = g.methods()
		}
		if g.maybe(2) {
			u["policyRef"] = g.pick("p1", "p2", "pX", "")
		}
		if g.odd() {
			delete(u, "url")
		}
		urls = append(urls, u)
	}
	m["urls"] = urls
	if g.odd() {
		delete(m, g.pick("policies", "urls"))
	}
	return m
}

func (g *c13G) validatorF() c13M {
	m := c13M{}
	if g.maybe(3) {
		h := c13M{}
		for i, n := 0, g.r.Intn(3); i < n; i++ {
			vv := c13M{}
			if g.maybe(2) {
				vv["values"] = g.strList("1", "v", "")
			}
			if g.maybe(2) {
				vv["regexp"] = g.re()
			}
			h[g.pick("X-A", "X-B")] = vv
		}
		m["headers"] = h
	}
	if g.maybe(3) {
		j := c13M{"algorithm": g.pick("HS256", "HS384", "HS512"), "secret": g.pick("6d79736563726574", "AB", "0")}
		if g.odd() {
			j["algorithm"] = g.pick("", "RS256", "hs256")
		}
		if g.odd() {
			j["secret"] = g.pick("", "xyz", "6g")
		}
		if g.odd() {
			delete(j, g.pick("algorithm", "secret"))
		}
		if g.maybe(3) {
			j["cookieName"] = "tok"
		}
		m["jwt"] = j
	}
	if g.maybe(2) {
		s := c13M{}
		if g.maybe(2) {
			ak := c13M{}
			for i, n := 0, g.r.Intn(3); i < n; i++ {
				ak[g.pick("id1", "id2")] = g.pick("sec", "")
			}
			s["accessKeys"] = ak
		}
		if g.maybe(3) {
			s["ttl"] = g.dur()
		}
		if g.maybe(3) {
			s["accessKeyId"] = "id1"
			s["accessKeySecret"] = "sec"
		}
		if g.maybe(3) {
			s["excludeBody"] = true
		}
		if g.maybe(3) {
			ih := g.strList("X-A", "X-B")
			if g.odd() && len(ih) > 0 {
				ih = append(ih, ih[0])
			}
			s["ignoredHeaders"] = ih
		}
		m["signature"] = s
	}
	return m
}

func (g *c13G) mockF() c13M {
	rules := []interface{}{}
	for i, n := 0, g.r.Intn(3); i < n; i++ {
		mt := c13M{}
		if g.maybe(2) {
			mt["path"] = g.path("")
		}
		if g.maybe(3) {
			mt["pathPrefix"] = g.path("")
		}
		if g.maybe(3) {
			h := c13M{}
			for j, k := 0, g.r.Intn(3); j < k; j++ {
				h[g.pick("X-A", "X-B")] = g.stringMatch()
			}
			mt["headers"] = h
		}
		if g.maybe(3) {
			mt["matchAllHeaders"] = true
		}
		r := c13M{"match": mt, "code": g.code()}
		if g.maybe(3) {
			r["headers"] = g.strMap()
		}
		if g.maybe(3) {
			r["body"] = "mocked"
		}
		if g.maybe(3) {
			r["delay"] = g.dur()
		}
		if g.odd() {
			delete(r, g.pick("match", "code"))
		}
		rules = append(rules, r)
	}
	m := c13M{"rules": rules}
	if g.odd() {
		delete(m, "rules")
	}
	return m
}

func (g *c13G) fallbackF() c13M {
	m := c13M{"mockCode": g.code()}
	if g.maybe(2) {
		m["mockHeaders"] = g.strMap()
	}
	if g.maybe(2) {
		m["mockBody"] = g.pick("", "fb")
	}
	if g.odd() {
		delete(m, "mockCode")
	}
	return m
}

func (g *c13G) corsF() c13M {
	m := c13M{}
	if g.maybe(2) {
		m["allowedOrigins"] = g.strList("*", "http://a.test", "http://*.test", "*a*b", "")
	}
	if g.maybe(2) {
		m["allowedMethods"] = g.methods()
	}
	if g.maybe(2) {
		m["allowedHeaders"] = g.strList("*", "X-A", "")
	}
	if g.maybe(3) {
		m["allowCredentials"] = true
	}
	if g.maybe(3) {
		m["exposedHeaders"] = g.strList("X-A", "")
	}
	if g.maybe(3) {
		m["maxAge"] = g.r.PickInt(0, 1, -1, 86400)
	}
	if g.maybe(2) {
		m["supportCORSRequest"] = true
	}
	return m
}

func (g *c13G) builderF() c13M {
	m := c13M{}
	switch g.r.Intn(8) {
	case 0:
		m["sourceNamespace"] = g.pick("DEFAULT", "ns1", "nope")
	case 1: // neither
	case 2:
		m["sourceNamespace"] = "ns1"
		m["template"] = "method: GET"
	default:
		if g.odd() {
			m["template"] = g.pick("{{", "{{ .x", "{{ nofunc 1 }}", "{{ end }}", "{{ if }}")
		} else {
			m["template"] = g.pick("method: GET\nurl: http://127.0.0.1:1/x\n", "statusCode: 200\nbody: ok\n",
				"method: {{ .requests.DEFAULT.Method }}\nurl: /{{ divf 1 0 }}", "x: {{ addf 1 2 }}", "[[", "url: [[ .data.x ]]",
				"body: {{ .responses.nope.Body }}", "statusCode: {{ mulf \"a\" 2 }}")
		}
	}
	if g.maybe(4) {
		m["leftDelim"] = g.pick("[[", "{{", "")
		m["rightDelim"] = g.pick("]]", "}}", "")
	}
	if g.maybe(3) {
		if g.odd() {
			m["protocol"] = g.pick("", "ftp", "HTTPS")
		} else {
			m["protocol"] = g.pick("http", "HTTP", "mqtt")
		}
	}
	return m
}

func (g *c13G) server() c13M {
	s := c13M{"url": g.pick("http://127.0.0.1:1", "http://127.0.0.1:1/base", "http://[::1]:1", "http://localhost:1", "127.0.0.1:1")}
	if g.odd() {
		s["url"] = g.pick("", "http://a b", "%zz", "http://[::1", ":")
	}
	if g.odd() {
		delete(s, "url")
	}
	if g.maybe(4) {
		s["tags"] = g.strList("t1", "t2")
	}
	if g.maybe(4) {
		s["keepHost"] = true
	}
	return s
}

func (g *c13G) matcher() c13M {
	f := c13M{}
	pol := g.pick("", "general", "ipHash", "headerHash", "random")
	if g.odd() {
		pol = g.pick("General", "hash")
	}
	if g.maybe(2) || pol != "" {
		f["policy"] = pol
	}
	if pol == "" || pol == "general" || g.maybe(4) {
		if !g.odd() {
			h := c13M{}
			for i, n := 0, 1+g.r.Intn(2); i < n; i++ {
				h[g.pick("X-A", "X-B")] = g.stringMatch()
			}
			f["headers"] = h
		}
		if g.maybe(3) {
			urls := []interface{}{}
			for i, n := 0, g.r.Intn(3); i < n; i++ {
				u := c13M{"url": g.stringMatch()}
				if g.maybe(2) {
					u["methods"] = g.methods()
				}
				if g.odd() {
					delete(u, "url")
				}
				urls = append(urls, u)
			}
			f["urls"] = urls
		}
		if g.maybe(3) {
			f["matchAllHeaders"] = true
		}
	}
	if (pol != "" && pol != "general") || g.maybe(5) {
		if g.odd() {
			f["permil"] = g.r.PickInt(0, 1001, -1)
		} else {
			f["permil"] = g.r.PickInt(1, 500, 1000)
		}
	}
	if pol == "headerHash" && !g.maybe(4) {
		f["headerHashKey"] = "X-A"
	}
	return f
}

func (g *c13G) pool(candidate bool) c13M {
	p := c13M{}
	if candidate {
		p["filter"] = g.matcher()
	}
	n := g.r.PickInt(1, 1, 2, 2, 3, 0)
	servers := []interface{}{}
	wmode := g.r.Intn(5) // 0,1: no weights  2: all weighted  3: all zero explicit  4: mixed/odd
	for i := 0; i < n; i++ {
		s := g.server()
		switch wmode {
		case 2:
			s["weight"] = g.r.PickInt(1, 2, 100)
		case 3:
			s["weight"] = 0
		case 4:
			s["weight"] = g.r.PickInt(0, 1, 100, 101, -1)
		}
		servers = append(servers, s)
	}
	if n > 0 || g.maybe(2) {
		p["servers"] = servers
	}
	if n == 0 && !g.odd() {
		p["serviceName"] = "svc"
	}
	if g.maybe(2) {
		lb := c13M{}
		if g.odd() {
			lb["policy"] = g.pick("RoundRobin", "weighted", "leastConn")
		} else {
			lb["policy"] = g.pick("", "roundRobin", "random", "weightedRandom", "weightedRandom", "ipHash", "headerHash")
		}
		if g.maybe(3) {
			lb["headerHashKey"] = "X-A"
		}
		p["loadBalance"] = lb
	}
	if g.maybe(3) {
		p["timeout"] = g.dur()
	}
	if g.maybe(3) {
		p["retryPolicy"] = g.polRef()
	}
	if g.maybe(3) {
		p["circuitBreakerPolicy"] = g.polRef()
	}
	if g.maybe(4) {
		fc := []interface{}{}
		for i, k := 0, g.r.Intn(3); i < k; i++ {
			fc = append(fc, g.code())
		}
		p["failureCodes"] = fc
	}
	if g.maybe(4) {
		mc := c13M{"expiration": g.dur(), "maxEntryBytes": g.r.PickInt(1, 10, 4096), "codes": []interface{}{200, 404}, "methods": []interface{}{"GET", "HEAD"}}
		if g.odd() {
			mc["maxEntryBytes"] = g.r.PickInt(0, -1)
		}
		if g.odd() {
			mc["codes"] = g.pick("e", "d", "b") // replaced below
			switch mc["codes"] {
			case "e":
				mc["codes"] = []interface{}{}
			case "d":
				mc["codes"] = []interface{}{200, 200}
			default:
				mc["codes"] = []interface{}{99}
			}
		}
		if g.odd() {
			mc["methods"] = []interface{}{}
		}
		if g.odd() {
			delete(mc, g.pick("expiration", "maxEntryBytes", "codes", "methods"))
		}
		p["memoryCache"] = mc
	}
	if g.maybe(5) {
		p["serverMaxBodySize"] = g.r.PickInt(-1, 0, 1, 1024)
	}
	if g.maybe(6) {
		p["spanName"] = "sp"
	}
	if g.maybe(6) {
		st := g.strList("t1", "t2")
		if g.odd() && len(st) > 0 {
			st = append(st, st[0])
		}
		p["serverTags"] = st
	}
	return p
}

func (g *c13G) polRef() string {
	if len(g.pols) > 0 && !g.odd() {
		return g.pols[g.r.Intn(len(g.pols))]
	}
	return g.pick("nope", "r", "cb", "")
}

func (g *c13G) proxyF() c13M {
	pools := []interface{}{}
	nMain := 1
	if g.odd() {
		nMain = g.r.PickInt(0, 2)
	}
	nCand := g.r.PickInt(0, 0, 1, 2)
	for i := 0; i < nCand; i++ {
		pools = append(pools, g.pool(true))
	}
	for i := 0; i < nMain; i++ {
		pools = append(pools, g.pool(false))
	}
	m := c13M{"pools": pools}
	if g.maybe(5) {
		mp := g.pool(!g.odd())
		if g.odd() {
			// keep a memoryCache in the mirror pool (must be rejected)
		} else {
			delete(mp, "memoryCache")
		}
		m["mirrorPool"] = mp
	}
	if g.maybe(5) {
		m["compression"] = c13M{"minLength": g.r.PickInt(0, 1, 1024)}
	}
	if g.maybe(6) {
		m["serverMaxBodySize"] = g.r.PickInt(-1, 0, 1, 4096)
	}
	if g.maybe(8) {
		m["maxIdleConns"] = g.r.PickInt(0, 1, -1)
		m["maxIdleConnsPerHost"] = g.r.PickInt(0, 1, -1)
	}
	if g.odd() {
		delete(m, "pools")
	}
	return m
}

func (g *c13G) policy(name string) c13M {
	if g.maybe(2) {
		m := c13M{"name": name, "kind": "Retry"}
		if g.maybe(2) {
			if g.odd() {
				m["maxAttempts"] = g.r.PickInt(0, -1)
			} else {
				m["maxAttempts"] = g.r.PickInt(1, 2, 3)
			}
		}
		if g.maybe(2) {
			m["waitDuration"] = g.dur()
			if g.maybe(6) {
				m["waitDuration"] = "2000000h" // base*factor*2+1 overflows int64
			}
		}
		if g.maybe(2) {
			if g.odd() {
				m["backOffPolicy"] = g.pick("", "linear", "Random")
			} else {
				m["backOffPolicy"] = g.pick("random", "exponential")
			}
		}
		if g.maybe(2) {
			if g.odd() {
				m["randomizationFactor"] = g.pick("a", "b", "c") // replaced below
				switch m["randomizationFactor"] {
				case "a":
					m["randomizationFactor"] = 1.5
				case "b":
					m["randomizationFactor"] = -0.5
				default:
					m["randomizationFactor"] = 2
				}
			} else {
				m["randomizationFactor"] = []interface{}{0, 0.5, 1, 1.0}[g.r.Intn(4)]
			}
		}
		return m
	}
	m := c13M{"name": name, "kind": "CircuitBreaker"}
	if g.maybe(2) {
		if g.odd() {
			m["slidingWindowType"] = g.pick("", "count_based", "TIME")
		} else {
			m["slidingWindowType"] = g.pick("COUNT_BASED", "TIME_BASED")
		}
	}
	for _, k := range []string{"failureRateThreshold", "slowCallRateThreshold"} {
		if g.maybe(2) {
			if g.odd() {
				m[k] = g.r.PickInt(0, 101, 255, 256, -1)
			} else {
				m[k] = g.r.PickInt(1, 50, 100)
			}
		}
	}
	if g.maybe(3) {
		m["countingNetworkError"] = true
	}
	if g.maybe(2) {
		if g.odd() {
			m["slidingWindowSize"] = g.r.PickInt(0, -1)
		} else {
			m["slidingWindowSize"] = g.r.PickInt(1, 2, 10)
		}
	}
	if g.maybe(2) {
		m["permittedNumberOfCallsInHalfOpenState"] = g.r.PickInt(0, 1, 2, 10)
	}
	if g.maybe(2) {
		m["minimumNumberOfCalls"] = g.r.PickInt(0, 1, 2, 10)
	}
	for _, k := range []string{"slowCallDurationThreshold", "maxWaitDurationInHalfOpenState", "waitDurationInOpenState"} {
		if g.maybe(3) {
			m[k] = g.dur()
		}
	}
	return m
}

var c13Kinds = []string{"Proxy", "Proxy", "RequestAdaptor", "ResponseAdaptor", "RateLimiter", "Validator", "Mock", "Fallback", "CORSAdaptor", "RequestBuilder", "ResponseBuilder"}

var c13Results = map[string][]string{
	"Proxy":           {"internalError", "clientError", "serverError", "failureCode", "timeout", "shortCircuited"},
	"RequestAdaptor":  {"decompressFailed", "compressFailed"},
	"ResponseAdaptor": {"responseNotFound", "compressFailed", "decompressFailed"},
	"RateLimiter":     {"rateLimited"},
	"Validator":       {"invalid"},
	"Mock":            {"mocked"},
	"Fallback":        {"fallback", "responseNotFound"},
	"CORSAdaptor":     {"preflighted"},
	"RequestBuilder":  {"buildErr"},
	"ResponseBuilder": {"buildErr"},
}

func (g *c13G) filter(kind, name string) c13M {
	var m c13M
	switch kind {
	case "Proxy":
		m = g.proxyF()
	case "RequestAdaptor":
		m = g.requestAdaptor()
	case "ResponseAdaptor":
		m = g.responseAdaptor()
	case "RateLimiter":
		m = g.rateLimiter()
	case "Validator":
		m = g.validatorF()
	case "Mock":
		m = g.mockF()
	case "Fallback":
		m = g.fallbackF()
	case "CORSAdaptor":
		m = g.corsF()
	default:
		m = g.builderF()
	}
	m["name"] = name
	m["kind"] = kind
	return m
}

// verifh seeds are additive in the generator state (seed s is seed s-1 shifted by one
// case); mix the seed in again so that different seeds give different cases.
var c13SeedMix = verifh.NewRand(verifh.Env().Seed ^ 0x5DEECE66D).U64()

// c13GenWalk: the resilience-walk stream. An accepted pipeline [RateLimiter?] → Proxy whose only backend
// refuses connections (every call fails with a network error), a CircuitBreaker policy at the boundary
// values validation accepts (0 and 1 for every count / size, thresholds 1 and 100, both window types,
// waits of 0s–2ms so that Open → HalfOpen happens inside the case), optionally a Retry policy with tiny
// waits, and a SEQUENCE of 4–8 requests with pauses of 0–6 ms.
func c13GenWalk(g *c13G) c13Input {
	cb := c13M{"name": "cb", "kind": "CircuitBreaker", "countingNetworkError": !g.maybe(6)}
	if g.maybe(2) {
		cb["slidingWindowType"] = g.pick("COUNT_BASED", "TIME_BASED")
	}
	cb["slidingWindowSize"] = g.r.PickInt(1, 1, 2, 3)
	if g.maybe(2) {
		cb["failureRateThreshold"] = g.r.PickInt(1, 50, 100)
	}
	if g.maybe(3) {
		cb["slowCallRateThreshold"] = g.r.PickInt(1, 100)
	}
	if !g.maybe(4) {
		cb["minimumNumberOfCalls"] = g.r.PickInt(0, 0, 1, 1, 2)
	}
	if !g.maybe(4) {
		cb["permittedNumberOfCallsInHalfOpenState"] = g.r.PickInt(0, 1, 1, 2, 3)
	}
	cb["waitDurationInOpenState"] = g.pick("0s", "1ms", "1ms", "2ms", "1ns")
	if g.maybe(2) {
		cb["maxWaitDurationInHalfOpenState"] = g.pick("0s", "1ms", "3ms")
	}
	if g.maybe(3) {
		cb["slowCallDurationThreshold"] = g.pick("1ns", "1ms", "0s")
	}
	res := []interface{}{cb}
	pool := c13M{"servers": []interface{}{c13M{"url": "http://127.0.0.1:1"}}, "circuitBreakerPolicy": "cb"}
	if g.maybe(2) {
		rt := c13M{"name": "r", "kind": "Retry", "maxAttempts": g.r.PickInt(1, 2, 3), "waitDuration": g.pick("1ms", "1ns", "2ms", "5ms", "10ms")}
		if g.maybe(2) {
			rt["backOffPolicy"] = g.pick("random", "exponential")
		}
		if g.maybe(2) {
			rt["randomizationFactor"] = []interface{}{0, 0.5, 1}[g.r.Intn(3)]
		}
		res = append(res, rt)
		pool["retryPolicy"] = "r"
	}
	if g.maybe(3) {
		pool["timeout"] = g.pick("1ms", "5ms")
	}
	fs := []interface{}{}
	if g.maybe(3) {
		pol := c13M{"name": "p", "limitForPeriod": g.r.PickInt(1, 1, 2), "limitRefreshPeriod": g.pick("1ms", "2ms", "1ns"), "timeoutDuration": g.pick("0s", "1ms", "1ns")}
		fs = append(fs, c13M{"name": "rl", "kind": "RateLimiter", "policies": []interface{}{pol}, "defaultPolicyRef": "p",
			"urls": []interface{}{c13M{"url": c13M{"prefix": "/"}, "policyRef": "p"}}})
	}
	fs = append(fs, c13M{"name": "px", "kind": "Proxy", "pools": []interface{}{pool}})
	spec := c13M{"resilience": res, "filters": fs}
	reqs := []c13Req{}
	for k, n := 0, 4+g.r.Intn(5); k < n; k++ {
		rq := c13Req{Method: g.pick("GET", "POST"), Path: g.pick("/a", "/b"), Pause: g.r.PickInt(0, 0, 2, 3, 6)}
		if g.maybe(5) {
			rq.Deadline = g.r.PickInt(1, 2, 3)
		}
		reqs = append(reqs, rq)
	}
	return c13Input{Spec: spec, Reqs: reqs}
}

func c13Gen(r0 *verifh.Rand, i int) interface{} {
	r := verifh.NewRand(r0.U64() ^ c13SeedMix)
	g := &c13G{r: r, bad: r.PickInt(10, 20, 20, 40, 40, 100)}
	if g.maybe(5) {
		return c13GenWalk(g)
	}
	spec := c13M{}
	// resilience first: proxies refer to it
	if g.maybe(2) {
		res := []interface{}{}
		for k, n := 0, g.r.PickInt(0, 1, 2, 3); k < n; k++ {
			name := []string{"r", "cb", "x3"}[k]
			if g.odd() {
				name = g.pick("r", "bad name", "")
			}
			pm := g.policy(name)
			if g.odd() {
				pm["kind"] = g.pick("Bulkhead", "", "retry")
			}
			if g.odd() {
				delete(pm, g.pick("name", "kind"))
			}
			res = append(res, pm)
			g.pols = append(g.pols, name)
		}
		spec["resilience"] = res
	}
	nf := g.r.PickInt(1, 1, 1, 2, 2, 3, 0)
	names := []string{"a", "b", "c"}
	fs := []interface{}{}
	used := []string{}
	for k := 0; k < nf; k++ {
		kind := c13Kinds[g.r.Intn(len(c13Kinds))]
		name := names[k]
		if g.odd() {
			name = g.pick("a", "END", "bad name", "", "~._-")
		}
		f := g.filter(kind, name)
		if g.odd() {
			f["kind"] = g.pick("Nope", "", "proxy")
		}
		if g.odd() {
			delete(f, g.pick("name", "kind"))
		}
		fs = append(fs, f)
		used = append(used, name)
		g.kinds = append(g.kinds, kind)
	}
	spec["filters"] = fs
	if g.odd() {
		delete(spec, "filters")
	}
	if g.maybe(3) && nf > 0 {
		flow := []interface{}{}
		for k, n := 0, g.r.PickInt(1, 2, 3, 4); k < n; k++ {
			idx := g.r.Intn(nf)
			node := c13M{"filter": used[idx]}
			if g.odd() {
				node["filter"] = g.pick("zz", "END", "")
			}
			if g.maybe(3) {
				node["alias"] = g.pick("al1", "al2", "a", "END")
			}
			if g.maybe(6) {
				node["namespace"] = g.pick("ns1", "DEFAULT", "")
			}
			if g.maybe(3) {
				j := c13M{}
				rs := c13Results[g.kinds[idx]]
				for q, qn := 0, 1+g.r.Intn(2); q < qn; q++ {
					res := rs[g.r.Intn(len(rs))]
					if g.odd() {
						res = g.pick("nope", "")
					}
					j[res] = g.pick("END", "b", "c", "al1", "al2", "a", "zz")
				}
				node["jumpIf"] = j
			}
			flow = append(flow, node)
		}
		if g.maybe(4) {
			flow = append(flow, c13M{"filter": "END"})
		}
		spec["flow"] = flow
	}
	// malformed stream: one object inside a list / a headers map replaced by YAML null
	if g.maybe(14) {
		var spots []func()
		c13Spots(spec, &spots)
		if len(spots) > 0 {
			spots[g.r.Intn(len(spots))]()
		}
	}
	// requests
	reqs := []c13Req{}
	for k, n := 0, g.r.PickInt(1, 2, 3); k < n; k++ {
		rq := c13Req{Method: g.pick("GET", "GET", "POST", "HEAD", "OPTIONS", "PUT", "bGET"), Path: g.pick("/a", "/ab", "/b", "/", "/a/../b")}
		if g.maybe(4) {
			rq.Host = g.pick("a.test", "a:80", "")
		}
		for q, qn := 0, g.r.Intn(4); q < qn; q++ {
			rq.Headers = append(rq.Headers, [2]string{
				g.pick("X-A", "X-B", "Origin", "Access-Control-Request-Method", "Authorization", "Cache-Control", "Accept-Encoding", "X-Forwarded-For", "Cookie"),
				g.pick("", "1", "v", "/a", "http://a.test", "GET", "Bearer x.y.z", "Basic Og==", "no-cache", "gzip", "tok=1", "1.2.3.4, ::1",
					"EG1-HMAC-SHA256 Credential=id1/20200101/a/b/eg1_request, SignedHeaders=host;x-a, Signature=00", "EG1-HMAC-SHA256 Credential=, SignedHeaders=, Signature="),
			})
		}
		rq.Body = g.r.PickInt(0, 0, 1, 10, 5000)
		rq.Stream = g.maybe(3)
		rq.Gzip = g.maybe(4) && rq.Body > 0
		reqs = append(reqs, rq)
	}
	return c13Input{Spec: spec, Reqs: reqs}
}

// c13Spots collects setters that null one object-valued list element or map value below "filters".
func c13Spots(v interface{}, out *[]func()) {
	switch x := v.(type) {
	case []interface{}:
		for i, e := range x {
			if _, ok := e.(map[string]interface{}); ok {
				i, x := i, x
				*out = append(*out, func() { x[i] = nil })
			}
			c13Spots(e, out)
		}
	case map[string]interface{}:
		for k, e := range x {
			if k == "resilience" || k == "flow" || k == "mirrorPool" {
				continue
			}
			if _, ok := e.(map[string]interface{}); ok && (k == "X-A" || k == "X-B") {
				k, x := k, x
				*out = append(*out, func() { x[k] = nil })
			}
			c13Spots(e, out)
		}
	}
}

func TestVerifC13(t *testing.T) {
	verifh.Run(t, c13Gen, c13Exec, 20*time.Second)
}
