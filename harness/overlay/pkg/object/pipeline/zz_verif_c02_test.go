package pipeline

// Correspondence harness for property C02 (pipeline flow execution and
// validation). Injected with `go test -overlay`. Enters through the anchored
// functions only: Spec.Validate, Pipeline.Init, Pipeline.Handle and
// Pipeline.HandleWithBeforeAfter. Filter kinds are the test-only scripted
// kinds of package verifc02.

import (
	"encoding/json"
	"testing"

	"github.com/megaease/easegress/pkg/context"
	"github.com/megaease/easegress/pkg/logger"
	"github.com/megaease/easegress/pkg/supervisor"
	"github.com/megaease/easegress/pkg/tracing"
	"github.com/megaease/easegress/pkg/util/verifc02"
	"github.com/megaease/easegress/pkg/util/verifh"
	"gopkg.in/yaml.v2"
)

func c02Spec(p *verifc02.Part) *Spec {
	s := &Spec{Filters: verifc02.FilterMaps(p)}
	for _, n := range p.Flow {
		s.Flow = append(s.Flow, FlowNode{FilterName: n.F, FilterAlias: n.A, Namespace: n.Ns, JumpIf: verifc02.JumpMap(n.J)})
	}
	return s
}

// c02New builds a Pipeline through supervisor.NewSpec (YAML) + Init.
func c02New(name string, p *verifc02.Part) (pl *Pipeline, errc string) {
	buf, err := yaml.Marshal(verifc02.PipelineMap(name, p))
	if err != nil {
		return nil, "yaml"
	}
	ss, err := supervisor.NewSpec(string(buf))
	if err != nil {
		return nil, "newspec"
	}
	pl = &Pipeline{}
	pl.Init(ss, nil)
	return pl, "ok"
}

func c02Exec(raw json.RawMessage) interface{} {
	in, ok := verifc02.Parse(raw)
	if !ok {
		return map[string]string{"error": "bad-input"}
	}
	verifc02.Register(in.Kinds)
	obs := verifc02.Obs{Valid: map[string]string{}, Init: "skipped", Runs: []verifc02.Run{}}
	parts := []struct {
		name string
		p    *verifc02.Part
	}{{"main", in.Main}, {"before", in.Before}, {"after", in.After}}
	allOK := true
	for _, pt := range parts {
		if pt.p == nil || (in.Mode == "handle" && pt.name != "main") {
			continue
		}
		c := verifc02.ErrClass(c02Spec(pt.p).Validate())
		obs.Valid[pt.name] = c
		if c != "ok" {
			allOK = false
		}
	}
	if !allOK {
		return obs
	}
	pls := map[string]*Pipeline{}
	for _, pt := range parts {
		if pt.p == nil || (in.Mode == "handle" && pt.name != "main") {
			continue
		}
		pl, e := c02New("verif-"+pt.name, pt.p)
		if e != "ok" {
			obs.Init = e + ":" + pt.name
			for _, q := range pls {
				q.Close()
			}
			return obs
		}
		pls[pt.name] = pl
	}
	obs.Init = "ok"
	defer func() {
		for _, q := range pls {
			q.Close()
		}
	}()
	for _, script := range in.Scripts {
		verifc02.Reset(script)
		ctx := context.New(tracing.NoopSpan)
		var res string
		if in.Mode == "handle" {
			res = pls["main"].Handle(ctx)
		} else {
			res = pls["main"].HandleWithBeforeAfter(ctx, pls["before"], pls["after"])
		}
		obs.Runs = append(obs.Runs, verifc02.Collect(ctx, res))
	}
	return obs
}

func c02Gen(r *verifh.Rand, i int) interface{} {
	return verifc02.Gen(r, i, []string{"handle", "handle", "hwba", "hwba", "hwba"}, verifh.Env().Thorough())
}

func TestVerifC02(t *testing.T) {
	logger.InitNop()
	verifh.Run(t, c02Gen, c02Exec, 0)
}
