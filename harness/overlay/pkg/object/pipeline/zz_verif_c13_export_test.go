package pipeline

// Exports of the C13 generator / oracle / crash helpers (zz_verif_c13_test.go) for the external test
// package pipeline_test (zz_verif_c13_gf_test.go), which instantiates objects that import this
// package (GlobalFilter) and therefore cannot be driven from an in-package test file.

type (
	C13M     = c13M
	C13Req   = c13Req
	C13Input = c13Input
	C13Crash = c13Crash
	C13Str   = c13Str
)

var (
	C13Gen        = c13Gen
	C13Try        = c13Try
	C13Walk       = c13Walk
	C13Num        = c13Num
	C13Short      = c13Short
	C13HandleWith = c13HandleWith
)
