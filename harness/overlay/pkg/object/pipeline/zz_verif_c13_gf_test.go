package pipeline_test

// Correspondence harness for property C13, GlobalFilter object (external test package: globalfilter
// imports pipeline). One case = a GlobalFilter spec tree {beforePipeline, afterPipeline} (each a Pipeline
// spec produced by the C13 pipeline-spec generator), a small main pipeline and 1-3 HTTP requests.
// supervisor.NewSpec (-> globalfilter.Spec.Validate -> pipeline.Spec.Validate ×2) decides accept /
// reject; accepted specs are instantiated the way the supervisor does: GlobalFilter.Init, Handle(ctx,
// main pipeline) per request, Inherit of a second generation, Handle again, Close — each under recover.

import (
	"bytes"
	"encoding/json"
	"testing"
	"time"

	yaml "gopkg.in/yaml.v2"

	"github.com/megaease/easegress/pkg/context"
	"github.com/megaease/easegress/pkg/object/globalfilter"
	"github.com/megaease/easegress/pkg/object/pipeline"
	"github.com/megaease/easegress/pkg/supervisor"
	"github.com/megaease/easegress/pkg/util/verifh"
)

type c13gfInput struct {
	GF   pipeline.C13M     `json:"gf"`
	Main pipeline.C13M     `json:"main"`
	Reqs []pipeline.C13Req `json:"reqs"`
}

type c13gfObs struct {
	Main     string                     `json:"main"` // ok | rejected | crash
	Accepted bool                       `json:"accepted"`
	Err      string                     `json:"err"`
	Crash    *pipeline.C13Crash         `json:"crash"`
	Handled  int                        `json:"handled"`
	Oracle   map[string]pipeline.C13Str `json:"oracle"`
}

func c13gfDoc(name, kind string, body pipeline.C13M) (string, bool) {
	doc := pipeline.C13M{"name": name, "kind": kind}
	for k, v := range body {
		doc[k] = pipeline.C13Num(v)
	}
	buf, err := yaml.Marshal(doc)
	return string(buf), err == nil
}

func c13gfExec(raw json.RawMessage) interface{} {
	var in c13gfInput
	dec := json.NewDecoder(bytes.NewReader(raw))
	dec.UseNumber()
	if err := dec.Decode(&in); err != nil {
		return map[string]string{"error": "bad-input"}
	}
	obs := &c13gfObs{Oracle: map[string]pipeline.C13Str{}}
	pipeline.C13Walk(map[string]interface{}(in.GF), obs.Oracle)

	// the main pipeline (not the subject of this harness: a case whose main pipeline is unusable is trivial)
	mdoc, ok := c13gfDoc("main", "Pipeline", in.Main)
	if !ok {
		obs.Main = "rejected"
		return obs
	}
	ms, err := supervisor.NewSpec(mdoc)
	if err != nil {
		obs.Main = "rejected"
		return obs
	}
	pl := &pipeline.Pipeline{}
	if c := pipeline.C13Try("Init", -1, func() { pl.Init(ms, nil) }); c != nil {
		obs.Main = "crash"
		return obs
	}
	defer func() { pipeline.C13Try("Close", -1, func() { pl.Close() }) }()
	obs.Main = "ok"

	gdoc, ok := c13gfDoc("gf", globalfilter.Kind, in.GF)
	if !ok {
		obs.Err = "yaml-marshal"
		return obs
	}
	gs, err := supervisor.NewSpec(gdoc)
	if err != nil {
		obs.Err = pipeline.C13Short(err.Error())
		return obs
	}
	obs.Accepted = true

	gf := &globalfilter.GlobalFilter{}
	if c := pipeline.C13Try("Init", -1, func() { gf.Init(gs) }); c != nil {
		obs.Crash = c
		return obs
	}
	serve := func(phase string, g *globalfilter.GlobalFilter) bool {
		for i, rq := range in.Reqs {
			if c := pipeline.C13Try(phase, i, func() {
				pipeline.C13HandleWith(rq, func(ctx *context.Context) string { g.Handle(ctx, pl); return "" })
			}); c != nil {
				obs.Crash = c
				return false
			}
			obs.Handled++
		}
		return true
	}
	if !serve("Handle", gf) {
		pipeline.C13Try("Close", -1, func() { gf.Close() })
		return obs
	}
	// second generation inherits the first one (hot update path)
	gs2, err := supervisor.NewSpec(gdoc)
	if err != nil {
		obs.Err = "second-newspec"
		return obs
	}
	gf2 := &globalfilter.GlobalFilter{}
	if c := pipeline.C13Try("Inherit", -1, func() { gf2.Inherit(gs2, gf) }); c != nil {
		obs.Crash = c
		return obs
	}
	serve("Handle2", gf2)
	pipeline.C13Try("Close", -1, func() { gf2.Close() })
	return obs
}

// c13gfPart: a Pipeline spec from the C13 generator; the before / after pipeline only exists when its
// flow is non-empty, so a flow is synthesised for half of the specs that have none.
func c13gfPart(r *verifh.Rand, i int) pipeline.C13M {
	in := pipeline.C13Gen(r, i).(pipeline.C13Input)
	spec := in.Spec
	if _, ok := spec["flow"]; !ok && r.Intn(2) == 0 {
		flow := []interface{}{}
		if fs, ok := spec["filters"].([]interface{}); ok {
			for _, f := range fs {
				if m, ok := f.(map[string]interface{}); ok {
					if n, ok := m["name"].(string); ok {
						flow = append(flow, pipeline.C13M{"filter": n})
					}
				}
			}
		}
		if len(flow) > 0 {
			spec["flow"] = flow
		}
	}
	return spec
}

func c13gfGen(r *verifh.Rand, i int) interface{} {
	in := c13gfInput{GF: pipeline.C13M{}}
	base := pipeline.C13Gen(r, i).(pipeline.C13Input)
	in.Reqs = base.Reqs
	switch r.Intn(6) {
	case 0:
		in.GF["beforePipeline"] = c13gfPart(r, i)
	case 1:
		in.GF["afterPipeline"] = c13gfPart(r, i)
	case 2: // no pipelines at all
	default:
		in.GF["beforePipeline"] = c13gfPart(r, i)
		in.GF["afterPipeline"] = c13gfPart(r, i)
	}
	in.Main = pipeline.C13M{"filters": []interface{}{pipeline.C13M{"name": "m", "kind": "Mock"}}}
	if r.Intn(4) == 0 {
		in.Main = pipeline.C13M{"filters": []interface{}{pipeline.C13M{"name": "m", "kind": "Mock"}},
			"flow": []interface{}{pipeline.C13M{"filter": "END"}, pipeline.C13M{"filter": "m"}}}
	}
	return in
}

func TestVerifC13GF(t *testing.T) {
	verifh.Run(t, c13gfGen, c13gfExec, 20*time.Second)
}
