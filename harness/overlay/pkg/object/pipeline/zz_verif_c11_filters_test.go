package pipeline

// Correspondence harness for property C11, part (b): "a request that already
// holds the old generation still completes without panic".
//
// For a generated pair of pipeline specs (one filter of some registered kind,
// old spec / new spec) the real code is driven through the anchored entry
// points:
//
//	old.Init(specOld)            Pipeline.Init -> reload(nil) -> filter.Init
//	old.Handle(pre...)           traffic before the update
//	new.Inherit(specNew, old)    Pipeline.Inherit -> reload(old) -> filter.Inherit(prev); old.Close()
//	old.Handle / new.Handle      interleaved traffic after the update (old = a
//	                             request that loaded the old generation before the store)
//
// level "filter" does the same on the bare filter objects (Inherit, optional
// Close) without the pipeline around them. Every Handle runs under recover. A
// baseline instance (Init only, never inherited from, never closed) handles
// the same requests so that the judge can tell an update-caused failure from a
// failure the request would have had anyway.

import (
	"encoding/json"
	"fmt"
	"net/http"
	"net/http/httptest"
	"os"
	"path/filepath"
	"runtime/debug"
	"strings"
	"sync"
	"testing"
	"time"

	"github.com/megaease/easegress/pkg/context"
	"github.com/megaease/easegress/pkg/filters"
	_ "github.com/megaease/easegress/pkg/filters/builder"
	_ "github.com/megaease/easegress/pkg/filters/certextractor"
	_ "github.com/megaease/easegress/pkg/filters/corsadaptor"
	_ "github.com/megaease/easegress/pkg/filters/fallback"
	_ "github.com/megaease/easegress/pkg/filters/mock"
	_ "github.com/megaease/easegress/pkg/filters/proxy"
	_ "github.com/megaease/easegress/pkg/filters/ratelimiter"
	_ "github.com/megaease/easegress/pkg/filters/requestadaptor"
	_ "github.com/megaease/easegress/pkg/filters/responseadaptor"
	_ "github.com/megaease/easegress/pkg/filters/validator"
	"github.com/megaease/easegress/pkg/protocols/httpprot"
	"github.com/megaease/easegress/pkg/supervisor"
	"github.com/megaease/easegress/pkg/tracing"
	"github.com/megaease/easegress/pkg/util/verifh"
	"gopkg.in/yaml.v3"
)

type c11fReq struct {
	Method string            `json:"method"`
	Path   string            `json:"path"`
	Hdr    map[string]string `json:"hdr,omitempty"`
}

type c11fOp struct {
	G   int     `json:"g"` // 0 = old generation, 1 = new generation
	Req c11fReq `json:"req"`
}

type c11fInput struct {
	Kind  string                   `json:"kind"`
	Level string                   `json:"level"` // "pipeline" | "filter"
	Close bool                     `json:"close"` // level filter: old.Close() after new.Inherit(old)
	Old   map[string]interface{}   `json:"old"`
	New   map[string]interface{}   `json:"new"`
	Res   []map[string]interface{} `json:"resilience,omitempty"`
	Pre   []c11fReq                `json:"pre"`
	Ops   []c11fOp                 `json:"ops"`
}

type c11fOut struct {
	Panic  string `json:"panic,omitempty"`
	Result string `json:"result"`
	Status int    `json:"status"`
}

type c11fObs struct {
	Err  string    `json:"err,omitempty"`
	Note string    `json:"note,omitempty"`
	Pre  []c11fOut `json:"pre"`
	Ops  []c11fOut `json:"ops"`
	Base []c11fOut `json:"base"` // baseline (never inherited / closed) outcome for the same op
}

var (
	c11fOnce    sync.Once
	c11fBackend *httptest.Server
	c11fUsers   string
)

func c11fSetup() {
	c11fOnce.Do(func() {
		c11fBackend = httptest.NewServer(http.HandlerFunc(func(w http.ResponseWriter, r *http.Request) {
			w.Header().Set("X-Backend", "b")
			w.WriteHeader(200)
			w.Write([]byte("ok"))
		}))
		dir, _ := os.MkdirTemp("", "verifc11")
		c11fUsers = filepath.Join(dir, "htpasswd")
		// user "u", password "p" ({SHA} scheme)
		os.WriteFile(c11fUsers, []byte("u:{SHA}UWkuD4QJQRZ5KDaoNiI9ZSHKfdU=\n"), 0o644)
	})
}

func c11fSubst(v interface{}) interface{} {
	switch t := v.(type) {
	case string:
		t = strings.ReplaceAll(t, "$BACKEND", c11fBackend.URL)
		t = strings.ReplaceAll(t, "$USERFILE", c11fUsers)
		return t
	case map[string]interface{}:
		m := map[string]interface{}{}
		for k, x := range t {
			m[k] = c11fSubst(x)
		}
		return m
	case []interface{}:
		l := make([]interface{}, len(t))
		for i, x := range t {
			l[i] = c11fSubst(x)
		}
		return l
	}
	return v
}

func c11fCtx(r c11fReq) *context.Context {
	m := r.Method
	if m == "" {
		m = "GET"
	}
	p := r.Path
	if !strings.HasPrefix(p, "/") {
		p = "/" + p
	}
	stdr, err := http.NewRequest(m, "http://example.com"+p, http.NoBody)
	if err != nil {
		stdr, _ = http.NewRequest("GET", "http://example.com/", http.NoBody)
	}
	stdr.RemoteAddr = "10.1.2.3:4567"
	for k, v := range r.Hdr {
		stdr.Header.Set(k, v)
	}
	req, _ := httpprot.NewRequest(stdr)
	req.FetchPayload(1 << 20)
	ctx := context.New(tracing.NoopSpan)
	ctx.SetRequest(context.DefaultNamespace, req)
	resp, _ := httpprot.NewResponse(nil)
	resp.SetStatusCode(299) // "no filter touched the response"
	ctx.SetResponse(context.DefaultNamespace, resp)
	return ctx
}

// c11fFirstStack keeps the frames of the first panic of the current case (reported in obs.note).
var c11fFirstStack string

// c11fTrimStack keeps the function names of the innermost non-runtime frames.
func c11fTrimStack(st string) string {
	var fr []string
	for _, l := range strings.Split(st, "\n") {
		if strings.HasPrefix(l, "github.com/megaease/easegress/") && !strings.Contains(l, "c11f") {
			l = strings.TrimPrefix(l, "github.com/megaease/easegress/")
			if i := strings.LastIndex(l, "("); i > 0 {
				l = l[:i]
			}
			fr = append(fr, l)
			if len(fr) == 4 {
				break
			}
		}
	}
	return strings.Join(fr, " < ")
}

type c11fHandler interface {
	Handle(ctx *context.Context) string
}

func c11fHandle(h c11fHandler, r c11fReq) (out c11fOut) {
	defer func() {
		if p := recover(); p != nil {
			st := string(debug.Stack())
			out = c11fOut{Panic: fmt.Sprint(p)}
			if c11fFirstStack == "" {
				c11fFirstStack = c11fTrimStack(st)
			}
		}
	}()
	if h == nil {
		return c11fOut{Panic: "no-instance"}
	}
	ctx := c11fCtx(r)
	res := h.Handle(ctx)
	out.Result = res
	if resp := ctx.GetOutputResponse(); resp != nil {
		if hr, ok := resp.(*httpprot.Response); ok {
			out.Status = hr.StatusCode()
		}
	}
	return out
}

func c11fPipelineSpec(name string, f map[string]interface{}, res []map[string]interface{}) (ss *supervisor.Spec, err error) {
	defer func() {
		if p := recover(); p != nil {
			err = fmt.Errorf("%v", p)
		}
	}()
	doc := map[string]interface{}{"name": name, "kind": "Pipeline", "filters": []interface{}{c11fSubst(f)}}
	if len(res) > 0 {
		l := []interface{}{}
		for _, r := range res {
			l = append(l, c11fSubst(r))
		}
		doc["resilience"] = l
	}
	b, err := yaml.Marshal(doc)
	if err != nil {
		return nil, err
	}
	return supervisor.NewSpec(string(b))
}

func c11fFilterSpec(f map[string]interface{}) (spec filters.Spec, err error) {
	defer func() {
		if p := recover(); p != nil {
			err = fmt.Errorf("%v", p)
		}
	}()
	m, _ := c11fSubst(f).(map[string]interface{})
	return filters.NewSpec(nil, "", m)
}

func c11fGuard(what string, fn func()) (msg string) {
	defer func() {
		if p := recover(); p != nil {
			msg = what + ": " + fmt.Sprint(p)
		}
	}()
	fn()
	return ""
}

// c11fStart / c11fOverBudget: when the check driver widens the run (VERIF_N_OVERRIDE) the case count can
// exceed what fits into the harness timeout; cases beyond the time budget are reported as skipped
// instead of letting the test binary be killed.
var c11fStart = time.Now()

func c11fOverBudget() bool {
	b := 90 * time.Second
	if os.Getenv("VERIF_TIER") == "thorough" {
		b = 780 * time.Second
	}
	return os.Getenv("VERIF_MODE") != "replay" && time.Since(c11fStart) > b
}

func c11fExec(raw json.RawMessage) interface{} {
	if c11fOverBudget() {
		return c11fObs{Err: "budget-exhausted"}
	}
	c11fSetup()
	var in c11fInput
	if err := json.Unmarshal(raw, &in); err != nil || in.Old == nil || in.New == nil {
		return c11fObs{Err: "bad-input"}
	}
	obs := c11fObs{Pre: []c11fOut{}, Ops: []c11fOut{}, Base: []c11fOut{}}
	c11fFirstStack = ""
	var oldH, newH, baseOld, baseNew c11fHandler
	var cleanup []func()
	defer func() {
		for _, f := range cleanup {
			c11fGuard("cleanup", f)
		}
	}()

	if in.Level == "filter" {
		mk := func(m map[string]interface{}) (filters.Filter, error) {
			spec, err := c11fFilterSpec(m)
			if err != nil {
				return nil, err
			}
			f := filters.Create(spec)
			if f == nil {
				return nil, fmt.Errorf("kind not registered")
			}
			return f, nil
		}
		fo, err1 := mk(in.Old)
		fn, err2 := mk(in.New)
		bo, err3 := mk(in.Old)
		bn, err4 := mk(in.New)
		if err1 != nil || err2 != nil || err3 != nil || err4 != nil {
			return c11fObs{Err: "bad-spec", Note: fmt.Sprint(err1, err2)}
		}
		if m := c11fGuard("init", func() { fo.Init(); bo.Init(); bn.Init() }); m != "" {
			return c11fObs{Err: "init-panic", Note: m}
		}
		cleanup = append(cleanup, bo.Close, bn.Close)
		for _, r := range in.Pre {
			obs.Pre = append(obs.Pre, c11fHandle(fo, r))
		}
		if m := c11fGuard("inherit", func() { fn.Inherit(fo) }); m != "" {
			obs.Err, obs.Note = "inherit-panic", m
			return obs
		}
		cleanup = append(cleanup, fn.Close)
		if in.Close {
			if m := c11fGuard("close", func() { fo.Close() }); m != "" {
				obs.Err, obs.Note = "close-panic", m
				return obs
			}
		} else {
			cleanup = append(cleanup, fo.Close)
		}
		oldH, newH, baseOld, baseNew = fo, fn, bo, bn
	} else {
		so, err1 := c11fPipelineSpec("p", in.Old, in.Res)
		sn, err2 := c11fPipelineSpec("p", in.New, in.Res)
		if err1 != nil || err2 != nil {
			return c11fObs{Err: "bad-spec", Note: fmt.Sprint(err1, err2)}
		}
		po, pn, bo, bn := &Pipeline{}, &Pipeline{}, &Pipeline{}, &Pipeline{}
		if m := c11fGuard("init", func() { po.Init(so, nil); bo.Init(so, nil); bn.Init(sn, nil) }); m != "" {
			return c11fObs{Err: "init-panic", Note: m}
		}
		cleanup = append(cleanup, bo.Close, bn.Close)
		for _, r := range in.Pre {
			obs.Pre = append(obs.Pre, c11fHandle(po, r))
		}
		if m := c11fGuard("inherit", func() { pn.Inherit(sn, po, nil) }); m != "" {
			obs.Err, obs.Note = "inherit-panic", m
			return obs
		}
		cleanup = append(cleanup, pn.Close)
		oldH, newH, baseOld, baseNew = po, pn, bo, bn
	}

	for _, op := range in.Ops {
		if op.G == 0 {
			obs.Ops = append(obs.Ops, c11fHandle(oldH, op.Req))
			obs.Base = append(obs.Base, c11fHandle(baseOld, op.Req))
		} else {
			obs.Ops = append(obs.Ops, c11fHandle(newH, op.Req))
			obs.Base = append(obs.Base, c11fHandle(baseNew, op.Req))
		}
	}
	obs.Note = c11fFirstStack
	return obs
}

// ---------------------------------------------------------------- generators

func c11fReqGen(r *verifh.Rand) c11fReq {
	q := c11fReq{Method: r.Pick("GET", "GET", "POST"), Path: r.Pick("/a", "/a", "/ab", "/b", "/c", "/")}
	if r.Bool(1, 3) {
		q.Hdr = map[string]string{"X-K": r.Pick("v1", "v2")}
	}
	return q
}

func c11fRateLimiter(r *verifh.Rand) map[string]interface{} {
	pol := func(name string) map[string]interface{} {
		return map[string]interface{}{"name": name, "limitForPeriod": r.PickInt(1, 1, 2, 3), "limitRefreshPeriod": "3600s", "timeoutDuration": "1ms"}
	}
	urls := []interface{}{}
	n := r.Range(1, 3)
	for i := 0; i < n; i++ {
		u := map[string]interface{}{}
		switch r.Intn(4) {
		case 0:
			u["url"] = map[string]interface{}{"exact": r.Pick("/a", "/b")}
		case 1:
			u["url"] = map[string]interface{}{"prefix": r.Pick("/a", "/")}
		case 2:
			u["url"] = map[string]interface{}{"prefix": "/a"}
		default:
			u["url"] = map[string]interface{}{"exact": "/a"}
		}
		if r.Bool(1, 4) {
			u["methods"] = []interface{}{r.Pick("GET", "POST")}
		}
		if r.Bool(1, 2) {
			u["policyRef"] = r.Pick("p", "q")
		}
		urls = append(urls, u)
	}
	return map[string]interface{}{"name": "f", "kind": "RateLimiter", "defaultPolicyRef": r.Pick("p", "p", "q"),
		"policies": []interface{}{pol("p"), pol("q")}, "urls": urls}
}

func c11fClone(m map[string]interface{}) map[string]interface{} {
	b, _ := json.Marshal(m)
	var o map[string]interface{}
	json.Unmarshal(b, &o)
	return o
}

// c11fMutateRL derives the new RateLimiter spec from the old one.
func c11fMutateRL(r *verifh.Rand, old map[string]interface{}) map[string]interface{} {
	n := c11fClone(old)
	urls, _ := n["urls"].([]interface{})
	pols, _ := n["policies"].([]interface{})
	switch r.Intn(8) {
	case 0: // unchanged
	case 1: // change a policy's limit
		if len(pols) > 0 {
			p := pols[r.Intn(len(pols))].(map[string]interface{})
			p["limitForPeriod"] = r.PickInt(1, 2, 3, 4)
		}
	case 2: // drop a URL
		if len(urls) > 1 {
			i := r.Intn(len(urls))
			urls = append(urls[:i:i], urls[i+1:]...)
		}
	case 3: // add a URL in front
		urls = append([]interface{}{map[string]interface{}{"url": map[string]interface{}{"prefix": r.Pick("/", "/a", "/b")}}}, urls...)
	case 4: // reverse
		for i, j := 0, len(urls)-1; i < j; i, j = i+1, j-1 {
			urls[i], urls[j] = urls[j], urls[i]
		}
	case 5: // other default policy
		if n["defaultPolicyRef"] == "p" {
			n["defaultPolicyRef"] = "q"
		} else {
			n["defaultPolicyRef"] = "p"
		}
	case 6: // duplicate a URL (two new rules deep-equal to the same previous rule)
		if len(urls) > 0 {
			urls = append(urls, urls[r.Intn(len(urls))])
		}
	default: // completely new spec
		return c11fRateLimiter(r)
	}
	n["urls"] = urls
	return n
}

type c11fKindGen struct {
	kind string
	gen  func(r *verifh.Rand) (old, nw map[string]interface{}, res []map[string]interface{})
}

func c11fHeaderAdapt(r *verifh.Rand) map[string]interface{} {
	return map[string]interface{}{"set": map[string]interface{}{"X-A": r.Pick("1", "2")}, "del": []interface{}{"X-K"}}
}

var c11fKinds = []c11fKindGen{
	{"RateLimiter", func(r *verifh.Rand) (map[string]interface{}, map[string]interface{}, []map[string]interface{}) {
		o := c11fRateLimiter(r)
		return o, c11fMutateRL(r, o), nil
	}},
	{"Proxy", func(r *verifh.Rand) (map[string]interface{}, map[string]interface{}, []map[string]interface{}) {
		mk := func() map[string]interface{} {
			// every server carries a weight >= 1 (all-zero weights are C04's subject, not an update effect)
			srv := []interface{}{map[string]interface{}{"url": "$BACKEND", "weight": r.PickInt(1, 2)}}
			if r.Bool(1, 2) {
				srv = append(srv, map[string]interface{}{"url": "$BACKEND", "weight": r.PickInt(1, 2)})
			}
			pool := map[string]interface{}{"servers": srv,
				"loadBalance": map[string]interface{}{"policy": r.Pick("roundRobin", "random", "ipHash", "weightedRandom")}}
			if r.Bool(1, 2) {
				pool["circuitBreakerPolicy"] = "cb"
			}
			if r.Bool(1, 2) {
				pool["retryPolicy"] = "rt"
			}
			if r.Bool(1, 3) {
				pool["timeout"] = "5s"
			}
			if r.Bool(1, 3) {
				pool["memoryCache"] = map[string]interface{}{"expiration": "10s", "maxEntryBytes": 4096, "codes": []interface{}{200}, "methods": []interface{}{"GET"}}
			}
			pools := []interface{}{pool}
			if r.Bool(1, 3) {
				pools = append(pools, map[string]interface{}{"servers": []interface{}{map[string]interface{}{"url": "$BACKEND", "weight": 1}},
					"filter": map[string]interface{}{"headers": map[string]interface{}{"X-K": map[string]interface{}{"exact": "v1"}}}})
			}
			p := map[string]interface{}{"name": "f", "kind": "Proxy", "pools": pools}
			if r.Bool(1, 3) {
				p["compression"] = map[string]interface{}{"minLength": 1}
			}
			return p
		}
		res := []map[string]interface{}{
			{"name": "cb", "kind": "CircuitBreaker", "slidingWindowType": "COUNT_BASED", "failureRateThreshold": 50, "slidingWindowSize": 10},
			{"name": "rt", "kind": "Retry", "maxAttempts": 2, "waitDuration": "1ms"},
		}
		o := mk()
		if r.Bool(1, 4) {
			return o, c11fClone(o), res
		}
		return o, mk(), res
	}},
	{"Validator", func(r *verifh.Rand) (map[string]interface{}, map[string]interface{}, []map[string]interface{}) {
		mk := func() map[string]interface{} {
			v := map[string]interface{}{"name": "f", "kind": "Validator"}
			switch r.Intn(3) {
			case 0:
				v["headers"] = map[string]interface{}{"X-K": map[string]interface{}{"values": []interface{}{r.Pick("v1", "v2")}}}
			case 1:
				v["basicAuth"] = map[string]interface{}{"mode": "FILE", "userFile": "$USERFILE"}
			default:
				v["jwt"] = map[string]interface{}{"algorithm": "HS256", "secret": "6d79736563726574"}
			}
			return v
		}
		return mk(), mk(), nil
	}},
	{"Mock", func(r *verifh.Rand) (map[string]interface{}, map[string]interface{}, []map[string]interface{}) {
		mk := func() map[string]interface{} {
			return map[string]interface{}{"name": "f", "kind": "Mock", "rules": []interface{}{
				map[string]interface{}{"match": map[string]interface{}{"pathPrefix": r.Pick("/a", "/")}, "code": r.PickInt(200, 201, 202), "body": "x"}}}
		}
		return mk(), mk(), nil
	}},
	{"RequestAdaptor", func(r *verifh.Rand) (map[string]interface{}, map[string]interface{}, []map[string]interface{}) {
		mk := func() map[string]interface{} {
			return map[string]interface{}{"name": "f", "kind": "RequestAdaptor", "method": r.Pick("", "PUT"), "header": c11fHeaderAdapt(r)}
		}
		return mk(), mk(), nil
	}},
	{"ResponseAdaptor", func(r *verifh.Rand) (map[string]interface{}, map[string]interface{}, []map[string]interface{}) {
		mk := func() map[string]interface{} {
			return map[string]interface{}{"name": "f", "kind": "ResponseAdaptor", "header": c11fHeaderAdapt(r), "body": r.Pick("", "b")}
		}
		return mk(), mk(), nil
	}},
	{"CORSAdaptor", func(r *verifh.Rand) (map[string]interface{}, map[string]interface{}, []map[string]interface{}) {
		mk := func() map[string]interface{} {
			return map[string]interface{}{"name": "f", "kind": "CORSAdaptor", "allowedOrigins": []interface{}{r.Pick("*", "http://a")}, "supportCORSRequest": r.Bool(1, 2)}
		}
		return mk(), mk(), nil
	}},
	{"Fallback", func(r *verifh.Rand) (map[string]interface{}, map[string]interface{}, []map[string]interface{}) {
		mk := func() map[string]interface{} {
			return map[string]interface{}{"name": "f", "kind": "Fallback", "mockCode": r.PickInt(200, 503), "mockBody": "fb"}
		}
		return mk(), mk(), nil
	}},
	{"RequestBuilder", func(r *verifh.Rand) (map[string]interface{}, map[string]interface{}, []map[string]interface{}) {
		mk := func() map[string]interface{} {
			return map[string]interface{}{"name": "f", "kind": "RequestBuilder", "template": "method: " + r.Pick("GET", "PUT") + "\nurl: http://x/y\n"}
		}
		return mk(), mk(), nil
	}},
	{"ResponseBuilder", func(r *verifh.Rand) (map[string]interface{}, map[string]interface{}, []map[string]interface{}) {
		mk := func() map[string]interface{} {
			return map[string]interface{}{"name": "f", "kind": "ResponseBuilder", "template": "statusCode: " + r.Pick("200", "201") + "\n"}
		}
		return mk(), mk(), nil
	}},
	{"CertExtractor", func(r *verifh.Rand) (map[string]interface{}, map[string]interface{}, []map[string]interface{}) {
		mk := func() map[string]interface{} {
			return map[string]interface{}{"name": "f", "kind": "CertExtractor", "certIndex": r.PickInt(0, -1), "target": r.Pick("subject", "issuer"), "field": "CommonName", "headerKey": "X-C"}
		}
		return mk(), mk(), nil
	}},
}

func c11fGen(r *verifh.Rand, i int) interface{} {
	// Half of the cases exercise the kind that moves state between generations.
	var kg c11fKindGen
	if r.Bool(1, 2) {
		kg = c11fKinds[0]
	} else {
		kg = c11fKinds[i%len(c11fKinds)]
	}
	in := c11fInput{Kind: kg.kind, Level: "pipeline", Pre: []c11fReq{}, Ops: []c11fOp{}}
	if r.Bool(1, 3) {
		in.Level = "filter"
		in.Close = r.Bool(1, 2)
	}
	in.Old, in.New, in.Res = kg.gen(r)
	if in.Level == "filter" {
		// resilience policies exist only at pipeline level
		for _, m := range []map[string]interface{}{in.Old, in.New} {
			if pools, ok := m["pools"].([]interface{}); ok {
				for _, p := range pools {
					pm := p.(map[string]interface{})
					delete(pm, "circuitBreakerPolicy")
					delete(pm, "retryPolicy")
				}
			}
		}
		in.Res = nil
	}
	for k := r.Range(0, 4); k > 0; k-- {
		in.Pre = append(in.Pre, c11fReqGen(r))
	}
	for k := r.Range(1, 8); k > 0; k-- {
		g := 0
		if r.Bool(1, 3) {
			g = 1
		}
		in.Ops = append(in.Ops, c11fOp{G: g, Req: c11fReqGen(r)})
	}
	return in
}

func TestVerifC11Filters(t *testing.T) {
	verifh.Run(t, c11fGen, c11fExec, 0)
}
