package pipeline

// Correspondence harness for property C11, part (b): "a request that already
// holds the old generation still completes without panic".
//
// For a generated pair of pipeline specs (one filter of some registered kind,
// old spec / new spec) the real code is driven through the anchored entry
// points:
//
//	old.Init(specOld)            Pipeline.Init -> reload(nil) -> filter.Init
//	old.Handle(pre...)           traffic before the update
//	new.Inherit(specNew, old)    Pipeline.Inherit -> reload(old) -> filter.Inherit(prev); old.Close()
//	old.Handle / new.Handle      interleaved traffic after the update (old = a
//	                             request that loaded the old generation before the store)
//
// level "filter" does the same on the bare filter objects (Inherit, optional
// Close) without the pipeline around them. Every Handle runs under recover. A
// baseline instance (Init only, never inherited from, never closed) handles
// the same requests so that the judge can tell an update-caused failure from a
// failure the request would have had anyway.
//
// Kinds (extension auth11): every registered filter kind that can be instantiated
// in-process offline has a generator in c11fKinds (18 kinds; the judge's @inventory
// case compares the table with Model.HotUpdate.exercisedFilterKinds). TopicMapper,
// MQTTClientAuth and ConnectControl get MQTT contexts (c11fMQTTCtx), HeaderLookup a
// mock supervisor/cluster (c11fSuper), RemoteFilter talks to the local backend's
// /remote* endpoints. Kafka, KafkaMQTT (broker) and WasmHost (build tag) are not run.

import (
	"crypto/sha256"
	"encoding/hex"
	"encoding/json"
	"fmt"
	"io"
	"net/http"
	"net/http/httptest"
	"os"
	"path/filepath"
	"runtime/debug"
	"sort"
	"strconv"
	"strings"
	"sync"
	"testing"
	"time"

	"github.com/eclipse/paho.mqtt.golang/packets"
	"github.com/megaease/easegress/pkg/cluster"
	"github.com/megaease/easegress/pkg/cluster/clustertest"
	"github.com/megaease/easegress/pkg/context"
	"github.com/megaease/easegress/pkg/filters"
	_ "github.com/megaease/easegress/pkg/filters/builder"
	_ "github.com/megaease/easegress/pkg/filters/certextractor"
	_ "github.com/megaease/easegress/pkg/filters/connectcontrol"
	_ "github.com/megaease/easegress/pkg/filters/corsadaptor"
	_ "github.com/megaease/easegress/pkg/filters/fallback"
	_ "github.com/megaease/easegress/pkg/filters/headerlookup"
	_ "github.com/megaease/easegress/pkg/filters/headertojson"
	_ "github.com/megaease/easegress/pkg/filters/meshadaptor"
	_ "github.com/megaease/easegress/pkg/filters/mock"
	_ "github.com/megaease/easegress/pkg/filters/mqttclientauth"
	_ "github.com/megaease/easegress/pkg/filters/proxy"
	_ "github.com/megaease/easegress/pkg/filters/ratelimiter"
	_ "github.com/megaease/easegress/pkg/filters/remotefilter"
	_ "github.com/megaease/easegress/pkg/filters/requestadaptor"
	_ "github.com/megaease/easegress/pkg/filters/responseadaptor"
	_ "github.com/megaease/easegress/pkg/filters/topicmapper"
	_ "github.com/megaease/easegress/pkg/filters/validator"
	"github.com/megaease/easegress/pkg/protocols/httpprot"
	"github.com/megaease/easegress/pkg/protocols/mqttprot"
	"github.com/megaease/easegress/pkg/supervisor"
	"github.com/megaease/easegress/pkg/tracing"
	"github.com/megaease/easegress/pkg/util/verifh"
	"gopkg.in/yaml.v3"
)

type c11fReq struct {
	Method string            `json:"method"`
	Path   string            `json:"path"`
	Hdr    map[string]string `json:"hdr,omitempty"`
	Body   string            `json:"body,omitempty"`
	// MQTT kinds (TopicMapper, MQTTClientAuth, ConnectControl): the packet the context carries
	Pkt    string `json:"pkt,omitempty"` // connect | publish | subscribe | disconnect
	Client string `json:"client,omitempty"`
	User   string `json:"user,omitempty"`
	Pass   string `json:"pass,omitempty"`
	Topic  string `json:"topic,omitempty"`
}

// c11fMQTTKinds handle MQTT contexts (mqttprot.Request / mqttprot.Response), not HTTP ones.
var c11fMQTTKinds = map[string]bool{"TopicMapper": true, "MQTTClientAuth": true, "ConnectControl": true, "KafkaMQTT": true}

type c11fOp struct {
	G   int     `json:"g"` // 0 = old generation, 1 = new generation
	Req c11fReq `json:"req"`
}

type c11fInput struct {
	Kind  string                   `json:"kind"`
	Level string                   `json:"level"` // "pipeline" | "filter"
	Close bool                     `json:"close"` // level filter: old.Close() after new.Inherit(old)
	Old   map[string]interface{}   `json:"old"`
	New   map[string]interface{}   `json:"new"`
	Res   []map[string]interface{} `json:"resilience,omitempty"`
	Pre   []c11fReq                `json:"pre"`
	Ops   []c11fOp                 `json:"ops"`
}

type c11fOut struct {
	Panic  string `json:"panic,omitempty"`
	Result string `json:"result"`
	Status int    `json:"status"`
	// Eff: canonical digest of what Handle did to the context besides result/status (request
	// method, path, headers and payload for HTTP; disconnect/drop flags and the context data keys
	// for MQTT). Compared with the never-updated baseline instance.
	Eff string `json:"eff,omitempty"`
}

type c11fObs struct {
	// inventory case only: the generator table of this harness and the kinds registered in this binary
	Generators []string `json:"generators,omitempty"`
	Registered []string `json:"registered,omitempty"`

	Err  string    `json:"err,omitempty"`
	Note string    `json:"note,omitempty"`
	Pre  []c11fOut `json:"pre"`
	Ops  []c11fOut `json:"ops"`
	Base []c11fOut `json:"base"` // baseline (never inherited / closed) outcome for the same op
}

var (
	c11fOnce    sync.Once
	c11fBackend *httptest.Server
	c11fUsers   string
)

func c11fSetup() {
	c11fOnce.Do(func() {
		c11fBackend = httptest.NewServer(http.HandlerFunc(func(w http.ResponseWriter, r *http.Request) {
			if strings.HasPrefix(r.URL.Path, "/remote") {
				// RemoteFilter protocol: the posted context entity comes back with one more request header
				var ent map[string]interface{}
				if err := json.NewDecoder(r.Body).Decode(&ent); err != nil {
					w.WriteHeader(400)
					return
				}
				if rq, ok := ent["request"].(map[string]interface{}); ok {
					h, _ := rq["header"].(map[string]interface{})
					if h == nil {
						h = map[string]interface{}{}
					}
					h["X-Remote"] = []interface{}{strings.TrimPrefix(r.URL.Path, "/remote")}
					rq["header"] = h
				}
				if r.URL.Path == "/remote205" {
					w.WriteHeader(205)
				}
				json.NewEncoder(w).Encode(ent)
				return
			}
			w.Header().Set("X-Backend", "b")
			w.WriteHeader(200)
			w.Write([]byte("ok"))
		}))
		dir, _ := os.MkdirTemp("", "verifc11")
		c11fUsers = filepath.Join(dir, "htpasswd")
		// user "u", password "p" ({SHA} scheme)
		os.WriteFile(c11fUsers, []byte("u:{SHA}UWkuD4QJQRZ5KDaoNiI9ZSHKfdU=\n"), 0o644)
	})
}

func c11fSubst(v interface{}) interface{} {
	switch t := v.(type) {
	case string:
		t = strings.ReplaceAll(t, "$BACKEND", c11fBackend.URL)
		t = strings.ReplaceAll(t, "$USERFILE", c11fUsers)
		return t
	case map[string]interface{}:
		m := map[string]interface{}{}
		for k, x := range t {
			if strings.HasSuffix(k, "@int") {
				// JSON has no integer keys: {"headers@int": {"0": "a"}} stands for headers: {0: a}
				im := map[int]interface{}{}
				if sm, ok := x.(map[string]interface{}); ok {
					for ks, v := range sm {
						if n, err := strconv.Atoi(ks); err == nil {
							im[n] = c11fSubst(v)
						}
					}
				}
				m[strings.TrimSuffix(k, "@int")] = im
				continue
			}
			m[k] = c11fSubst(x)
		}
		return m
	case []interface{}:
		l := make([]interface{}, len(t))
		for i, x := range t {
			l[i] = c11fSubst(x)
		}
		return l
	}
	return v
}

func c11fCtx(r c11fReq, mqtt bool) *context.Context {
	if mqtt {
		return c11fMQTTCtx(r)
	}
	m := r.Method
	if m == "" {
		m = "GET"
	}
	p := r.Path
	if !strings.HasPrefix(p, "/") {
		p = "/" + p
	}
	var body io.Reader = http.NoBody
	if r.Body != "" {
		body = strings.NewReader(r.Body)
	}
	stdr, err := http.NewRequest(m, "http://example.com"+p, body)
	if err != nil {
		stdr, _ = http.NewRequest("GET", "http://example.com/", http.NoBody)
	}
	stdr.RemoteAddr = "10.1.2.3:4567"
	for k, v := range r.Hdr {
		stdr.Header.Set(k, v)
	}
	req, _ := httpprot.NewRequest(stdr)
	req.FetchPayload(1 << 20)
	ctx := context.New(tracing.NoopSpan)
	ctx.SetRequest(context.DefaultNamespace, req)
	resp, _ := httpprot.NewResponse(nil)
	resp.SetStatusCode(299) // "no filter touched the response"
	ctx.SetResponse(context.DefaultNamespace, resp)
	return ctx
}

// c11fMQTTCtx builds the context MQTTProxy's broker hands to a pipeline (broker.go newContext):
// an mqttprot.Request around a paho control packet + a mock client, and an empty mqttprot.Response.
func c11fMQTTCtx(r c11fReq) *context.Context {
	var pkt packets.ControlPacket
	switch r.Pkt {
	case "connect":
		c := packets.NewControlPacket(packets.Connect).(*packets.ConnectPacket)
		c.ClientIdentifier, c.Username, c.Password = r.Client, r.User, []byte(r.Pass)
		pkt = c
	case "subscribe":
		sp := packets.NewControlPacket(packets.Subscribe).(*packets.SubscribePacket)
		sp.Topics, sp.Qoss = []string{r.Topic}, []byte{0}
		pkt = sp
	case "disconnect":
		pkt = packets.NewControlPacket(packets.Disconnect)
	default:
		pp := packets.NewControlPacket(packets.Publish).(*packets.PublishPacket)
		pp.TopicName, pp.Payload = r.Topic, []byte(r.Body)
		pkt = pp
	}
	client := &mqttprot.MockClient{MockClientID: r.Client, MockUserName: r.User}
	ctx := context.New(tracing.NoopSpan)
	ctx.SetRequest(context.DefaultNamespace, mqttprot.NewRequest(pkt, client))
	ctx.SetResponse(context.DefaultNamespace, mqttprot.NewResponse())
	return ctx
}

// c11fEff: what Handle left in the context, canonicalised (sorted, no addresses, no times).
func c11fEff(ctx *context.Context, mqtt bool) string {
	var b strings.Builder
	if mqtt {
		if resp, ok := ctx.GetOutputResponse().(*mqttprot.Response); ok && resp != nil {
			fmt.Fprintf(&b, "disconnect=%v drop=%v", resp.Disconnect(), resp.Drop())
		}
		for _, k := range []string{"topic", "headers"} {
			switch v := ctx.GetData(k).(type) {
			case string:
				fmt.Fprintf(&b, " %s=%s", k, v)
			case map[string]string:
				ks := make([]string, 0, len(v))
				for x := range v {
					ks = append(ks, x)
				}
				sort.Strings(ks)
				for _, x := range ks {
					fmt.Fprintf(&b, " %s[%s]=%s", k, x, v[x])
				}
			}
		}
		return b.String()
	}
	req, ok := ctx.GetInputRequest().(*httpprot.Request)
	if !ok || req == nil {
		return "no-http-request"
	}
	fmt.Fprintf(&b, "%s %s", req.Method(), req.Path())
	h := req.Std().Header
	ks := make([]string, 0, len(h))
	for k := range h {
		ks = append(ks, k)
	}
	sort.Strings(ks)
	for _, k := range ks {
		fmt.Fprintf(&b, " %s=%s", k, strings.Join(h[k], ","))
	}
	if !req.IsStream() {
		if pl := req.RawPayload(); len(pl) > 0 && len(pl) < 512 {
			fmt.Fprintf(&b, " body=%s", pl)
		}
	}
	return b.String()
}

// c11fFirstStack keeps the frames of the first panic of the current case (reported in obs.note).
var c11fFirstStack string

// c11fTrimStack keeps the function names of the innermost non-runtime frames.
func c11fTrimStack(st string) string {
	var fr []string
	for _, l := range strings.Split(st, "\n") {
		if strings.HasPrefix(l, "github.com/megaease/easegress/") && !strings.Contains(l, "c11f") {
			l = strings.TrimPrefix(l, "github.com/megaease/easegress/")
			if i := strings.LastIndex(l, "("); i > 0 {
				l = l[:i]
			}
			fr = append(fr, l)
			if len(fr) == 4 {
				break
			}
		}
	}
	return strings.Join(fr, " < ")
}

type c11fHandler interface {
	Handle(ctx *context.Context) string
}

func c11fHandle(h c11fHandler, r c11fReq, mqtt bool) (out c11fOut) {
	defer func() {
		if p := recover(); p != nil {
			st := string(debug.Stack())
			out = c11fOut{Panic: fmt.Sprint(p)}
			if c11fFirstStack == "" {
				c11fFirstStack = c11fTrimStack(st)
			}
		}
	}()
	if h == nil {
		return c11fOut{Panic: "no-instance"}
	}
	ctx := c11fCtx(r, mqtt)
	res := h.Handle(ctx)
	out.Result = res
	if resp := ctx.GetOutputResponse(); resp != nil {
		if hr, ok := resp.(*httpprot.Response); ok {
			out.Status = hr.StatusCode()
		}
	}
	out.Eff = c11fEff(ctx, mqtt)
	return out
}

// c11fSuper: a mock supervisor whose cluster answers HeaderLookup's etcd reads (custom data
// "/custom-data/<prefix>/<header value>" = a small YAML map) and hands out a syncer whose channel
// never fires. Only HeaderLookup cases use it; every other kind keeps the nil supervisor.
func c11fSuper() *supervisor.Supervisor {
	cls := clustertest.NewMockedCluster()
	cls.MockedGet = func(key string) (*string, error) {
		if strings.HasSuffix(key, "missing") {
			return nil, nil
		}
		v := "ext-id: " + key[strings.LastIndex(key, "/")+1:] + "\nother: o\n"
		return &v, nil
	}
	cls.MockedSyncer = func(time.Duration) (cluster.Syncer, error) {
		sy := clustertest.NewMockedSyncer()
		sy.MockedSyncPrefix = func(string) (<-chan map[string]string, error) {
			return make(chan map[string]string), nil
		}
		return sy, nil
	}
	return supervisor.NewMock(nil, cls, sync.Map{}, sync.Map{}, nil, nil, false, nil, nil)
}

func c11fPipelineSpec(super *supervisor.Supervisor, name string, f map[string]interface{}, res []map[string]interface{}) (ss *supervisor.Spec, err error) {
	defer func() {
		if p := recover(); p != nil {
			err = fmt.Errorf("%v", p)
		}
	}()
	doc := map[string]interface{}{"name": name, "kind": "Pipeline", "filters": []interface{}{c11fSubst(f)}}
	if len(res) > 0 {
		l := []interface{}{}
		for _, r := range res {
			l = append(l, c11fSubst(r))
		}
		doc["resilience"] = l
	}
	b, err := yaml.Marshal(doc)
	if err != nil {
		return nil, err
	}
	if super != nil {
		return super.NewSpec(string(b))
	}
	return supervisor.NewSpec(string(b))
}

func c11fFilterSpec(super *supervisor.Supervisor, f map[string]interface{}) (spec filters.Spec, err error) {
	defer func() {
		if p := recover(); p != nil {
			err = fmt.Errorf("%v", p)
		}
	}()
	m, _ := c11fSubst(f).(map[string]interface{})
	return filters.NewSpec(super, "", m)
}

func c11fGuard(what string, fn func()) (msg string) {
	defer func() {
		if p := recover(); p != nil {
			msg = what + ": " + fmt.Sprint(p)
		}
	}()
	fn()
	return ""
}

// c11fStart / c11fOverBudget: when the check driver widens the run (VERIF_N_OVERRIDE) the case count can
// exceed what fits into the harness timeout; cases beyond the time budget are reported as skipped
// instead of letting the test binary be killed.
var c11fStart = time.Now()

func c11fOverBudget() bool {
	b := 14 * time.Second // quick: ≈ 2× what the tier's 1500 cases need; bounds the driver's 5× wider search
	if os.Getenv("VERIF_TIER") == "thorough" {
		b = 780 * time.Second
	}
	return os.Getenv("VERIF_MODE") != "replay" && time.Since(c11fStart) > b
}

func c11fExec(raw json.RawMessage) interface{} {
	if c11fOverBudget() {
		return c11fObs{Err: "budget-exhausted"}
	}
	c11fSetup()
	var in c11fInput
	if err := json.Unmarshal(raw, &in); err == nil && in.Kind == "@inventory" {
		return c11fInventory()
	}
	if err := json.Unmarshal(raw, &in); err != nil || in.Old == nil || in.New == nil {
		return c11fObs{Err: "bad-input"}
	}
	obs := c11fObs{Pre: []c11fOut{}, Ops: []c11fOut{}, Base: []c11fOut{}}
	c11fFirstStack = ""
	// the kind is read from the spec itself (the "kind" field of the input is only a label)
	specKind, _ := in.Old["kind"].(string)
	mqtt := c11fMQTTKinds[specKind]
	var super *supervisor.Supervisor
	if specKind == "HeaderLookup" {
		super = c11fSuper()
	}
	var oldH, newH, baseOld, baseNew c11fHandler
	var cleanup []func()
	defer func() {
		for _, f := range cleanup {
			c11fGuard("cleanup", f)
		}
	}()

	if in.Level == "filter" {
		mk := func(m map[string]interface{}) (filters.Filter, error) {
			spec, err := c11fFilterSpec(super, m)
			if err != nil {
				return nil, err
			}
			f := filters.Create(spec)
			if f == nil {
				return nil, fmt.Errorf("kind not registered")
			}
			return f, nil
		}
		fo, err1 := mk(in.Old)
		fn, err2 := mk(in.New)
		bo, err3 := mk(in.Old)
		bn, err4 := mk(in.New)
		if err1 != nil || err2 != nil || err3 != nil || err4 != nil {
			return c11fObs{Err: "bad-spec", Note: fmt.Sprint(err1, err2)}
		}
		if m := c11fGuard("init", func() { fo.Init(); bo.Init(); bn.Init() }); m != "" {
			return c11fObs{Err: "init-panic", Note: m}
		}
		cleanup = append(cleanup, bo.Close, bn.Close)
		for _, r := range in.Pre {
			obs.Pre = append(obs.Pre, c11fHandle(fo, r, mqtt))
		}
		if m := c11fGuard("inherit", func() { fn.Inherit(fo) }); m != "" {
			obs.Err, obs.Note = "inherit-panic", m
			return obs
		}
		cleanup = append(cleanup, fn.Close)
		if in.Close {
			if m := c11fGuard("close", func() { fo.Close() }); m != "" {
				obs.Err, obs.Note = "close-panic", m
				return obs
			}
		} else {
			cleanup = append(cleanup, fo.Close)
		}
		oldH, newH, baseOld, baseNew = fo, fn, bo, bn
	} else {
		so, err1 := c11fPipelineSpec(super, "p", in.Old, in.Res)
		sn, err2 := c11fPipelineSpec(super, "p", in.New, in.Res)
		if err1 != nil || err2 != nil {
			return c11fObs{Err: "bad-spec", Note: fmt.Sprint(err1, err2)}
		}
		po, pn, bo, bn := &Pipeline{}, &Pipeline{}, &Pipeline{}, &Pipeline{}
		if m := c11fGuard("init", func() { po.Init(so, nil); bo.Init(so, nil); bn.Init(sn, nil) }); m != "" {
			return c11fObs{Err: "init-panic", Note: m}
		}
		cleanup = append(cleanup, bo.Close, bn.Close)
		for _, r := range in.Pre {
			obs.Pre = append(obs.Pre, c11fHandle(po, r, mqtt))
		}
		if m := c11fGuard("inherit", func() { pn.Inherit(sn, po, nil) }); m != "" {
			obs.Err, obs.Note = "inherit-panic", m
			return obs
		}
		cleanup = append(cleanup, pn.Close)
		oldH, newH, baseOld, baseNew = po, pn, bo, bn
	}

	for _, op := range in.Ops {
		if op.G == 0 {
			obs.Ops = append(obs.Ops, c11fHandle(oldH, op.Req, mqtt))
			obs.Base = append(obs.Base, c11fHandle(baseOld, op.Req, mqtt))
		} else {
			obs.Ops = append(obs.Ops, c11fHandle(newH, op.Req, mqtt))
			obs.Base = append(obs.Base, c11fHandle(baseNew, op.Req, mqtt))
		}
	}
	obs.Note = c11fFirstStack
	return obs
}

// ---------------------------------------------------------------- generators

func c11fReqGen(r *verifh.Rand) c11fReq {
	q := c11fReq{Method: r.Pick("GET", "GET", "POST"), Path: r.Pick("/a", "/a", "/ab", "/b", "/c", "/")}
	if r.Bool(1, 3) {
		q.Hdr = map[string]string{"X-K": r.Pick("v1", "v2")}
	}
	return q
}

func c11fRateLimiter(r *verifh.Rand) map[string]interface{} {
	pol := func(name string) map[string]interface{} {
		return map[string]interface{}{"name": name, "limitForPeriod": r.PickInt(1, 1, 2, 3), "limitRefreshPeriod": "3600s", "timeoutDuration": "1ms"}
	}
	urls := []interface{}{}
	n := r.Range(1, 3)
	for i := 0; i < n; i++ {
		u := map[string]interface{}{}
		switch r.Intn(4) {
		case 0:
			u["url"] = map[string]interface{}{"exact": r.Pick("/a", "/b")}
		case 1:
			u["url"] = map[string]interface{}{"prefix": r.Pick("/a", "/")}
		case 2:
			u["url"] = map[string]interface{}{"prefix": "/a"}
		default:
			u["url"] = map[string]interface{}{"exact": "/a"}
		}
		if r.Bool(1, 4) {
			u["methods"] = []interface{}{r.Pick("GET", "POST")}
		}
		if r.Bool(1, 2) {
			u["policyRef"] = r.Pick("p", "q")
		}
		urls = append(urls, u)
	}
	return map[string]interface{}{"name": "f", "kind": "RateLimiter", "defaultPolicyRef": r.Pick("p", "p", "q"),
		"policies": []interface{}{pol("p"), pol("q")}, "urls": urls}
}

func c11fClone(m map[string]interface{}) map[string]interface{} {
	b, _ := json.Marshal(m)
	var o map[string]interface{}
	json.Unmarshal(b, &o)
	return o
}

// c11fMutateRL derives the new RateLimiter spec from the old one.
func c11fMutateRL(r *verifh.Rand, old map[string]interface{}) map[string]interface{} {
	n := c11fClone(old)
	urls, _ := n["urls"].([]interface{})
	pols, _ := n["policies"].([]interface{})
	switch r.Intn(8) {
	case 0: // unchanged
	case 1: // change a policy's limit
		if len(pols) > 0 {
			p := pols[r.Intn(len(pols))].(map[string]interface{})
			p["limitForPeriod"] = r.PickInt(1, 2, 3, 4)
		}
	case 2: // drop a URL
		if len(urls) > 1 {
			i := r.Intn(len(urls))
			urls = append(urls[:i:i], urls[i+1:]...)
		}
	case 3: // add a URL in front
		urls = append([]interface{}{map[string]interface{}{"url": map[string]interface{}{"prefix": r.Pick("/", "/a", "/b")}}}, urls...)
	case 4: // reverse
		for i, j := 0, len(urls)-1; i < j; i, j = i+1, j-1 {
			urls[i], urls[j] = urls[j], urls[i]
		}
	case 5: // other default policy
		if n["defaultPolicyRef"] == "p" {
			n["defaultPolicyRef"] = "q"
		} else {
			n["defaultPolicyRef"] = "p"
		}
	case 6: // duplicate a URL (two new rules deep-equal to the same previous rule)
		if len(urls) > 0 {
			urls = append(urls, urls[r.Intn(len(urls))])
		}
	default: // completely new spec
		return c11fRateLimiter(r)
	}
	n["urls"] = urls
	return n
}

type c11fKindGen struct {
	kind string
	gen  func(r *verifh.Rand) (old, nw map[string]interface{}, res []map[string]interface{})
	req  func(r *verifh.Rand) c11fReq // nil: c11fReqGen
}

// c11fMQTTReqGen: packets for the MQTT kinds (client ids / topics / credentials collide with the specs below).
func c11fMQTTReqGen(r *verifh.Rand) c11fReq {
	return c11fReq{Pkt: r.Pick("connect", "publish", "publish", "publish", "subscribe", "disconnect"),
		Client: r.Pick("c1", "c2", "bad1", ""), User: r.Pick("u", "u", "x"), Pass: r.Pick("p", "p", "q"),
		Topic: r.Pick("t/1", "t/2", "/d2s/abc/phone/1/log/error", "/d2s/abc/car/2/raw", "d2s/x", "/g2s/a", ""), Body: r.Pick("", "pl")}
}

// c11fBodyReqGen: HTTP requests with a JSON / non-JSON body (HeaderToJSON, RemoteFilter).
func c11fBodyReqGen(r *verifh.Rand) c11fReq {
	q := c11fHdrReqGen(r)
	q.Method = r.Pick("POST", "PUT", "GET")
	q.Body = r.Pick("", "", `{"a":1}`, `[{"a":1},{"b":2}]`, "x")
	return q
}

// c11fHdrReqGen: most requests carry the header the header-driven kinds look at.
func c11fHdrReqGen(r *verifh.Rand) c11fReq {
	q := c11fReqGen(r)
	if r.Bool(2, 3) {
		q.Hdr = map[string]string{"X-K": r.Pick("v1", "v2", "missing")}
	}
	return q
}

// c11fConnectReqGen: half of the packets are CONNECTs (the only packets MQTTClientAuth looks at).
func c11fConnectReqGen(r *verifh.Rand) c11fReq {
	q := c11fMQTTReqGen(r)
	if r.Bool(1, 2) {
		q.Pkt = "connect"
	}
	return q
}

func c11fSaltedPass(pass, salt string) string {
	h := sha256.Sum256([]byte(pass + salt))
	return hex.EncodeToString(h[:])
}

func c11fHeaderAdapt(r *verifh.Rand) map[string]interface{} {
	return map[string]interface{}{"set": map[string]interface{}{"X-A": r.Pick("1", "2")}, "del": []interface{}{"X-K"}}
}

var c11fKinds = []c11fKindGen{
	{kind: "RateLimiter", gen: func(r *verifh.Rand) (map[string]interface{}, map[string]interface{}, []map[string]interface{}) {
		o := c11fRateLimiter(r)
		return o, c11fMutateRL(r, o), nil
	}},
	{kind: "Proxy", gen: func(r *verifh.Rand) (map[string]interface{}, map[string]interface{}, []map[string]interface{}) {
		mk := func() map[string]interface{} {
			// every server carries a weight >= 1 (all-zero weights are C04's subject, not an update effect)
			srv := []interface{}{map[string]interface{}{"url": "$BACKEND", "weight": r.PickInt(1, 2)}}
			if r.Bool(1, 2) {
				srv = append(srv, map[string]interface{}{"url": "$BACKEND", "weight": r.PickInt(1, 2)})
			}
			pool := map[string]interface{}{"servers": srv,
				"loadBalance": map[string]interface{}{"policy": r.Pick("roundRobin", "random", "ipHash", "weightedRandom")}}
			if r.Bool(1, 2) {
				pool["circuitBreakerPolicy"] = "cb"
			}
			if r.Bool(1, 2) {
				pool["retryPolicy"] = "rt"
			}
			if r.Bool(1, 3) {
				pool["timeout"] = "5s"
			}
			if r.Bool(1, 3) {
				pool["memoryCache"] = map[string]interface{}{"expiration": "10s", "maxEntryBytes": 4096, "codes": []interface{}{200}, "methods": []interface{}{"GET"}}
			}
			pools := []interface{}{pool}
			if r.Bool(1, 3) {
				pools = append(pools, map[string]interface{}{"servers": []interface{}{map[string]interface{}{"url": "$BACKEND", "weight": 1}},
					"filter": map[string]interface{}{"headers": map[string]interface{}{"X-K": map[string]interface{}{"exact": "v1"}}}})
			}
			p := map[string]interface{}{"name": "f", "kind": "Proxy", "pools": pools}
			if r.Bool(1, 3) {
				p["compression"] = map[string]interface{}{"minLength": 1}
			}
			return p
		}
		res := []map[string]interface{}{
			{"name": "cb", "kind": "CircuitBreaker", "slidingWindowType": "COUNT_BASED", "failureRateThreshold": 50, "slidingWindowSize": 10},
			{"name": "rt", "kind": "Retry", "maxAttempts": 2, "waitDuration": "1ms"},
		}
		o := mk()
		if r.Bool(1, 4) {
			return o, c11fClone(o), res
		}
		return o, mk(), res
	}},
	{kind: "Validator", gen: func(r *verifh.Rand) (map[string]interface{}, map[string]interface{}, []map[string]interface{}) {
		mk := func() map[string]interface{} {
			v := map[string]interface{}{"name": "f", "kind": "Validator"}
			switch r.Intn(3) {
			case 0:
				v["headers"] = map[string]interface{}{"X-K": map[string]interface{}{"values": []interface{}{r.Pick("v1", "v2")}}}
			case 1:
				v["basicAuth"] = map[string]interface{}{"mode": "FILE", "userFile": "$USERFILE"}
			default:
				v["jwt"] = map[string]interface{}{"algorithm": "HS256", "secret": "6d79736563726574"}
			}
			return v
		}
		return mk(), mk(), nil
	}},
	{kind: "Mock", gen: func(r *verifh.Rand) (map[string]interface{}, map[string]interface{}, []map[string]interface{}) {
		mk := func() map[string]interface{} {
			return map[string]interface{}{"name": "f", "kind": "Mock", "rules": []interface{}{
				map[string]interface{}{"match": map[string]interface{}{"pathPrefix": r.Pick("/a", "/")}, "code": r.PickInt(200, 201, 202), "body": "x"}}}
		}
		return mk(), mk(), nil
	}},
	{kind: "RequestAdaptor", gen: func(r *verifh.Rand) (map[string]interface{}, map[string]interface{}, []map[string]interface{}) {
		mk := func() map[string]interface{} {
			return map[string]interface{}{"name": "f", "kind": "RequestAdaptor", "method": r.Pick("", "PUT"), "header": c11fHeaderAdapt(r)}
		}
		return mk(), mk(), nil
	}},
	{kind: "ResponseAdaptor", gen: func(r *verifh.Rand) (map[string]interface{}, map[string]interface{}, []map[string]interface{}) {
		mk := func() map[string]interface{} {
			return map[string]interface{}{"name": "f", "kind": "ResponseAdaptor", "header": c11fHeaderAdapt(r), "body": r.Pick("", "b")}
		}
		return mk(), mk(), nil
	}},
	{kind: "CORSAdaptor", gen: func(r *verifh.Rand) (map[string]interface{}, map[string]interface{}, []map[string]interface{}) {
		mk := func() map[string]interface{} {
			return map[string]interface{}{"name": "f", "kind": "CORSAdaptor", "allowedOrigins": []interface{}{r.Pick("*", "http://a")}, "supportCORSRequest": r.Bool(1, 2)}
		}
		return mk(), mk(), nil
	}},
	{kind: "Fallback", gen: func(r *verifh.Rand) (map[string]interface{}, map[string]interface{}, []map[string]interface{}) {
		mk := func() map[string]interface{} {
			return map[string]interface{}{"name": "f", "kind": "Fallback", "mockCode": r.PickInt(200, 503), "mockBody": "fb"}
		}
		return mk(), mk(), nil
	}},
	{kind: "RequestBuilder", gen: func(r *verifh.Rand) (map[string]interface{}, map[string]interface{}, []map[string]interface{}) {
		mk := func() map[string]interface{} {
			return map[string]interface{}{"name": "f", "kind": "RequestBuilder", "template": "method: " + r.Pick("GET", "PUT") + "\nurl: http://x/y\n"}
		}
		return mk(), mk(), nil
	}},
	{kind: "ResponseBuilder", gen: func(r *verifh.Rand) (map[string]interface{}, map[string]interface{}, []map[string]interface{}) {
		mk := func() map[string]interface{} {
			return map[string]interface{}{"name": "f", "kind": "ResponseBuilder", "template": "statusCode: " + r.Pick("200", "201") + "\n"}
		}
		return mk(), mk(), nil
	}},
	{kind: "CertExtractor", gen: func(r *verifh.Rand) (map[string]interface{}, map[string]interface{}, []map[string]interface{}) {
		mk := func() map[string]interface{} {
			return map[string]interface{}{"name": "f", "kind": "CertExtractor", "certIndex": r.PickInt(0, -1), "target": r.Pick("subject", "issuer"), "field": "CommonName", "headerKey": "X-C"}
		}
		return mk(), mk(), nil
	}},
	{kind: "HeaderToJSON", gen: func(r *verifh.Rand) (map[string]interface{}, map[string]interface{}, []map[string]interface{}) {
		mk := func() map[string]interface{} {
			hm := []interface{}{map[string]interface{}{"header": r.Pick("X-K", "x-k", "X-Other"), "json": r.Pick("k", "j")}}
			if r.Bool(1, 3) {
				hm = append(hm, map[string]interface{}{"header": "X-K", "json": "k2"})
			}
			return map[string]interface{}{"name": "f", "kind": "HeaderToJSON", "headerMap": hm}
		}
		return mk(), mk(), nil
	}, req: c11fBodyReqGen},
	{kind: "MeshAdaptor", gen: func(r *verifh.Rand) (map[string]interface{}, map[string]interface{}, []map[string]interface{}) {
		mk := func() map[string]interface{} {
			canary := func() interface{} {
				return map[string]interface{}{"header": c11fHeaderAdapt(r),
					"filter": map[string]interface{}{"headers": map[string]interface{}{"X-K": map[string]interface{}{r.Pick("exact", "prefix"): r.Pick("v1", "v2", "v")}}}}
			}
			cs := []interface{}{canary()}
			if r.Bool(1, 3) {
				cs = append(cs, canary())
			}
			return map[string]interface{}{"name": "f", "kind": "MeshAdaptor", "serviceCanaries": cs}
		}
		return mk(), mk(), nil
	}, req: c11fHdrReqGen},
	{kind: "RemoteFilter", gen: func(r *verifh.Rand) (map[string]interface{}, map[string]interface{}, []map[string]interface{}) {
		mk := func() map[string]interface{} {
			m := map[string]interface{}{"name": "f", "kind": "RemoteFilter", "url": "$BACKEND" + r.Pick("/remote", "/remote/x", "/remote205", "/plain")}
			if r.Bool(1, 2) {
				m["timeout"] = r.Pick("2s", "5s")
			}
			return m
		}
		return mk(), mk(), nil
	}, req: c11fBodyReqGen},
	{kind: "HeaderLookup", gen: func(r *verifh.Rand) (map[string]interface{}, map[string]interface{}, []map[string]interface{}) {
		mk := func() map[string]interface{} {
			m := map[string]interface{}{"name": "f", "kind": "HeaderLookup", "headerKey": r.Pick("X-K", "X-K", "X-None"), "etcdPrefix": r.Pick("pre", "/p2"),
				"headerSetters": []interface{}{map[string]interface{}{"etcdKey": r.Pick("ext-id", "other", "absent"), "headerKey": "X-Ext"}}}
			if r.Bool(1, 3) {
				m["pathRegExp"] = "^/([a-z]+)"
			}
			return m
		}
		return mk(), mk(), nil
	}, req: c11fHdrReqGen},
	{kind: "TopicMapper", gen: func(r *verifh.Rand) (map[string]interface{}, map[string]interface{}, []map[string]interface{}) {
		mk := func() map[string]interface{} {
			pol := func(name string) interface{} {
				return map[string]interface{}{"name": name, "topicIndex": r.PickInt(4, 4, 1),
					"route": []interface{}{
						map[string]interface{}{"topic": "to_cloud", "exprs": []interface{}{"log", r.Pick("status", "event")}},
						map[string]interface{}{"topic": "to_raw", "exprs": []interface{}{".*"}}},
					"headers@int": map[string]interface{}{"0": "d2s", "1": "tenant", "2": r.Pick("device_type", "dt"), "9": "never"}}
			}
			return map[string]interface{}{"name": "f", "kind": "TopicMapper", "matchIndex": r.PickInt(0, 0, 1),
				"route":    []interface{}{map[string]interface{}{"name": "pd", "matchExpr": r.Pick("d2s", "d2s", "abc")}, map[string]interface{}{"name": "pg", "matchExpr": "g2s"}},
				"policies": []interface{}{pol("pd"), pol("pg")},
				"setKV":    map[string]interface{}{"topic": "topic", "headers": "headers"}}
		}
		return mk(), mk(), nil
	}, req: c11fMQTTReqGen},
	{kind: "MQTTClientAuth", gen: func(r *verifh.Rand) (map[string]interface{}, map[string]interface{}, []map[string]interface{}) {
		mk := func() map[string]interface{} {
			salt := r.Pick("", "s")
			auth := []interface{}{map[string]interface{}{"username": "u", "saltedSha256Pass": c11fSaltedPass(r.Pick("p", "p", "q"), salt)}}
			if r.Bool(1, 3) {
				auth = append(auth, map[string]interface{}{"username": "x", "saltedSha256Pass": c11fSaltedPass("p", salt)})
			}
			return map[string]interface{}{"name": "f", "kind": "MQTTClientAuth", "salt": salt, "auth": auth}
		}
		return mk(), mk(), nil
	}, req: c11fConnectReqGen},
	{kind: "ConnectControl", gen: func(r *verifh.Rand) (map[string]interface{}, map[string]interface{}, []map[string]interface{}) {
		mk := func() map[string]interface{} {
			m := map[string]interface{}{"name": "f", "kind": "ConnectControl"}
			if r.Bool(2, 3) {
				m["bannedClients"] = []interface{}{r.Pick("c1", "c2")}
			}
			if r.Bool(2, 3) {
				m["bannedTopics"] = []interface{}{r.Pick("t/1", "t/2")}
			}
			if r.Bool(1, 2) {
				m["bannedClientRe"] = r.Pick("^bad", "^c")
			}
			if r.Bool(1, 3) {
				m["bannedTopicRe"] = "^/d2s/"
			}
			return m
		}
		return mk(), mk(), nil
	}, req: c11fMQTTReqGen},
}

// c11fInventory reports which kinds this harness has generators for (each must be registered and
// its generated spec must create an instance) and which kinds are registered in this test binary.
// The judge compares the former with Model.HotUpdate.exercisedFilterKinds.
func c11fInventory() c11fObs {
	obs := c11fObs{Generators: []string{}, Registered: []string{}}
	r := verifh.NewRand(1)
	for _, kg := range c11fKinds {
		old, _, _ := kg.gen(r)
		name := kg.kind
		if k, _ := old["kind"].(string); k != kg.kind || filters.GetKind(k) == nil {
			name = "!" + kg.kind // label and generated spec disagree, or the kind is not registered
		}
		obs.Generators = append(obs.Generators, name)
	}
	sort.Strings(obs.Generators)
	filters.WalkKind(func(k *filters.Kind) bool {
		obs.Registered = append(obs.Registered, k.Name)
		return true
	})
	sort.Strings(obs.Registered)
	return obs
}

func c11fGen(r *verifh.Rand, i int) interface{} {
	if i == 0 {
		return c11fInput{Kind: "@inventory", Pre: []c11fReq{}, Ops: []c11fOp{}}
	}
	// Half of the cases exercise the kind that moves state between generations.
	var kg c11fKindGen
	if r.Bool(1, 2) {
		kg = c11fKinds[0]
	} else {
		kg = c11fKinds[i%len(c11fKinds)]
	}
	in := c11fInput{Kind: kg.kind, Level: "pipeline", Pre: []c11fReq{}, Ops: []c11fOp{}}
	if r.Bool(1, 3) {
		in.Level = "filter"
		in.Close = r.Bool(1, 2)
	}
	in.Old, in.New, in.Res = kg.gen(r)
	if in.Level == "filter" {
		// resilience policies exist only at pipeline level
		for _, m := range []map[string]interface{}{in.Old, in.New} {
			if pools, ok := m["pools"].([]interface{}); ok {
				for _, p := range pools {
					pm := p.(map[string]interface{})
					delete(pm, "circuitBreakerPolicy")
					delete(pm, "retryPolicy")
				}
			}
		}
		in.Res = nil
	}
	reqGen := kg.req
	if reqGen == nil {
		reqGen = c11fReqGen
	}
	for k := r.Range(0, 4); k > 0; k-- {
		in.Pre = append(in.Pre, reqGen(r))
	}
	for k := r.Range(1, 8); k > 0; k-- {
		g := 0
		if r.Bool(1, 3) {
			g = 1
		}
		in.Ops = append(in.Ops, c11fOp{G: g, Req: reqGen(r)})
	}
	return in
}

func TestVerifC11Filters(t *testing.T) {
	verifh.Run(t, c11fGen, c11fExec, 0)
}
