package pipeline

// Correspondence harness for property C11, harness `resilience`: "once the update has been applied
// every new request sees the new generation" for the pipeline-level `resilience` policies.
//
// A case is a history of pipeline specs  Init(spec_0) ; Inherit(spec_i, previous)*  through the
// anchored entry points (Pipeline.Init / Pipeline.Inherit). Every spec has ONE Proxy filter whose pool
// names a Retry or a CircuitBreaker policy; consecutive specs differ in the policy's parameter in the
// `resilience` section only, in the filter spec only, in both, or in nothing. The backend always
// answers 500 (a failure code of the pool) and counts the transport calls, so what a request does
// shows under WHICH policy it ran:
//
//	Retry(maxAttempts = a):                      every request makes exactly a backend calls
//	CircuitBreaker(minimumNumberOfCalls = m):    of K requests to a fresh generation the first m reach
//	                                             the backend, the others are short-circuited
//
// After every step K requests go to the CURRENT generation; the per-request call counts are compared
// by the Lean judge with the policy of the LAST APPLIED spec (Model.HotUpdate.pRun).

import (
	"encoding/json"
	"fmt"
	"net/http"
	"net/http/httptest"
	"os"
	"sync"
	"sync/atomic"
	"testing"
	"time"

	"github.com/megaease/easegress/pkg/context"
	_ "github.com/megaease/easegress/pkg/filters/proxy"
	"github.com/megaease/easegress/pkg/logger"
	"github.com/megaease/easegress/pkg/protocols/httpprot"
	"github.com/megaease/easegress/pkg/supervisor"
	"github.com/megaease/easegress/pkg/tracing"
	"github.com/megaease/easegress/pkg/util/verifh"
	"gopkg.in/yaml.v3"
)

type c11sGen struct {
	FS int `json:"fs"` // filter-spec variant (the pool's timeout): equal numbers = byte-identical filter spec
	P  int `json:"p"`  // the policy's parameter: Retry.maxAttempts / CircuitBreaker.minimumNumberOfCalls
}

type c11sInput struct {
	Policy string    `json:"policy"` // retry | cb
	Gens   []c11sGen `json:"gens"`
	K      int       `json:"k"` // requests sent to the current generation after every step
}

type c11sObs struct {
	Err   string  `json:"err,omitempty"`
	Note  string  `json:"note,omitempty"`
	Calls [][]int `json:"calls"` // per step, per request: backend calls it caused (-1 = Handle panicked)
}

var (
	c11sOnce    sync.Once
	c11sBackend *httptest.Server
	c11sCalls   int64
)

func c11sSetup() {
	c11sOnce.Do(func() {
		logger.InitNop()
		c11sBackend = httptest.NewServer(http.HandlerFunc(func(w http.ResponseWriter, r *http.Request) {
			atomic.AddInt64(&c11sCalls, 1)
			w.WriteHeader(500)
		}))
	})
}

func c11sSpec(policy string, g c11sGen) (ss *supervisor.Spec, err error) {
	defer func() {
		if p := recover(); p != nil {
			err = fmt.Errorf("%v", p)
		}
	}()
	p := g.P
	if p < 1 {
		p = 1
	}
	if p > 6 {
		p = 6
	}
	fs := g.FS
	if fs < 0 {
		fs = -fs
	}
	pool := map[string]interface{}{"servers": []interface{}{map[string]interface{}{"url": c11sBackend.URL}},
		"failureCodes": []interface{}{500}, "timeout": fmt.Sprintf("%ds", 5+fs%3)}
	var res map[string]interface{}
	if policy == "cb" {
		pool["circuitBreakerPolicy"] = "cb"
		res = map[string]interface{}{"name": "cb", "kind": "CircuitBreaker", "slidingWindowType": "COUNT_BASED",
			"slidingWindowSize": 10, "minimumNumberOfCalls": p, "failureRateThreshold": 50, "waitDurationInOpenState": "1h"}
	} else {
		pool["retryPolicy"] = "rt"
		res = map[string]interface{}{"name": "rt", "kind": "Retry", "maxAttempts": p, "waitDuration": "1ms"}
	}
	doc := map[string]interface{}{"name": "p", "kind": "Pipeline",
		"filters":    []interface{}{map[string]interface{}{"name": "f", "kind": "Proxy", "pools": []interface{}{pool}}},
		"resilience": []interface{}{res}}
	b, err := yaml.Marshal(doc)
	if err != nil {
		return nil, err
	}
	return supervisor.NewSpec(string(b))
}

func c11sRequest(p *Pipeline) (calls int) {
	defer func() {
		if r := recover(); r != nil {
			calls = -1
		}
	}()
	before := atomic.LoadInt64(&c11sCalls)
	stdr, _ := http.NewRequest(http.MethodGet, "http://example.com/r", http.NoBody)
	req, _ := httpprot.NewRequest(stdr)
	req.FetchPayload(1 << 20)
	ctx := context.New(tracing.NoopSpan)
	ctx.SetRequest(context.DefaultNamespace, req)
	resp, _ := httpprot.NewResponse(nil)
	ctx.SetResponse(context.DefaultNamespace, resp)
	p.Handle(ctx)
	return int(atomic.LoadInt64(&c11sCalls) - before)
}

func c11sGuard(what string, fn func()) (msg string) {
	defer func() {
		if p := recover(); p != nil {
			msg = what + ": " + fmt.Sprint(p)
		}
	}()
	fn()
	return ""
}

var c11sStart = time.Now()

func c11sOverBudget() bool {
	b := 8 * time.Second
	if os.Getenv("VERIF_TIER") == "thorough" {
		b = 300 * time.Second
	}
	return os.Getenv("VERIF_MODE") != "replay" && time.Since(c11sStart) > b
}

func c11sExec(raw json.RawMessage) interface{} {
	if c11sOverBudget() {
		return c11sObs{Err: "budget-exhausted"}
	}
	c11sSetup()
	var in c11sInput
	if err := json.Unmarshal(raw, &in); err != nil || (in.Policy != "retry" && in.Policy != "cb") {
		return c11sObs{Err: "bad-input"}
	}
	k := in.K
	if k < 1 {
		k = 1
	}
	if k > 8 {
		k = 8
	}
	obs := c11sObs{Calls: [][]int{}}
	var cur *Pipeline
	defer func() {
		if cur != nil {
			c11sGuard("cleanup", cur.Close)
		}
	}()
	for i, g := range in.Gens {
		ss, err := c11sSpec(in.Policy, g)
		if err != nil {
			obs.Err, obs.Note = "bad-spec", err.Error()
			return obs
		}
		np := &Pipeline{}
		if i == 0 {
			if m := c11sGuard("init", func() { np.Init(ss, nil) }); m != "" {
				obs.Err, obs.Note = "init-panic", m
				return obs
			}
		} else {
			old := cur
			if m := c11sGuard("inherit", func() { np.Inherit(ss, old, nil) }); m != "" {
				obs.Err, obs.Note = "inherit-panic", m
				return obs
			}
		}
		cur = np
		row := []int{}
		for j := 0; j < k; j++ {
			row = append(row, c11sRequest(cur))
		}
		obs.Calls = append(obs.Calls, row)
	}
	return obs
}

func c11sGenCase(r *verifh.Rand, i int) interface{} {
	in := c11sInput{Policy: r.Pick("retry", "cb"), Gens: []c11sGen{}, K: r.PickInt(2, 3)}
	if in.Policy == "cb" {
		in.K = r.PickInt(4, 5, 6)
	}
	fs, p := r.Intn(3), r.Range(1, 4)
	for n := r.Range(2, 5); n > 0; n-- {
		in.Gens = append(in.Gens, c11sGen{FS: fs, P: p})
		switch r.Intn(5) {
		case 0: // no-op re-apply
		case 1, 2, 3: // only the policy's parameter changes (filter spec byte-identical)
			p = 1 + (p+r.Intn(3))%4
		default: // the filter spec changes (and maybe the policy)
			fs = (fs + 1 + r.Intn(2)) % 3
			if r.Bool(1, 2) {
				p = 1 + (p+r.Intn(3))%4
			}
		}
	}
	return in
}

func TestVerifC11Resilience(t *testing.T) {
	verifh.Run(t, c11sGenCase, c11sExec, 0)
}
