package httpserver

// Correspondence harness for property C17, HTTP side, through a REAL HTTPServer:
// `HTTPServer.Init` starts the runtime (fsm goroutine, net/http server behind the
// LimitListener created by `runtime.startServer`), and every capacity change is a
// configuration reload: `HTTPServer.Inherit(nextSpec, previous)` → eventReload →
// `runtime.reload` → `limitListener.SetMaxConnection(nextSpec.MaxConnections)`.
// Injected with `go test -overlay` (quic-go stub).
//
// Operations (same JSON as the limitlistener harness, same judge model):
//
//	dial       a client connects over loopback TCP and sends one HTTP request
//	close k    the client of the k-th accepted connection closes it (net/http then closes
//	           the server side: limitListenerConn.Close → release once); closing an already
//	           closed one is a no-op
//	set n      reload of the HTTPServer with maxConnections = n (grow, shrink below usage, same)
//	half k     the client of the k-th accepted connection sends a request whose handler blocks, then half-closes
//	           (CloseWrite): the connection is still being served and counts until the server closes it
//
// The count of accepted open connections is maintained by `http.Server.ConnState`
// (StateNew right after LimitListener.Accept returned, StateClosed after the connection's
// Close): `maxOpen` is the largest value seen at any accept since the previous snapshot.
// Operations marked "race" are followed by the next one at once; otherwise the harness waits
// until everything is parked (goroutine dump: net/http's Serve loop in Weighted.Acquire or in
// the socket accept with nothing dialled left to accept, every SetMaxCount goroutine finished
// or parked in Acquire, the runtime's fsm idle, every client-side close seen by the server).

import (
	"encoding/json"
	"fmt"
	"net"
	"net/http"
	"reflect"
	goruntime "runtime"
	"strconv"
	"strings"
	"sync"
	"testing"
	"time"
	"unsafe"

	"github.com/megaease/easegress/pkg/context"
	"github.com/megaease/easegress/pkg/context/contexttest"
	"github.com/megaease/easegress/pkg/protocols/httpprot"
	"github.com/megaease/easegress/pkg/supervisor"
	"github.com/megaease/easegress/pkg/util/verifh"
)

type c17rOp struct {
	Op   string `json:"op"`
	K    int    `json:"k,omitempty"`
	N    uint32 `json:"n,omitempty"`
	Race bool   `json:"race,omitempty"`
}

type c17rInput struct {
	Cap0 uint32   `json:"cap0"`
	Ops  []c17rOp `json:"ops"`
}

type c17rSnap struct {
	After     int     `json:"after"`
	Accepted  int     `json:"accepted"`
	Open      []int   `json:"open"`
	MaxOpen   int     `json:"maxOpen"`
	InInner   bool    `json:"inInner"`
	AdjParked int     `json:"adjParked"`
	Cur       int64   `json:"cur"`
	Waiters   []int64 `json:"waiters"`
	Skipped   []int   `json:"skipped"`
	Settled   bool    `json:"settled"`
}

type c17rObs struct {
	Snaps []c17rSnap `json:"snaps"`
	Alive int        `json:"alive"`
	Dials int        `json:"dials"`
	Via   string     `json:"via"`
}

type c17rState struct {
	mu       sync.Mutex
	accepted []string        // remote addresses in accept order
	closed   map[string]bool // StateClosed seen
	closing  map[string]bool // close initiated by the harness (already subtracted from open)
	open     int
	maxOpen  int
}

func (st *c17rState) hook(c net.Conn, s http.ConnState) {
	ra := c.RemoteAddr().String()
	st.mu.Lock()
	defer st.mu.Unlock()
	switch s {
	case http.StateNew:
		st.accepted = append(st.accepted, ra)
		st.open++
		if st.open > st.maxOpen {
			st.maxOpen = st.open
		}
	case http.StateClosed, http.StateHijacked:
		if !st.closed[ra] {
			st.closed[ra] = true
			if !st.closing[ra] {
				st.open--
			}
		}
	}
}

func c17rDump() string {
	buf := make([]byte, 1<<16)
	for {
		n := goruntime.Stack(buf, true)
		if n < len(buf) {
			return string(buf[:n])
		}
		buf = make([]byte, 2*len(buf))
	}
}

// c17rScan: settled = Serve loop, SetMaxCount goroutines and the runtime's fsm are parked;
// serving = a Serve loop exists; inInner = it waits in the socket accept (holding a unit).
func c17rScan() (settled, serving, inInner bool, adj int) {
	settled = true
	fsmSeen := false
	for _, g := range strings.Split(c17rDump(), "\n\n") {
		isAcc := strings.Contains(g, "net/http.(*Server).Serve(")
		isAdj := strings.Contains(g, "sem.(*Semaphore).SetMaxCount.func")
		isFsm := strings.Contains(g, "httpserver.(*runtime).fsm(")
		if !isAcc && !isAdj && !isFsm {
			continue
		}
		hdr := g
		if i := strings.Index(g, "\n"); i >= 0 {
			hdr = g[:i]
		}
		inAcquire := strings.Contains(hdr, "[select") && strings.Contains(g, "semaphore.(*Weighted).Acquire")
		if isAdj && strings.Contains(hdr, "[chan receive") && strings.Contains(g, "semaphore.(*Weighted).Acquire") {
			inAcquire = true // a weight larger than the semaphore's size: parked for ever in `<-ctx.Done()`
		}
		switch {
		case isFsm:
			fsmSeen = true
			if !strings.Contains(hdr, "[chan receive") {
				settled = false
			}
		case isAdj:
			if inAcquire {
				adj++
			} else {
				settled = false
			}
		case isAcc:
			serving = true
			if inAcquire {
				continue
			}
			if strings.Contains(hdr, "[IO wait") && strings.Contains(g, "limitlistener.(*LimitListener).Accept") {
				inInner = true
				continue
			}
			settled = false
		}
	}
	if !fsmSeen {
		settled = false
	}
	return
}

func c17rPeek(r *runtime) (int64, []int64) {
	lv := reflect.ValueOf(r.limitListener).Elem().FieldByName("sem") // *sem.Semaphore (unexported field of another package)
	sv := reflect.NewAt(lv.Type().Elem(), unsafe.Pointer(lv.Pointer())).Elem().FieldByName("sem")
	v := reflect.NewAt(sv.Type().Elem(), unsafe.Pointer(sv.Pointer())).Elem()
	mu := (*sync.Mutex)(unsafe.Pointer(v.FieldByName("mu").UnsafeAddr()))
	mu.Lock()
	defer mu.Unlock()
	cur := v.FieldByName("cur").Int()
	ws := []int64{}
	lst := v.FieldByName("waiters")
	n := int(lst.FieldByName("len").Int())
	e := lst.FieldByName("root").FieldByName("next")
	for i := 0; i < n && !e.IsNil(); i++ {
		el := e.Elem()
		ws = append(ws, el.FieldByName("Value").Elem().FieldByName("n").Int())
		e = el.FieldByName("next")
	}
	return cur, ws
}

func c17rSpec(port int, maxConn uint32, gen int) (*supervisor.Spec, error) {
	// `cacheSize` differs between generations, so a reload with an unchanged cap is still a different spec
	// (both are on needRestartServer's list of options that do not restart the server)
	return supervisor.NewSpec(fmt.Sprintf("kind: HTTPServer\nname: verifc17\nport: %d\nkeepAlive: true\nhttps: false\nmaxConnections: %d\ncacheSize: %d\nrules:\n- paths:\n  - pathPrefix: /busy\n    backend: busy\n",
		port, maxConn, 10+gen%2))
}

func c17rInconclusive(why string) interface{} {
	return map[string]interface{}{"inconclusive": why, "snaps": []c17rSnap{}, "via": "httpserver-reload"}
}

func c17rExec(raw json.RawMessage) interface{} {
	var in c17rInput
	if err := json.Unmarshal(raw, &in); err != nil {
		return map[string]string{"error": "bad-input"}
	}
	if in.Cap0 < 1 {
		in.Cap0 = 1
	}
	if in.Cap0 > 1000 {
		in.Cap0 = 1000
	}
	// backend "busy": the handler of `GET /busy` (header X-Gate: k) signals that it runs and then blocks until the
	// harness opens gate k — a handler that is still busy with a connection whose client has half-closed
	const maxGates = 64
	var gates, entered [maxGates]chan struct{}
	var gateOnce [maxGates]sync.Once
	for g := range gates {
		gates[g], entered[g] = make(chan struct{}), make(chan struct{})
	}
	openGate := func(g int) {
		if g >= 0 && g < maxGates {
			gateOnce[g].Do(func() { close(gates[g]) })
		}
	}
	mapper := &contexttest.MockedMuxMapper{MockedGetHandler: func(name string) (context.Handler, bool) {
		if name != "busy" {
			return nil, false
		}
		return &contexttest.MockedHandler{MockedHandle: func(ctx *context.Context) string {
			if rq, ok := ctx.GetRequest(context.DefaultNamespace).(*httpprot.Request); ok {
				if g, err := strconv.Atoi(rq.HTTPHeader().Get("X-Gate")); err == nil && g >= 0 && g < maxGates {
					select {
					case <-entered[g]:
					default:
						close(entered[g])
					}
					<-gates[g]
				}
			}
			resp, _ := httpprot.NewResponse(nil)
			ctx.SetResponse(context.DefaultNamespace, resp)
			return ""
		}}, true
	}}
	var hs *HTTPServer
	port := 0
	for try := 0; try < 6 && hs == nil; try++ {
		pl, err := net.Listen("tcp", "127.0.0.1:0")
		if err != nil {
			continue
		}
		port = pl.Addr().(*net.TCPAddr).Port
		pl.Close()
		spec, err := c17rSpec(port, in.Cap0, 0)
		if err != nil {
			return map[string]string{"error": "spec:" + err.Error()}
		}
		h := &HTTPServer{}
		h.Init(spec, mapper)
		deadline := time.Now().Add(40 * time.Second)
		ok := false
		for time.Now().Before(deadline) {
			st := h.runtime.getState()
			if st == stateFailed {
				break
			}
			if st == stateRunning {
				if _, serving, _, _ := c17rScan(); serving {
					ok = true
					break
				}
			}
			time.Sleep(200 * time.Microsecond)
		}
		if !ok {
			h.Close()
			continue
		}
		hs = h
	}
	if hs == nil {
		return c17rInconclusive("server-did-not-start")
	}
	r := hs.runtime
	st := &c17rState{closed: map[string]bool{}, closing: map[string]bool{}}
	r.server.ConnState = st.hook // before the first dial; never changed afterwards
	addr := fmt.Sprintf("127.0.0.1:%d", port)

	clients := map[string]net.Conn{} // by local address = the server's RemoteAddr
	clientClosed := map[string]bool{}
	var order []net.Conn
	obs := c17rObs{Snaps: []c17rSnap{}, Via: "httpserver-reload"}
	skipped := []int{}
	gen := 0
	wait := func() (bool, bool, int) {
		deadline := time.Now().Add(40 * time.Second)
		for i := 0; ; i++ {
			if r.startNum != 1 {
				return false, false, 0 // the server was restarted: reported as such, nothing to settle
			}
			goruntime.Gosched()
			ok, serving, inInner, adj := c17rScan()
			if ok && serving && len(r.eventChan) == 0 {
				st.mu.Lock()
				backlog := len(order) - len(st.accepted)
				closesSeen := true
				for a := range clientClosed {
					if !st.closed[a] {
						closesSeen = false
					}
				}
				st.mu.Unlock()
				// a dialled connection that the parked acceptor could take means it is about to move
				if closesSeen && !(inInner && backlog > 0) {
					return true, inInner, adj
				}
			}
			if time.Now().After(deadline) {
				return false, inInner, adj
			}
			if i > 20 {
				time.Sleep(100 * time.Microsecond)
			}
		}
	}
	// one observation: settle, then read the bookkeeping and the semaphore
	observe := func() c17rSnap {
		ok, inInner, adj := wait()
		sn := c17rSnap{Open: []int{}, Settled: ok, InInner: inInner, AdjParked: adj}
		st.mu.Lock()
		sn.Accepted = len(st.accepted)
		for i, a := range st.accepted {
			if !st.closed[a] && !st.closing[a] {
				sn.Open = append(sn.Open, i)
			}
		}
		sn.MaxOpen = st.maxOpen
		st.mu.Unlock()
		sn.Cur, sn.Waiters = c17rPeek(r)
		return sn
	}
	snap := func(after int) {
		// a snapshot is taken only when two consecutive observations (each after its own settling
		// scan) are identical: nothing moved between the goroutine dump and the reads
		sn := observe()
		for tries := 0; tries < 200; tries++ {
			again := observe()
			same := reflect.DeepEqual(sn, again)
			sn = again
			if same || !sn.Settled {
				break
			}
		}
		sn.After, sn.Skipped = after, skipped
		skipped = []int{}
		st.mu.Lock()
		st.maxOpen = st.open
		st.mu.Unlock()
		obs.Snaps = append(obs.Snaps, sn)
	}
	bigSeen := false
	lastSet := in.Cap0
	halfClosed := map[string]bool{}
	gateOf := map[string]int{}
	for i, op := range in.Ops {
		if r.startNum != 1 {
			break
		}
		switch op.Op {
		case "dial":
			c, err := net.DialTimeout("tcp", addr, 40*time.Second)
			if err != nil {
				skipped = append(skipped, i)
				break
			}
			clients[c.LocalAddr().String()] = c
			order = append(order, c)
			obs.Dials++
			c.Write([]byte("GET /verif HTTP/1.1\r\nHost: c17\r\n\r\n"))
		case "close":
			st.mu.Lock()
			a := ""
			if op.K >= 0 && op.K < len(st.accepted) {
				a = st.accepted[op.K]
			}
			st.mu.Unlock()
			c := clients[a]
			switch {
			case a == "" || c == nil:
				skipped = append(skipped, i)
			case clientClosed[a]:
				// already closed: nothing happens (the model's second Close is the identity)
			default:
				clientClosed[a] = true
				// counted as closed from the moment the close is initiated: net/http releases the unit
				// (conn.Close) before it reports StateClosed, so a new accept may be reported first
				st.mu.Lock()
				if !st.closing[a] && !st.closed[a] {
					st.closing[a] = true
					st.open--
				}
				st.mu.Unlock()
				if halfClosed[a] {
					openGate(gateOf[a]) // the busy handler returns; net/http then closes the connection
				}
				c.Close()
				// the server-side Close is asynchronous here; make the operation synchronous as in the model
				for dl := time.Now().Add(40 * time.Second); time.Now().Before(dl); {
					st.mu.Lock()
					seen := st.closed[a]
					st.mu.Unlock()
					if seen || r.startNum != 1 {
						break
					}
					time.Sleep(100 * time.Microsecond)
				}
			}
		case "half":
			// the client of the k-th accepted connection sends `GET /busy`, half-closes (CloseWrite) and the
			// handler stays busy: net/http's background read sees EOF while the connection is still being served
			st.mu.Lock()
			a := ""
			if op.K >= 0 && op.K < len(st.accepted) && op.K < maxGates {
				a = st.accepted[op.K]
			}
			st.mu.Unlock()
			c := clients[a]
			if a == "" || c == nil || clientClosed[a] {
				skipped = append(skipped, i)
				break
			}
			if halfClosed[a] {
				break // already half-closed: nothing more happens
			}
			halfClosed[a] = true
			gateOf[a] = op.K
			c.Write([]byte("GET /busy HTTP/1.1\r\nHost: c17\r\nX-Gate: " + strconv.Itoa(op.K) + "\r\n\r\n"))
			select {
			case <-entered[op.K]:
			case <-time.After(40 * time.Second):
			}
			if tc, ok := c.(*net.TCPConn); ok {
				tc.CloseWrite()
			}
			time.Sleep(2 * time.Millisecond) // let the server's background read return EOF
		case "set":
			// capacities near maxCapacity: only between settled, quiet snapshots, and only shrinks afterwards
			// (a grow next to a pending / parked shrink would make Weighted.Release panic, see the sem harness)
			prevRace := i > 0 && in.Ops[i-1].Race
			quiet := true
			if c17rIsBig(int64(op.N)) || bigSeen {
				_, _, _, adj := c17rScan()
				quiet = adj == 0
			}
			if op.N < 1 || (op.N > 1000 && !c17rIsBig(int64(op.N))) ||
				((c17rIsBig(int64(op.N)) || bigSeen) && (op.Race || prevRace || !quiet)) || (bigSeen && op.N > lastSet) {
				skipped = append(skipped, i)
				break
			}
			if c17rIsBig(int64(op.N)) {
				bigSeen = true
			}
			lastSet = op.N
			gen++
			spec, err := c17rSpec(port, op.N, gen)
			if err != nil {
				skipped = append(skipped, i)
				break
			}
			next := &HTTPServer{}
			next.Inherit(spec, hs, mapper) // eventReload → runtime.reload → SetMaxConnection
			hs = next
		default:
			skipped = append(skipped, i)
		}
		if !op.Race || i == len(in.Ops)-1 {
			snap(i)
		}
	}
	if len(in.Ops) == 0 {
		snap(-1)
	}
	restarted := r.startNum != 1
	// established connections must still work: a second request on each gets an answer
	st.mu.Lock()
	acc := append([]string(nil), st.accepted...)
	st.mu.Unlock()
	for _, a := range acc {
		c := clients[a]
		if c == nil || clientClosed[a] || restarted {
			continue
		}
		c.SetDeadline(time.Now().Add(40 * time.Second))
		if halfClosed[a] {
			openGate(gateOf[a]) // the answer of the busy request must still arrive on the half-closed connection
		} else if _, err := c.Write([]byte("GET /again HTTP/1.1\r\nHost: c17\r\n\r\n")); err != nil {
			continue
		}
		// two responses are due on this connection (first request, this one)
		got := 0
		buf := make([]byte, 4096)
		data := ""
		for got < 2 {
			n, err := c.Read(buf)
			data += string(buf[:n])
			got = strings.Count(data, "HTTP/1.1 ")
			if err != nil {
				break
			}
		}
		if got >= 2 {
			obs.Alive++
		}
	}
	// teardown: un-park adjustment goroutines, stop the server, reset the client sockets
	for i := 0; i < 64 && !bigSeen; i++ {
		_, ws := c17rPeek(r)
		if len(ws) == 0 {
			break
		}
		r.limitListener.SetMaxConnection(1000)
		time.Sleep(200 * time.Microsecond)
	}
	for g := 0; g < maxGates; g++ {
		openGate(g)
	}
	hs.Close()
	// runtime.Close never sets stateClosed, so the runtime's checkFailed goroutine (10 s ticker) would
	// live forever (a small leak per closed HTTPServer in the product; outside C17). Thousands of leaked
	// goroutines make every goroutine dump of the following cases slower: let it end at its next tick.
	r.setState(stateClosed)
	for _, c := range order {
		if tc, ok := c.(*net.TCPConn); ok {
			tc.SetLinger(0)
		}
		c.Close()
	}
	if restarted {
		// only maxConnections / cacheSize changed: runtime.needRestartServer must say no. A restart shuts the
		// listener down and drops the established (idle) connections.
		return map[string]interface{}{"restarted": true, "snaps": obs.Snaps, "via": "httpserver-reload"}
	}
	return obs
}


// capacities at and beyond maxCapacity (20 000 000): the clamp of SetMaxCount
var c17rBigCaps = []int64{19999999, 20000000, 20000001, 25000000, 4294967295}

func c17rIsBig(n int64) bool {
	for _, b := range c17rBigCaps {
		if n == b {
			return true
		}
	}
	return false
}

// c17rGenShrinkQueued: the cap fully used, further clients already waiting (the acceptor is queued in the
// semaphore), a run-time shrink by at least 2 below the number of open connections, then several closes (and
// more dials): while the shrink is parked at most the one Accept that was ahead of it may be served.
func c17rGenShrinkQueued(r *verifh.Rand) interface{} {
	c := r.Range(3, 5)
	in := c17rInput{Cap0: uint32(c)}
	for k := 0; k < c+r.Range(1, 3); k++ {
		in.Ops = append(in.Ops, c17rOp{Op: "dial"})
	}
	in.Ops = append(in.Ops, c17rOp{Op: "set", N: uint32(r.Range(1, c-2))})
	order := []int{}
	for k := 0; k < c; k++ {
		order = append(order, k)
	}
	for k := len(order) - 1; k > 0; k-- { // shuffle
		j := r.Intn(k + 1)
		order[k], order[j] = order[j], order[k]
	}
	for _, k := range order[:r.Range(3, c)] {
		if r.Intn(3) == 0 {
			in.Ops = append(in.Ops, c17rOp{Op: "dial"})
		}
		in.Ops = append(in.Ops, c17rOp{Op: "close", K: k})
	}
	return in
}

// c17rGenBig: reload to a maxConnections at / beyond maxCapacity ("unlimited"), then reload to a small one
// below usage, then closes and dials
func c17rGenBig(r *verifh.Rand) interface{} {
	in := c17rInput{Cap0: uint32(r.PickInt(1, 2, 3))}
	dials := 0
	for k := r.Range(0, 3); k > 0; k-- {
		in.Ops = append(in.Ops, c17rOp{Op: "dial"})
		dials++
	}
	in.Ops = append(in.Ops, c17rOp{Op: "set", N: uint32(c17rBigCaps[r.Intn(len(c17rBigCaps))])})
	for k := r.Range(1, 5); k > 0; k-- {
		in.Ops = append(in.Ops, c17rOp{Op: "dial"})
		dials++
	}
	in.Ops = append(in.Ops, c17rOp{Op: "set", N: uint32(r.Range(1, 3))})
	for k := r.Range(2, 10); k > 0; k-- {
		if r.Intn(2) == 0 {
			in.Ops = append(in.Ops, c17rOp{Op: "dial"})
			dials++
		} else {
			in.Ops = append(in.Ops, c17rOp{Op: "close", K: r.Intn(dials)})
		}
	}
	return in
}

func c17rGen(r *verifh.Rand, i int) interface{} {
	if r.Intn(12) == 0 {
		return c17rGenShrinkQueued(r)
	}
	if r.Intn(12) == 0 {
		return c17rGenBig(r)
	}
	in := c17rInput{Cap0: uint32(r.PickInt(1, 1, 2, 2, 3, 4))}
	n := r.Range(4, 22)
	dials := 0
	capNow := int(in.Cap0)
	raceBias := r.PickInt(0, 0, 2, 5)
	for len(in.Ops) < n {
		var op c17rOp
		switch r.Intn(10) {
		case 0, 1, 2, 3:
			op = c17rOp{Op: "dial"}
			dials++
		case 4, 5:
			if dials == 0 {
				continue
			}
			if r.Intn(4) == 0 {
				op = c17rOp{Op: "half", K: r.Intn(dials)} // the client half-closes while its handler is busy
				break
			}
			op = c17rOp{Op: "close", K: r.Intn(dials)} // may hit a not yet accepted index (skipped) or a closed one
		case 6:
			op = c17rOp{Op: "set", N: uint32(r.Range(1, capNow))} // shrink (possibly below usage) or same
			capNow = int(op.N)
		case 7:
			op = c17rOp{Op: "set", N: uint32(capNow + r.Range(0, 3))} // grow or a reload with an unchanged cap
			capNow = int(op.N)
		case 8:
			op = c17rOp{Op: "set", N: uint32(capNow)} // reload that does not change the cap (e.g. a rules update)
		default:
			op = c17rOp{Op: "set", N: uint32(r.PickInt(1, 2, 3, 5))}
			capNow = int(op.N)
		}
		op.Race = r.Intn(10) < raceBias
		if k := len(in.Ops); k >= 3 && in.Ops[k-1].Race && in.Ops[k-2].Race && in.Ops[k-3].Race {
			op.Race = false // at most four operations race at a time (the judge explores every order)
		}
		if op.Op == "close" || op.Op == "half" {
			op.Race = false // the server-side close is asynchronous: settle after it
			if len(in.Ops) > 0 {
				// whether its target exists must not depend on a race
				in.Ops[len(in.Ops)-1].Race = false
			}
		}
		in.Ops = append(in.Ops, op)
	}
	return in
}

func TestVerifC17Reload(t *testing.T) {
	verifh.Run(t, c17rGen, c17rExec, 240*time.Second)
}
