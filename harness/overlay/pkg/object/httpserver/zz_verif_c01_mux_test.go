package httpserver

// Correspondence harness for properties C01 (routing) and C05 (IP filters in the
// router). Injected with `go test -overlay`. Builds an HTTPServer spec from the
// case, validates it through supervisor.NewSpec (only specs the product accepts
// are served), calls mux.reload and drives mux.ServeHTTP with a recorder and a
// recording MuxMapper. Everything the Lean model treats as an oracle is answered
// here with the Go standard library only (regexp, net.SplitHostPort, Header.Get,
// net.ParseIP / ParseCIDR) plus realip, and shipped in obs.or.

import (
	"encoding/json"
	"net"
	"net/http"
	"net/http/httptest"
	"net/url"
	"regexp"
	"strings"
	"testing"

	"github.com/megaease/easegress/pkg/context"
	"github.com/megaease/easegress/pkg/logger"
	"github.com/megaease/easegress/pkg/protocols/httpprot"
	"github.com/megaease/easegress/pkg/protocols/httpprot/httpstat"
	"github.com/megaease/easegress/pkg/supervisor"
	"github.com/megaease/easegress/pkg/util/verifh"
	"github.com/tomasen/realip"
)

type c01Filter struct {
	BlockByDefault bool     `json:"blockByDefault"`
	AllowIPs       []string `json:"allowIPs,omitempty"`
	BlockIPs       []string `json:"blockIPs,omitempty"`
}

type c01Header struct {
	Key    string   `json:"key"`
	Values []string `json:"values,omitempty"`
	Regexp string   `json:"regexp,omitempty"`
}

type c01Path struct {
	IPFilter       *c01Filter  `json:"ipFilter,omitempty"`
	Path           string      `json:"path,omitempty"`
	PathPrefix     string      `json:"pathPrefix,omitempty"`
	PathRegexp     string      `json:"pathRegexp,omitempty"`
	RewriteTarget  string      `json:"rewriteTarget,omitempty"`
	Methods        []string    `json:"methods,omitempty"`
	Backend        string      `json:"backend"`
	Headers        []c01Header `json:"headers,omitempty"`
	MatchAllHeader bool        `json:"matchAllHeader,omitempty"`
}

type c01Rule struct {
	IPFilter   *c01Filter `json:"ipFilter,omitempty"`
	Host       string     `json:"host,omitempty"`
	HostRegexp string     `json:"hostRegexp,omitempty"`
	Paths      []c01Path  `json:"paths"`
}

type c01Req struct {
	Method     string      `json:"method"`
	Host       string      `json:"host"`
	Path       string      `json:"path"`
	Headers    [][2]string `json:"headers"`
	RemoteAddr string      `json:"remoteAddr"`
}

type c01Input struct {
	XFF       bool       `json:"xff"`
	CacheSize int        `json:"cacheSize,omitempty"`
	Backends  []string   `json:"backends"`
	IPFilter  *c01Filter `json:"ipFilter,omitempty"`
	Rules     []c01Rule  `json:"rules"`
	Req       c01Req     `json:"req"`
}

type c01Addr struct {
	K    string `json:"k,omitempty"`
	Fam  int    `json:"fam"`
	B    []int  `json:"b"`
	Ones int    `json:"ones"`
	Bits int    `json:"bits"`
}

type c01FilterData struct {
	BBD   bool      `json:"bbd"`
	Allow []c01Addr `json:"allow"`
	Block []c01Addr `json:"block"`
}

type c01Oracle struct {
	HostNoPort string          `json:"hostNoPort"`
	IP         string          `json:"ip"`
	Hdr        [][2]string     `json:"hdr"`
	Re         [][]interface{} `json:"re"`
	Rep        [][4]string     `json:"rep"`
	Filters    []c01FilterData `json:"filters"`
	IPParsed   *c01Addr        `json:"ipParsed"`
}

type c01Obs struct {
	Invalid string     `json:"invalid,omitempty"`
	Status  int        `json:"status"`
	Called  bool       `json:"called"`
	Calls   int        `json:"calls"`
	Handler string     `json:"handler"`
	Path    string     `json:"path"`
	Host    string     `json:"host"`
	XFFSeen string     `json:"xffSeen"`
	Or      *c01Oracle `json:"or,omitempty"`
}

func c01Bytes(b []byte) []int {
	out := make([]int, len(b))
	for i, x := range b {
		out[i] = int(x)
	}
	return out
}

// c01AddrOf classifies an address as cidranger does: IPv4 iff To4() != nil.
func c01AddrOf(ip net.IP) *c01Addr {
	if ip == nil {
		return nil
	}
	if v4 := ip.To4(); v4 != nil {
		return &c01Addr{Fam: 4, B: c01Bytes(v4)}
	}
	if v6 := ip.To16(); v6 != nil {
		return &c01Addr{Fam: 6, B: c01Bytes(v6)}
	}
	return nil
}

// c01Raw reports what the standard library makes of one allowIPs/blockIPs entry.
func c01Raw(s string) c01Addr {
	if ip := net.ParseIP(s); ip != nil {
		a := c01AddrOf(ip)
		a.K = "ip"
		return *a
	}
	if _, n, err := net.ParseCIDR(s); err == nil {
		a := c01AddrOf(n.IP)
		if a != nil {
			a.K = "cidr"
			a.Ones, a.Bits = n.Mask.Size()
			return *a
		}
	}
	return c01Addr{K: "bad", B: []int{}}
}

func c01FilterDataOf(f *c01Filter) c01FilterData {
	d := c01FilterData{BBD: f.BlockByDefault, Allow: []c01Addr{}, Block: []c01Addr{}}
	for _, s := range f.AllowIPs {
		d.Allow = append(d.Allow, c01Raw(s))
	}
	for _, s := range f.BlockIPs {
		d.Block = append(d.Block, c01Raw(s))
	}
	return d
}

type c01Recorder struct {
	calls   int
	handler string
	path    string
	host    string
	xff     string
}

type c01Handler struct {
	name string
	rec  *c01Recorder
}

func (h *c01Handler) Handle(ctx *context.Context) string {
	h.rec.calls++
	h.rec.handler = h.name
	if req, ok := ctx.GetRequest(context.DefaultNamespace).(*httpprot.Request); ok {
		h.rec.path = req.Path()
		h.rec.host = req.Host()
		h.rec.xff = req.HTTPHeader().Get("X-Forwarded-For")
	}
	resp, _ := httpprot.NewResponse(nil)
	resp.SetStatusCode(299)
	ctx.SetResponse(context.DefaultNamespace, resp)
	return ""
}

type c01Mapper struct {
	known map[string]bool
	rec   *c01Recorder
}

func (m *c01Mapper) GetHandler(name string) (context.Handler, bool) {
	if !m.known[name] {
		return nil, false
	}
	return &c01Handler{name: name, rec: m.rec}, true
}

func c01SpecYAML(in *c01Input) string {
	// JSON is a subset of YAML (flow style); field names equal the yaml tags.
	m := map[string]interface{}{
		"kind": "HTTPServer", "name": "verif", "port": 10080, "keepAlive": true, "https": false,
		"xForwardedFor": in.XFF, "cacheSize": in.CacheSize, "rules": in.Rules,
	}
	if in.IPFilter != nil {
		m["ipFilter"] = in.IPFilter
	}
	b, _ := json.Marshal(m)
	return string(b)
}

func c01StdRequest(rq *c01Req) *http.Request {
	stdr := &http.Request{
		Method: rq.Method, URL: &url.URL{Path: rq.Path}, Host: rq.Host,
		Proto: "HTTP/1.1", ProtoMajor: 1, ProtoMinor: 1,
		Header: http.Header{}, Body: http.NoBody, RemoteAddr: rq.RemoteAddr,
		RequestURI: rq.Path,
	}
	for _, kv := range rq.Headers {
		if kv[1] == "" {
			continue // an explicitly empty value is indistinguishable from absence for Get
		}
		stdr.Header.Add(kv[0], kv[1])
	}
	return stdr
}

func c01OracleOf(in *c01Input, stdr *http.Request) *c01Oracle {
	or := &c01Oracle{Hdr: [][2]string{}, Re: [][]interface{}{}, Rep: [][4]string{}, Filters: []c01FilterData{}}
	or.HostNoPort = stdr.Host
	if h, _, err := net.SplitHostPort(stdr.Host); err == nil {
		or.HostNoPort = h
	}
	or.IP = realip.FromRequest(stdr)
	or.IPParsed = c01AddrOf(net.ParseIP(or.IP))
	keys := []string{"X-Forwarded-For"}
	var pats []string
	addPat := func(p string) {
		if p == "" {
			return
		}
		for _, q := range pats {
			if q == p {
				return
			}
		}
		pats = append(pats, p)
	}
	if in.IPFilter != nil {
		or.Filters = append(or.Filters, c01FilterDataOf(in.IPFilter))
	}
	for _, r := range in.Rules {
		addPat(r.HostRegexp)
		if r.IPFilter != nil {
			or.Filters = append(or.Filters, c01FilterDataOf(r.IPFilter))
		}
		for _, p := range r.Paths {
			addPat(p.PathRegexp)
			if p.IPFilter != nil {
				or.Filters = append(or.Filters, c01FilterDataOf(p.IPFilter))
			}
			for _, h := range p.Headers {
				addPat(h.Regexp)
				keys = append(keys, h.Key)
			}
			if p.PathRegexp != "" && p.RewriteTarget != "" {
				if re, err := regexp.Compile(p.PathRegexp); err == nil {
					or.Rep = append(or.Rep, [4]string{p.PathRegexp, in.Req.Path, p.RewriteTarget, re.ReplaceAllString(in.Req.Path, p.RewriteTarget)})
				}
			}
		}
	}
	subjects := []string{or.HostNoPort, in.Req.Path}
	seen := map[string]bool{}
	for _, k := range keys {
		if seen[k] {
			continue
		}
		seen[k] = true
		v := stdr.Header.Get(k)
		or.Hdr = append(or.Hdr, [2]string{k, v})
		subjects = append(subjects, v)
	}
	for _, p := range pats {
		re, err := regexp.Compile(p)
		if err != nil {
			continue
		}
		done := map[string]bool{}
		for _, s := range subjects {
			if done[s] {
				continue
			}
			done[s] = true
			or.Re = append(or.Re, []interface{}{p, s, re.MatchString(s)})
		}
	}
	return or
}

func c01Exec(raw json.RawMessage) interface{} {
	var in c01Input
	if err := json.Unmarshal(raw, &in); err != nil {
		return c01Obs{Invalid: "bad-input"}
	}
	if strings.HasPrefix(in.Req.Path, "/.well-known/acme-challenge/") {
		return c01Obs{Invalid: "acme-path"}
	}
	superSpec, err := supervisor.NewSpec(c01SpecYAML(&in))
	if err != nil {
		return c01Obs{Invalid: "spec-rejected"}
	}
	rec := &c01Recorder{}
	mapper := &c01Mapper{known: map[string]bool{}, rec: rec}
	for _, b := range in.Backends {
		mapper.known[b] = true
	}
	m := newMux(httpstat.New(), httpstat.NewTopN(10), mapper)
	m.reload(superSpec, mapper)
	defer m.close()

	stdr := c01StdRequest(&in.Req)
	or := c01OracleOf(&in, stdr)
	w := httptest.NewRecorder()
	m.ServeHTTP(w, stdr)
	return c01Obs{Status: w.Code, Called: rec.calls > 0, Calls: rec.calls, Handler: rec.handler,
		Path: rec.path, Host: rec.host, XFFSeen: rec.xff, Or: or}
}

// ---------------------------------------------------------------- generator

var (
	c01Methods    = []string{"GET", "POST", "PUT", "DELETE", "HEAD"}
	c01ReqMethods = []string{"GET", "GET", "POST", "PUT", "DELETE", "HEAD", "get", "bGET", "PATCH"}
	c01HostRes    = []string{"^a$", "a", "^a", "b$", `^[^.]+\.b$`, ".*", "^$", "^ab?$", "^::1$"}
	c01PathRes    = []string{"^/a", "/a$", "^/(a|b)/?$", "^/([a-z]+)/(.*)$", "b", ".*", "^/a/b$", "/(a)", "^$"}
	c01Targets    = []string{"/r", "/r/", "/$1", "/x$2/$1", "$0/z", "/", "/a"}
	c01HdrKeys    = []string{"X-A", "x-a", "X-B", "X-Forwarded-For"}
	c01HdrVals    = []string{"1", "2", "12", "", "a"}
	c01HdrRes     = []string{"^1$", "1", "^$", ".*", "^[12]$", "^a"}
	c01Backends   = []string{"b0", "b1", "b2", "b3"}
	c01AddrPool   = []string{"1.2.3.4", "1.2.3.5", "1.2.4.4", "9.9.9.9", "10.0.0.1", "2001:db8::1", "2001:db8::2", "2001:db9::1", "::ffff:1.2.3.4", "fe80::1"}
	c01CidrPool   = []string{"1.2.3.0/24", "1.2.0.0/16", "0.0.0.0/0", "1.2.3.4/32", "1.2.3.4/31", "1.2.3.4/30", "128.0.0.0/1", "2001:db8::/32", "::/0", "2001:db8::1/128", "2001:db8::/127", "8000::/1"}
	c01MappedPool = []string{"::ffff:1.2.3.4", "::ffff:1.2.3.0/120", "::ffff:102:304", "::ffff:1.2.0.0/112"}
)

func c01Subset(r *verifh.Rand, pool []string, max int) []string {
	n := r.Range(0, max)
	var out []string
	for k := 0; k < n; k++ {
		s := pool[r.Intn(len(pool))]
		dup := false
		for _, x := range out {
			if x == s {
				dup = true
			}
		}
		if !dup {
			out = append(out, s)
		}
	}
	return out
}

func c01GenFilter(r *verifh.Rand, p int) *c01Filter {
	if !r.Bool(p, 100) {
		return nil
	}
	pool := append(append([]string{}, c01AddrPool...), c01CidrPool...)
	if r.Bool(1, 12) {
		pool = append(pool, c01MappedPool...)
	}
	f := &c01Filter{BlockByDefault: r.Bool(1, 3)}
	switch r.Intn(4) {
	case 0:
		f.AllowIPs = c01Subset(r, pool, 3)
	case 1:
		f.BlockIPs = c01Subset(r, pool, 3)
	default:
		f.AllowIPs = c01Subset(r, pool, 3)
		f.BlockIPs = c01Subset(r, pool, 3)
	}
	return f
}

// c01GenCase builds a rule set and a request from small colliding alphabets; most
// conditions are drawn from the request's own host/path/method/headers so that
// partial matches (path but not method, method but not header, …) are frequent.
func c01GenCase(r *verifh.Rand, filters bool, malformed bool) c01Input {
	hosts := []string{"a", "ab", "a.b", "::1", "x"}
	paths := []string{"/", "/a", "/a/b", "/ab", "/a/", "/b", "/a/b/c"}
	in := c01Input{XFF: r.Bool(1, 2)}
	// request
	rq := c01Req{Method: c01ReqMethods[r.Intn(len(c01ReqMethods))], Path: paths[r.Intn(len(paths))]}
	h := hosts[r.Intn(len(hosts))]
	switch r.Intn(6) {
	case 0:
		if strings.Contains(h, ":") {
			rq.Host = "[" + h + "]:80"
		} else {
			rq.Host = h + ":80"
		}
	case 1:
		if strings.Contains(h, ":") {
			rq.Host = "[" + h + "]:8080"
		} else {
			rq.Host = h + ":8080"
		}
	default:
		rq.Host = h
	}
	if malformed {
		rq.Host = r.Pick("", "a:", ":80", "a:80:90", "[::1]", "A", "a b", "a:80 ", "[::1", "é:80", h+":x")
		rq.Path = r.Pick("", "a", "//a", "/a//b", "/A", "/a%2Fb", "/a?x=1", "/é", "/a/../b", "/.well-known/acme-challenge", "/a b")
		rq.Method = r.Pick("", "GET ", "gEt", "bGET", "GETPOST")
	}
	nh := r.Intn(4)
	for k := 0; k < nh; k++ {
		rq.Headers = append(rq.Headers, [2]string{r.Pick("X-A", "x-a", "X-B", "X-a"), c01HdrVals[r.Intn(len(c01HdrVals))]})
	}
	// client address
	addr := func() string { return c01AddrPool[r.Intn(len(c01AddrPool))] }
	switch r.Intn(8) {
	case 0, 1:
		rq.Headers = append(rq.Headers, [2]string{"X-Forwarded-For", addr()})
	case 2:
		rq.Headers = append(rq.Headers, [2]string{"X-Forwarded-For", r.Pick("10.0.0.1, ", "bogus, ", "192.168.0.1,", " ") + addr() + r.Pick("", ", 9.9.9.9", ",10.0.0.1")})
	case 3:
		rq.Headers = append(rq.Headers, [2]string{"X-Real-Ip", addr()})
	case 4:
		rq.Headers = append(rq.Headers, [2]string{"X-Real-Ip", addr()}, [2]string{"X-Forwarded-For", r.Pick("10.0.0.1", "bogus", "fe80::1, 10.0.0.1", addr())})
	case 5:
		rq.Headers = append(rq.Headers, [2]string{"X-Forwarded-For", r.Pick("bogus", "1.2.3", "1.2.3.4:80", "[2001:db8::1]", "1.2.3.4.5")})
	}
	a := addr()
	switch r.Intn(5) {
	case 0:
		rq.RemoteAddr = a // no port
	case 1:
		rq.RemoteAddr = r.Pick("", "bogus", "bogus:1", "1.2.3.4:")
	default:
		if strings.Contains(a, ":") {
			rq.RemoteAddr = "[" + a + "]:4321"
		} else {
			rq.RemoteAddr = a + ":4321"
		}
	}
	in.Req = rq
	hostNoPort := rq.Host
	if hh, _, err := net.SplitHostPort(rq.Host); err == nil {
		hostNoPort = hh
	}

	fp := 0
	if filters {
		fp = r.PickInt(15, 30, 60)
		in.IPFilter = c01GenFilter(r, fp)
	}
	nr := r.PickInt(1, 2, 2, 3, 3, 4)
	for i := 0; i < nr; i++ {
		rule := c01Rule{Paths: []c01Path{}}
		switch r.Intn(8) {
		case 0, 1: // any host
		case 2, 3, 4:
			rule.Host = hostNoPort
		case 5:
			rule.Host = hosts[r.Intn(len(hosts))]
		case 6:
			rule.HostRegexp = c01HostRes[r.Intn(len(c01HostRes))]
		default:
			rule.Host = hosts[r.Intn(len(hosts))]
			rule.HostRegexp = c01HostRes[r.Intn(len(c01HostRes))]
		}
		if filters {
			rule.IPFilter = c01GenFilter(r, fp)
		}
		np := r.PickInt(0, 1, 2, 2, 3, 3, 4)
		for j := 0; j < np; j++ {
			p := c01Path{Backend: c01Backends[r.Intn(len(c01Backends))]}
			switch r.Intn(12) {
			case 10: // exact path and regexp together
				p.Path = r.Pick(rq.Path, paths[r.Intn(len(paths))])
				p.PathRegexp = c01PathRes[r.Intn(len(c01PathRes))]
			case 11: // all three
				p.Path = paths[r.Intn(len(paths))]
				p.PathPrefix = r.Pick("/a/", "/ab", "/b")
				p.PathRegexp = c01PathRes[r.Intn(len(c01PathRes))]
			case 0: // matches every path
			case 1, 2:
				p.Path = rq.Path
			case 3:
				p.Path = paths[r.Intn(len(paths))]
			case 4, 5:
				p.PathPrefix = r.Pick("/", "/a", "/a/", "/ab", "/b")
			case 6, 7:
				p.PathRegexp = c01PathRes[r.Intn(len(c01PathRes))]
			case 8:
				p.Path = paths[r.Intn(len(paths))]
				p.PathPrefix = r.Pick("/", "/a", "/a/")
			default:
				p.PathPrefix = r.Pick("/a", "/a/", "/b")
				p.PathRegexp = c01PathRes[r.Intn(len(c01PathRes))]
			}
			if !strings.HasPrefix(p.Path, "/") {
				p.Path = ""
			}
			if (p.Path != "" || p.PathPrefix != "" || p.PathRegexp != "") && r.Bool(1, 2) {
				p.RewriteTarget = c01Targets[r.Intn(len(c01Targets))]
			}
			switch r.Intn(6) {
			case 0, 1:
			case 2:
				if rq.Method != "" && strings.ToUpper(rq.Method) == rq.Method && c01ValidMethod(rq.Method) {
					p.Methods = []string{rq.Method}
				}
			case 3:
				p.Methods = []string{c01Methods[r.Intn(len(c01Methods))]}
			default:
				p.Methods = c01Subset(r, c01Methods, 3)
			}
			nhc := r.PickInt(0, 0, 0, 1, 1, 2, 3)
			for k := 0; k < nhc; k++ {
				hc := c01Header{Key: c01HdrKeys[r.Intn(len(c01HdrKeys)-1)]}
				switch r.Intn(3) {
				case 0:
					hc.Values = c01Subset(r, c01HdrVals, 3)
				case 1:
					hc.Regexp = c01HdrRes[r.Intn(len(c01HdrRes))]
				default:
					hc.Values = c01Subset(r, c01HdrVals, 2)
					hc.Regexp = c01HdrRes[r.Intn(len(c01HdrRes))]
				}
				if len(hc.Values) == 0 && hc.Regexp == "" {
					hc.Values = []string{"1"}
				}
				p.Headers = append(p.Headers, hc)
			}
			p.MatchAllHeader = r.Bool(1, 3)
			if filters {
				p.IPFilter = c01GenFilter(r, fp)
			}
			rule.Paths = append(rule.Paths, p)
		}
		in.Rules = append(in.Rules, rule)
	}
	// known backends: usually all, sometimes some missing (503)
	for _, b := range c01Backends {
		if !r.Bool(1, 6) {
			in.Backends = append(in.Backends, b)
		}
	}
	return in
}

func c01ValidMethod(m string) bool {
	for _, x := range []string{"GET", "HEAD", "POST", "PUT", "PATCH", "DELETE", "CONNECT", "OPTIONS", "TRACE"} {
		if x == m {
			return true
		}
	}
	return false
}

func c01Gen(r *verifh.Rand, i int) interface{} {
	return c01GenCase(r, false, i%10 == 9)
}

func c05MuxGen(r *verifh.Rand, i int) interface{} {
	return c01GenCase(r, true, i%20 == 19)
}

func init() { logger.InitNop() }

// TestVerifC01 — routing, no IP filters, route cache off.
func TestVerifC01(t *testing.T) { verifh.Run(t, c01Gen, c01Exec, 0) }

// TestVerifC05Mux — the same router with IP filters at server / rule / path level.
func TestVerifC05Mux(t *testing.T) { verifh.Run(t, c05MuxGen, c01Exec, 0) }
