package httpserver

// Correspondence harness for property C11, part (a): request goroutines run
// against mux.ServeHTTP while another goroutine alternates mux.reload between
// two HTTPServer specs A and B that differ JOINTLY in rules (backend names,
// rewrite targets), options (xForwardedFor) and mux mapper (the set of known
// backends and the identity of the handlers). Every response must be exactly
// what ONE of the two generations produces (the judge evaluates
// Model.HotUpdate.serve for A and for B) — never a mixture, never a 5xx that
// neither generation would answer.
//
// Phases of one case:
//
//	seqA   reload(A); every request template once          (must equal serve A)
//	seqB   reload(B); every request template once          (must equal serve B:
//	       "once the update has been applied every new request sees the new generation")
//	storm  G goroutines x rounds x templates while a reloader alternates A,B,A,B…
//	       (fresh spec objects are parsed from YAML for every reload, as the
//	       supervisor does for a real update); per template the set of distinct
//	       outcomes is reported.

import (
	"encoding/json"
	"fmt"
	"net"
	"net/http"
	"net/http/httptest"
	"os"
	goruntime "runtime"
	"sort"
	"strings"
	"sync"
	"sync/atomic"
	"testing"
	"time"

	"github.com/megaease/easegress/pkg/context"
	"github.com/megaease/easegress/pkg/logger"
	"github.com/megaease/easegress/pkg/protocols/httpprot"
	"github.com/megaease/easegress/pkg/protocols/httpprot/httpstat"
	"github.com/megaease/easegress/pkg/supervisor"
	"github.com/megaease/easegress/pkg/util/verifh"
	"gopkg.in/yaml.v3"
)

type c11mPath struct {
	Path          string   `json:"path,omitempty" yaml:"path,omitempty"`
	PathPrefix    string   `json:"pathPrefix,omitempty" yaml:"pathPrefix,omitempty"`
	Methods       []string `json:"methods,omitempty" yaml:"methods,omitempty"`
	RewriteTarget string   `json:"rewriteTarget,omitempty" yaml:"rewriteTarget,omitempty"`
	Backend       string   `json:"backend" yaml:"backend"`
}

type c11mRule struct {
	Host  string     `json:"host,omitempty" yaml:"host,omitempty"`
	Paths []c11mPath `json:"paths" yaml:"paths"`
}

type c11mGenSpec struct {
	Rules     []c11mRule `json:"rules"`
	XFF       bool       `json:"xForwardedFor"`
	Tag       string     `json:"tag"`      // identity of the mux mapper object of this generation
	Backends  []string   `json:"backends"` // names the mapper knows
	CacheSize int        `json:"cacheSize"`
}

type c11mReq struct {
	Host   string `json:"host"`
	Method string `json:"method"`
	Path   string `json:"path"`
	XFF    string `json:"xff,omitempty"`    // incoming X-Forwarded-For
	Remote string `json:"remote,omitempty"` // RemoteAddr
}

type c11mInput struct {
	A      c11mGenSpec `json:"a"`
	B      c11mGenSpec `json:"b"`
	Reqs   []c11mReq   `json:"reqs"`
	G      int         `json:"g"`
	Rounds int         `json:"rounds"`
}

type c11mOutcome struct {
	Status  int    `json:"status"`
	Handler string `json:"handler"`
	Path    string `json:"path"`
	XFF     string `json:"xff"`
}

type c11mOracle struct {
	HostNoPort  string `json:"hostNoPort"`
	IP          string `json:"ip"`
	XFFContains bool   `json:"xffContains"`
}

type c11mObs struct {
	Err         string          `json:"err,omitempty"`
	Note        string          `json:"note,omitempty"`
	Oracle      []c11mOracle    `json:"oracle"`
	SeqA        []c11mOutcome   `json:"seqA"`
	SeqB        []c11mOutcome   `json:"seqB"`
	Storm       [][]c11mOutcome `json:"storm"`
	Reloads     int64           `json:"reloads"`
	ReloadPanic string          `json:"reloadPanic,omitempty"`
	Served      int64           `json:"served"`
}

type c11mHandler struct{ id string }

func (h *c11mHandler) Handle(ctx *context.Context) string {
	req := ctx.GetInputRequest().(*httpprot.Request)
	resp, _ := httpprot.NewResponse(nil)
	resp.SetStatusCode(200)
	resp.Std().Header.Set("X-H", h.id)
	resp.Std().Header.Set("X-P", req.Path())
	resp.Std().Header.Set("X-F", req.HTTPHeader().Get("X-Forwarded-For"))
	ctx.SetOutputResponse(resp)
	return ""
}

type c11mMapper struct {
	handlers map[string]*c11mHandler
}

func (m *c11mMapper) GetHandler(name string) (context.Handler, bool) {
	h, ok := m.handlers[name]
	if !ok {
		return nil, false
	}
	return h, true
}

func c11mNewMapper(g c11mGenSpec) *c11mMapper {
	m := &c11mMapper{handlers: map[string]*c11mHandler{}}
	for _, b := range g.Backends {
		m.handlers[b] = &c11mHandler{id: g.Tag + ":" + b}
	}
	return m
}

func c11mYAML(g c11mGenSpec) (string, error) {
	rules := g.Rules
	if rules == nil {
		rules = []c11mRule{}
	}
	doc := map[string]interface{}{
		"kind": "HTTPServer", "name": "srv", "port": 10080, "keepAlive": true, "https": false,
		"xForwardedFor": g.XFF, "cacheSize": g.CacheSize, "rules": rules,
	}
	b, err := yaml.Marshal(doc)
	return string(b), err
}

func c11mStdReq(q c11mReq) *http.Request {
	m := q.Method
	if m == "" {
		m = "GET"
	}
	p := q.Path
	if !strings.HasPrefix(p, "/") {
		p = "/" + p
	}
	host := q.Host
	if host == "" {
		host = "a.com"
	}
	r := httptest.NewRequest(m, "http://"+host+p, http.NoBody)
	if q.Remote != "" {
		r.RemoteAddr = q.Remote
	}
	if q.XFF != "" {
		r.Header.Set("X-Forwarded-For", q.XFF)
	}
	return r
}

// c11mServe runs one request; a panic inside ServeHTTP (it would kill the real
// server's connection goroutine) is reported as an outcome of its own.
func c11mServe(m *mux, q c11mReq) (out c11mOutcome) {
	defer func() {
		if p := recover(); p != nil {
			out = c11mOutcome{Status: 599, Handler: "panic:" + fmt.Sprint(p)}
		}
	}()
	rec := httptest.NewRecorder()
	m.ServeHTTP(rec, c11mStdReq(q))
	return c11mOutcome{Status: rec.Code, Handler: rec.Header().Get("X-H"), Path: rec.Header().Get("X-P"), XFF: rec.Header().Get("X-F")}
}

var c11mLogOnce sync.Once

// c11mStart / c11mOverBudget: when the check driver widens the run (VERIF_N_OVERRIDE) the case count can
// exceed what fits into the harness timeout; cases beyond the time budget are reported as skipped
// instead of letting the test binary be killed.
var c11mStart = time.Now()

func c11mOverBudget() bool {
	b := 90 * time.Second
	if os.Getenv("VERIF_TIER") == "thorough" {
		b = 780 * time.Second
	}
	return os.Getenv("VERIF_MODE") != "replay" && time.Since(c11mStart) > b
}

func c11mExec(raw json.RawMessage) interface{} {
	if c11mOverBudget() {
		return c11mObs{Err: "budget-exhausted"}
	}
	c11mLogOnce.Do(logger.InitNop)
	var in c11mInput
	if err := json.Unmarshal(raw, &in); err != nil {
		return c11mObs{Err: "bad-input"}
	}
	ya, err1 := c11mYAML(in.A)
	yb, err2 := c11mYAML(in.B)
	if err1 != nil || err2 != nil {
		return c11mObs{Err: "bad-spec"}
	}
	parse := func(y string) *supervisor.Spec {
		s, err := supervisor.NewSpec(y)
		if err != nil {
			return nil
		}
		return s
	}
	if parse(ya) == nil || parse(yb) == nil {
		_, e1 := supervisor.NewSpec(ya)
		_, e2 := supervisor.NewSpec(yb)
		return c11mObs{Err: "bad-spec", Note: fmt.Sprint(e1, " / ", e2)}
	}
	mapA, mapB := c11mNewMapper(in.A), c11mNewMapper(in.B)
	obs := c11mObs{Oracle: []c11mOracle{}, SeqA: []c11mOutcome{}, SeqB: []c11mOutcome{}, Storm: [][]c11mOutcome{}}
	for _, q := range in.Reqs {
		stdr := c11mStdReq(q)
		hr, _ := httpprot.NewRequest(stdr)
		host := stdr.Host
		if h, _, err := net.SplitHostPort(host); err == nil {
			host = h
		}
		obs.Oracle = append(obs.Oracle, c11mOracle{HostNoPort: host, IP: hr.RealIP(), XFFContains: strings.Contains(q.XFF, hr.RealIP())})
	}

	m := newMux(httpstat.New(), httpstat.NewTopN(10), mapA)
	defer m.close()
	m.reload(parse(ya), mapA)
	for _, q := range in.Reqs {
		obs.SeqA = append(obs.SeqA, c11mServe(m, q))
	}
	m.reload(parse(yb), mapB)
	for _, q := range in.Reqs {
		obs.SeqB = append(obs.SeqB, c11mServe(m, q))
	}

	// storm
	g, rounds := in.G, in.Rounds
	if g < 1 {
		g = 1
	}
	if g > 16 {
		g = 16
	}
	if rounds < 1 {
		rounds = 1
	}
	if rounds > 2000 {
		rounds = 2000
	}
	var stop int32
	var reloads, served int64
	var rwg, wg sync.WaitGroup
	var reloadPanic atomic.Value
	rwg.Add(1)
	// Spec validation (JSON schema) takes milliseconds; a pool of separately parsed spec objects
	// is prepared up front so that the reloader publishes a new generation every few microseconds.
	const pool = 4
	var poolA, poolB [pool]*supervisor.Spec
	for i := 0; i < pool; i++ {
		poolA[i], poolB[i] = parse(ya), parse(yb)
	}
	go func() {
		defer rwg.Done()
		defer func() {
			if p := recover(); p != nil {
				reloadPanic.Store(fmt.Sprint(p))
			}
		}()
		for i := 0; atomic.LoadInt32(&stop) == 0; i++ {
			if i%2 == 0 {
				m.reload(poolA[(i/2)%pool], mapA)
			} else {
				m.reload(poolB[(i/2)%pool], mapB)
			}
			atomic.AddInt64(&reloads, 1)
			goruntime.Gosched()
		}
	}()
	seen := make([]map[c11mOutcome]bool, len(in.Reqs))
	var mu sync.Mutex
	for i := range seen {
		seen[i] = map[c11mOutcome]bool{}
	}
	for w := 0; w < g; w++ {
		wg.Add(1)
		go func(w int) {
			defer wg.Done()
			local := make([]map[c11mOutcome]bool, len(in.Reqs))
			for i := range local {
				local[i] = map[c11mOutcome]bool{}
			}
			for k := 0; k < rounds; k++ {
				for i := range in.Reqs {
					j := (i + w) % len(in.Reqs)
					local[j][c11mServe(m, in.Reqs[j])] = true
					atomic.AddInt64(&served, 1)
				}
				if k%8 == 7 {
					goruntime.Gosched()
				}
			}
			mu.Lock()
			for i := range local {
				for o := range local[i] {
					seen[i][o] = true
				}
			}
			mu.Unlock()
		}(w)
	}
	wg.Wait()
	atomic.StoreInt32(&stop, 1)
	rwg.Wait()
	for i := range seen {
		l := []c11mOutcome{}
		for o := range seen[i] {
			l = append(l, o)
		}
		sort.Slice(l, func(a, b int) bool { return fmt.Sprint(l[a]) < fmt.Sprint(l[b]) })
		obs.Storm = append(obs.Storm, l)
	}
	obs.Reloads, obs.Served = reloads, served
	if p := reloadPanic.Load(); p != nil {
		obs.ReloadPanic = p.(string)
	}
	return obs
}

// ---------------------------------------------------------------- generator

func c11mGenSpecA(r *verifh.Rand) c11mGenSpec {
	g := c11mGenSpec{Tag: "A", XFF: r.Bool(1, 2), CacheSize: r.PickInt(0, 0, 16)}
	nr := r.Range(1, 3)
	for i := 0; i < nr; i++ {
		rule := c11mRule{Host: r.Pick("", "a.com", "a.com", "b.com")}
		np := r.Range(1, 3)
		for j := 0; j < np; j++ {
			p := c11mPath{Backend: r.Pick("p1", "p2", "p3")}
			switch r.Intn(4) {
			case 0:
				p.Path = r.Pick("/x", "/x/y", "/z")
			case 1:
				p.PathPrefix = r.Pick("/x", "/", "/x/")
			case 2:
				p.PathPrefix = "/x"
			}
			if r.Bool(1, 4) {
				p.Methods = []string{r.Pick("GET", "POST")}
			}
			if r.Bool(1, 3) && (p.Path != "" || p.PathPrefix != "") { // validation rejects rewrite on a catch-all path
				p.RewriteTarget = r.Pick("/r", "/r/", "/")
			}
			rule.Paths = append(rule.Paths, p)
		}
		g.Rules = append(g.Rules, rule)
	}
	g.Backends = []string{"p1", "p2", "p3"}
	if r.Bool(1, 4) {
		g.Backends = []string{"p1", "p2"} // p3 unknown: 503 under this generation
	}
	return g
}

// c11mDerive makes B from A: backend names, xForwardedFor and mapper change
// together; sometimes the rules change too.
func c11mDerive(r *verifh.Rand, a c11mGenSpec) c11mGenSpec {
	var b c11mGenSpec
	raw, _ := json.Marshal(a)
	json.Unmarshal(raw, &b)
	b.Tag = "B"
	b.XFF = !a.XFF
	ren := map[string]string{"p1": "q1", "p2": "q2", "p3": "q3"}
	for i := range b.Rules {
		for j := range b.Rules[i].Paths {
			p := &b.Rules[i].Paths[j]
			p.Backend = ren[p.Backend]
			if r.Bool(1, 3) && (p.Path != "" || p.PathPrefix != "") {
				p.RewriteTarget = r.Pick("", "/s", "/s/")
			}
		}
	}
	b.Backends = []string{"q1", "q2", "q3"}
	switch r.Intn(6) {
	case 0:
		b.Backends = []string{"q2", "q3"}
	case 1: // reverse the rules
		for i, j := 0, len(b.Rules)-1; i < j; i, j = i+1, j-1 {
			b.Rules[i], b.Rules[j] = b.Rules[j], b.Rules[i]
		}
	case 2: // drop a rule
		if len(b.Rules) > 1 {
			b.Rules = b.Rules[1:]
		}
	case 3: // a catch-all rule in front
		b.Rules = append([]c11mRule{{Paths: []c11mPath{{PathPrefix: "/", Backend: "q1"}}}}, b.Rules...)
	}
	if r.Bool(1, 8) { // identical content, only the mapper object differs
		b = a
		b.Tag = "B"
	}
	b.CacheSize = r.PickInt(0, 0, 16)
	return b
}

func c11mGen(r *verifh.Rand, i int) interface{} {
	a := c11mGenSpecA(r)
	in := c11mInput{A: a, B: c11mDerive(r, a), G: r.PickInt(2, 4, 4, 8), Rounds: r.PickInt(20, 40, 80)}
	n := r.Range(3, 7)
	for k := 0; k < n; k++ {
		q := c11mReq{Host: r.Pick("a.com", "a.com", "a.com:8080", "b.com", "c.com"), Method: r.Pick("GET", "GET", "POST"),
			Path: r.Pick("/x", "/x", "/x/y", "/xy", "/z", "/")}
		if r.Bool(1, 3) {
			q.XFF = r.Pick("9.9.9.9", "192.0.2.1", "9.9.9.9, 8.8.8.8")
		}
		if r.Bool(1, 3) {
			q.Remote = r.Pick("10.0.0.7:4000", "192.0.2.1:1234")
		}
		in.Reqs = append(in.Reqs, q)
	}
	return in
}

func TestVerifC11Mux(t *testing.T) {
	verifh.Run(t, c11mGen, c11mExec, 0)
}
