package httpserver

// Correspondence harness for property C11, part (a): request goroutines run
// against mux.ServeHTTP while another goroutine alternates mux.reload between
// two HTTPServer specs A and B that differ JOINTLY in rules (backend names,
// rewrite targets), options (xForwardedFor) and mux mapper (the set of known
// backends and the identity of the handlers). Every response must be exactly
// what ONE of the two generations produces (the judge evaluates
// Model.HotUpdate.serve for A and for B) — never a mixture, never a 5xx that
// neither generation would answer.
//
// Phases of one case:
//
//	seqA   reload(A); every request template once          (must equal serve A)
//	seqB   reload(B); every request template once          (must equal serve B:
//	       "once the update has been applied every new request sees the new generation")
//	storm  G goroutines x rounds x templates while a reloader alternates A,B,A,B…
//	       (fresh spec objects are parsed from YAML for every reload, as the
//	       supervisor does for a real update); per template the set of distinct
//	       outcomes is reported.

import (
	"encoding/json"
	"fmt"
	"net"
	"net/http"
	"net/http/httptest"
	"os"
	goruntime "runtime"
	"sort"
	"strings"
	"sync"
	"sync/atomic"
	"testing"
	"time"

	"github.com/megaease/easegress/pkg/context"
	"github.com/megaease/easegress/pkg/logger"
	"github.com/megaease/easegress/pkg/protocols/httpprot"
	"github.com/megaease/easegress/pkg/protocols/httpprot/httpstat"
	"github.com/megaease/easegress/pkg/supervisor"
	"github.com/megaease/easegress/pkg/util/verifh"
	"gopkg.in/yaml.v3"
)

type c11mIPF struct {
	BlockByDefault bool     `json:"blockByDefault" yaml:"blockByDefault"`
	AllowIPs       []string `json:"allowIPs,omitempty" yaml:"allowIPs,omitempty"`
	BlockIPs       []string `json:"blockIPs,omitempty" yaml:"blockIPs,omitempty"`
}

type c11mPath struct {
	IPFilter      *c11mIPF `json:"ipFilter,omitempty" yaml:"ipFilter,omitempty"`
	Path          string   `json:"path,omitempty" yaml:"path,omitempty"`
	PathPrefix    string   `json:"pathPrefix,omitempty" yaml:"pathPrefix,omitempty"`
	Methods       []string `json:"methods,omitempty" yaml:"methods,omitempty"`
	RewriteTarget string   `json:"rewriteTarget,omitempty" yaml:"rewriteTarget,omitempty"`
	Backend       string   `json:"backend" yaml:"backend"`
}

type c11mRule struct {
	IPFilter *c11mIPF   `json:"ipFilter,omitempty" yaml:"ipFilter,omitempty"`
	Host     string     `json:"host,omitempty" yaml:"host,omitempty"`
	Paths    []c11mPath `json:"paths" yaml:"paths"`
}

type c11mGenSpec struct {
	IPFilter  *c11mIPF   `json:"ipFilter,omitempty"`
	Rules     []c11mRule `json:"rules"`
	XFF       bool       `json:"xForwardedFor"`
	Tag       string     `json:"tag"`      // identity of the mux mapper object of this generation
	Backends  []string   `json:"backends"` // names the mapper knows
	CacheSize int        `json:"cacheSize"`
}

type c11mReq struct {
	Host   string `json:"host"`
	Method string `json:"method"`
	Path   string `json:"path"`
	XFF    string `json:"xff,omitempty"`    // incoming X-Forwarded-For
	Remote string `json:"remote,omitempty"` // RemoteAddr
}

type c11mInput struct {
	A      c11mGenSpec `json:"a"`
	B      c11mGenSpec `json:"b"`
	Reqs   []c11mReq   `json:"reqs"`
	G      int         `json:"g"`
	Rounds int         `json:"rounds"`
}

type c11mOutcome struct {
	Status  int    `json:"status"`
	Handler string `json:"handler"`
	Path    string `json:"path"`
	XFF     string `json:"xff"`
}

type c11mOracle struct {
	HostNoPort  string `json:"hostNoPort"`
	IP          string `json:"ip"`
	XFFContains bool   `json:"xffContains"`
}

type c11mObs struct {
	Err         string          `json:"err,omitempty"`
	Note        string          `json:"note,omitempty"`
	Oracle      []c11mOracle    `json:"oracle"`
	SeqA        []c11mOutcome   `json:"seqA"`
	SeqB        []c11mOutcome   `json:"seqB"`
	Storm       [][]c11mOutcome `json:"storm"`
	Reloads     int64           `json:"reloads"`
	ReloadPanic string          `json:"reloadPanic,omitempty"`
	Served      int64           `json:"served"`
}

type c11mHandler struct{ id string }

func (h *c11mHandler) Handle(ctx *context.Context) string {
	req := ctx.GetInputRequest().(*httpprot.Request)
	resp, _ := httpprot.NewResponse(nil)
	resp.SetStatusCode(200)
	resp.Std().Header.Set("X-H", h.id)
	resp.Std().Header.Set("X-P", req.Path())
	resp.Std().Header.Set("X-F", req.HTTPHeader().Get("X-Forwarded-For"))
	ctx.SetOutputResponse(resp)
	return ""
}

type c11mMapper struct {
	handlers map[string]*c11mHandler
}

func (m *c11mMapper) GetHandler(name string) (context.Handler, bool) {
	h, ok := m.handlers[name]
	if !ok {
		return nil, false
	}
	return h, true
}

func c11mNewMapper(g c11mGenSpec) *c11mMapper {
	m := &c11mMapper{handlers: map[string]*c11mHandler{}}
	for _, b := range g.Backends {
		m.handlers[b] = &c11mHandler{id: g.Tag + ":" + b}
	}
	return m
}

func c11mYAML(g c11mGenSpec) (string, error) {
	rules := g.Rules
	if rules == nil {
		rules = []c11mRule{}
	}
	doc := map[string]interface{}{
		"kind": "HTTPServer", "name": "srv", "port": 10080, "keepAlive": true, "https": false,
		"xForwardedFor": g.XFF, "cacheSize": g.CacheSize, "rules": rules,
	}
	if g.IPFilter != nil {
		doc["ipFilter"] = g.IPFilter
	}
	b, err := yaml.Marshal(doc)
	return string(b), err
}

func c11mStdReq(q c11mReq) *http.Request {
	m := q.Method
	if m == "" {
		m = "GET"
	}
	p := q.Path
	if !strings.HasPrefix(p, "/") {
		p = "/" + p
	}
	host := q.Host
	if host == "" {
		host = "a.com"
	}
	r := httptest.NewRequest(m, "http://"+host+p, http.NoBody)
	if q.Remote != "" {
		r.RemoteAddr = q.Remote
	}
	if q.XFF != "" {
		r.Header.Set("X-Forwarded-For", q.XFF)
	}
	return r
}

// c11mServe runs one request; a panic inside ServeHTTP (it would kill the real
// server's connection goroutine) is reported as an outcome of its own.
func c11mServe(m *mux, q c11mReq) (out c11mOutcome) {
	defer func() {
		if p := recover(); p != nil {
			out = c11mOutcome{Status: 599, Handler: "panic:" + fmt.Sprint(p)}
		}
	}()
	rec := httptest.NewRecorder()
	m.ServeHTTP(rec, c11mStdReq(q))
	return c11mOutcome{Status: rec.Code, Handler: rec.Header().Get("X-H"), Path: rec.Header().Get("X-P"), XFF: rec.Header().Get("X-F")}
}

var c11mLogOnce sync.Once

// c11mStart / c11mOverBudget: when the check driver widens the run (VERIF_N_OVERRIDE) the case count can
// exceed what fits into the harness timeout; cases beyond the time budget are reported as skipped
// instead of letting the test binary be killed.
var c11mStart = time.Now()

// Quick tier: the budget is a small multiple of what the tier's own case count needs (storm ≈ 5 s,
// muxhist ≈ 8 s), so that the driver's 5× wider search after a broken obligation stays bounded
// (notes/C11.md, round 3); cases beyond it are `budget-exhausted`, never a verdict.
func c11mOverBudget(quick time.Duration) bool {
	b := quick
	if os.Getenv("VERIF_TIER") == "thorough" {
		b = 780 * time.Second
	}
	return os.Getenv("VERIF_MODE") != "replay" && time.Since(c11mStart) > b
}

func c11mExec(raw json.RawMessage) interface{} {
	if c11mOverBudget(12 * time.Second) {
		return c11mObs{Err: "budget-exhausted"}
	}
	c11mLogOnce.Do(logger.InitNop)
	var in c11mInput
	if err := json.Unmarshal(raw, &in); err != nil {
		return c11mObs{Err: "bad-input"}
	}
	ya, err1 := c11mYAML(in.A)
	yb, err2 := c11mYAML(in.B)
	if err1 != nil || err2 != nil {
		return c11mObs{Err: "bad-spec"}
	}
	parse := func(y string) *supervisor.Spec {
		s, err := supervisor.NewSpec(y)
		if err != nil {
			return nil
		}
		return s
	}
	if parse(ya) == nil || parse(yb) == nil {
		_, e1 := supervisor.NewSpec(ya)
		_, e2 := supervisor.NewSpec(yb)
		return c11mObs{Err: "bad-spec", Note: fmt.Sprint(e1, " / ", e2)}
	}
	mapA, mapB := c11mNewMapper(in.A), c11mNewMapper(in.B)
	obs := c11mObs{Oracle: []c11mOracle{}, SeqA: []c11mOutcome{}, SeqB: []c11mOutcome{}, Storm: [][]c11mOutcome{}}
	for _, q := range in.Reqs {
		stdr := c11mStdReq(q)
		hr, _ := httpprot.NewRequest(stdr)
		host := stdr.Host
		if h, _, err := net.SplitHostPort(host); err == nil {
			host = h
		}
		obs.Oracle = append(obs.Oracle, c11mOracle{HostNoPort: host, IP: hr.RealIP(), XFFContains: strings.Contains(q.XFF, hr.RealIP())})
	}

	m := newMux(httpstat.New(), httpstat.NewTopN(10), mapA)
	defer m.close()
	m.reload(parse(ya), mapA)
	for _, q := range in.Reqs {
		obs.SeqA = append(obs.SeqA, c11mServe(m, q))
	}
	m.reload(parse(yb), mapB)
	for _, q := range in.Reqs {
		obs.SeqB = append(obs.SeqB, c11mServe(m, q))
	}

	// storm
	g, rounds := in.G, in.Rounds
	if g < 1 {
		g = 1
	}
	if g > 16 {
		g = 16
	}
	if rounds < 1 {
		rounds = 1
	}
	if rounds > 2000 {
		rounds = 2000
	}
	var stop int32
	var reloads, served int64
	var rwg, wg sync.WaitGroup
	var reloadPanic atomic.Value
	rwg.Add(1)
	// Spec validation (JSON schema) takes milliseconds; a pool of separately parsed spec objects
	// is prepared up front so that the reloader publishes a new generation every few microseconds.
	const pool = 4
	var poolA, poolB [pool]*supervisor.Spec
	for i := 0; i < pool; i++ {
		poolA[i], poolB[i] = parse(ya), parse(yb)
	}
	go func() {
		defer rwg.Done()
		defer func() {
			if p := recover(); p != nil {
				reloadPanic.Store(fmt.Sprint(p))
			}
		}()
		for i := 0; atomic.LoadInt32(&stop) == 0; i++ {
			if i%2 == 0 {
				m.reload(poolA[(i/2)%pool], mapA)
			} else {
				m.reload(poolB[(i/2)%pool], mapB)
			}
			atomic.AddInt64(&reloads, 1)
			goruntime.Gosched()
		}
	}()
	seen := make([]map[c11mOutcome]bool, len(in.Reqs))
	var mu sync.Mutex
	for i := range seen {
		seen[i] = map[c11mOutcome]bool{}
	}
	for w := 0; w < g; w++ {
		wg.Add(1)
		go func(w int) {
			defer wg.Done()
			local := make([]map[c11mOutcome]bool, len(in.Reqs))
			for i := range local {
				local[i] = map[c11mOutcome]bool{}
			}
			for k := 0; k < rounds; k++ {
				for i := range in.Reqs {
					j := (i + w) % len(in.Reqs)
					local[j][c11mServe(m, in.Reqs[j])] = true
					atomic.AddInt64(&served, 1)
				}
				if k%8 == 7 {
					goruntime.Gosched()
				}
			}
			mu.Lock()
			for i := range local {
				for o := range local[i] {
					seen[i][o] = true
				}
			}
			mu.Unlock()
		}(w)
	}
	wg.Wait()
	atomic.StoreInt32(&stop, 1)
	rwg.Wait()
	for i := range seen {
		l := []c11mOutcome{}
		for o := range seen[i] {
			l = append(l, o)
		}
		sort.Slice(l, func(a, b int) bool { return fmt.Sprint(l[a]) < fmt.Sprint(l[b]) })
		obs.Storm = append(obs.Storm, l)
	}
	obs.Reloads, obs.Served = reloads, served
	if p := reloadPanic.Load(); p != nil {
		obs.ReloadPanic = p.(string)
	}
	return obs
}

// ---------------------------------------------------------------- generator

func c11mGenSpecA(r *verifh.Rand) c11mGenSpec {
	g := c11mGenSpec{Tag: "A", XFF: r.Bool(1, 2), CacheSize: r.PickInt(0, 1, 2, 16)}
	if r.Bool(1, 3) {
		g.IPFilter = c11mIPFGen(r)
	}
	nr := r.Range(1, 3)
	for i := 0; i < nr; i++ {
		rule := c11mRule{Host: r.Pick("", "a.com", "a.com", "b.com")}
		np := r.Range(1, 3)
		for j := 0; j < np; j++ {
			p := c11mPath{Backend: r.Pick("p1", "p2", "p3")}
			switch r.Intn(4) {
			case 0:
				p.Path = r.Pick("/x", "/x/y", "/z")
			case 1:
				p.PathPrefix = r.Pick("/x", "/", "/x/")
			case 2:
				p.PathPrefix = "/x"
			}
			if r.Bool(1, 4) {
				p.Methods = []string{r.Pick("GET", "POST")}
			}
			if r.Bool(1, 3) && (p.Path != "" || p.PathPrefix != "") { // validation rejects rewrite on a catch-all path
				p.RewriteTarget = r.Pick("/r", "/r/", "/")
			}
			rule.Paths = append(rule.Paths, p)
		}
		g.Rules = append(g.Rules, rule)
	}
	g.Backends = []string{"p1", "p2", "p3"}
	if r.Bool(1, 4) {
		g.Backends = []string{"p1", "p2"} // p3 unknown: 503 under this generation
	}
	return g
}

// c11mDerive makes B from A: backend names, xForwardedFor and mapper change
// together; sometimes the rules change too.
func c11mDerive(r *verifh.Rand, a c11mGenSpec) c11mGenSpec {
	var b c11mGenSpec
	raw, _ := json.Marshal(a)
	json.Unmarshal(raw, &b)
	b.Tag = "B"
	b.XFF = !a.XFF
	ren := map[string]string{"p1": "q1", "p2": "q2", "p3": "q3"}
	for i := range b.Rules {
		for j := range b.Rules[i].Paths {
			p := &b.Rules[i].Paths[j]
			p.Backend = ren[p.Backend]
			if r.Bool(1, 3) && (p.Path != "" || p.PathPrefix != "") {
				p.RewriteTarget = r.Pick("", "/s", "/s/")
			}
		}
	}
	b.Backends = []string{"q1", "q2", "q3"}
	switch r.Intn(6) {
	case 0:
		b.Backends = []string{"q2", "q3"}
	case 1: // reverse the rules
		for i, j := 0, len(b.Rules)-1; i < j; i, j = i+1, j-1 {
			b.Rules[i], b.Rules[j] = b.Rules[j], b.Rules[i]
		}
	case 2: // drop a rule
		if len(b.Rules) > 1 {
			b.Rules = b.Rules[1:]
		}
	case 3: // a catch-all rule in front
		b.Rules = append([]c11mRule{{Paths: []c11mPath{{PathPrefix: "/", Backend: "q1"}}}}, b.Rules...)
	}
	if r.Bool(1, 8) { // identical content, only the mapper object differs
		b = a
		b.Tag = "B"
	}
	b.CacheSize = r.PickInt(0, 1, 2, 16)
	if r.Bool(1, 3) {
		// only ONE aspect differs (rules, cache size and everything else stay equal): the server ipFilter or the options
		b = a
		b.Tag = "B"
		b.Backends = a.Backends
		if r.Bool(2, 3) {
			b.IPFilter = c11mIPFGen(r)
			if a.IPFilter != nil && r.Bool(1, 2) {
				b.IPFilter = nil
			}
		} else {
			b.XFF = !a.XFF
		}
	}
	return b
}

var c11mClientIPs = []string{"10.0.0.1", "10.0.0.2", "10.0.0.3"}

func c11mIPFGen(r *verifh.Rand) *c11mIPF {
	f := &c11mIPF{BlockByDefault: r.Bool(1, 4)}
	for _, ip := range c11mClientIPs {
		switch r.Intn(4) {
		case 0:
			f.AllowIPs = append(f.AllowIPs, ip)
		case 1:
			f.BlockIPs = append(f.BlockIPs, ip)
		}
	}
	if r.Bool(1, 6) && len(f.AllowIPs) > 0 {
		f.BlockIPs = append(f.BlockIPs, f.AllowIPs[0]) // allowed and blocked: default decides
	}
	return f
}

func c11mGen(r *verifh.Rand, i int) interface{} {
	a := c11mGenSpecA(r)
	in := c11mInput{A: a, B: c11mDerive(r, a), G: r.PickInt(2, 4, 4, 8), Rounds: r.PickInt(20, 40, 80)}
	n := r.Range(3, 7)
	for k := 0; k < n; k++ {
		q := c11mReq{Host: r.Pick("a.com", "a.com", "a.com:8080", "b.com", "c.com"), Method: r.Pick("GET", "GET", "POST"),
			Path: r.Pick("/x", "/x", "/x/y", "/xy", "/z", "/")}
		if r.Bool(1, 3) {
			q.XFF = r.Pick("9.9.9.9", "192.0.2.1", "9.9.9.9, 8.8.8.8")
		}
		if r.Bool(1, 3) {
			q.Remote = r.Pick("10.0.0.1:4000", "10.0.0.2:4000", "10.0.0.3:4000", "192.0.2.1:1234")
		}
		in.Reqs = append(in.Reqs, q)
	}
	return in
}

func TestVerifC11Mux(t *testing.T) {
	verifh.Run(t, c11mGen, c11mExec, 0)
}

// ---------------------------------------------------------------- sequential histories
//
// TestVerifC11MuxHist: deterministic histories of [request | reload(spec_i)] over a family of
// specs whose members differ from the base in exactly ONE aspect (rules, server / rule / path
// ipFilter, xForwardedFor, backend names + mapper, cacheSize, nothing). The same request keys
// are repeated before and after every reload from different client IPs, so that any state of
// an earlier generation that survives a reload (route cache, filter chains, options, mapper)
// shows up as a response that is not `serve` of the generation installed last.

type c11hOp struct {
	// "reload" (I = index into specs) | "req" (I = index into reqs) |
	// "set" (the current mux mapper now returns a handler tagged Tag for backend Name: a pipeline was
	// created / updated — the HTTPServer is NOT reloaded for that) | "del" (it returns nil,false for Name)
	Op   string `json:"op"`
	I    int    `json:"i"`
	Name string `json:"name,omitempty"`
	Tag  string `json:"tag,omitempty"`
}

type c11hInput struct {
	Specs []c11mGenSpec `json:"specs"`
	Reqs  []c11mReq     `json:"reqs"`
	Hist  []c11hOp      `json:"hist"`
}

type c11hObs struct {
	Err    string        `json:"err,omitempty"`
	Note   string        `json:"note,omitempty"`
	Oracle []c11mOracle  `json:"oracle"`
	Out    []c11mOutcome `json:"out"` // one per executed "req" op, in order
}

func c11hExec(raw json.RawMessage) interface{} {
	c11mLogOnce.Do(logger.InitNop)
	if c11mOverBudget(15 * time.Second) {
		return c11hObs{Err: "budget-exhausted"}
	}
	var in c11hInput
	if err := json.Unmarshal(raw, &in); err != nil {
		return c11hObs{Err: "bad-input"}
	}
	yamls := make([]string, len(in.Specs))
	for i, g := range in.Specs {
		y, err := c11mYAML(g)
		if err != nil {
			return c11hObs{Err: "bad-spec"}
		}
		if _, err := supervisor.NewSpec(y); err != nil {
			return c11hObs{Err: "bad-spec", Note: err.Error()}
		}
		yamls[i] = y
	}
	obs := c11hObs{Oracle: []c11mOracle{}, Out: []c11mOutcome{}}
	for _, q := range in.Reqs {
		stdr := c11mStdReq(q)
		hr, _ := httpprot.NewRequest(stdr)
		host := stdr.Host
		if h, _, err := net.SplitHostPort(host); err == nil {
			host = h
		}
		obs.Oracle = append(obs.Oracle, c11mOracle{HostNoPort: host, IP: hr.RealIP(), XFFContains: strings.Contains(q.XFF, hr.RealIP())})
	}
	m := newMux(httpstat.New(), httpstat.NewTopN(10), &c11mMapper{handlers: map[string]*c11mHandler{}})
	defer m.close()
	loaded := false
	var curMapper *c11mMapper
	for _, op := range in.Hist {
		switch op.Op {
		case "set":
			if curMapper != nil && op.Name != "" {
				curMapper.handlers[op.Name] = &c11mHandler{id: op.Tag}
			}
		case "del":
			if curMapper != nil {
				delete(curMapper.handlers, op.Name)
			}
		case "reload":
			if op.I < 0 || op.I >= len(yamls) {
				continue
			}
			ss, err := supervisor.NewSpec(yamls[op.I]) // a fresh spec object per update, as the supervisor does
			if err != nil {
				return c11hObs{Err: "bad-spec"}
			}
			// a fresh mapper object per reload (set / del below mutate the current one only)
			curMapper = c11mNewMapper(in.Specs[op.I])
			m.reload(ss, curMapper)
			loaded = true
		case "req":
			// The runtime always reloads once before the server accepts connections; a request
			// against newMux's placeholder instance (nil superSpec) is not a hot-update scenario.
			if op.I < 0 || op.I >= len(in.Reqs) || !loaded {
				continue
			}
			obs.Out = append(obs.Out, c11mServe(m, in.Reqs[op.I]))
		}
	}
	return obs
}

func c11hClone(g c11mGenSpec) c11mGenSpec {
	var c c11mGenSpec
	raw, _ := json.Marshal(g)
	json.Unmarshal(raw, &c)
	return c
}

// c11hMember derives a family member that differs from base in exactly one aspect.
func c11hMember(r *verifh.Rand, base c11mGenSpec, k int) c11mGenSpec {
	g := c11hClone(base)
	g.Tag = fmt.Sprintf("S%d", k)
	pickPath := func() *c11mPath {
		if len(g.Rules) == 0 {
			return nil
		}
		ru := &g.Rules[r.Intn(len(g.Rules))]
		if len(ru.Paths) == 0 {
			return nil
		}
		return &ru.Paths[r.Intn(len(ru.Paths))]
	}
	switch r.Intn(9) {
	case 0: // unchanged spec (only the mapper object's tag differs)
	case 1: // server ipFilter only
		if g.IPFilter == nil || r.Bool(2, 3) {
			g.IPFilter = c11mIPFGen(r)
		} else {
			g.IPFilter = nil
		}
	case 2: // rule ipFilter only
		if len(g.Rules) > 0 {
			ru := &g.Rules[r.Intn(len(g.Rules))]
			if ru.IPFilter == nil || r.Bool(2, 3) {
				ru.IPFilter = c11mIPFGen(r)
			} else {
				ru.IPFilter = nil
			}
		}
	case 3: // path ipFilter only
		if p := pickPath(); p != nil {
			if p.IPFilter == nil || r.Bool(2, 3) {
				p.IPFilter = c11mIPFGen(r)
			} else {
				p.IPFilter = nil
			}
		}
	case 4: // xForwardedFor only
		g.XFF = !g.XFF
	case 5: // backend names (and the mapper that knows them) only
		ren := map[string]string{"p1": "q1", "p2": "q2", "p3": "q3", "q1": "p1", "q2": "p2", "q3": "p3"}
		for i := range g.Rules {
			for j := range g.Rules[i].Paths {
				g.Rules[i].Paths[j].Backend = ren[g.Rules[i].Paths[j].Backend]
			}
		}
		for i := range g.Backends {
			g.Backends[i] = ren[g.Backends[i]]
		}
	case 6: // cacheSize only
		g.CacheSize = r.PickInt(0, 1, 2, 16)
	case 7: // rules only: one path's matcher / rewrite / methods
		if p := pickPath(); p != nil {
			switch r.Intn(3) {
			case 0:
				p.Path, p.PathPrefix = "", r.Pick("/x", "/", "/x/")
			case 1:
				if p.Path != "" || p.PathPrefix != "" {
					p.RewriteTarget = r.Pick("", "/s", "/s/")
				}
			default:
				p.Methods = []string{r.Pick("GET", "POST")}
			}
		}
	default: // mapper only: a backend disappears from the mapper (503 under this generation)
		if len(g.Backends) > 1 {
			g.Backends = g.Backends[1:]
		}
	}
	return g
}

func c11hGen(r *verifh.Rand, i int) interface{} {
	base := c11mGenSpecA(r)
	base.Tag = "S0"
	base.CacheSize = r.PickInt(0, 1, 2, 16, 16)
	if r.Bool(1, 2) && len(base.Rules) > 0 {
		base.Rules[r.Intn(len(base.Rules))].IPFilter = c11mIPFGen(r)
	}
	if r.Bool(1, 3) && len(base.Rules) > 0 && len(base.Rules[0].Paths) > 0 {
		base.Rules[0].Paths[0].IPFilter = c11mIPFGen(r)
	}
	in := c11hInput{Specs: []c11mGenSpec{base}}
	n := r.Range(2, 5)
	for k := 1; k < n; k++ {
		src := base
		if r.Bool(1, 3) { // chains of single-aspect changes
			src = in.Specs[len(in.Specs)-1]
		}
		in.Specs = append(in.Specs, c11hMember(r, src, k))
	}
	// request templates: few keys, each from several client IPs / with and without X-Forwarded-For
	nk := r.Range(1, 3)
	for k := 0; k < nk; k++ {
		host := r.Pick("a.com", "a.com", "a.com:8080", "b.com", "c.com")
		method := r.Pick("GET", "GET", "POST")
		path := r.Pick("/x", "/x", "/x/y", "/xy", "/z", "/")
		for _, ip := range c11mClientIPs {
			if r.Bool(3, 4) {
				q := c11mReq{Host: host, Method: method, Path: path, Remote: ip + ":4000"}
				if r.Bool(1, 4) {
					q.XFF = r.Pick("10.0.0.1", "10.0.0.2, 10.0.0.9", "9.9.9.9")
				}
				in.Reqs = append(in.Reqs, q)
			}
		}
	}
	if len(in.Reqs) == 0 {
		in.Reqs = append(in.Reqs, c11mReq{Host: "a.com", Method: "GET", Path: "/x", Remote: "10.0.0.1:4000"})
	}
	burst := func() {
		// every template, in a random rotation, some twice in a row (second one is a cache hit)
		off := r.Intn(len(in.Reqs))
		for k := range in.Reqs {
			j := (k + off) % len(in.Reqs)
			in.Hist = append(in.Hist, c11hOp{Op: "req", I: j})
			if r.Bool(1, 3) {
				in.Hist = append(in.Hist, c11hOp{Op: "req", I: j})
			}
		}
	}
	in.Hist = append(in.Hist, c11hOp{Op: "reload", I: 0})
	burst()
	steps := r.Range(2, 6)
	cur := 0
	for k := 0; k < steps; k++ {
		// 2 of 5 steps change what the mux mapper answers WITHOUT reloading the server (a pipeline was
		// updated / deleted / re-created): the same keys are requested before and after
		if names := in.Specs[cur].Backends; r.Bool(2, 5) && len(names) > 0 {
			name := names[r.Intn(len(names))]
			if r.Bool(1, 3) {
				in.Hist = append(in.Hist, c11hOp{Op: "del", Name: name})
				if r.Bool(1, 2) { // … and re-created after some traffic
					burst()
					in.Hist = append(in.Hist, c11hOp{Op: "set", Name: name, Tag: fmt.Sprintf("G%d:%s", k+1, name)})
				}
			} else {
				in.Hist = append(in.Hist, c11hOp{Op: "set", Name: name, Tag: fmt.Sprintf("G%d:%s", k+1, name)})
			}
			burst()
			continue
		}
		cur = r.Intn(len(in.Specs))
		in.Hist = append(in.Hist, c11hOp{Op: "reload", I: cur})
		burst()
	}
	return in
}

func TestVerifC11MuxHist(t *testing.T) {
	verifh.Run(t, c11hGen, c11hExec, 0)
}
