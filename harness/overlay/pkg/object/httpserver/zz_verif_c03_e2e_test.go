package httpserver

// Correspondence harness for property C03, end-to-end over loopback sockets
// (see zz_verif_proxyenv_test.go for the environment).

import (
	"encoding/json"
	"net/http"
	"strings"
	"testing"

	"github.com/megaease/easegress/pkg/util/verifh"
)

var c03Paths = []string{"/", "/a", "/a/b", "/a%20b", "/a%2Fb", "/a%2fb", "/a%3Fb", "/a%23b", "/a%25b", "/100%25", "/a%2541",
	"/%E4%B8%AD", "/a+b", "/a;p=1", "/a:b", "/a|b", "/a%7Cb", "/a[1]", "/~u", "/a%41", "//a", "/a//b", "/a&b=c", "/a@b", "/a,b", "/a!$'()"}

var c03Queries = []string{"", "", "", "x=1", "x=1&y=2", "x=%20", "x=a+b", "x=%2B", "x", "x=1&x=2", "a=%E4%B8%AD", "q=a/b", "q=a?b", "x=%25", "a;b", "x=[1]", "x=|"}

func c03GenHdrs(r *verifh.Rand) [][2]string {
	var out [][2]string
	e2e := []string{"X-A", "x-a", "X-Ab", "Accept", "Cookie", "Content-Type", "Authorization", "X-Foo", "x-foo", "X-Bar", "Via", "X-Forwarded-For", "If-None-Match"}
	hop := []string{"Keep-Alive", "keep-alive", "Proxy-Connection", "Proxy-Authenticate", "Proxy-Authorization", "TE", "Upgrade"}
	n := r.Range(0, 5)
	for i := 0; i < n; i++ {
		out = append(out, [2]string{e2e[r.Intn(len(e2e))], r.Pick("1", "2", "a,b", "x=y", "v")})
	}
	n = r.PickInt(0, 0, 1, 1, 2, 3)
	for i := 0; i < n; i++ {
		name := hop[r.Intn(len(hop))]
		val := r.Pick("1", "timeout=5", "x")
		switch strings.ToLower(name) {
		case "te":
			val = "trailers"
		case "upgrade":
			val = "websocket"
		}
		out = append(out, [2]string{name, val})
	}
	switch r.Intn(6) {
	case 0:
		out = append(out, [2]string{"Accept-Encoding", "gzip"})
	case 1:
		out = append(out, [2]string{"Accept-Encoding", r.Pick("identity", "deflate", "gzip, deflate, br", "br")})
	case 2:
		out = append(out, [2]string{"Range", "bytes=0-"})
	}
	nc := r.PickInt(0, 1, 1, 2)
	for i := 0; i < nc; i++ {
		var toks []string
		nt := r.Range(0, 3)
		for j := 0; j < nt; j++ {
			t := r.Pick("keep-alive", "Keep-Alive", "X-Foo", "x-foo", "x-bar", "X-A", "x-ab", "Cookie", "upgrade", "TE", "Accept", "")
			toks = append(toks, r.Pick("", " ")+t+r.Pick("", " "))
		}
		out = append(out, [2]string{r.Pick("Connection", "connection"), strings.Join(toks, ",")})
	}
	for i := len(out) - 1; i > 0; i-- {
		j := r.Intn(i + 1)
		out[i], out[j] = out[j], out[i]
	}
	return out
}

func c03Size(r *verifh.Rand, thorough bool) int {
	if r.Bool(1, 40) || (thorough && r.Bool(1, 15)) {
		return r.PickInt(65536, 65537, 131072, 262144)
	}
	return r.PickInt(0, 1, 5, 10, 100, 1000, 2047, 2048, 2049, 4096, 10000)
}

func c03Adaptor(r *verifh.Rand) *pxAdaptor {
	switch r.Intn(6) {
	case 0:
		return &pxAdaptor{Body: r.Pick("hello", "a much longer replacement body, longer than most small payloads in this run ....................")}
	case 1:
		return &pxAdaptor{Compress: true}
	case 2:
		return &pxAdaptor{Decompress: true}
	case 3:
		return &pxAdaptor{Body: "hello", Compress: true}
	case 4:
		return &pxAdaptor{}
	}
	return nil
}

// c03ReqLine adds the RequestAdaptor's request-line / header sections (mostly valid, colliding alphabets).
func c03ReqLine(r *verifh.Rand, a *pxAdaptor, clientMethod string) {
	// (a HEAD request whose method is adapted makes net/http write the backend's body to a client that expects
	// none - SetMethod edits the server's own *http.Request: open known finding C03-head-method-adapted, generated rarely)
	if (clientMethod != "HEAD" && r.Bool(1, 3)) || (clientMethod == "HEAD" && r.Bool(1, 6)) {
		a.Method = r.Pick("GET", "POST", "PUT", "DELETE")
	}
	if r.Bool(1, 3) {
		a.Host = r.Pick("adapted.example", "adapted.example:81", "10.9.9.9")
	}
	switch r.Intn(8) {
	case 0:
		a.Path = &pxPathAd{Replace: r.Pick("/replaced", "/re placed", "/a%2Fb", "/r?x")}
	case 1:
		a.Path = &pxPathAd{AddPrefix: r.Pick("/pre", "/p q", "/pre/")}
	case 2:
		a.Path = &pxPathAd{TrimPrefix: r.Pick("/a", "/a/", "/zzz", "/")}
	case 3:
		a.Path = &pxPathAd{Regexp: r.Pick("^/a", "b$", "/", "[0-9]+", "^/(.*)$"), ReRepl: r.Pick("/x", "", "/$1/y", "%")}
	}
	c03HdrOps(r, a, []string{"X-A", "x-ab", "X-Foo", "Cookie", "X-Added", "Keep-Alive", "Accept"})
}

// c03HdrOps fills the adaptor's `header:` section with distinct keys per sub-section.
func c03HdrOps(r *verifh.Rand, a *pxAdaptor, names []string) {
	if !r.Bool(1, 2) {
		return
	}
	used := map[string]bool{}
	pick := func() string {
		for t := 0; t < 8; t++ {
			n := names[r.Intn(len(names))]
			if !used[http.CanonicalHeaderKey(n)] {
				used[http.CanonicalHeaderKey(n)] = true
				return n
			}
		}
		return ""
	}
	for k := r.Range(0, 2); k > 0; k-- {
		if n := pick(); n != "" {
			a.HDel = append(a.HDel, n)
		}
	}
	for k := r.Range(0, 2); k > 0; k-- {
		if n := pick(); n != "" {
			a.HSet = append(a.HSet, [2]string{n, r.Pick("s1", "s2", "a,b")})
		}
	}
	for k := r.Range(0, 2); k > 0; k-- {
		if n := pick(); n != "" {
			a.HAdd = append(a.HAdd, [2]string{n, r.Pick("a1", "a2")})
		}
	}
}

func c03Limit(r *verifh.Rand) int64 { return int64(r.PickInt(0, 0, 0, -1, -1, 1<<20)) }

func c03Gen(r *verifh.Rand, i int) interface{} {
	thorough := verifh.Env().Thorough()
	sc := pxScenario{}
	sc.Method = r.Pick("GET", "GET", "GET", "HEAD", "HEAD", "POST", "POST", "PUT", "DELETE", "PATCH", "OPTIONS")
	sc.Path = c03Paths[r.Intn(len(c03Paths))]
	sc.Query = c03Queries[r.Intn(len(c03Queries))]
	sc.Host = r.Pick("client.example", "client.example:8080", "10.1.1.1", "a")
	sc.Hdrs = c03GenHdrs(r)
	sc.Body = pxBody{Enc: "none"}
	if sc.Method != "GET" && sc.Method != "HEAD" && sc.Method != "OPTIONS" || r.Bool(1, 8) {
		sc.Body = pxBody{Len: c03Size(r, thorough), Seed: r.Intn(1000), Kind: r.Pick("text", "text", "rand"), Enc: r.Pick("cl", "cl", "chunked")}
		sc.Body.Gzip = r.Bool(1, 5)
	}
	sc.Cfg = pxCfg{Server: r.Pick("ip", "name"), KeepHost: r.Bool(1, 3), Compression: r.PickInt(-1, -1, -1, 0, 100, 2048),
		PathMax: c03Limit(r), ServerMax: c03Limit(r), PoolMax: c03Limit(r), ProxyMax: c03Limit(r)}
	if r.Bool(1, 4) {
		sc.Cfg.ReqAd = c03Adaptor(r)
		if sc.Cfg.ReqAd != nil && sc.Cfg.ReqAd.Decompress && sc.Cfg.ReqAd.Body != "" {
			sc.Cfg.ReqAd.Decompress = false // Init panics on body+decompress (C13's business)
		}
		if sc.Cfg.ReqAd != nil && r.Bool(2, 3) {
			c03ReqLine(r, sc.Cfg.ReqAd, sc.Method)
		}
	}
	if r.Bool(1, 3) {
		sc.Cfg.RespAd = c03Adaptor(r)
		if sc.Cfg.RespAd != nil && r.Bool(1, 2) {
			c03HdrOps(r, sc.Cfg.RespAd, []string{"X-B", "x-b", "Etag", "X-Added", "Cache-Control", "Content-Language"})
		}
	}
	// mirror pool: the filter matches requests carrying X-Mirror: 1
	if r.Bool(1, 5) {
		sc.Cfg.Mirror = &pxMirror{Hdr: "X-Mirror", Val: "1", Server: r.Pick("ip", "name"), KeepHost: r.Bool(1, 3)}
		if r.Bool(3, 4) {
			sc.Hdrs = append(sc.Hdrs, [2]string{r.Pick("X-Mirror", "x-mirror"), r.Pick("1", "1", "1", "2")})
		}
	}
	sc.Backend.Status = r.PickInt(200, 200, 200, 200, 201, 404, 500, 503, 302, 204, 304)
	bh := []string{"X-B", "x-b", "Cache-Control", "Set-Cookie", "Etag", "X-Request-Id", "Content-Language"}
	n := r.Range(0, 4)
	for k := 0; k < n; k++ {
		sc.Backend.Hdrs = append(sc.Backend.Hdrs, [2]string{bh[r.Intn(len(bh))], r.Pick("b", "c=d; Path=/", "no-cache", "\"tag\"", "en")})
	}
	if sc.Backend.Status == 302 {
		sc.Backend.Hdrs = append(sc.Backend.Hdrs, [2]string{"Location", "http://elsewhere.example/x?y=1"})
	}
	if r.Bool(1, 3) && sc.Backend.Status != 204 && sc.Backend.Status != 304 {
		sc.Backend.Hdrs = append(sc.Backend.Hdrs, [2]string{"Content-Type", r.Pick("text/plain", "application/json", "application/octet-stream")})
	}
	sc.Backend.Body = pxBody{Len: c03Size(r, thorough), Seed: r.Intn(1000), Kind: r.Pick("text", "text", "rand"),
		Enc: r.Pick("cl", "cl", "cl", "chunked", "chunked", "close"), Gzip: r.Bool(1, 5)}
	// pool retry policy + failureCodes: the first attempts fail (a listed status, or the connection is closed
	// after the request was read), the body must reach the backend intact on every attempt
	if r.Bool(1, 6) {
		sc.Cfg.Retry = &pxRetry{Max: r.PickInt(1, 2, 3, 3), FailureCodes: []int{503, 502}}
		nf := r.PickInt(0, 1, 1, 2, 3)
		for k := 0; k < nf; k++ {
			pre := pxPre{Kind: "status", Status: r.PickInt(503, 503, 502)}
			if k == 0 && r.Bool(1, 3) {
				pre = pxPre{Kind: "reset"} // only on the first (fresh) connection: the transport itself never retries there
			}
			sc.Backend.Pre = append(sc.Backend.Pre, pre)
		}
		if (sc.Body.Enc == "none" || r.Bool(1, 2)) && sc.Method != "HEAD" {
			sc.Method = r.Pick("POST", "PUT")
			sc.Body = pxBody{Len: r.PickInt(1, 100, 2619, 10000), Seed: r.Intn(1000), Kind: "text", Enc: r.Pick("cl", "chunked")}
		}
		sc.Cfg.Mirror = nil
	}
	// a backend that declares more than it sends, behind a buffered Proxy (with or without `compression:`):
	// never a success (in stream mode the status line is already out; that combination is C07's)
	if sc.Cfg.Retry == nil && r.Bool(1, 12) && sc.Backend.Status != 204 && sc.Backend.Status != 304 && sc.Method != "HEAD" {
		sc.Backend.Body = pxBody{Len: r.PickInt(10, 100, 3000), Seed: r.Intn(1000), Kind: r.Pick("text", "rand"), Enc: "lie"}
		sc.Backend.Body.Decl = sc.Backend.Body.Len + r.PickInt(1, 10, 5000)
		sc.Cfg.PoolMax, sc.Cfg.ProxyMax = int64(r.PickInt(0, 1<<20)), int64(r.PickInt(0, 1<<20))
		if r.Bool(2, 3) {
			sc.Cfg.Compression = r.PickInt(0, 100)
			sc.Hdrs = append(sc.Hdrs, [2]string{"Accept-Encoding", "gzip"})
		}
	}
	return sc
}

func c03Exec(raw json.RawMessage) interface{} {
	var sc pxScenario
	if err := json.Unmarshal(raw, &sc); err != nil {
		return map[string]string{"error": "bad-input"}
	}
	return pxRun(&sc)
}

func TestVerifC03E2E(t *testing.T) {
	verifh.Run(t, c03Gen, c03Exec, 0)
}
