package httpserver

// Correspondence harness for property C03, end-to-end over loopback sockets
// (see zz_verif_proxyenv_test.go for the environment).

import (
	"encoding/json"
	"strings"
	"testing"

	"github.com/megaease/easegress/pkg/util/verifh"
)

var c03Paths = []string{"/", "/a", "/a/b", "/a%20b", "/a%2Fb", "/a%2fb", "/a%3Fb", "/a%23b", "/a%25b", "/100%25", "/a%2541",
	"/%E4%B8%AD", "/a+b", "/a;p=1", "/a:b", "/a|b", "/a%7Cb", "/a[1]", "/~u", "/a%41", "//a", "/a//b", "/a&b=c", "/a@b", "/a,b", "/a!$'()"}

var c03Queries = []string{"", "", "", "x=1", "x=1&y=2", "x=%20", "x=a+b", "x=%2B", "x", "x=1&x=2", "a=%E4%B8%AD", "q=a/b", "q=a?b", "x=%25", "a;b", "x=[1]", "x=|"}

func c03GenHdrs(r *verifh.Rand) [][2]string {
	var out [][2]string
	e2e := []string{"X-A", "x-a", "X-Ab", "Accept", "Cookie", "Content-Type", "Authorization", "X-Foo", "x-foo", "X-Bar", "Via", "X-Forwarded-For", "If-None-Match"}
	hop := []string{"Keep-Alive", "keep-alive", "Proxy-Connection", "Proxy-Authenticate", "Proxy-Authorization", "TE", "Upgrade"}
	n := r.Range(0, 5)
	for i := 0; i < n; i++ {
		out = append(out, [2]string{e2e[r.Intn(len(e2e))], r.Pick("1", "2", "a,b", "x=y", "v")})
	}
	n = r.PickInt(0, 0, 1, 1, 2, 3)
	for i := 0; i < n; i++ {
		name := hop[r.Intn(len(hop))]
		val := r.Pick("1", "timeout=5", "x")
		switch strings.ToLower(name) {
		case "te":
			val = "trailers"
		case "upgrade":
			val = "websocket"
		}
		out = append(out, [2]string{name, val})
	}
	switch r.Intn(6) {
	case 0:
		out = append(out, [2]string{"Accept-Encoding", "gzip"})
	case 1:
		out = append(out, [2]string{"Accept-Encoding", r.Pick("identity", "deflate", "gzip, deflate, br", "br")})
	case 2:
		out = append(out, [2]string{"Range", "bytes=0-"})
	}
	nc := r.PickInt(0, 1, 1, 2)
	for i := 0; i < nc; i++ {
		var toks []string
		nt := r.Range(0, 3)
		for j := 0; j < nt; j++ {
			t := r.Pick("keep-alive", "Keep-Alive", "X-Foo", "x-foo", "x-bar", "X-A", "x-ab", "Cookie", "upgrade", "TE", "Accept", "")
			toks = append(toks, r.Pick("", " ")+t+r.Pick("", " "))
		}
		out = append(out, [2]string{r.Pick("Connection", "connection"), strings.Join(toks, ",")})
	}
	for i := len(out) - 1; i > 0; i-- {
		j := r.Intn(i + 1)
		out[i], out[j] = out[j], out[i]
	}
	return out
}

func c03Size(r *verifh.Rand, thorough bool) int {
	if r.Bool(1, 40) || (thorough && r.Bool(1, 15)) {
		return r.PickInt(65536, 65537, 131072, 262144)
	}
	return r.PickInt(0, 1, 5, 10, 100, 1000, 2047, 2048, 2049, 4096, 10000)
}

func c03Adaptor(r *verifh.Rand) *pxAdaptor {
	switch r.Intn(6) {
	case 0:
		return &pxAdaptor{Body: r.Pick("hello", "a much longer replacement body, longer than most small payloads in this run ....................")}
	case 1:
		return &pxAdaptor{Compress: true}
	case 2:
		return &pxAdaptor{Decompress: true}
	case 3:
		return &pxAdaptor{Body: "hello", Compress: true}
	case 4:
		return &pxAdaptor{}
	}
	return nil
}

func c03Limit(r *verifh.Rand) int64 { return int64(r.PickInt(0, 0, 0, -1, -1, 1<<20)) }

func c03Gen(r *verifh.Rand, i int) interface{} {
	thorough := verifh.Env().Thorough()
	sc := pxScenario{}
	sc.Method = r.Pick("GET", "GET", "GET", "HEAD", "HEAD", "POST", "POST", "PUT", "DELETE", "PATCH", "OPTIONS")
	sc.Path = c03Paths[r.Intn(len(c03Paths))]
	sc.Query = c03Queries[r.Intn(len(c03Queries))]
	sc.Host = r.Pick("client.example", "client.example:8080", "10.1.1.1", "a")
	sc.Hdrs = c03GenHdrs(r)
	sc.Body = pxBody{Enc: "none"}
	if sc.Method != "GET" && sc.Method != "HEAD" && sc.Method != "OPTIONS" || r.Bool(1, 8) {
		sc.Body = pxBody{Len: c03Size(r, thorough), Seed: r.Intn(1000), Kind: r.Pick("text", "text", "rand"), Enc: r.Pick("cl", "cl", "chunked")}
		sc.Body.Gzip = r.Bool(1, 5)
	}
	sc.Cfg = pxCfg{Server: r.Pick("ip", "name"), KeepHost: r.Bool(1, 3), Compression: r.PickInt(-1, -1, -1, 0, 100, 2048),
		PathMax: c03Limit(r), ServerMax: c03Limit(r), PoolMax: c03Limit(r), ProxyMax: c03Limit(r)}
	if r.Bool(1, 4) {
		sc.Cfg.ReqAd = c03Adaptor(r)
		if sc.Cfg.ReqAd != nil && sc.Cfg.ReqAd.Decompress && sc.Cfg.ReqAd.Body != "" {
			sc.Cfg.ReqAd.Decompress = false // Init panics on body+decompress (C13's business)
		}
	}
	if r.Bool(1, 3) {
		sc.Cfg.RespAd = c03Adaptor(r)
	}
	sc.Backend.Status = r.PickInt(200, 200, 200, 200, 201, 404, 500, 503, 302, 204, 304)
	bh := []string{"X-B", "x-b", "Cache-Control", "Set-Cookie", "Etag", "X-Request-Id", "Content-Language"}
	n := r.Range(0, 4)
	for k := 0; k < n; k++ {
		sc.Backend.Hdrs = append(sc.Backend.Hdrs, [2]string{bh[r.Intn(len(bh))], r.Pick("b", "c=d; Path=/", "no-cache", "\"tag\"", "en")})
	}
	if sc.Backend.Status == 302 {
		sc.Backend.Hdrs = append(sc.Backend.Hdrs, [2]string{"Location", "http://elsewhere.example/x?y=1"})
	}
	if r.Bool(1, 3) && sc.Backend.Status != 204 && sc.Backend.Status != 304 {
		sc.Backend.Hdrs = append(sc.Backend.Hdrs, [2]string{"Content-Type", r.Pick("text/plain", "application/json", "application/octet-stream")})
	}
	sc.Backend.Body = pxBody{Len: c03Size(r, thorough), Seed: r.Intn(1000), Kind: r.Pick("text", "text", "rand"),
		Enc: r.Pick("cl", "cl", "cl", "chunked", "chunked", "close"), Gzip: r.Bool(1, 5)}
	return sc
}

func c03Exec(raw json.RawMessage) interface{} {
	var sc pxScenario
	if err := json.Unmarshal(raw, &sc); err != nil {
		return map[string]string{"error": "bad-input"}
	}
	return pxRun(&sc)
}

func TestVerifC03E2E(t *testing.T) {
	verifh.Run(t, c03Gen, c03Exec, 0)
}
