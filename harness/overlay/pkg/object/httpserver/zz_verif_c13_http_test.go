package httpserver

// Correspondence harness for property C13, HTTPServer object (mux level). Injected with
// `go test -overlay` (quic-go stub). One case = an HTTPServer spec tree (port, keep-alive, https /
// http3 flags, ip filters on three levels, rules with host / hostRegexp, paths with path / prefix /
// regexp / rewriteTarget / methods / headers) + the set of known backends + 1-3 requests.
// supervisor.NewSpec (JSON-schema tags + Spec/Path/Header.Validate) decides accept / reject; for
// accepted specs the harness does what HTTPServer's runtime does with a spec, without opening a
// socket: newMux + mux.reload (newMuxRule / newMuxPath / initHeaderRoute / ipfilter.New), ServeHTTP
// per request, a second reload with the same spec (hot update), ServeHTTP again, close — each under
// recover with phase + stack frames.

import (
	"bytes"
	"encoding/json"
	"fmt"
	"net"
	"net/http"
	"net/http/httptest"
	"net/url"
	"regexp"
	"runtime/debug"
	"strings"
	"testing"
	"time"

	yaml "gopkg.in/yaml.v2"

	zipkingo "github.com/openzipkin/zipkin-go"

	"github.com/megaease/easegress/pkg/context"
	"github.com/megaease/easegress/pkg/protocols/httpprot"
	"github.com/megaease/easegress/pkg/protocols/httpprot/httpstat"
	"github.com/megaease/easegress/pkg/supervisor"
	"github.com/megaease/easegress/pkg/util/verifh"
)

type c13hM = map[string]interface{}

type c13hReq struct {
	Method     string      `json:"method"`
	Host       string      `json:"host"`
	Path       string      `json:"path"`
	Headers    [][2]string `json:"headers"`
	RemoteAddr string      `json:"remoteAddr"`
}

type c13hInput struct {
	Spec c13hM `json:"spec"`
	// Tracing2: when present, the second reload (hot update) uses the spec with this `tracing` section
	// ("-" = section removed), so that the tracer is re-selected.
	Tracing2 interface{} `json:"tracing2,omitempty"`
	Backends []string  `json:"backends"`
	Reqs     []c13hReq `json:"reqs"`
}

type c13hCrash struct {
	Phase  string   `json:"phase"`
	Site   string   `json:"site"`
	Msg    string   `json:"msg"`
	Req    int      `json:"req"`
	Frames []string `json:"frames"`
}

type c13hStr struct {
	Re  bool  `json:"re"`
	Dur bool  `json:"dur"`
	Ns  int64 `json:"ns"`
	URL bool  `json:"url"`
	IP  bool  `json:"ip"` // net.ParseIP or net.ParseCIDR ok
}

type c13hObs struct {
	Accepted bool               `json:"accepted"`
	Err      string             `json:"err"`
	Crash    *c13hCrash         `json:"crash"`
	Status   []int              `json:"status"`
	Oracle   map[string]c13hStr `json:"oracle"`
}

func c13hOracle(s string) c13hStr {
	o := c13hStr{}
	_, err := regexp.Compile(s)
	o.Re = err == nil
	d, err := time.ParseDuration(s)
	o.Dur = err == nil
	o.Ns = int64(d)
	_, err = url.Parse(s)
	o.URL = err == nil
	if net.ParseIP(s) != nil {
		o.IP = true
	} else if _, _, err := net.ParseCIDR(s); err == nil {
		o.IP = true
	}
	return o
}

// c13hHostports: `tracing.zipkin.hostport` strings are answered separately (zipkin's NewEndpoint, what
// ZipkinSpec.Validate calls) under the key "hostport|<s>", in the `url` field.
func c13hHostports(spec c13hM, out map[string]c13hStr) {
	add := func(v interface{}) {
		if t, ok := v.(map[string]interface{}); ok {
			if z, ok := t["zipkin"].(map[string]interface{}); ok {
				if hp, ok := z["hostport"].(string); ok {
					_, err := zipkingo.NewEndpoint("", hp)
					out["hostport|"+hp] = c13hStr{URL: err == nil}
				}
			}
		}
	}
	add(spec["tracing"])
}

func c13hWalk(v interface{}, out map[string]c13hStr) {
	switch x := v.(type) {
	case string:
		if _, ok := out[x]; !ok && len(out) < 400 {
			out[x] = c13hOracle(x)
		}
	case []interface{}:
		for _, e := range x {
			c13hWalk(e, out)
		}
	case map[string]interface{}:
		for _, e := range x {
			c13hWalk(e, out)
		}
	}
}

func c13hFrames(stack string) (string, []string) {
	const pre = "github.com/megaease/easegress/pkg/"
	site, out := "?", []string{}
	for _, ln := range strings.Split(stack, "\n") {
		if ln == "" || ln[0] == '\t' || strings.HasPrefix(ln, "goroutine ") || strings.HasPrefix(ln, "runtime.") ||
			strings.HasPrefix(ln, "runtime/debug.") || strings.HasPrefix(ln, "panic(") || strings.HasPrefix(ln, "created by") {
			continue
		}
		if strings.Contains(ln, "verifh") || strings.Contains(ln, ".c13h") || strings.Contains(ln, "testing.") {
			continue
		}
		f := strings.TrimPrefix(ln, pre)
		if i := strings.LastIndexByte(f, '('); i > 0 {
			f = f[:i]
		}
		// the site is the first frame of the object under test (pkg/object/httpserver); a frame of a
		// helper package above it (e.g. a method called on a nil *tracing.Tracer) stays in `frames`
		if (site == "?" || !strings.HasPrefix(site, "object/httpserver.")) && strings.HasPrefix(f, "object/httpserver.") {
			site = f
		} else if site == "?" && strings.HasPrefix(ln, pre) {
			site = f
		}
		if len(out) > 0 && out[len(out)-1] == f {
			continue
		}
		out = append(out, f)
		if len(out) >= 30 {
			break
		}
	}
	return site, out
}

// c13hAborted: the last c13hTry recovered http.ErrAbortHandler — mux.serveHTTP's deliberate abort of ONE
// response whose body could not be copied completely (net/http recovers it and closes the connection).
var c13hAborted bool

func c13hTry(phase string, req int, f func()) (c *c13hCrash) {
	c13hAborted = false
	defer func() {
		if p := recover(); p != nil {
			if p == http.ErrAbortHandler {
				c13hAborted = true
				return
			}
			msg := fmt.Sprint(p)
			if len(msg) > 160 {
				msg = msg[:160]
			}
			site, frames := c13hFrames(string(debug.Stack()))
			c = &c13hCrash{Phase: phase, Site: site, Msg: msg, Req: req, Frames: frames}
		}
	}()
	f()
	return nil
}

// c13hCollector: a local zipkin collector that answers 202 at once. The generated `serverURL`s point at a
// refusing port; before the document is handed to validation they are redirected here (both are well-formed
// URLs, which is all validation and the model look at), so that the zipkin HTTP reporter never waits on the
// network when it flushes at reload / close.
var c13hCollector = httptest.NewServer(http.HandlerFunc(func(w http.ResponseWriter, r *http.Request) {
	w.WriteHeader(http.StatusAccepted)
}))

func c13hRedirect(tr interface{}) {
	if t, ok := tr.(map[string]interface{}); ok {
		if z, ok := t["zipkin"].(map[string]interface{}); ok {
			if u, ok := z["serverURL"].(string); ok && strings.HasPrefix(u, "http://127.0.0.1:1") {
				z["serverURL"] = c13hCollector.URL + strings.TrimPrefix(u, "http://127.0.0.1:1")
			}
		}
	}
}

type c13hHandler struct{}

// c13hFailReader: a response payload whose source fails (only when the request asks for it).
type c13hFailReader struct{}

func (c13hFailReader) Read([]byte) (int, error) { return 0, fmt.Errorf("verif: payload source failed") }

func (h *c13hHandler) Handle(ctx *context.Context) string {
	resp, _ := httpprot.NewResponse(nil)
	resp.SetStatusCode(299)
	if req, ok := ctx.GetInputRequest().(*httpprot.Request); ok && req.HTTPHeader().Get("X-Fail-Body") != "" {
		resp.SetPayload(c13hFailReader{})
	}
	ctx.SetResponse(context.DefaultNamespace, resp)
	return ""
}

type c13hMapper struct{ known map[string]bool }

func (m *c13hMapper) GetHandler(name string) (context.Handler, bool) {
	if !m.known[name] {
		return nil, false
	}
	return &c13hHandler{}, true
}

func c13hNum(v interface{}) interface{} {
	switch x := v.(type) {
	case json.Number:
		if i, err := x.Int64(); err == nil {
			return i
		}
		f, _ := x.Float64()
		return f
	case []interface{}:
		out := make([]interface{}, len(x))
		for i, e := range x {
			out[i] = c13hNum(e)
		}
		return out
	case map[string]interface{}:
		out := map[string]interface{}{}
		for k, e := range x {
			out[k] = c13hNum(e)
		}
		return out
	}
	return v
}

func c13hExec(raw json.RawMessage) interface{} {
	var in c13hInput
	dec := json.NewDecoder(bytes.NewReader(raw))
	dec.UseNumber()
	if err := dec.Decode(&in); err != nil {
		return map[string]string{"error": "bad-input"}
	}
	obs := &c13hObs{Oracle: map[string]c13hStr{}, Status: []int{}}
	c13hWalk(map[string]interface{}(in.Spec), obs.Oracle)
	c13hHostports(in.Spec, obs.Oracle)

	doc := c13hM{"name": "hs", "kind": "HTTPServer"}
	for k, v := range in.Spec {
		doc[k] = c13hNum(v)
	}
	c13hRedirect(doc["tracing"])
	buf, err := yaml.Marshal(doc)
	if err != nil {
		obs.Err = "yaml-marshal"
		return obs
	}
	ss, err := supervisor.NewSpec(string(buf))
	if err != nil {
		obs.Err = err.Error()
		if len(obs.Err) > 200 {
			obs.Err = obs.Err[:200]
		}
		return obs
	}
	obs.Accepted = true

	mapper := &c13hMapper{known: map[string]bool{}}
	for _, b := range in.Backends {
		mapper.known[b] = true
	}
	var m *mux
	if c := c13hTry("Init", -1, func() {
		m = newMux(httpstat.New(), httpstat.NewTopN(10), mapper)
		m.reload(ss, mapper)
	}); c != nil {
		obs.Crash = c
		return obs
	}
	closeMux := func() {
		if c := c13hTry("Close", -1, func() { m.close() }); c != nil && obs.Crash == nil {
			obs.Crash = c
		}
	}
	serve := func(phase string) bool {
		for i, rq := range in.Reqs {
			if strings.HasPrefix(rq.Path, "/.well-known/acme-challenge/") {
				continue
			}
			path := rq.Path
			if !strings.HasPrefix(path, "/") {
				path = "/" + path
			}
			method := rq.Method
			if method == "" {
				method = "GET"
			}
			stdr := &http.Request{Method: method, URL: &url.URL{Path: path}, Host: rq.Host, Proto: "HTTP/1.1",
				ProtoMajor: 1, ProtoMinor: 1, Header: http.Header{}, Body: http.NoBody, RemoteAddr: rq.RemoteAddr, RequestURI: path}
			for _, kv := range rq.Headers {
				stdr.Header.Add(kv[0], kv[1])
			}
			w := httptest.NewRecorder()
			if c := c13hTry(phase, i, func() { m.ServeHTTP(w, stdr) }); c != nil {
				obs.Crash = c
				return false
			}
			if c13hAborted {
				// aborted response: legitimate only when the payload source really failed
				if stdr.Header.Get("X-Fail-Body") == "" {
					obs.Crash = &c13hCrash{Phase: phase, Site: "object/httpserver.(*muxInstance).serveHTTP", Req: i,
						Msg: "http.ErrAbortHandler although the payload reader did not fail", Frames: []string{}}
					return false
				}
				if phase == "Handle" {
					obs.Status = append(obs.Status, -1)
				}
				continue
			}
			if phase == "Handle" {
				obs.Status = append(obs.Status, w.Code)
			}
		}
		return true
	}
	if !serve("Handle") {
		closeMux()
		return obs
	}
	// hot update: the runtime reloads the mux with the new generation's spec (optionally with another
	// tracing section; a second generation that validation rejects is simply not loaded)
	buf2 := buf
	if in.Tracing2 != nil {
		doc2 := c13hM{}
		for k, v := range doc {
			doc2[k] = v
		}
		if s, ok := in.Tracing2.(string); ok && s == "-" {
			delete(doc2, "tracing")
		} else {
			doc2["tracing"] = c13hNum(in.Tracing2)
			c13hRedirect(doc2["tracing"])
		}
		if b, err := yaml.Marshal(doc2); err == nil {
			buf2 = b
		}
	}
	ss2, err := supervisor.NewSpec(string(buf2))
	if err != nil {
		ss2, err = supervisor.NewSpec(string(buf))
	}
	if err != nil {
		obs.Err = "second-newspec"
		closeMux()
		return obs
	}
	if c := c13hTry("Inherit", -1, func() { m.reload(ss2, mapper) }); c != nil {
		obs.Crash = c
		return obs
	}
	serve("Handle2")
	closeMux()
	return obs
}

// ---------------------------------------------------------------- generator

type c13hG struct {
	r   *verifh.Rand
	bad int
}

func (g *c13hG) odd() bool               { return g.r.Intn(g.bad) == 0 }
func (g *c13hG) maybe(n int) bool        { return g.r.Intn(n) == 0 }
func (g *c13hG) pick(xs ...string) string { return xs[g.r.Intn(len(xs))] }

func (g *c13hG) re() string {
	if g.odd() {
		return g.pick("(", "[a", "a{2,1}", "(?P<x>", "\\")
	}
	return g.pick("^a$", "a", "^/(a|b)/?$", ".*", "^$", "^/([a-z]+)/(.*)$", "^[12]$")
}

func (g *c13hG) ips() []interface{} {
	out := []interface{}{}
	for k, n := 0, g.r.Intn(4); k < n; k++ {
		ip := g.pick("1.2.3.4", "1.2.3.0/24", "0.0.0.0/0", "2001:db8::1", "2001:db8::/32", "::ffff:1.2.3.4", "127.0.0.1", "10.0.0.0/8")
		if g.odd() {
			ip = g.pick("1.2.3", "1.2.3.4/33", "x", "", "1.2.3.4/", "::g")
		}
		out = append(out, ip)
	}
	if g.odd() && len(out) > 0 {
		out = append(out, out[0])
	}
	return out
}

func (g *c13hG) ipFilter() c13hM {
	m := c13hM{}
	if !g.odd() {
		m["blockByDefault"] = g.maybe(2)
	}
	if g.maybe(2) {
		m["allowIPs"] = g.ips()
	}
	if g.maybe(2) {
		m["blockIPs"] = g.ips()
	}
	return m
}

func (g *c13hG) header() c13hM {
	h := c13hM{"key": g.pick("X-A", "x-a", "X-B")}
	switch g.r.Intn(4) {
	case 0:
		h["regexp"] = g.re()
	case 1:
		h["values"] = []interface{}{g.pick("1", "a", "")}
		h["regexp"] = g.re()
	default:
		vs := []interface{}{g.pick("1", "2", "a")}
		if g.maybe(3) {
			vs = append(vs, g.pick("1", "2", "b"))
		}
		h["values"] = vs
	}
	if g.odd() {
		delete(h, "values")
		delete(h, "regexp")
	}
	if g.odd() {
		h["values"] = []interface{}{}
	}
	if g.odd() {
		delete(h, "key")
	}
	return h
}

func (g *c13hG) path() c13hM {
	p := c13hM{}
	if !g.odd() {
		p["backend"] = g.pick("b0", "b1", "b2", "nope", "")
	}
	switch g.r.Intn(5) {
	case 0:
		p["path"] = g.pick("/a", "/", "/a/b")
	case 1:
		p["pathPrefix"] = g.pick("/a", "/", "/ab")
	case 2:
		p["pathRegexp"] = g.re()
	case 3:
		p["path"] = g.pick("/a", "/b")
		p["pathRegexp"] = g.re()
	}
	if g.odd() {
		p[g.pick("path", "pathPrefix")] = g.pick("a", "", "a/", " /a")
	}
	if g.maybe(2) {
		p["rewriteTarget"] = g.pick("/r", "/$1", "/x$2/$1", "", "/r/")
	}
	if g.maybe(3) {
		ms := []interface{}{}
		for k, n := 0, 1+g.r.Intn(3); k < n; k++ {
			m := g.pick("GET", "POST", "PUT", "DELETE", "HEAD", "OPTIONS", "PATCH")
			if g.odd() {
				m = g.pick("get", "bGET", "")
			}
			ms = append(ms, m)
		}
		p["methods"] = ms
	}
	if g.maybe(3) {
		hs := []interface{}{}
		for k, n := 0, 1+g.r.Intn(2); k < n; k++ {
			hs = append(hs, g.header())
		}
		p["headers"] = hs
		if g.maybe(2) {
			p["matchAllHeader"] = true
		}
	}
	if g.maybe(5) {
		p["ipFilter"] = g.ipFilter()
	}
	if g.maybe(6) {
		p["clientMaxBodySize"] = g.r.PickInt(-1, 0, 1, 1024)
	}
	return p
}

// tracing: absent (caller) / valid / accepted-but-unbuildable (negative sampleRate: `minimum=0` is dropped by
// the schema generator and ZipkinSpec.Validate only checks hostport) / rejected (sampleRate > 1, bad hostport)
func (g *c13hG) tracing() c13hM {
	z := c13hM{"serverURL": g.pick("http://127.0.0.1:1/api/v2/spans", "http://127.0.0.1:1", ""), "sampleRate": []interface{}{0, 0.5, 1, 1}[g.r.Intn(4)]}
	if g.maybe(3) {
		z["sampleRate"] = []interface{}{-0.5, -1, 1.5, 2}[g.r.Intn(4)]
	}
	if g.maybe(2) {
		z["hostport"] = g.pick("127.0.0.1:9411", "[::1]:9411", "", "127.0.0.1:0")
		if g.odd() {
			z["hostport"] = g.pick("bad", "127.0.0.1", "127.0.0.1:99999", ":x")
		}
	}
	if g.maybe(4) {
		z["sameSpan"] = true
	}
	if g.maybe(4) {
		z["id128Bit"] = true
	}
	t := c13hM{"serviceName": g.pick("svc", "", "a b"), "zipkin": z}
	if g.maybe(4) {
		t["tags"] = c13hM{"k": "v"}
	}
	if g.odd() {
		delete(t, g.pick("serviceName", "zipkin"))
	}
	return t
}

func (g *c13hG) rule() c13hM {
	r := c13hM{}
	if g.maybe(3) {
		r["host"] = g.pick("a.test", "a", "b:80", "")
	}
	if g.maybe(3) {
		r["hostRegexp"] = g.re()
	}
	if g.maybe(5) {
		r["ipFilter"] = g.ipFilter()
	}
	ps := []interface{}{}
	for k, n := 0, g.r.PickInt(0, 1, 1, 2, 3); k < n; k++ {
		ps = append(ps, g.path())
	}
	if !g.odd() {
		r["paths"] = ps
	}
	return r
}

var c13hSeedMix = verifh.NewRand(verifh.Env().Seed ^ 0x5DEECE66D).U64()

func c13hGen(r0 *verifh.Rand, i int) interface{} {
	r := verifh.NewRand(r0.U64() ^ c13hSeedMix)
	g := &c13hG{r: r, bad: r.PickInt(12, 20, 20, 40, 40, 100)}
	spec := c13hM{"port": 10080, "keepAlive": g.maybe(2), "https": false}
	if g.odd() {
		spec["port"] = g.r.PickInt(0, 1, 65535, 65536, -1)
	}
	if g.odd() {
		delete(spec, g.pick("port", "keepAlive", "https"))
	}
	if g.odd() {
		spec["https"] = true
		if g.maybe(2) {
			spec["autoCert"] = true
		}
	}
	if g.odd() {
		spec["http3"] = true
	}
	if g.maybe(4) {
		spec["keepAliveTimeout"] = g.pick("60s", "1m", "0s", "", "60", "x", "-1s")
	}
	if g.maybe(4) {
		spec["maxConnections"] = g.r.PickInt(0, 1, 10, 10240)
	}
	if g.maybe(3) {
		spec["cacheSize"] = g.r.PickInt(0, 1, 10)
	}
	if g.maybe(3) {
		spec["xForwardedFor"] = true
	}
	if g.maybe(6) {
		spec["clientMaxBodySize"] = g.r.PickInt(-1, 0, 1, 1024)
	}
	if g.maybe(4) {
		spec["ipFilter"] = g.ipFilter()
	}
	// `globalFilter` is not generated: the reference is resolved through the supervisor's object
	// registry, which does not exist at mux level (the GlobalFilter object itself is harness gf).
	rules := []interface{}{}
	for k, n := 0, g.r.PickInt(0, 1, 1, 2, 3); k < n; k++ {
		rules = append(rules, g.rule())
	}
	if !g.odd() {
		spec["rules"] = rules
	}
	var tracing2 interface{}
	if g.maybe(3) {
		spec["tracing"] = g.tracing()
		if g.maybe(2) {
			tracing2 = "-"
			if g.maybe(2) {
				tracing2 = g.tracing()
			}
		}
	} else if g.maybe(6) {
		tracing2 = g.tracing()
	}
	reqs := []c13hReq{}
	for k, n := 0, g.r.PickInt(1, 2, 3); k < n; k++ {
		rq := c13hReq{Method: g.pick("GET", "GET", "POST", "HEAD", "OPTIONS", "PUT", "bGET"),
			Path: g.pick("/a", "/ab", "/b", "/", "/a/b", "/a/../b", "//a", "/./a", "/b/../a", "/a/", "/a//b", "/%61", "/a/b/../../a"), Host: g.pick("a.test", "a", "b:80", "", "[::1]:80"),
			RemoteAddr: g.pick("1.2.3.4:5555", "127.0.0.1:1", "[2001:db8::1]:80", "9.9.9.9:9", "", "x")}
		for q, qn := 0, g.r.Intn(3); q < qn; q++ {
			rq.Headers = append(rq.Headers, [2]string{g.pick("X-A", "X-B", "X-Forwarded-For", "X-Real-Ip"),
				g.pick("", "1", "2", "a", "1.2.3.4", "1.2.3.4, ::1", "x")})
		}
		if g.maybe(8) {
			rq.Headers = append(rq.Headers, [2]string{"X-Fail-Body", "1"})
		}
		reqs = append(reqs, rq)
	}
	return c13hInput{Spec: spec, Tracing2: tracing2, Backends: []string{"b0", "b1"}, Reqs: reqs}
}

func TestVerifC13HTTP(t *testing.T) {
	verifh.Run(t, c13hGen, c13hExec, 20*time.Second)
}
