package httpserver

// Correspondence harness for property C03: OVERLAPPING compressed responses (see zz_verif_proxyenv_test.go for
// the environment). One pipeline + mux; after one or two warm-up responses that were compressed and completed, N >= 2
// requests are in flight at the same time: every backend handler sends its header and the first half of its body,
// then waits until all N have got that far (so N gzip compressors exist at once) before it sends the rest. Every
// client must get its own backend's status and, after gunzip, bit-exactly its own backend's body.

import (
	"encoding/json"
	"fmt"
	"net/http"
	"strconv"
	"strings"
	"sync"
	"testing"
	"time"

	"github.com/megaease/easegress/pkg/util/verifh"
)

type c03cBody struct {
	Len    int    `json:"len"`
	Seed   int    `json:"seed"`
	Kind   string `json:"kind"`
	Enc    string `json:"enc"` // "cl" | "chunked"
	Status int    `json:"status"`
}

type c03cInput struct {
	Via      string     `json:"via"`     // "proxy" (Proxy compression:) | "adaptor" (ResponseAdaptor compress: gzip)
	PoolMax  int64      `json:"poolMax"` // 0 buffered | -1 stream
	Warm     []c03cBody `json:"warm"`    // sequential, completed before the overlap
	Conc     []c03cBody `json:"conc"`    // in flight together
	Accept   string     `json:"accept"`  // Accept-Encoding of the clients
	Parallel bool       `json:"parallel"`
}

type c03cObs struct {
	Warm  []*pxSeenResp `json:"warm"`
	Conc  []*pxSeenResp `json:"conc"`
	Blobs []pxBlob      `json:"blobs"` // warm bodies, then conc bodies (plain content)
	Gated int           `json:"gated"` // backend handlers that were at the barrier together
	Err   string        `json:"error,omitempty"`
}

func c03cGen(r *verifh.Rand, i int) interface{} {
	in := c03cInput{Via: r.Pick("proxy", "proxy", "adaptor"), PoolMax: int64(r.PickInt(0, 0, -1)), Accept: "gzip", Parallel: true}
	body := func() c03cBody {
		return c03cBody{Len: r.PickInt(1, 100, 3000, 40000, 70000), Seed: r.Intn(100000), Kind: r.Pick("text", "text", "rand"),
			Enc: r.Pick("cl", "chunked"), Status: r.PickInt(200, 200, 200, 201, 404)}
	}
	for k := r.Range(1, 2); k > 0; k-- {
		in.Warm = append(in.Warm, body())
	}
	for k := r.Range(2, 4); k > 0; k-- {
		in.Conc = append(in.Conc, body())
	}
	return in
}

func c03cExec(raw json.RawMessage) interface{} {
	var in c03cInput
	if err := json.Unmarshal(raw, &in); err != nil {
		return map[string]string{"error": "bad-input"}
	}
	if len(in.Conc) > 8 {
		in.Conc = in.Conc[:8]
	}
	if len(in.Warm) > 4 {
		in.Warm = in.Warm[:4]
	}
	obs := &c03cObs{}
	all := append(append([]c03cBody{}, in.Warm...), in.Conc...)
	for _, b := range all {
		obs.Blobs = append(obs.Blobs, pxBlobOf(pxPlain(pxBody{Len: b.Len, Seed: b.Seed, Kind: b.Kind})))
	}
	e := pxGetEnv()
	cfg := pxCfg{Server: "ip", Compression: -1, PoolMax: in.PoolMax}
	if in.Via == "adaptor" {
		cfg.RespAd = &pxAdaptor{Compress: true}
	} else {
		cfg.Compression = 0
	}
	sut, err := e.build(cfg)
	if err != nil {
		obs.Err = err.Error()
		return obs
	}
	defer func() {
		sut.close()
		e.back.CloseClientConnections()
	}()

	// the backend of this case: /c/<k> answers with body k; the conc bodies meet at a barrier after their first half
	var bmu sync.Mutex
	arrived, need := 0, len(in.Conc)
	release := make(chan struct{})
	alt := func(w http.ResponseWriter, r *http.Request) {
		k, perr := strconv.Atoi(strings.TrimPrefix(r.URL.Path, "/c/"))
		if perr != nil || k < 0 || k >= len(all) {
			w.WriteHeader(599)
			return
		}
		b := all[k]
		wire := pxPlain(pxBody{Len: b.Len, Seed: b.Seed, Kind: b.Kind})
		st := b.Status
		if st < 200 || st > 599 || st == 204 || st == 304 {
			st = 200
		}
		if b.Enc == "cl" {
			w.Header().Set("Content-Length", strconv.Itoa(len(wire)))
		}
		w.Header().Set("X-Body", strconv.Itoa(k))
		w.WriteHeader(st)
		half := len(wire) / 2
		w.Write(wire[:half])
		if f, ok := w.(http.Flusher); ok {
			f.Flush()
		}
		if k >= len(in.Warm) && in.Parallel { // overlap phase: wait for the others (bounded: never hang)
			bmu.Lock()
			arrived++
			if arrived == need {
				close(release)
			}
			bmu.Unlock()
			select {
			case <-release:
			case <-time.After(3 * time.Second):
			}
		}
		w.Write(wire[half:])
	}
	e.mu.Lock()
	e.alt, e.handler, e.panicked = alt, sut.m, ""
	e.mu.Unlock()
	defer func() {
		e.mu.Lock()
		e.alt, e.handler = nil, nil
		e.mu.Unlock()
	}()

	one := func(k int) *pxSeenResp {
		sc := &pxScenario{Method: "GET", Path: fmt.Sprintf("/c/%d", k), Host: "client.example", Body: pxBody{Enc: "none"}}
		if in.Accept != "" {
			sc.Hdrs = [][2]string{{"Accept-Encoding", in.Accept}}
		}
		return e.roundTrip(sc, 0)
	}
	for k := range in.Warm {
		obs.Warm = append(obs.Warm, one(k))
	}
	obs.Conc = make([]*pxSeenResp, len(in.Conc))
	var wg sync.WaitGroup
	for j := range in.Conc {
		wg.Add(1)
		go func(j int) {
			defer wg.Done()
			obs.Conc[j] = one(len(in.Warm) + j)
		}(j)
		if !in.Parallel {
			wg.Wait()
		}
	}
	wg.Wait()
	bmu.Lock()
	obs.Gated = arrived
	bmu.Unlock()
	e.mu.Lock()
	if e.panicked != "" {
		obs.Err = "server-panic: " + e.panicked
	}
	e.mu.Unlock()
	return obs
}

func TestVerifC03Conc(t *testing.T) {
	verifh.Run(t, c03cGen, c03cExec, 0)
}
