package httpserver

// Correspondence harness for property C07, end-to-end over loopback sockets
// (see zz_verif_proxyenv_test.go for the environment): body limits at path /
// server / pool / proxy level against body sizes around the limit.

import (
	"encoding/json"
	"math"
	"testing"

	"github.com/megaease/easegress/pkg/util/verifh"
)

const c07Default = 4 * 1024 * 1024

// c07Levels distributes a limit over (inner, outer) = (path, server) or (pool, proxy)
// and returns the limit in force (0 = default, <0 = stream).
func c07Levels(r *verifh.Rand, lim int) (inner, outer int64, inForce int) {
	other := int64(r.PickInt(1, 3, 50, 100000, -1))
	switch r.Intn(9) {
	case 0:
		return int64(lim), 0, lim
	case 1, 2:
		return int64(lim), other, lim // inner level wins over any outer value
	case 3, 4:
		return 0, int64(lim), lim
	case 5:
		return -1, int64(lim), -1 // inner -1 wins: stream
	case 6:
		return 0, -1, -1
	case 7:
		return int64(lim), -1, lim // inner positive wins over outer stream
	default:
		return int64(-r.Range(1, 9)), other, -1
	}
}

func c07Size(r *verifh.Rand, lim int) int {
	if lim <= 0 || lim > 1<<40 { // stream, or a limit at the int64 boundary: ordinary sizes

		return r.PickInt(0, 1, 100, 5000, 70000)
	}
	switch r.Intn(8) {
	case 0:
		return lim - 1
	case 1, 2:
		return lim
	case 3, 4:
		return lim + 1
	case 5:
		return 8 * lim
	case 6:
		return 0
	default:
		return r.Range(0, 2*lim)
	}
}

func c07Gen(r *verifh.Rand, i int) interface{} {
	sc := pxScenario{Method: r.Pick("POST", "POST", "PUT", "PATCH", "GET"), Path: r.Pick("/", "/upload", "/a/b"), Host: "client.example"}
	sc.Cfg = pxCfg{Server: "ip", Compression: -1}
	big := r.Bool(1, 70) // the 4 MiB default is exercised, rarely
	// request direction
	reqLim := r.PickInt(1, 2, 10, 100, 1000, 2048, 4096, 65536)
	var inForce int
	sc.Cfg.PathMax, sc.Cfg.ServerMax, inForce = c07Levels(r, reqLim)
	if big && r.Bool(1, 2) {
		sc.Cfg.PathMax, sc.Cfg.ServerMax, inForce = 0, 0, c07Default
	}
	if r.Bool(1, 20) { // the int64 boundary as the limit in force (inner or outer level)
		big := int64(math.MaxInt64) - int64(r.PickInt(0, 0, 1))
		if r.Bool(1, 2) {
			sc.Cfg.PathMax, sc.Cfg.ServerMax = big, int64(r.PickInt(0, 10, -1))
		} else {
			sc.Cfg.PathMax, sc.Cfg.ServerMax = 0, big
		}
		inForce = math.MaxInt64
	}
	n := c07Size(r, inForce)
	sc.Body = pxBody{Len: n, Seed: r.Intn(1000), Kind: "text", Enc: r.Pick("cl", "cl", "chunked", "chunked")}
	if inForce >= 0 && r.Bool(1, 10) && n > 0 { // announces more than it sends (buffered mode only)
		sc.Body.Enc = "lie"
		sc.Body.Decl = n + r.PickInt(1, 5, reqLim)
	}
	if n == 0 && sc.Body.Enc == "cl" && r.Bool(1, 2) {
		sc.Body.Enc = "none"
	}
	// response direction
	respLim := r.PickInt(1, 2, 10, 100, 1000, 2048, 4096, 65536)
	sc.Cfg.PoolMax, sc.Cfg.ProxyMax, inForce = c07Levels(r, respLim)
	if big && sc.Cfg.PathMax != 0 {
		sc.Cfg.PoolMax, sc.Cfg.ProxyMax, inForce = 0, 0, c07Default
	}
	if r.Bool(1, 20) {
		big := int64(math.MaxInt64) - int64(r.PickInt(0, 0, 1))
		if r.Bool(1, 2) {
			sc.Cfg.PoolMax, sc.Cfg.ProxyMax = big, int64(r.PickInt(0, 10, -1))
		} else {
			sc.Cfg.PoolMax, sc.Cfg.ProxyMax = 0, big
		}
		inForce = math.MaxInt64
	}
	m := c07Size(r, inForce)
	sc.Backend = pxBackend{Status: r.PickInt(200, 200, 200, 201, 404, 500), Hdrs: [][2]string{{"X-B", "b"}}}
	sc.Backend.Body = pxBody{Len: m, Seed: r.Intn(1000), Kind: "text", Enc: r.Pick("cl", "cl", "chunked", "chunked", "close")}
	if r.Bool(1, 10) && m > 0 { // backend announces more than it sends
		sc.Backend.Body.Enc = "lie"
		sc.Backend.Body.Decl = m + r.PickInt(1, 5, respLim)
		// ... also behind the Proxy's gzip compressor (client accepts gzip): the declared length is hidden
		// from FetchPayload there, the short read must surface through the compressor
		if r.Bool(1, 2) {
			sc.Cfg.Compression = r.PickInt(0, 0, 1)
			sc.Hdrs = append(sc.Hdrs, [2]string{"Accept-Encoding", r.Pick("gzip", "gzip, deflate")})
		}
	}
	if r.Bool(1, 25) {
		sc.Method = "HEAD"
		sc.Body = pxBody{Enc: "none"}
	}
	return sc
}

// c07ReloadGen: update histories. One HTTPServer, 4-8 steps: requests with bodies around the limits in force before
// and after in-place updates that change ONLY the server-level limit (rules untouched), nothing at all, the
// path-level limit, or the rules as well. The path-level limit is mostly unset so that the server level decides.
func c07ReloadGen(r *verifh.Rand, i int) interface{} {
	sc := pxScenario{Host: "client.example"}
	if r.Bool(1, 6) {
		// memoryCache histories (seeded change C07-m6): a pool with a memoryCache and a response limit; EVERY backend
		// answer of the history is larger than the limit in force, so each one must be withheld (5xx) and none may ever
		// be stored: every step has to contact the backend again. A rejected response that was cached shows as a
		// later step answered without the backend (judge: `reload:cache:rejected-response-served-from-cache`).
		lim := r.PickInt(16, 64, 1000)
		sc.Cfg = pxCfg{Server: "ip", Compression: -1, PoolMax: int64(lim),
			Cache: &pxCache{Codes: []int{200, 201}, Methods: []string{"GET"}, MaxEntryBytes: 65536}}
		if r.Bool(1, 3) {
			sc.Cfg.PoolMax, sc.Cfg.ProxyMax = 0, int64(lim)
		}
		path := r.Pick("/", "/a/b")
		status := r.PickInt(200, 200, 201)
		for k, n := 0, r.Range(2, 4); k < n; k++ {
			b := pxBackend{Status: status, Hdrs: [][2]string{{"X-B", "b"}}}
			b.Body = pxBody{Len: lim + r.PickInt(1, 1, 48), Seed: 7, Kind: "text", Enc: r.Pick("cl", "chunked")}
			sc.Steps = append(sc.Steps, pxStep{Method: "GET", Path: path, Host: "client.example", Body: pxBody{Enc: "none"}, Backend: b})
		}
		return sc
	}
	lims := []int64{16, 64, 1000, 4096, -1, 0, math.MaxInt64, math.MaxInt64 - 1}
	pick := func() int64 { return lims[r.Intn(len(lims))] }
	sc.Cfg = pxCfg{Server: "ip", Compression: -1, PathMax: int64(r.PickInt(0, 0, 0, 0, 32)), ServerMax: pick()}
	curPath, curSrv, curRules := sc.Cfg.PathMax, sc.Cfg.ServerMax, 0
	prev := []int64{curSrv}
	req := func() pxStep {
		// sizes around the limit in force now and around the earlier ones (a stale limit shows between them)
		base := prev[r.Intn(len(prev))]
		if r.Bool(1, 2) {
			base = curSrv
			if curPath != 0 {
				base = curPath
			}
		}
		n := 0
		switch {
		case base < 0:
			n = r.PickInt(100, 5000, 100000)
		case base == 0 || base > 1<<40:
			n = r.PickInt(0, 17, 65, 5000)
		default:
			n = int(base) + r.PickInt(-1, 0, 1, 1, 48)
		}
		if n < 0 {
			n = 0
		}
		st := pxStep{Method: r.Pick("POST", "PUT"), Path: r.Pick("/", "/upload", "/a/b"), Host: "client.example",
			Body:    pxBody{Len: n, Seed: r.Intn(1000), Kind: "text", Enc: r.Pick("cl", "chunked")},
			Backend: pxBackend{Status: 200, Body: pxBody{Len: 3, Seed: 1, Kind: "text", Enc: "cl"}}}
		return st
	}
	n := r.Range(4, 8)
	sc.Steps = append(sc.Steps, req())
	for k := 1; k < n; k++ {
		if r.Bool(2, 5) {
			rl := &pxReload{PathMax: curPath, ServerMax: curSrv, Rules: curRules}
			switch r.Intn(6) {
			case 0, 1, 2: // only the server-level limit
				rl.ServerMax = pick()
			case 3: // nothing at all
			case 4: // the rules as well
				rl.ServerMax, rl.Rules = pick(), (curRules+r.Range(1, 2))%4
			default: // the path-level limit
				rl.PathMax = int64(r.PickInt(0, 0, 32, 128))
			}
			curPath, curSrv, curRules = rl.PathMax, rl.ServerMax, rl.Rules
			prev = append(prev, curSrv)
			sc.Steps = append(sc.Steps, pxStep{Reload: rl})
		}
		sc.Steps = append(sc.Steps, req())
	}
	return sc
}

func c07ReloadExec(raw json.RawMessage) interface{} {
	var sc pxScenario
	if err := json.Unmarshal(raw, &sc); err != nil {
		return map[string]string{"error": "bad-input"}
	}
	return pxRunHistory(&sc)
}

func TestVerifC07Reload(t *testing.T) {
	verifh.Run(t, c07ReloadGen, c07ReloadExec, 0)
}

func c07Exec(raw json.RawMessage) interface{} {
	var sc pxScenario
	if err := json.Unmarshal(raw, &sc); err != nil {
		return map[string]string{"error": "bad-input"}
	}
	return pxRun(&sc)
}

func TestVerifC07E2E(t *testing.T) {
	verifh.Run(t, c07Gen, c07Exec, 0)
}
