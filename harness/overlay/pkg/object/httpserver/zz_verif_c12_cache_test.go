package httpserver

// Correspondence harness for property C12 (route cache transparency).
// Injected with `go test -overlay`. Two mux objects are built from the same
// generated spec (cacheSize 0 and cacheSize n) and fed the same history
// through mux.ServeHTTP; for every request the status, the invoked
// backend and the path the handler saw are recorded for both instances.
// A history element with a "reload" member is an in-place update: mux.reload
// with that spec on the SAME mux objects, exactly as runtime.reload does it
// (the cache-less twin always with cacheSize 0). Reload specs differ from the
// current one in the ipFilter at server / rule / path level, in the rules, in
// cacheSize, or not at all; requests after a reload keep drawing from the same
// pool, so keys cached by an earlier generation are requested again.
// Everything the Lean model treats as an oracle (regexp answers, IP filter
// verdicts, SplitHostPort) is evaluated here with the standard library / the
// ipfilter package and shipped as data.

import (
	"encoding/json"
	"fmt"
	"net"
	"net/http"
	"net/http/httptest"
	"net/url"
	"os"
	"regexp"
	"sort"
	"testing"

	"github.com/megaease/easegress/pkg/context"
	"github.com/megaease/easegress/pkg/context/contexttest"
	"github.com/megaease/easegress/pkg/protocols/httpprot"
	"github.com/megaease/easegress/pkg/protocols/httpprot/httpstat"
	"github.com/megaease/easegress/pkg/supervisor"
	"github.com/megaease/easegress/pkg/util/ipfilter"
	"github.com/megaease/easegress/pkg/util/verifh"
	"github.com/megaease/easegress/pkg/util/yamltool"
)

type c12Filter struct {
	Allow []string `json:"allow"`
	Block []string `json:"block"`
	BBD   bool     `json:"bbd"`
}

type c12Header struct {
	Key    string   `json:"key"`
	Values []string `json:"values"`
	Regexp string   `json:"regexp"`
}

type c12Path struct {
	Path     string      `json:"path"`
	Prefix   string      `json:"prefix"`
	Regexp   string      `json:"regexp"`
	Methods  []string    `json:"methods"`
	Headers  []c12Header `json:"headers"`
	MatchAll bool        `json:"matchAll"`
	Rewrite  string      `json:"rewrite"`
	Backend  string      `json:"backend"`
	Filter   *c12Filter  `json:"filter"`
}

type c12Rule struct {
	Host       string     `json:"host"`
	HostRegexp string     `json:"hostRegexp"`
	Filter     *c12Filter `json:"filter"`
	Paths      []c12Path  `json:"paths"`
}

type c12Req struct {
	Host   string      `json:"host"`
	Method string      `json:"method"`
	Path   string      `json:"path"`
	Hdr    [][2]string `json:"hdr"`
	IP     string      `json:"ip"`
	// Reload != nil: this history element is not a request but mux.reload with that spec.
	Reload *c12Spec `json:"reload,omitempty"`
}

// c12Spec is what a reload installs (the first generation is the top level of c12Input).
type c12Spec struct {
	CacheSize int        `json:"cacheSize"` // 0: this generation of the cached twin has no cache
	Filter    *c12Filter `json:"filter"`
	Rules     []c12Rule  `json:"rules"`
}

type c12Input struct {
	CacheSize int        `json:"cacheSize"`
	Filter    *c12Filter `json:"filter"`
	Rules     []c12Rule  `json:"rules"`
	Missing   []string   `json:"missing"` // backends the mux mapper does not know (503)
	Reqs      []c12Req   `json:"reqs"`
}

type c12Res struct {
	Status  int    `json:"status"`
	Backend string `json:"backend"` // "" when no handler was invoked
	Path    string `json:"path"`    // path seen by the handler, "" when none
}

type c12Obs struct {
	Uncached []c12Res `json:"uncached"`
	Cached   []c12Res `json:"cached"`
	// all per-request lists are indexed by request number (reload elements are skipped)
	Hit        []bool      `json:"hit"`        // getRouteFromCache(req) != nil probed right before the request
	HostNoPort []string    `json:"hostNoPort"` // per request
	Re         [][3]string `json:"re"`         // [pattern, string, "1"/"0"] for every pattern x string at hand
	Allow      [][]bool    `json:"allow"`      // [filter occurrence in traversal order, spec after spec][request] = Allow(ip)
}

// ---------------------------------------------------------------- generator

var (
	c12Hosts    = []string{"a", "ab", "a:80", "b", "ab:80", "aG"}
	c12Methods  = []string{"GET", "POST", "bGET", "PUT", "ET", "GET"}
	c12Paths    = []string{"/x", "/x/y", "/xy", "/", "/z", "/x"}
	c12IPs      = []string{"10.0.0.1", "10.0.0.2", "10.0.1.1", "192.168.0.1", "::1", "bad-ip"}
	c12HdrVals  = []string{"1", "2", "3", ""}
	c12Backends = []string{"p1", "p2", "p3", "p4", "p5", "p6", "p7", "p8"}
)

func c12GenFilter(r *verifh.Rand) *c12Filter {
	f := &c12Filter{}
	switch r.Intn(6) {
	case 0:
		f.Block = []string{r.Pick("10.0.0.1", "10.0.0.2", "192.168.0.1")}
	case 1:
		f.Block = []string{"10.0.0.0/24"}
	case 2:
		f.BBD = true
		f.Allow = []string{r.Pick("10.0.0.1", "10.0.0.0/24", "10.0.0.0/16")}
	case 3:
		f.Block = []string{"10.0.0.0/16"}
		f.Allow = []string{"10.0.0.2"}
	case 4:
		f.Block = []string{"::1", "10.0.1.1"}
	default:
		f.BBD = true
		f.Allow = []string{"10.0.0.0/8", "::1"}
		f.Block = []string{"10.0.0.2"}
	}
	return f
}

func c12GenHeaders(r *verifh.Rand) ([]c12Header, bool) {
	n := r.PickInt(1, 1, 2)
	var hs []c12Header
	for i := 0; i < n; i++ {
		h := c12Header{Key: r.Pick("X-T", "X-T", "X-U")}
		switch r.Intn(4) {
		case 0:
			h.Values = []string{"1"}
		case 1:
			h.Values = []string{"1", "2"}
		case 2:
			h.Regexp = r.Pick("^1$", "^[12]$", "^$")
		default:
			h.Values = []string{"2"}
			h.Regexp = "^3"
		}
		hs = append(hs, h)
	}
	return hs, r.Bool(1, 4)
}

func c12GenPath(r *verifh.Rand, nb *int) c12Path {
	p := c12Path{}
	switch r.Intn(8) {
	case 0, 1, 2:
		p.Path = r.Pick("/x", "/x", "/xy", "/x/y", "/z")
	case 3, 4:
		p.Prefix = r.Pick("/x", "/", "/x/")
	case 5:
		p.Regexp = r.Pick("^/x", "^/x$", "y$", "^/[xz]$")
	case 6:
		p.Path = "/x"
		p.Prefix = "/xy"
	default: // matches every path
	}
	switch r.Intn(5) {
	case 0:
		p.Methods = []string{"GET"}
	case 1:
		p.Methods = []string{"POST", "PUT"}
	case 2:
		p.Methods = []string{"GET", "POST"}
	}
	if r.Bool(2, 5) {
		p.Headers, p.MatchAll = c12GenHeaders(r)
	}
	if p.Regexp == "" && (p.Path != "" || p.Prefix != "") && r.Bool(1, 4) {
		p.Rewrite = r.Pick("/r", "/r/", "/")
	}
	if r.Bool(1, 5) {
		p.Backend = r.Pick(c12Backends...)
	} else {
		p.Backend = c12Backends[*nb%len(c12Backends)]
	}
	*nb++
	if r.Bool(1, 4) {
		p.Filter = c12GenFilter(r)
	}
	return p
}

func c12GenRule(r *verifh.Rand, nb *int) c12Rule {
	ru := c12Rule{}
	switch r.Intn(7) {
	case 0, 1:
		ru.Host = r.Pick("a", "ab", "b")
	case 2:
		ru.HostRegexp = r.Pick("^a", "^ab?$", "b$")
	case 3:
		ru.Host = "a"
		ru.HostRegexp = "^ab$"
	default: // matches every host
	}
	if r.Bool(1, 3) {
		ru.Filter = c12GenFilter(r)
	}
	n := r.PickInt(0, 1, 1, 2, 2, 3, 4)
	for i := 0; i < n; i++ {
		ru.Paths = append(ru.Paths, c12GenPath(r, nb))
	}
	return ru
}

func c12GenReq(r *verifh.Rand) c12Req {
	q := c12Req{Host: r.Pick(c12Hosts...), Method: r.Pick(c12Methods...), Path: r.Pick(c12Paths...), IP: r.Pick(c12IPs...)}
	if r.Bool(1, 2) {
		q.Hdr = append(q.Hdr, [2]string{"X-T", r.Pick(c12HdrVals...)})
	}
	if r.Bool(1, 4) {
		q.Hdr = append(q.Hdr, [2]string{"X-U", r.Pick(c12HdrVals...)})
	}
	if r.Bool(1, 12) { // malformed / unusual stream: odd Host values, empty method, empty path, lower-case header key
		switch r.Intn(5) {
		case 0:
			q.Host = r.Pick("", "[::1]:8080", "a:80:90", "a:", ":80", "AB")
		case 1:
			q.Method = r.Pick("", "get", "GETGET")
		case 2:
			q.Path = r.Pick("", "x", "//x", "/x/")
		case 3:
			q.Hdr = append(q.Hdr, [2]string{"X-T", "1"}) // repeated key: Get returns the first value
		default:
			q.IP = r.Pick("", "10.0.0.256", "::ffff:10.0.0.1")
		}
	}
	return q
}

func c12Gen(r0 *verifh.Rand, i int) interface{} {
	// verifh seeds worker w with seed*1000+w and its splitmix64 state advances by a constant, so the
	// per-case forks of neighbouring workers are the same stream shifted by one case; mix the worker
	// seed in so that parallel workers explore different cases.
	r := verifh.NewRand(r0.U64() ^ (verifh.Env().Seed+1)*0xD1342543DE82EF95)
	in := c12Input{CacheSize: r.PickInt(1, 2, 2, 3, 16, 16)}
	nb := 0
	if r.Bool(1, 4) {
		in.Filter = c12GenFilter(r)
	}
	nr := r.PickInt(1, 2, 2, 3, 3, 4)
	for k := 0; k < nr; k++ {
		in.Rules = append(in.Rules, c12GenRule(r, &nb))
	}
	if r.Bool(1, 6) {
		in.Missing = []string{r.Pick(c12Backends...)}
	}
	// a small pool of triples and client variants, so that keys repeat and collide
	np := r.Range(2, 6)
	pool := make([]c12Req, np)
	for k := range pool {
		pool[k] = c12GenReq(r)
	}
	if r.Bool(1, 3) && np >= 2 { // a pair whose host+method+path concatenations coincide
		pool[0].Host, pool[0].Method = "a", "bGET"
		pool[1].Host, pool[1].Method, pool[1].Path = "ab", "GET", pool[0].Path
	}
	n := 40
	if verifh.Env().Thorough() {
		n = r.PickInt(40, 100)
	}
	if r.Bool(1, 8) {
		n = r.Range(1, 6)
	}
	for k := 0; k < n; k++ {
		q := pool[r.Intn(np)]
		switch r.Intn(6) {
		case 0: // same key, other client address
			q.IP = r.Pick(c12IPs...)
		case 1: // same key, other headers
			q.Hdr = nil
			if r.Bool(2, 3) {
				q.Hdr = append(q.Hdr, [2]string{"X-T", r.Pick(c12HdrVals...)})
			}
			if r.Bool(1, 4) {
				q.Hdr = append(q.Hdr, [2]string{"X-U", r.Pick(c12HdrVals...)})
			}
		case 2:
			q = c12GenReq(r)
		}
		in.Reqs = append(in.Reqs, q)
	}
	// in-place reloads (about half of the cases): 1-3 of them, not before the first request
	if r.Bool(1, 2) {
		cur := c12Spec{CacheSize: in.CacheSize, Filter: in.Filter, Rules: in.Rules}
		nrel := r.PickInt(1, 1, 2, 3)
		pos := make([]int, nrel)
		for k := range pos {
			if len(in.Reqs) <= 2 {
				pos[k] = r.Range(1, len(in.Reqs))
			} else {
				pos[k] = r.Range(len(in.Reqs)/5, len(in.Reqs)*4/5)
			}
		}
		sort.Ints(pos)
		var out []c12Req
		k := 0
		for i, q := range in.Reqs {
			for k < nrel && pos[k] == i {
				cur = c12MutateSpec(r, cur, &nb)
				cp := c12CopySpec(cur)
				out = append(out, c12Req{Reload: &cp})
				k++
			}
			out = append(out, q)
		}
		in.Reqs = out
	}
	return in
}

func c12CopySpec(s c12Spec) c12Spec {
	var out c12Spec
	b, _ := json.Marshal(s)
	_ = json.Unmarshal(b, &out)
	return out
}

// c12MutateSpec derives the spec of the next generation from the current one.
func c12MutateSpec(r *verifh.Rand, cur c12Spec, nb *int) c12Spec {
	s := c12CopySpec(cur)
	flip := func(f **c12Filter) { // add / remove / replace a filter
		switch {
		case *f == nil:
			*f = c12GenFilter(r)
		case r.Bool(1, 2):
			*f = nil
		default:
			*f = c12GenFilter(r)
		}
	}
	switch r.Intn(12) {
	case 0, 1, 2, 3: // server-level filter only: rules and cacheSize identical
		flip(&s.Filter)
	case 4: // a rule-level filter
		if len(s.Rules) > 0 {
			flip(&s.Rules[r.Intn(len(s.Rules))].Filter)
		} else {
			flip(&s.Filter)
		}
	case 5: // a path-level filter
		var ps []*c12Path
		for i := range s.Rules {
			for j := range s.Rules[i].Paths {
				ps = append(ps, &s.Rules[i].Paths[j])
			}
		}
		if len(ps) > 0 {
			flip(&ps[r.Intn(len(ps))].Filter)
		} else {
			flip(&s.Filter)
		}
	case 6: // rules: drop one / add one / swap two / change a path's backend or methods
		switch {
		case len(s.Rules) > 1 && r.Bool(1, 3):
			k := r.Intn(len(s.Rules))
			s.Rules = append(s.Rules[:k], s.Rules[k+1:]...)
		case len(s.Rules) > 1 && r.Bool(1, 2):
			s.Rules[0], s.Rules[len(s.Rules)-1] = s.Rules[len(s.Rules)-1], s.Rules[0]
		case r.Bool(1, 2):
			s.Rules = append([]c12Rule{c12GenRule(r, nb)}, s.Rules...)
		default:
			for i := range s.Rules {
				for j := range s.Rules[i].Paths {
					if r.Bool(1, 2) {
						s.Rules[i].Paths[j].Backend = r.Pick(c12Backends...)
					} else {
						s.Rules[i].Paths[j].Methods = []string{r.Pick("GET", "POST", "PUT")}
					}
				}
			}
		}
	case 7: // cacheSize only (sometimes to "no cache" and back)
		s.CacheSize = r.PickInt(0, 1, 2, 3, 16)
		if s.CacheSize == cur.CacheSize {
			s.CacheSize = cur.CacheSize%3 + 1
		}
	case 8: // identical spec (runtime.reload with an unchanged spec)
	case 9: // filters at several levels at once
		flip(&s.Filter)
		for i := range s.Rules {
			if r.Bool(1, 2) {
				flip(&s.Rules[i].Filter)
			}
		}
	case 10: // server filter and cacheSize
		flip(&s.Filter)
		s.CacheSize = r.PickInt(1, 2, 3, 16)
	default: // a new spec altogether
		s = c12Spec{CacheSize: r.PickInt(1, 2, 16)}
		if r.Bool(1, 3) {
			s.Filter = c12GenFilter(r)
		}
		for k := r.PickInt(1, 2, 3); k > 0; k-- {
			s.Rules = append(s.Rules, c12GenRule(r, nb))
		}
	}
	return s
}

// ---------------------------------------------------------------- executor

func c12FilterSpec(f *c12Filter) *ipfilter.Spec {
	if f == nil {
		return nil
	}
	return &ipfilter.Spec{BlockByDefault: f.BBD, AllowIPs: f.Allow, BlockIPs: f.Block}
}

func c12SuperSpec(sp *c12Spec, cacheSize int) (*supervisor.Spec, string) {
	spec := &Spec{KeepAlive: true, Port: 8080, MaxConnections: 1024, KeepAliveTimeout: "60s", CacheSize: uint32(cacheSize), IPFilter: c12FilterSpec(sp.Filter)}
	for _, ru := range sp.Rules {
		rule := &Rule{Host: ru.Host, HostRegexp: ru.HostRegexp, IPFilter: c12FilterSpec(ru.Filter)}
		for _, p := range ru.Paths {
			path := &Path{Path: p.Path, PathPrefix: p.Prefix, PathRegexp: p.Regexp, Methods: p.Methods,
				MatchAllHeader: p.MatchAll, RewriteTarget: p.Rewrite, Backend: p.Backend, IPFilter: c12FilterSpec(p.Filter)}
			for _, h := range p.Headers {
				path.Headers = append(path.Headers, &Header{Key: h.Key, Values: h.Values, Regexp: h.Regexp})
			}
			rule.Paths = append(rule.Paths, path)
		}
		spec.Rules = append(spec.Rules, rule)
	}
	yamlSpec := "kind: HTTPServer\nname: c12\n" + string(yamltool.Marshal(spec))
	superSpec, err := supervisor.NewSpec(yamlSpec)
	if err != nil || superSpec == nil {
		if os.Getenv("VERIF_DEBUG") != "" {
			fmt.Fprintln(os.Stderr, "c12: invalid spec:", err, yamlSpec)
		}
		return nil, "invalid-spec"
	}
	return superSpec, ""
}

// c12Reload updates the mux in place, the way runtime.reload does: m.reload(nextSuperSpec, muxMapper)
// on the same mux object; the spec is validated by supervisor.NewSpec first (as an admin update is).
func c12Reload(m *mux, sp *c12Spec, cacheSize int, mm *contexttest.MockedMuxMapper) string {
	superSpec, e := c12SuperSpec(sp, cacheSize)
	if e != "" {
		return e
	}
	m.reload(superSpec, mm)
	return ""
}

func c12BuildMux(in *c12Input, cacheSize int, mm *contexttest.MockedMuxMapper) (*mux, string) {
	m := newMux(httpstat.New(), httpstat.NewTopN(10), mm)
	if e := c12Reload(m, &c12Spec{Filter: in.Filter, Rules: in.Rules}, cacheSize, mm); e != "" {
		return nil, e
	}
	return m, ""
}

func c12StdReq(q *c12Req) *http.Request {
	h := http.Header{}
	for _, kv := range q.Hdr {
		h.Add(kv[0], kv[1])
	}
	return &http.Request{Method: q.Method, URL: &url.URL{Path: q.Path}, Host: q.Host, Header: h,
		Proto: "HTTP/1.1", ProtoMajor: 1, ProtoMinor: 1, RemoteAddr: net.JoinHostPort(q.IP, "4321"),
		Body: http.NoBody, RequestURI: q.Path}
}

func c12Serve(m *mux, q *c12Req, seen *c12Res) c12Res {
	*seen = c12Res{}
	w := httptest.NewRecorder()
	m.ServeHTTP(w, c12StdReq(q))
	return c12Res{Status: w.Code, Backend: seen.Backend, Path: seen.Path}
}

func c12Exec(raw json.RawMessage) interface{} {
	var in c12Input
	if err := json.Unmarshal(raw, &in); err != nil {
		return map[string]string{"error": "bad-input"}
	}
	if in.CacheSize <= 0 {
		in.CacheSize = 1
	}
	missing := map[string]bool{}
	for _, b := range in.Missing {
		missing[b] = true
	}
	var seen c12Res
	mm := &contexttest.MockedMuxMapper{MockedGetHandler: func(name string) (context.Handler, bool) {
		if missing[name] {
			return nil, false
		}
		return &contexttest.MockedHandler{MockedHandle: func(ctx *context.Context) string {
			seen.Backend = name
			if rq, ok := ctx.GetRequest(context.DefaultNamespace).(*httpprot.Request); ok {
				seen.Path = rq.Path()
			}
			resp, _ := httpprot.NewResponse(nil)
			ctx.SetResponse(context.DefaultNamespace, resp)
			return ""
		}}, true
	}}
	mu, e := c12BuildMux(&in, 0, mm)
	if e != "" {
		return map[string]string{"error": e}
	}
	mc, e := c12BuildMux(&in, in.CacheSize, mm)
	if e != "" {
		return map[string]string{"error": e}
	}
	obs := c12Obs{Uncached: []c12Res{}, Cached: []c12Res{}, Hit: []bool{}, HostNoPort: []string{}, Re: [][3]string{}, Allow: [][]bool{}}
	specs := []*c12Spec{{Filter: in.Filter, Rules: in.Rules}}
	var reqs []*c12Req // the request elements
	for i := range in.Reqs {
		q := &in.Reqs[i]
		if q.Reload != nil {
			cs := q.Reload.CacheSize
			if cs < 0 {
				cs = 0
			}
			if e := c12Reload(mu, q.Reload, 0, mm); e != "" {
				return map[string]string{"error": e}
			}
			if e := c12Reload(mc, q.Reload, cs, mm); e != "" {
				return map[string]string{"error": e}
			}
			specs = append(specs, q.Reload)
			continue
		}
		reqs = append(reqs, q)
		obs.Uncached = append(obs.Uncached, c12Serve(mu, q, &seen))
		// ARC's Get is idempotent on the cache state (Get;Get == Get), a miss changes nothing:
		// probing through the anchored accessor does not disturb the run.
		probe, _ := httpprot.NewRequest(c12StdReq(q))
		if probe.RealIP() != q.IP || probe.Host() != q.Host || probe.Method() != q.Method || probe.Path() != q.Path {
			return map[string]string{"error": "request-construction-mismatch"}
		}
		obs.Hit = append(obs.Hit, mc.inst.Load().(*muxInstance).getRouteFromCache(probe) != nil)
		obs.Cached = append(obs.Cached, c12Serve(mc, q, &seen))
		h := q.Host
		if hh, _, err := net.SplitHostPort(h); err == nil {
			h = hh
		}
		obs.HostNoPort = append(obs.HostNoPort, h)
	}
	// oracle tables
	hostStr, pathStr, hdrStr := map[string]bool{}, map[string]bool{}, map[string]bool{"": true}
	for i, q := range reqs {
		hostStr[obs.HostNoPort[i]] = true
		pathStr[q.Path] = true
		for _, kv := range q.Hdr {
			hdrStr[kv[1]] = true
		}
	}
	addRe := func(pat string, strs map[string]bool) {
		if pat == "" {
			return
		}
		re, err := regexp.Compile(pat)
		if err != nil {
			return
		}
		keys := make([]string, 0, len(strs))
		for s := range strs {
			keys = append(keys, s)
		}
		sort.Strings(keys)
		for _, s := range keys {
			b := "0"
			if re.MatchString(s) {
				b = "1"
			}
			obs.Re = append(obs.Re, [3]string{pat, s, b})
		}
	}
	addFilter := func(f *c12Filter) {
		if f == nil {
			return
		}
		flt := ipfilter.New(c12FilterSpec(f))
		row := make([]bool, len(reqs))
		for i, q := range reqs {
			row[i] = flt.Allow(q.IP)
		}
		obs.Allow = append(obs.Allow, row)
	}
	for _, sp := range specs {
		addFilter(sp.Filter)
		for _, ru := range sp.Rules {
			addRe(ru.HostRegexp, hostStr)
			addFilter(ru.Filter)
			for _, p := range ru.Paths {
				addRe(p.Regexp, pathStr)
				addFilter(p.Filter)
				for _, h := range p.Headers {
					addRe(h.Regexp, hdrStr)
				}
			}
		}
	}
	return obs
}

func TestVerifC12(t *testing.T) {
	verifh.Run(t, c12Gen, c12Exec, 0)
}
