package httpserver

// Correspondence harness for property C03, request histories through a pool with
// `memoryCache` followed by response-editing filters (see zz_verif_proxyenv_test.go).
// One pipeline instance serves all steps of a case, so cache entries created by one
// step are used by later ones. The cache expiration is fixed at 10 minutes: expiry
// never decides a case.

import (
	"encoding/json"
	"testing"

	"github.com/megaease/easegress/pkg/util/verifh"
)

func c03hAdaptor(r *verifh.Rand) *pxAdaptor {
	a := &pxAdaptor{}
	switch r.Intn(8) {
	case 0, 1:
		a.Compress = true
	case 2:
		a.Decompress = true
	case 3:
		a.Body = r.Pick("hello", "a replacement body that is longer than the small cached bodies of this run ...........")
	case 4:
		a.Body = "hello"
		a.Compress = true
	case 5, 6:
		// header section only
	default:
		return nil
	}
	if r.Bool(1, 2) || (a.Body == "" && !a.Compress && !a.Decompress) {
		switch r.Intn(4) {
		case 0:
			a.HAdd = [][2]string{{"X-Added", "1"}}
		case 1:
			a.HSet = [][2]string{{"X-Set", "s"}}
			a.HAdd = [][2]string{{"X-B", "extra"}}
		case 2:
			a.HDel = []string{"X-B"}
			a.HAdd = [][2]string{{"x-added", "1"}}
		default:
			a.HSet = [][2]string{{"X-B", "replaced"}}
		}
	}
	return a
}

func c03hBackend(r *verifh.Rand, seed int) pxBackend {
	b := pxBackend{Status: r.PickInt(200, 200, 200, 200, 404, 500)}
	b.Hdrs = [][2]string{{"X-B", r.Pick("b", "c")}}
	if r.Bool(1, 3) {
		b.Hdrs = append(b.Hdrs, [2]string{"X-B", "second"})
	}
	if r.Bool(1, 4) {
		b.Hdrs = append(b.Hdrs, [2]string{"Etag", "\"t\""})
	}
	if r.Bool(1, 10) {
		b.Hdrs = append(b.Hdrs, [2]string{"Cache-Control", r.Pick("no-store", "max-age=60", "must-revalidate", "private, no-cache")})
	}
	b.Body = pxBody{Len: r.PickInt(0, 1, 10, 100, 100, 1000, 1000, 3000), Seed: seed, Kind: r.Pick("text", "text", "rand"),
		Enc: r.Pick("cl", "cl", "chunked", "close"), Gzip: r.Bool(1, 6)}
	return b
}

func c03hGen(r *verifh.Rand, i int) interface{} {
	sc := pxScenario{}
	sc.Cfg = pxCfg{Server: r.Pick("ip", "name"), KeepHost: r.Bool(1, 3), Compression: r.PickInt(-1, -1, -1, 0, 100),
		PoolMax: int64(r.PickInt(0, 0, 0, 0, -1)), ProxyMax: int64(r.PickInt(0, 0, 0, -1, 1<<20))}
	sc.Cfg.Cache = &pxCache{Codes: [][]int{{200}, {200, 404}, {200, 404, 500}}[r.Intn(3)],
		Methods: [][]string{{"GET"}, {"GET"}, {"GET", "HEAD"}, {"GET", "POST"}}[r.Intn(4)], MaxEntryBytes: r.PickInt(50, 1000, 1000, 4096, 4096)}
	if !r.Bool(1, 6) {
		sc.Cfg.RespAd = c03hAdaptor(r)
	}
	// the cacheable request that is repeated
	base := pxStep{Method: "GET", Path: r.Pick("/", "/a", "/a/b", "/a%20b"), Query: r.Pick("", "", "x=1"), Host: r.Pick("client.example", "a"),
		Body: pxBody{Enc: "none"}}
	if r.Bool(1, 3) {
		base.Hdrs = append(base.Hdrs, [2]string{"Accept-Encoding", r.Pick("gzip", "identity")})
	}
	if r.Bool(1, 3) {
		base.Hdrs = append(base.Hdrs, [2]string{"X-A", "1"})
	}
	n := r.Range(3, 6)
	for k := 0; k < n; k++ {
		st := base
		st.Hdrs = append([][2]string(nil), base.Hdrs...)
		switch r.Intn(10) {
		case 0: // bypasses the cache in both directions
			st.Hdrs = append(st.Hdrs, [2]string{"Cache-Control", r.Pick("no-cache", "no-store", "max-age=0")})
		case 1: // another method on the same path
			st.Method = r.Pick("POST", "HEAD", "DELETE")
			if st.Method == "POST" {
				st.Body = pxBody{Len: 10, Seed: k, Kind: "text", Enc: "cl"}
			}
		case 2: // another path / host: another key
			if r.Bool(1, 2) {
				st.Path = base.Path + "x"
			} else {
				st.Host = base.Host + "2"
			}
		case 3: // same key, different query (the key ignores the query) — only when nothing is cached yet is this distinguishable
			st.Query = base.Query
		}
		// every step scripts a *different* backend body, so a reply served from the cache is recognisable
		st.Backend = c03hBackend(r, 100*i+k)
		sc.Steps = append(sc.Steps, st)
	}
	return sc
}

func c03hExec(raw json.RawMessage) interface{} {
	var sc pxScenario
	if err := json.Unmarshal(raw, &sc); err != nil {
		return map[string]string{"error": "bad-input"}
	}
	if len(sc.Steps) > 64 {
		sc.Steps = sc.Steps[:64]
	}
	return pxRunHistory(&sc)
}

func TestVerifC03Hist(t *testing.T) {
	verifh.Run(t, c03hGen, c03hExec, 0)
}
