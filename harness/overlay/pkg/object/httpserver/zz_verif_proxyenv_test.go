package httpserver

// Shared loopback environment for the C03 / C07 correspondence harnesses
// (injected with `go test -overlay`; nothing is written to /repo).
//
//	raw-socket client --> net/http server --> real mux.ServeHTTP --> real Pipeline
//	   [RequestAdaptor?] -> Proxy -> [ResponseAdaptor?] --> net/http transport --> loopback backend
//
// The backend records exactly what it receives and replies as scripted by the
// scenario (length-declared / chunked / close-delimited / lying Content-Length
// through a hijacked connection). The client writes the request bytes itself
// and parses the response bytes itself, so that the framing of the response
// (declared Content-Length vs bytes on the wire, chunk terminator) is checked
// byte-exactly and not through net/http's forgiving client.

import (
	"bufio"
	"bytes"
	"compress/gzip"
	"crypto/sha1"
	"encoding/hex"
	"fmt"
	"io"
	"log"
	"net"
	"net/http"
	"net/http/httptest"
	neturl "net/url"
	"regexp"
	"sort"
	"strconv"
	"strings"
	"sync"
	"time"

	"github.com/megaease/easegress/pkg/context"
	"github.com/megaease/easegress/pkg/context/contexttest"
	_ "github.com/megaease/easegress/pkg/filters/proxy"
	_ "github.com/megaease/easegress/pkg/filters/requestadaptor"
	_ "github.com/megaease/easegress/pkg/filters/responseadaptor"
	"github.com/megaease/easegress/pkg/object/pipeline"
	"github.com/megaease/easegress/pkg/protocols/httpprot/httpstat"
	"github.com/megaease/easegress/pkg/supervisor"
)

// ---------------------------------------------------------------- scenario

// pxBody describes a body. Its plain content is a deterministic function of
// (Len, Seed, Kind); Gzip means the bytes on the wire are gzip(plain) and the
// message carries `Content-Encoding: gzip`.
type pxBody struct {
	Len  int    `json:"len"`
	Seed int    `json:"seed"`
	Kind string `json:"kind"` // "text" (compressible) | "rand"
	Enc  string `json:"enc"`  // "cl" | "chunked" | "close" (backend only) | "lie" (declared = Decl)
	Decl int    `json:"decl"` // declared Content-Length when Enc == "lie"
	Gzip bool   `json:"gzip"`
}

// pxPathAd is the RequestAdaptor's `path:` section (pathadaptor.Spec).
type pxPathAd struct {
	Replace    string `json:"replace"`
	AddPrefix  string `json:"addPrefix"`
	TrimPrefix string `json:"trimPrefix"`
	Regexp     string `json:"regexp"`
	ReRepl     string `json:"reRepl"`
}

type pxAdaptor struct {
	// request line (RequestAdaptor only)
	Method string    `json:"method"`
	Host   string    `json:"host"`
	Path   *pxPathAd `json:"path"`

	Body       string      `json:"body"`
	Compress   bool        `json:"compress"`
	Decompress bool        `json:"decompress"`
	HDel       []string    `json:"hdel"` // header: del / set / add (distinct keys within set and within add)
	HSet       [][2]string `json:"hset"`
	HAdd       [][2]string `json:"hadd"`
}

// pxCache is the pool's memoryCache; the expiration is fixed at 10 minutes so that
// expiry can never decide a case.
type pxCache struct {
	Codes         []int    `json:"codes"`
	Methods       []string `json:"methods"`
	MaxEntryBytes int      `json:"maxEntryBytes"`
}

// pxStep is one request of a history (and what the backend would answer to it).
// pxReload is an in-place update of the HTTPServer spec between two requests of a history (mux.reload): new
// path-level / server-level clientMaxBodySize and the number of extra, never matching paths in the rule list (the
// rules change iff that number differs from the one in force; ipFilter / cacheSize never change).
type pxReload struct {
	PathMax   int64 `json:"pathMax"`
	ServerMax int64 `json:"serverMax"`
	Rules     int   `json:"rules"`
}

type pxStep struct {
	Reload  *pxReload   `json:"reload"`
	Method  string      `json:"method"`
	Path    string      `json:"path"`
	Query   string      `json:"query"`
	Host    string      `json:"host"`
	Hdrs    [][2]string `json:"hdrs"`
	Body    pxBody      `json:"body"`
	Backend pxBackend   `json:"backend"`
}

// pxRetry: a pipeline-level Retry policy (waitDuration 1ms) referenced by the pool, plus the pool's failureCodes.
type pxRetry struct {
	Max          int   `json:"max"`
	FailureCodes []int `json:"failureCodes"`
}

// pxMirror: the Proxy's mirrorPool; its filter matches requests carrying header Hdr with exactly Val.
type pxMirror struct {
	Hdr      string `json:"hdr"`
	Val      string `json:"val"`
	Server   string `json:"server"` // "ip" | "name"
	KeepHost bool   `json:"keepHost"`
}

// pxPre is the scripted fate of one attempt before the final reply: the backend answers with Status
// (body "fail") or, Kind "reset", reads the request and closes the connection without answering.
type pxPre struct {
	Kind   string `json:"kind"` // "status" | "reset"
	Status int    `json:"status"`
}

type pxCfg struct {
	Server      string     `json:"server"` // "ip" | "name"
	KeepHost    bool       `json:"keepHost"`
	Compression int        `json:"compression"` // -1: none, else minLength
	PathMax     int64      `json:"pathMax"`     // clientMaxBodySize at path level
	ServerMax   int64      `json:"serverMax"`   // clientMaxBodySize at HTTPServer level
	PoolMax     int64      `json:"poolMax"`     // serverMaxBodySize at pool level
	ProxyMax    int64      `json:"proxyMax"`    // serverMaxBodySize at Proxy level
	ReqAd       *pxAdaptor `json:"reqAd"`
	RespAd      *pxAdaptor `json:"respAd"`
	Cache       *pxCache   `json:"cache"`
	Retry       *pxRetry   `json:"retry"`
	Mirror      *pxMirror  `json:"mirror"`
}

type pxBackend struct {
	Pre    []pxPre     `json:"pre"` // attempts that fail before the reply below is given
	Status int         `json:"status"`
	Hdrs   [][2]string `json:"hdrs"`
	Body   pxBody      `json:"body"`
}

type pxScenario struct {
	Method  string      `json:"method"`
	Path    string      `json:"path"`  // as written on the wire (escaped form)
	Query   string      `json:"query"` // raw query, "" = none
	Host    string      `json:"host"`
	Hdrs    [][2]string `json:"hdrs"` // in wire order; the client appends `Connection: close`
	Body    pxBody      `json:"body"`
	Cfg     pxCfg       `json:"cfg"`
	Backend pxBackend   `json:"backend"`
	Steps   []pxStep    `json:"steps"` // history harness: the requests, in order, on one pipeline instance
}

// ---------------------------------------------------------------- observations

type pxSeenReq struct {
	Method   string     `json:"method"`
	URI      string     `json:"uri"`  // request-target as received
	Path     string     `json:"path"` // decoded path
	RawQuery string     `json:"rawQuery"`
	Host     string     `json:"host"`
	Hdrs     [][]string `json:"hdrs"` // [name, v1, v2 ...] sorted by name
	CL       int64      `json:"cl"`
	TE       []string   `json:"te"`
	BodyLen  int        `json:"bodyLen"`
	BodySum  string     `json:"bodySum"`
	BodyErr  string     `json:"bodyErr"`
	DecLen   int        `json:"decLen"` // after undoing Content-Encoding: gzip (or = body)
	DecSum   string     `json:"decSum"`
	DecErr   string     `json:"decErr"`
}

type pxSeenResp struct {
	Err      string     `json:"err"`
	Status   int        `json:"status"`
	Hdrs     [][]string `json:"hdrs"`
	Framing  string     `json:"framing"`  // "cl" | "chunked" | "close" | "nobody"
	Declared int        `json:"declared"` // Content-Length header value, -1 = absent
	FrameOK  bool       `json:"frameOK"`
	FrameErr string     `json:"frameErr"`
	BodyLen  int        `json:"bodyLen"` // body bytes received (after de-chunking)
	BodySum  string     `json:"bodySum"`
	DecLen   int        `json:"decLen"`
	DecSum   string     `json:"decSum"`
	DecErr   string     `json:"decErr"`
}

type pxBlob struct {
	Len   int    `json:"len"`
	Sum   string `json:"sum"`
	GzLen int    `json:"gzLen"`
	GzSum string `json:"gzSum"`
}

// pxOracle is data computed with the Go standard library only (not /repo code)
// that the judge treats as opaque identities of byte strings.
type pxOracle struct {
	Req       pxBlob      `json:"req"`
	Back      pxBlob      `json:"back"`
	ReqAd     pxBlob      `json:"reqAd"`
	RespAd    pxBlob      `json:"respAd"`
	Canon     [][2]string `json:"canon"`     // header name -> textproto.CanonicalMIMEHeaderKey
	ServerURL string      `json:"serverURL"` // the pool's server URL
	ServerHP  string      `json:"serverHP"`  // its host:port
	Empty     pxBlob      `json:"empty"`
	EscPath   string      `json:"escPath"`  // net/url: EscapedPath() of the client's request-target
	DecPath   string      `json:"decPath"`  // net/url: decoded path of the client's request-target
	RawQuery  string      `json:"rawQuery"` // net/url: RawQuery of the client's request-target
	Target    bool        `json:"target"`   // request-target parses (url.ParseRequestURI)
	// RequestAdaptor path section: regexp.ReplaceAllString on the decoded path (standard library), and net/url's
	// default encoding of every candidate adapted path
	ReRepl    string      `json:"reRepl"`
	Esc       [][2]string `json:"esc"`
	Pre       pxBlob      `json:"pre"`       // the body of a scripted failure reply
	MirrorURL string      `json:"mirrorURL"` // the mirror pool's server URL and host:port
	MirrorHP  string      `json:"mirrorHP"`
	Stub      pxBlob      `json:"stub"` // what a mirror is sent instead of a stream body
}

type pxObs struct {
	Hits   int          `json:"hits"`  // number of requests the backend received
	All    []*pxSeenReq `json:"all"`   // every one of them, in order
	MHits  int          `json:"mhits"` // requests the mirror backend received
	M      *pxSeenReq   `json:"m"`
	B      *pxSeenReq   `json:"b"`
	C      *pxSeenResp  `json:"c"`
	Oracle pxOracle     `json:"oracle"`
	Err    string       `json:"error,omitempty"`
}

// ---------------------------------------------------------------- helpers

func pxSum(b []byte) string {
	h := sha1.Sum(b)
	return hex.EncodeToString(h[:8])
}

func pxPlain(b pxBody) []byte {
	n := b.Len
	if n < 0 {
		n = 0
	}
	if n > 8<<20 {
		n = 8 << 20
	}
	out := make([]byte, n)
	s := uint64(b.Seed)*0x9E3779B97F4A7C15 + 12345
	if b.Kind == "rand" {
		for i := range out {
			s ^= s << 13
			s ^= s >> 7
			s ^= s << 17
			out[i] = byte(s >> 24)
		}
		return out
	}
	line := []byte(fmt.Sprintf("line %d of the body with seed %d;\n", b.Seed%7, b.Seed))
	for i := range out {
		out[i] = line[i%len(line)]
	}
	return out
}

func pxGzip(b []byte) []byte {
	var buf bytes.Buffer
	w := gzip.NewWriter(&buf)
	w.Write(b)
	w.Close()
	return buf.Bytes()
}

func pxGunzip(b []byte) ([]byte, error) {
	zr, err := gzip.NewReader(bytes.NewReader(b))
	if err != nil {
		return nil, err
	}
	return io.ReadAll(zr)
}

func pxBlobOf(b []byte) pxBlob {
	g := pxGzip(b)
	return pxBlob{Len: len(b), Sum: pxSum(b), GzLen: len(g), GzSum: pxSum(g)}
}

// pxWire returns the bytes that go on the wire for a body.
func pxWire(b pxBody) []byte {
	p := pxPlain(b)
	if b.Gzip {
		return pxGzip(p)
	}
	return p
}

func pxSortedHdrs(h http.Header) [][]string {
	keys := make([]string, 0, len(h))
	for k := range h {
		keys = append(keys, k)
	}
	sort.Strings(keys)
	out := make([][]string, 0, len(keys))
	for _, k := range keys {
		out = append(out, append([]string{k}, h[k]...))
	}
	return out
}

func pxErrClass(err error) string {
	if err == nil {
		return ""
	}
	s := err.Error()
	switch {
	case err == io.ErrUnexpectedEOF || strings.Contains(s, "unexpected EOF"):
		return "unexpected-eof"
	case strings.Contains(s, "too large"):
		return "too-large"
	case strings.Contains(s, "timeout"):
		return "timeout"
	case strings.Contains(s, "reset"):
		return "reset"
	}
	return "other"
}

func pxChunked(w io.Writer, b []byte, seed int) {
	sizes := []int{1, 7, 100, 4096, 30000}
	i, k := 0, seed
	for i < len(b) {
		n := sizes[k%len(sizes)]
		k++
		if n > len(b)-i {
			n = len(b) - i
		}
		fmt.Fprintf(w, "%x\r\n", n)
		w.Write(b[i : i+n])
		io.WriteString(w, "\r\n")
		i += n
	}
	io.WriteString(w, "0\r\n\r\n")
}

// ---------------------------------------------------------------- backend

type pxEnv struct {
	mu       sync.Mutex
	back     *httptest.Server
	script   pxBackend
	hits     int
	seen     *pxSeenReq
	all      []*pxSeenReq
	mback    *httptest.Server
	mhits    int
	mseen    *pxSeenReq
	alt      http.HandlerFunc // when set, the backend is this handler (concurrency harness)
	caseID   int // stamped on every client request (X-Verif-Case) so that a late mirror request of an earlier case is not attributed to this one
	front    *httptest.Server
	handler  http.Handler
	panicked string
}

type pxPanicLog struct{ e *pxEnv }

func (l pxPanicLog) Write(p []byte) (int, error) {
	if bytes.Contains(p, []byte("panic serving")) {
		msg := string(p)
		if i := strings.Index(msg, "panic serving"); i >= 0 {
			msg = msg[i:]
		}
		if i := strings.IndexByte(msg, '\n'); i >= 0 {
			msg = msg[:i]
		}
		if i := strings.Index(msg, ": "); i >= 0 { // drop the remote address
			msg = msg[i+2:]
		}
		l.e.mu.Lock()
		l.e.panicked = msg
		l.e.mu.Unlock()
	}
	return len(p), nil
}

var (
	pxEnvOnce sync.Once
	pxTheEnv  *pxEnv
)

func pxGetEnv() *pxEnv {
	pxEnvOnce.Do(func() {
		e := &pxEnv{}
		e.back = httptest.NewServer(http.HandlerFunc(e.serveBackend))
		e.mback = httptest.NewServer(http.HandlerFunc(e.serveMirror))
		e.front = httptest.NewUnstartedServer(http.HandlerFunc(func(w http.ResponseWriter, r *http.Request) {
			e.mu.Lock()
			h := e.handler
			e.mu.Unlock()
			if h == nil {
				w.WriteHeader(599)
				return
			}
			h.ServeHTTP(w, r)
		}))
		// net/http recovers a panicking handler, logs it and drops the connection: record it.
		e.front.Config.ErrorLog = log.New(pxPanicLog{e}, "", 0)
		e.front.Start()
		pxTheEnv = e
	})
	return pxTheEnv
}

func pxRecord(r *http.Request) *pxSeenReq {
	body, err := io.ReadAll(r.Body)
	seen := &pxSeenReq{
		Method: r.Method, URI: r.RequestURI, Path: r.URL.Path, RawQuery: r.URL.RawQuery, Host: r.Host,
		Hdrs: pxSortedHdrs(r.Header), CL: r.ContentLength, TE: r.TransferEncoding,
		BodyLen: len(body), BodySum: pxSum(body), BodyErr: pxErrClass(err),
	}
	seen.DecLen, seen.DecSum = seen.BodyLen, seen.BodySum
	if r.Header.Get("Content-Encoding") == "gzip" {
		d, derr := pxGunzip(body)
		seen.DecLen, seen.DecSum, seen.DecErr = len(d), pxSum(d), pxErrClass(derr)
	}
	return seen
}

// serveMirror is the mirror pool's backend: it records what it gets and answers with something the
// primary never sends, so that any influence on the client-visible response would show.
func (e *pxEnv) serveMirror(w http.ResponseWriter, r *http.Request) {
	seen := pxRecord(r)
	e.mu.Lock()
	if r.Header.Get("X-Verif-Case") == strconv.Itoa(e.caseID) {
		e.mhits++
		e.mseen = seen
	}
	e.mu.Unlock()
	w.Header().Set("X-From-Mirror", "1")
	w.WriteHeader(418)
	io.WriteString(w, "answer of the mirror backend")
}

const pxPreBody = "fail"

func (e *pxEnv) serveBackend(w http.ResponseWriter, r *http.Request) {
	e.mu.Lock()
	alt := e.alt
	e.mu.Unlock()
	if alt != nil {
		alt(w, r)
		return
	}
	seen := pxRecord(r)
	e.mu.Lock()
	k := e.hits
	e.hits++
	e.seen = seen
	e.all = append(e.all, seen)
	sc := e.script
	e.mu.Unlock()

	if k < len(sc.Pre) {
		if sc.Pre[k].Kind == "reset" {
			if hj, ok := w.(http.Hijacker); ok {
				if conn, _, err := hj.Hijack(); err == nil {
					conn.Close()
				}
			}
			return
		}
		st := sc.Pre[k].Status
		if st < 200 || st > 599 || st == 204 || st == 304 {
			st = 503
		}
		w.Header().Set("Content-Length", strconv.Itoa(len(pxPreBody)))
		w.WriteHeader(st)
		if r.Method != http.MethodHead {
			io.WriteString(w, pxPreBody)
		}
		return
	}

	wire := pxWire(sc.Body)
	status := sc.Status
	if status < 100 || status > 599 {
		status = 200
	}
	noBody := r.Method == http.MethodHead || status == 204 || status == 304 || status < 200
	switch sc.Body.Enc {
	case "lie", "close":
		// raw reply on the hijacked connection
		hj, ok := w.(http.Hijacker)
		if !ok {
			w.WriteHeader(598)
			return
		}
		conn, bw, herr := hj.Hijack()
		if herr != nil {
			return
		}
		defer conn.Close()
		fmt.Fprintf(bw, "HTTP/1.1 %d %s\r\n", status, http.StatusText(status))
		for _, kv := range sc.Hdrs {
			fmt.Fprintf(bw, "%s: %s\r\n", kv[0], kv[1])
		}
		if sc.Body.Gzip {
			io.WriteString(bw, "Content-Encoding: gzip\r\n")
		}
		if sc.Body.Enc == "lie" {
			fmt.Fprintf(bw, "Content-Length: %d\r\n", sc.Body.Decl)
		}
		io.WriteString(bw, "Connection: close\r\n\r\n")
		if !noBody {
			bw.Write(wire)
		}
		bw.Flush()
		return
	}
	h := w.Header()
	for _, kv := range sc.Hdrs {
		h.Add(kv[0], kv[1])
	}
	if sc.Body.Gzip {
		h.Set("Content-Encoding", "gzip")
	}
	if sc.Body.Enc == "cl" {
		h.Set("Content-Length", strconv.Itoa(len(wire)))
	}
	w.WriteHeader(status)
	if noBody {
		return
	}
	if sc.Body.Enc == "chunked" {
		// force chunked transfer-encoding: flush before the handler returns
		half := len(wire) / 2
		w.Write(wire[:half])
		if f, ok := w.(http.Flusher); ok {
			f.Flush()
		}
		w.Write(wire[half:])
		return
	}
	w.Write(wire)
}

// ---------------------------------------------------------------- system under test

func pxYAMLStr(s string) string { return strconv.Quote(s) }

func pxAdaptorYAML(name, kind string, a *pxAdaptor) string {
	var sb strings.Builder
	fmt.Fprintf(&sb, "- name: %s\n  kind: %s\n", name, kind)
	if kind == "RequestAdaptor" {
		if a.Method != "" {
			fmt.Fprintf(&sb, "  method: %s\n", pxYAMLStr(a.Method))
		}
		if a.Host != "" {
			fmt.Fprintf(&sb, "  host: %s\n", pxYAMLStr(a.Host))
		}
		if p := a.Path; p != nil {
			sb.WriteString("  path:\n")
			if p.Replace != "" {
				fmt.Fprintf(&sb, "    replace: %s\n", pxYAMLStr(p.Replace))
			}
			if p.AddPrefix != "" {
				fmt.Fprintf(&sb, "    addPrefix: %s\n", pxYAMLStr(p.AddPrefix))
			}
			if p.TrimPrefix != "" {
				fmt.Fprintf(&sb, "    trimPrefix: %s\n", pxYAMLStr(p.TrimPrefix))
			}
			if p.Regexp != "" {
				fmt.Fprintf(&sb, "    regexpReplace:\n      regexp: %s\n      replace: %s\n", pxYAMLStr(p.Regexp), pxYAMLStr(p.ReRepl))
			}
		}
	}
	if a.Body != "" {
		fmt.Fprintf(&sb, "  body: %s\n", pxYAMLStr(a.Body))
	}
	if a.Compress {
		sb.WriteString("  compress: gzip\n")
	}
	if a.Decompress {
		sb.WriteString("  decompress: gzip\n")
	}
	if len(a.HDel)+len(a.HSet)+len(a.HAdd) > 0 {
		sb.WriteString("  header:\n")
		if len(a.HDel) > 0 {
			sb.WriteString("    del:\n")
			for _, k := range a.HDel {
				fmt.Fprintf(&sb, "    - %s\n", pxYAMLStr(k))
			}
		}
		for _, sec := range []struct {
			name string
			kvs  [][2]string
		}{{"set", a.HSet}, {"add", a.HAdd}} {
			if len(sec.kvs) > 0 {
				fmt.Fprintf(&sb, "    %s:\n", sec.name)
				for _, kv := range sec.kvs {
					fmt.Fprintf(&sb, "      %s: %s\n", pxYAMLStr(kv[0]), pxYAMLStr(kv[1]))
				}
			}
		}
	}
	return sb.String()
}

func (e *pxEnv) serverURL(cfg pxCfg) (string, string) {
	addr := e.back.Listener.Addr().(*net.TCPAddr)
	hp := fmt.Sprintf("127.0.0.1:%d", addr.Port)
	if cfg.Server == "name" {
		hp = fmt.Sprintf("localhost:%d", addr.Port)
	}
	return "http://" + hp, hp
}

func (e *pxEnv) mirrorURL(m *pxMirror) (string, string) {
	addr := e.mback.Listener.Addr().(*net.TCPAddr)
	hp := fmt.Sprintf("127.0.0.1:%d", addr.Port)
	if m.Server == "name" {
		hp = fmt.Sprintf("localhost:%d", addr.Port)
	}
	return "http://" + hp, hp
}

type pxSUT struct {
	pl *pipeline.Pipeline
	m  *mux
	mm context.MuxMapper
}

func (e *pxEnv) build(cfg pxCfg) (sut *pxSUT, err error) {
	defer func() {
		if p := recover(); p != nil {
			err = fmt.Errorf("init panic: %v", p)
		}
	}()
	url, _ := e.serverURL(cfg)
	var sb strings.Builder
	sb.WriteString("name: pl\nkind: Pipeline\n")
	retry := cfg.Retry != nil && cfg.Retry.Max > 0
	if retry {
		fmt.Fprintf(&sb, "resilience:\n- name: retry\n  kind: Retry\n  maxAttempts: %d\n  waitDuration: 1ms\n", cfg.Retry.Max)
	}
	sb.WriteString("filters:\n")
	if cfg.ReqAd != nil {
		sb.WriteString(pxAdaptorYAML("reqad", "RequestAdaptor", cfg.ReqAd))
	}
	sb.WriteString("- name: proxy\n  kind: Proxy\n")
	fmt.Fprintf(&sb, "  serverMaxBodySize: %d\n", cfg.ProxyMax)
	if cfg.Compression >= 0 {
		fmt.Fprintf(&sb, "  compression:\n    minLength: %d\n", cfg.Compression)
	}
	if m := cfg.Mirror; m != nil && m.Hdr != "" {
		murl, _ := e.mirrorURL(m)
		fmt.Fprintf(&sb, "  mirrorPool:\n    filter:\n      headers:\n        %s:\n          exact: %s\n    servers:\n    - url: %s\n      keepHost: %v\n",
			pxYAMLStr(m.Hdr), pxYAMLStr(m.Val), murl, m.KeepHost)
	}
	fmt.Fprintf(&sb, "  pools:\n  - serverMaxBodySize: %d\n    servers:\n    - url: %s\n      keepHost: %v\n", cfg.PoolMax, url, cfg.KeepHost)
	if retry {
		sb.WriteString("    retryPolicy: retry\n")
		if len(cfg.Retry.FailureCodes) > 0 {
			sb.WriteString("    failureCodes: [")
			for i, c := range cfg.Retry.FailureCodes {
				if i > 0 {
					sb.WriteString(", ")
				}
				fmt.Fprintf(&sb, "%d", c)
			}
			sb.WriteString("]\n")
		}
	}
	if c := cfg.Cache; c != nil && len(c.Codes) > 0 && len(c.Methods) > 0 && c.MaxEntryBytes > 0 {
		fmt.Fprintf(&sb, "    memoryCache:\n      expiration: 10m\n      maxEntryBytes: %d\n      codes: [", c.MaxEntryBytes)
		for i, code := range c.Codes {
			if i > 0 {
				sb.WriteString(", ")
			}
			fmt.Fprintf(&sb, "%d", code)
		}
		sb.WriteString("]\n      methods: [")
		for i, m := range c.Methods {
			if i > 0 {
				sb.WriteString(", ")
			}
			sb.WriteString(pxYAMLStr(m))
		}
		sb.WriteString("]\n")
	}
	if cfg.RespAd != nil {
		sb.WriteString(pxAdaptorYAML("respad", "ResponseAdaptor", cfg.RespAd))
	}
	plSpec, err := supervisor.NewSpec(sb.String())
	if err != nil {
		return nil, fmt.Errorf("pipeline spec: %v", err)
	}
	pl := &pipeline.Pipeline{}
	pl.Init(plSpec, nil)

	mm := &contexttest.MockedMuxMapper{MockedGetHandler: func(name string) (context.Handler, bool) { return pl, true }}
	m := newMux(httpstat.New(), httpstat.NewTopN(10), mm)
	hsSpec, err := pxServerSpec(cfg.ServerMax, cfg.PathMax, 0)
	if err != nil {
		pl.Close()
		return nil, err
	}
	m.reload(hsSpec, mm)
	return &pxSUT{pl: pl, m: m, mm: mm}, nil
}

// pxServerSpec is the HTTPServer spec of the environment: one catch-all path (with its own limit) in front of
// `extra` never-matching exact paths.
func pxServerSpec(serverMax, pathMax int64, extra int) (*supervisor.Spec, error) {
	var sb strings.Builder
	fmt.Fprintf(&sb, "kind: HTTPServer\nname: front\nport: 8080\nkeepAlive: true\nhttps: false\nclientMaxBodySize: %d\nrules:\n- paths:\n  - pathPrefix: /\n    backend: pl\n    clientMaxBodySize: %d\n",
		serverMax, pathMax)
	for i := 0; i < extra && i < 8; i++ {
		fmt.Fprintf(&sb, "  - path: /never-%d\n    backend: pl\n", i)
	}
	spec, err := supervisor.NewSpec(sb.String())
	if err != nil {
		return nil, fmt.Errorf("httpserver spec: %v", err)
	}
	return spec, nil
}

// reload updates the HTTPServer spec in place, as the supervisor does for a changed object.
func (s *pxSUT) reload(r *pxReload) error {
	spec, err := pxServerSpec(r.ServerMax, r.PathMax, r.Rules)
	if err != nil {
		return err
	}
	s.m.reload(spec, s.mm)
	return nil
}

func (s *pxSUT) close() {
	s.m.close()
	s.pl.Close()
}

// ---------------------------------------------------------------- raw client

func pxRequestBytes(sc *pxScenario, caseID int) []byte {
	var b bytes.Buffer
	target := sc.Path
	if target == "" {
		target = "/"
	}
	if sc.Query != "" {
		target += "?" + sc.Query
	}
	method := sc.Method
	if method == "" {
		method = "GET"
	}
	fmt.Fprintf(&b, "%s %s HTTP/1.1\r\n", method, target)
	fmt.Fprintf(&b, "Host: %s\r\n", sc.Host)
	for _, kv := range sc.Hdrs {
		fmt.Fprintf(&b, "%s: %s\r\n", kv[0], kv[1])
	}
	if sc.Cfg.Mirror != nil {
		fmt.Fprintf(&b, "X-Verif-Case: %d\r\n", caseID)
	}
	wire := pxWire(sc.Body)
	if sc.Body.Gzip {
		b.WriteString("Content-Encoding: gzip\r\n")
	}
	b.WriteString("Connection: close\r\n")
	switch sc.Body.Enc {
	case "chunked":
		b.WriteString("Transfer-Encoding: chunked\r\n\r\n")
		pxChunked(&b, wire, sc.Body.Seed)
	case "lie":
		fmt.Fprintf(&b, "Content-Length: %d\r\n\r\n", sc.Body.Decl)
		b.Write(wire)
	case "none":
		b.WriteString("\r\n")
	default:
		fmt.Fprintf(&b, "Content-Length: %d\r\n\r\n", len(wire))
		b.Write(wire)
	}
	return b.Bytes()
}

func pxParseResponse(method string, raw []byte, readErr error) *pxSeenResp {
	r := &pxSeenResp{Declared: -1}
	idx := bytes.Index(raw, []byte("\r\n\r\n"))
	if idx < 0 {
		r.Err = "no-header-end"
		if len(raw) == 0 {
			r.Err = "empty:" + pxErrClass(readErr)
		}
		return r
	}
	// skip interim 1xx responses
	for bytes.HasPrefix(raw, []byte("HTTP/1.1 1")) {
		raw = raw[idx+4:]
		idx = bytes.Index(raw, []byte("\r\n\r\n"))
		if idx < 0 {
			r.Err = "no-header-end"
			return r
		}
	}
	head, rest := string(raw[:idx]), raw[idx+4:]
	lines := strings.Split(head, "\r\n")
	parts := strings.SplitN(lines[0], " ", 3)
	if len(parts) < 2 {
		r.Err = "bad-status-line"
		return r
	}
	r.Status, _ = strconv.Atoi(parts[1])
	h := http.Header{}
	for _, l := range lines[1:] {
		c := strings.IndexByte(l, ':')
		if c < 0 {
			r.Err = "bad-header-line"
			return r
		}
		k := http.CanonicalHeaderKey(strings.TrimSpace(l[:c]))
		h[k] = append(h[k], strings.TrimSpace(l[c+1:]))
	}
	r.Hdrs = pxSortedHdrs(h)
	var body []byte
	cls := h["Content-Length"]
	chunked := false
	for _, te := range h["Transfer-Encoding"] {
		if strings.Contains(strings.ToLower(te), "chunked") {
			chunked = true
		}
	}
	if len(cls) > 0 {
		n, err := strconv.Atoi(cls[0])
		if err != nil || n < 0 {
			r.FrameErr = "bad-content-length"
		} else {
			r.Declared = n
		}
		for _, c := range cls[1:] {
			if c != cls[0] {
				r.FrameErr = "conflicting-content-length"
			}
		}
	}
	noBody := method == "HEAD" || r.Status == 204 || r.Status == 304
	switch {
	case noBody:
		r.Framing = "nobody"
		if len(rest) != 0 {
			r.FrameErr = "body-on-bodyless-response"
		}
	case chunked:
		r.Framing = "chunked"
		if len(cls) > 0 {
			r.FrameErr = "content-length-with-chunked"
		}
		br := bufio.NewReader(bytes.NewReader(rest))
		for {
			line, err := br.ReadString('\n')
			if err != nil {
				r.FrameErr = "chunk-truncated"
				break
			}
			n, perr := strconv.ParseInt(strings.TrimSpace(strings.SplitN(line, ";", 2)[0]), 16, 64)
			if perr != nil || n < 0 {
				r.FrameErr = "chunk-size"
				break
			}
			if n == 0 {
				tail, _ := io.ReadAll(br)
				if string(tail) != "\r\n" {
					r.FrameErr = "chunk-trailer"
				}
				break
			}
			buf := make([]byte, n+2)
			if _, err := io.ReadFull(br, buf); err != nil {
				r.FrameErr = "chunk-truncated"
				body = append(body, buf...)
				break
			}
			body = append(body, buf[:n]...)
		}
	case len(cls) > 0:
		r.Framing = "cl"
		body = rest
		if r.FrameErr == "" && len(rest) != r.Declared {
			r.FrameErr = "length-mismatch"
		}
	default:
		r.Framing = "close"
		body = rest
	}
	if readErr != nil && readErr != io.EOF && r.FrameErr == "" {
		r.FrameErr = "read:" + pxErrClass(readErr)
	}
	r.FrameOK = r.FrameErr == ""
	r.BodyLen, r.BodySum = len(body), pxSum(body)
	r.DecLen, r.DecSum = r.BodyLen, r.BodySum
	if ce := h.Get("Content-Encoding"); ce == "gzip" && !noBody {
		d, err := pxGunzip(body)
		r.DecLen, r.DecSum, r.DecErr = len(d), pxSum(d), pxErrClass(err)
	}
	return r
}

func (e *pxEnv) roundTrip(sc *pxScenario, caseID int) *pxSeenResp {
	conn, err := net.DialTimeout("tcp", e.front.Listener.Addr().String(), 5*time.Second)
	if err != nil {
		return &pxSeenResp{Err: "dial", Declared: -1}
	}
	defer conn.Close()
	conn.SetDeadline(time.Now().Add(20 * time.Second))
	reqBytes := pxRequestBytes(sc, caseID)
	done := make(chan struct{})
	short := sc.Body.Enc == "lie" && sc.Body.Decl > len(pxWire(sc.Body))
	go func() { // write concurrently: the server may answer (413) before reading everything
		conn.Write(reqBytes)
		if tc, ok := conn.(*net.TCPConn); ok && short {
			tc.CloseWrite() // announces more than it sends: let the server see EOF
		}
		close(done)
	}()
	raw, rerr := io.ReadAll(conn)
	conn.Close()
	<-done
	return pxParseResponse(sc.Method, raw, rerr)
}

// pxOracleFor computes the standard-library oracle data of one request.
func (e *pxEnv) oracleFor(sc *pxScenario) pxOracle {
	url, hp := e.serverURL(sc.Cfg)
	o := pxOracle{Req: pxBlobOf(pxPlain(sc.Body)), Back: pxBlobOf(pxPlain(sc.Backend.Body)), ServerURL: url, ServerHP: hp}
	o.Empty = pxBlobOf(nil)
	var addCanonLater []string
	target := sc.Path
	if target == "" {
		target = "/"
	}
	if sc.Query != "" {
		target += "?" + sc.Query
	}
	if u, err := neturl.ParseRequestURI(target); err == nil {
		o.Target = true
		o.EscPath, o.DecPath, o.RawQuery = u.EscapedPath(), u.Path, u.RawQuery
	}
	if sc.Cfg.ReqAd != nil {
		o.ReqAd = pxBlobOf([]byte(sc.Cfg.ReqAd.Body))
		if p := sc.Cfg.ReqAd.Path; p != nil && o.Target {
			cands := []string{p.Replace, p.AddPrefix + o.DecPath, strings.TrimPrefix(o.DecPath, p.TrimPrefix)}
			if p.Regexp != "" {
				if re, err := regexp.Compile(p.Regexp); err == nil {
					o.ReRepl = re.ReplaceAllString(o.DecPath, p.ReRepl)
					cands = append(cands, o.ReRepl)
				}
			}
			for _, c := range cands {
				o.Esc = append(o.Esc, [2]string{c, (&neturl.URL{Path: c}).EscapedPath()})
			}
		}
	}
	o.Pre = pxBlobOf([]byte(pxPreBody))
	o.Stub = pxBlobOf([]byte("cannot send a stream body to mirror"))
	if m := sc.Cfg.Mirror; m != nil {
		o.MirrorURL, o.MirrorHP = e.mirrorURL(m)
		addCanonLater = append(addCanonLater, m.Hdr)
	}
	if sc.Cfg.RespAd != nil {
		o.RespAd = pxBlobOf([]byte(sc.Cfg.RespAd.Body))
	}
	seenName := map[string]bool{}
	addCanon := func(n string) {
		n = strings.TrimSpace(n)
		if n == "" || seenName[n] {
			return
		}
		seenName[n] = true
		o.Canon = append(o.Canon, [2]string{n, http.CanonicalHeaderKey(n)})
	}
	for _, kv := range sc.Hdrs {
		addCanon(kv[0])
		if http.CanonicalHeaderKey(kv[0]) == "Connection" {
			for _, t := range strings.Split(kv[1], ",") {
				addCanon(t)
			}
		}
	}
	for _, kv := range sc.Backend.Hdrs {
		addCanon(kv[0])
	}
	for _, n := range addCanonLater {
		addCanon(n)
	}
	for _, a := range []*pxAdaptor{sc.Cfg.ReqAd, sc.Cfg.RespAd} {
		if a == nil {
			continue
		}
		for _, k := range a.HDel {
			addCanon(k)
		}
		for _, kv := range a.HSet {
			addCanon(kv[0])
		}
		for _, kv := range a.HAdd {
			addCanon(kv[0])
		}
	}
	return o
}

// runOn sends one request through an already built system under test.
func (e *pxEnv) runOn(sut *pxSUT, sc *pxScenario) *pxObs {
	obs := &pxObs{Oracle: e.oracleFor(sc)}
	e.mu.Lock()
	e.script, e.hits, e.seen, e.handler, e.panicked = sc.Backend, 0, nil, sut.m, ""
	e.all, e.mhits, e.mseen = nil, 0, nil
	e.caseID++
	caseID := e.caseID
	e.mu.Unlock()

	obs.C = e.roundTrip(sc, caseID)
	// The mirror pool works in its own goroutine: when the scenario's request carries the mirror filter's
	// header, give its request a moment to arrive. The mirror request is built on the client request's context,
	// which net/http cancels when the primary's answer is complete, so it legitimately may never arrive: "not
	// observed" is admissible for the judge, only an observed mirror request is compared with the model.
	if m := sc.Cfg.Mirror; m != nil && m.Hdr != "" {
		want := false
		for _, kv := range sc.Hdrs {
			if http.CanonicalHeaderKey(kv[0]) == http.CanonicalHeaderKey(m.Hdr) && kv[1] == m.Val {
				want = true
			}
		}
		e.mu.Lock()
		want = want && e.hits > 0 // the Proxy ran (the mirror goroutine is started before the primary is contacted)
		e.mu.Unlock()
		for i := 0; want && i < 150; i++ {
			e.mu.Lock()
			got := e.mhits > 0
			e.mu.Unlock()
			if got {
				break
			}
			time.Sleep(2 * time.Millisecond)
		}
	}
	e.mu.Lock()
	obs.All, obs.MHits, obs.M = e.all, e.mhits, e.mseen
	if e.panicked != "" {
		obs.C.Err = "server-panic: " + e.panicked
	}
	// the backend handler records the request before it writes its reply, and the client
	// only gets an answer after that reply: the record is complete here.
	obs.Hits, obs.B = e.hits, e.seen
	e.handler = nil
	e.mu.Unlock()
	return obs
}

// pxRun executes one scenario on a freshly built pipeline + mux.
func pxRun(sc *pxScenario) *pxObs {
	e := pxGetEnv()
	sut, err := e.build(sc.Cfg)
	if err != nil {
		return &pxObs{Oracle: e.oracleFor(sc), Err: err.Error()}
	}
	obs := e.runOn(sut, sc)
	sut.close()
	e.back.CloseClientConnections()
	return obs
}

type pxHistObs struct {
	Steps []*pxObs `json:"steps"`
	Err   string   `json:"error,omitempty"`
}

// pxRunHistory sends the scenario's steps, in order, through ONE pipeline + mux instance
// (so that the pool's memory cache carries over from step to step).
func pxRunHistory(sc *pxScenario) *pxHistObs {
	e := pxGetEnv()
	out := &pxHistObs{}
	sut, err := e.build(sc.Cfg)
	if err != nil {
		out.Err = err.Error()
		return out
	}
	for i := range sc.Steps {
		st := sc.Steps[i]
		if st.Reload != nil { // an update between two requests; its observation slot only says so
			o := &pxObs{}
			if err := sut.reload(st.Reload); err != nil {
				o.Err = err.Error()
			}
			out.Steps = append(out.Steps, o)
			continue
		}
		one := pxScenario{Method: st.Method, Path: st.Path, Query: st.Query, Host: st.Host, Hdrs: st.Hdrs, Body: st.Body,
			Cfg: sc.Cfg, Backend: st.Backend}
		out.Steps = append(out.Steps, e.runOn(sut, &one))
	}
	sut.close()
	e.back.CloseClientConnections()
	return out
}
