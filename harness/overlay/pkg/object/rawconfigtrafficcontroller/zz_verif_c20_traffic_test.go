package rawconfigtrafficcontroller

// Correspondence harness for property C20, traffic path. Injected with
// `go test -overlay`; nothing is written to /repo.
//
// supervisor.MustNew runs on a mocked cluster; the real TrafficController and
// RawConfigTrafficController are initialised as system controllers; snapshots
// are pushed through clustertest.MockedSyncer.SyncPrefix (a harness-owned
// channel) and reconciled by the real run loops: ObjectRegistry.run ->
// applyConfig -> {Supervisor.run -> handleEvent, RawConfigTrafficController.run
// -> handleEvent -> TrafficController.Create/Update/Delete Pipeline/TrafficGate}.
//
// Kinds: two test-only business controllers, two test-only traffic gates, and
// the REAL Pipeline kind whose lifecycle is observed through a test-only filter
// kind (Pipeline.Init -> filter.Init, Pipeline.Inherit -> filter.Inherit(prev)
// then prev.Close(), Pipeline.Close -> filter.Close).
//
// Barrier: every snapshot carries one barrier business controller (its spec
// changes every time: Init/Inherit signal) and one barrier traffic gate (Init
// signals); they tell that the consumer's run loop has reached this snapshot's
// event. The snapshot is then pushed a second time with the business barrier
// changed and the barrier gate REMOVED (its Close signals) — by the property
// this is a no-op for every real name: when the second pair of signals arrives
// the first handleEvent calls have returned. The barrier gate is transient so
// that it never keeps the traffic controller's namespace alive: the last real
// gate / pipeline of the namespace can disappear (TrafficController._cleanSpace).

import (
	"encoding/json"
	"fmt"
	"os"
	"sort"
	"strings"
	"sync"
	"testing"
	"time"

	"github.com/megaease/easegress/pkg/cluster"
	"github.com/megaease/easegress/pkg/cluster/clustertest"
	"github.com/megaease/easegress/pkg/context"
	"github.com/megaease/easegress/pkg/filters"
	"github.com/megaease/easegress/pkg/logger"
	"github.com/megaease/easegress/pkg/object/pipeline"
	"github.com/megaease/easegress/pkg/object/trafficcontroller"
	"github.com/megaease/easegress/pkg/option"
	"github.com/megaease/easegress/pkg/supervisor"
	"github.com/megaease/easegress/pkg/util/verifh"
)

// kind ids shared with the judge (categories are passed in every input).
// cat: 1 business, 2 pipeline, 3 traffic gate, 9 unregistered.
var trKinds = []struct {
	kind string
	cat  int
}{
	{"VerifCtlA", 1}, {"VerifCtlB", 1}, {"VerifGateA", 3}, {"VerifGateB", 3},
	{"Pipeline", 2}, {"VerifNope", 9},
}

type trSpec struct {
	Body int `yaml:"body"`
}

type trCall struct {
	op       string
	self     interface{}
	prev     interface{}
	name     string
	kind     string
	body     int
	panicked bool
}

type trRecorder struct {
	mu     sync.Mutex
	calls  []trCall
	panics map[string]bool
}

var trRec = &trRecorder{}

func trKey(op, name, kind string, body int) string {
	return fmt.Sprintf("%s/%s/%s/%d", op, name, kind, body)
}

func (r *trRecorder) record(c trCall, wrongPrev bool) bool {
	r.mu.Lock()
	defer r.mu.Unlock()
	c.panicked = wrongPrev || r.panics[trKey(c.op, c.name, c.kind, c.body)]
	r.calls = append(r.calls, c)
	return c.panicked
}

func (r *trRecorder) take() []trCall {
	r.mu.Lock()
	defer r.mu.Unlock()
	c := r.calls
	r.calls = nil
	return c
}

type trBase struct {
	name string
	body int
}

func (b *trBase) base() *trBase { return b }
func (b *trBase) set(spec *supervisor.Spec) {
	b.name = spec.Name()
	b.body = spec.ObjectSpec().(*trSpec).Body
}

type (
	trCtlA  struct{ trBase }
	trCtlB  struct{ trBase }
	trGateA struct{ trBase }
	trGateB struct{ trBase }
)

func trInit(o supervisor.Object, b *trBase, spec *supervisor.Spec) {
	b.set(spec)
	if trRec.record(trCall{op: "init", self: o, name: b.name, kind: o.Kind(), body: b.body}, false) {
		panic("verif: init " + b.name)
	}
}

func trInherit(o supervisor.Object, b *trBase, spec *supervisor.Spec, prev supervisor.Object, same bool) {
	b.set(spec)
	if trRec.record(trCall{op: "inherit", self: o, prev: prev, name: b.name, kind: o.Kind(), body: b.body}, !same) {
		panic("verif: inherit " + b.name)
	}
}

func trClose(o supervisor.Object, b *trBase) {
	if trRec.record(trCall{op: "close", self: o, name: b.name, kind: o.Kind(), body: b.body}, false) {
		panic("verif: close " + b.name)
	}
}

func (o *trCtlA) Category() supervisor.ObjectCategory { return supervisor.CategoryBusinessController }
func (o *trCtlA) Kind() string                        { return "VerifCtlA" }
func (o *trCtlA) DefaultSpec() interface{}            { return &trSpec{} }
func (o *trCtlA) Status() *supervisor.Status          { return &supervisor.Status{} }
func (o *trCtlA) Init(s *supervisor.Spec)             { trInit(o, &o.trBase, s) }
func (o *trCtlA) Inherit(s *supervisor.Spec, p supervisor.Object) {
	_, ok := p.(*trCtlA)
	trInherit(o, &o.trBase, s, p, ok)
}
func (o *trCtlA) Close() { trClose(o, &o.trBase) }

func (o *trCtlB) Category() supervisor.ObjectCategory { return supervisor.CategoryBusinessController }
func (o *trCtlB) Kind() string                        { return "VerifCtlB" }
func (o *trCtlB) DefaultSpec() interface{}            { return &trSpec{} }
func (o *trCtlB) Status() *supervisor.Status          { return &supervisor.Status{} }
func (o *trCtlB) Init(s *supervisor.Spec)             { trInit(o, &o.trBase, s) }
func (o *trCtlB) Inherit(s *supervisor.Spec, p supervisor.Object) {
	_, ok := p.(*trCtlB)
	trInherit(o, &o.trBase, s, p, ok)
}
func (o *trCtlB) Close() { trClose(o, &o.trBase) }

func (o *trGateA) Category() supervisor.ObjectCategory { return supervisor.CategoryTrafficGate }
func (o *trGateA) Kind() string                        { return "VerifGateA" }
func (o *trGateA) DefaultSpec() interface{}            { return &trSpec{} }
func (o *trGateA) Status() *supervisor.Status          { return &supervisor.Status{} }
func (o *trGateA) Init(s *supervisor.Spec, _ context.MuxMapper) {
	trInit(o, &o.trBase, s)
}
func (o *trGateA) Inherit(s *supervisor.Spec, p supervisor.Object, _ context.MuxMapper) {
	_, ok := p.(*trGateA)
	trInherit(o, &o.trBase, s, p, ok)
}
func (o *trGateA) Close() { trClose(o, &o.trBase) }

func (o *trGateB) Category() supervisor.ObjectCategory { return supervisor.CategoryTrafficGate }
func (o *trGateB) Kind() string                        { return "VerifGateB" }
func (o *trGateB) DefaultSpec() interface{}            { return &trSpec{} }
func (o *trGateB) Status() *supervisor.Status          { return &supervisor.Status{} }
func (o *trGateB) Init(s *supervisor.Spec, _ context.MuxMapper) {
	trInit(o, &o.trBase, s)
}
func (o *trGateB) Inherit(s *supervisor.Spec, p supervisor.Object, _ context.MuxMapper) {
	_, ok := p.(*trGateB)
	trInherit(o, &o.trBase, s, p, ok)
}
func (o *trGateB) Close() { trClose(o, &o.trBase) }

// barriers
var (
	trSigSup  = make(chan struct{}, 64)
	trSigGate = make(chan struct{}, 64)
)

type trBarrier struct{}

func (o *trBarrier) Category() supervisor.ObjectCategory { return supervisor.CategoryBusinessController }
func (o *trBarrier) Kind() string                        { return "VerifBarrier" }
func (o *trBarrier) DefaultSpec() interface{}            { return &trSpec{} }
func (o *trBarrier) Status() *supervisor.Status          { return &supervisor.Status{} }
func (o *trBarrier) Init(s *supervisor.Spec)             { trSigSup <- struct{}{} }
func (o *trBarrier) Inherit(s *supervisor.Spec, p supervisor.Object) {
	trSigSup <- struct{}{}
}
func (o *trBarrier) Close() {}

type trBarrierGate struct{}

func (o *trBarrierGate) Category() supervisor.ObjectCategory { return supervisor.CategoryTrafficGate }
func (o *trBarrierGate) Kind() string                        { return "VerifBarrierGate" }
func (o *trBarrierGate) DefaultSpec() interface{}            { return &trSpec{} }
func (o *trBarrierGate) Status() *supervisor.Status          { return &supervisor.Status{} }
func (o *trBarrierGate) Init(s *supervisor.Spec, _ context.MuxMapper) {
	trSigGate <- struct{}{}
}
func (o *trBarrierGate) Inherit(s *supervisor.Spec, p supervisor.Object, _ context.MuxMapper) {
	trSigGate <- struct{}{}
}
func (o *trBarrierGate) Close() { trSigGate <- struct{}{} }

// recording filter: makes the real Pipeline's lifecycle observable
type trFilterSpec struct {
	filters.BaseSpec `yaml:",inline"`
	Body             int `yaml:"body"`
}

type trFilter struct {
	spec      *trFilterSpec
	inherited bool // a newer generation inherited from this one: its Close is Pipeline.Inherit's clean-up
}

var trFilterKind = &filters.Kind{
	Name:        "VerifRecFilter",
	Description: "records the lifecycle of the pipeline it belongs to",
	Results:     []string{},
	DefaultSpec: func() filters.Spec { return &trFilterSpec{} },
	CreateInstance: func(spec filters.Spec) filters.Filter {
		return &trFilter{spec: spec.(*trFilterSpec)}
	},
}

func (f *trFilter) Name() string                      { return f.spec.Name() }
func (f *trFilter) Kind() *filters.Kind               { return trFilterKind }
func (f *trFilter) Spec() filters.Spec                { return f.spec }
func (f *trFilter) Handle(*context.Context) string    { return "" }
func (f *trFilter) Status() interface{}               { return nil }
func (f *trFilter) Init() {
	trRec.record(trCall{op: "init", self: f, name: f.spec.Pipeline(), kind: "Pipeline", body: f.spec.Body}, false)
}
func (f *trFilter) Inherit(prev filters.Filter) {
	if p, ok := prev.(*trFilter); ok {
		p.inherited = true
	}
	trRec.record(trCall{op: "inherit", self: f, prev: prev, name: f.spec.Pipeline(), kind: "Pipeline", body: f.spec.Body}, false)
}
func (f *trFilter) Close() {
	if f.inherited {
		return
	}
	trRec.record(trCall{op: "close", self: f, name: f.spec.Pipeline(), kind: "Pipeline", body: f.spec.Body}, false)
}

var trRegisterOnce sync.Once

func trRegister() {
	trRegisterOnce.Do(func() {
		logger.InitNop()
		supervisor.Register(&trCtlA{})
		supervisor.Register(&trCtlB{})
		supervisor.Register(&trGateA{})
		supervisor.Register(&trGateB{})
		supervisor.Register(&trBarrier{})
		supervisor.Register(&trBarrierGate{})
		filters.Register(trFilterKind)
	})
}

// ---------------------------------------------------------------------------
// input / observation (same JSON shape as the pkg/supervisor harness)

type trEntry struct {
	Name int `json:"n"`
	Kind int `json:"k"`
	Body int `json:"b"`
	Bad  int `json:"bad,omitempty"`
}

type trItem struct {
	Snap   []trEntry `json:"snap"`
	IsSnap bool      `json:"isSnap"`
	Attach int       `json:"attach"`
}

type trWatcher struct {
	Cats         []int `json:"cats"`
	All          bool  `json:"all"`
	Consumer     bool  `json:"consumer"`
	NoEvents     bool  `json:"noEvents"`
	PipeKinds    []int `json:"pipeKinds"`    // kinds kept in the consumer's first map (slot 0); others in slot 1
	CreateChecks bool  `json:"createChecks"` // Supervisor.handleEvent refuses to create an existing name
	Namespaced   bool  `json:"namespaced"`   // the consumer keeps its maps in a namespace object (_cleanSpace)
}

type trPanic struct {
	Op   string `json:"op"`
	Name int    `json:"n"`
	Kind int    `json:"k"`
	Body int    `json:"b"`
}

type trInput struct {
	Cats     []int       `json:"cats"`
	Watchers []trWatcher `json:"watchers"`
	Hist     []trItem    `json:"hist"`
	Panics   []trPanic   `json:"panics"`
}

type trEnt [4]int
type trObsCall [9]int

type trEvent struct {
	W   int     `json:"w"`
	Del []trEnt `json:"del"`
	Cre []trEnt `json:"cre"`
	Upd []trEnt `json:"upd"`
}

type trStep struct {
	Events []trEvent   `json:"events"`
	Log    []trObsCall `json:"log"`
	Live   []trEnt     `json:"live"`
	Reg    []trEnt     `json:"reg"`
	Ns     int         `json:"ns"` // does tc.namespaces[DefaultNamespace] exist (-1: not observed)
}

type trObs struct {
	Steps []trStep `json:"steps"`
	Err   string   `json:"error,omitempty"`
}

func trName(i int) string { return fmt.Sprintf("n%d", i) }

func trNameIdx(s string) int {
	var i int
	if _, err := fmt.Sscanf(s, "n%d", &i); err != nil {
		return -1
	}
	return i
}

func trKindIdx(k string) int {
	for i, e := range trKinds {
		if e.kind == k {
			return i
		}
	}
	return -1
}

func trKindName(i int) string {
	if i >= 0 && i < len(trKinds) {
		return trKinds[i].kind
	}
	return "VerifNope"
}

func trYaml(e trEntry) string {
	if e.Bad == 1 {
		return "- just\n- a list\n"
	}
	if trKindName(e.Kind) == "Pipeline" {
		return fmt.Sprintf("name: %s\nkind: Pipeline\nfilters:\n- name: rec\n  kind: VerifRecFilter\n  body: %d\n", trName(e.Name), e.Body)
	}
	return fmt.Sprintf("name: %s\nkind: %s\nbody: %d\n", trName(e.Name), trKindName(e.Kind), e.Body)
}

type trTags struct {
	gen   map[interface{}]int // object instance (or recording filter) -> snapshot index
	pipes map[*pipeline.Pipeline]int
}

func (t *trTags) body(e *supervisor.ObjectEntity) int {
	switch s := e.Spec().ObjectSpec().(type) {
	case *trSpec:
		return s.Body
	case *pipeline.Spec:
		if len(s.Filters) == 1 {
			switch b := s.Filters[0]["body"].(type) {
			case int:
				return b
			case int64:
				return int(b)
			case uint64:
				return int(b)
			case float64:
				return int(b)
			}
		}
	}
	return -1
}

func (t *trTags) ent(name string, e *supervisor.ObjectEntity) trEnt {
	g, ok := t.gen[e.Instance()]
	if !ok {
		g = -1
	}
	return trEnt{trNameIdx(name), g, trKindIdx(e.Spec().Kind()), t.body(e)}
}

func (t *trTags) ents(m map[string]*supervisor.ObjectEntity) []trEnt {
	out := make([]trEnt, 0, len(m))
	for n, e := range m {
		if trNameIdx(n) < 0 {
			continue // barriers
		}
		out = append(out, t.ent(n, e))
	}
	sort.Slice(out, func(i, j int) bool { return out[i][0] < out[j][0] })
	return out
}

func (t *trTags) tag(m map[string]*supervisor.ObjectEntity, idx int) {
	for _, e := range m {
		if _, ok := t.gen[e.Instance()]; !ok {
			t.gen[e.Instance()] = idx
		}
		if p, ok := e.Instance().(*pipeline.Pipeline); ok {
			if _, ok := t.pipes[p]; !ok {
				t.pipes[p] = idx
			}
		}
	}
}

// resolve the recording filters of every pipeline seen so far
func (t *trTags) resolveFilters() {
	for p, g := range t.pipes {
		if f := pipeline.MockGetFilter(p, "rec"); f != nil {
			if _, ok := t.gen[f]; !ok {
				t.gen[f] = g
			}
		}
	}
}

func (t *trTags) calls(cs []trCall) []trObsCall {
	t.resolveFilters()
	out := make([]trObsCall, 0, len(cs))
	for _, c := range cs {
		if trNameIdx(c.name) < 0 {
			continue
		}
		op := map[string]int{"init": 0, "inherit": 1, "close": 2}[c.op]
		g, ok := t.gen[c.self]
		if !ok {
			g = -1
		}
		oc := trObsCall{op, trNameIdx(c.name), g, trKindIdx(c.kind), c.body, -1, -1, -1, 0}
		if c.prev != nil {
			pg, ok := t.gen[c.prev]
			if !ok {
				pg = -1
			}
			oc[5] = pg
			switch p := c.prev.(type) {
			case *trFilter:
				oc[6], oc[7] = trKindIdx("Pipeline"), p.spec.Body
			case supervisor.Object:
				oc[6] = trKindIdx(p.Kind())
				if b, ok := c.prev.(interface{ base() *trBase }); ok {
					oc[7] = b.base().body
				}
			}
		}
		if c.panicked {
			oc[8] = 1
		}
		out = append(out, oc)
	}
	return out
}

// trStuck counts consecutive cases in which a run loop never reached the barrier; after a few of
// them the remaining cases fail fast (a broken reconciliation would otherwise cost 20 s per case).
var trStuck int

func trExec(raw json.RawMessage) interface{} {
	trRegister()
	if trStuck >= 3 {
		return trObs{Steps: []trStep{}, Err: "run loops stuck in the previous cases"}
	}
	o := trExec1(raw)
	if ob, ok := o.(trObs); ok && strings.Contains(ob.Err, "run loop") {
		trStuck++
	} else {
		trStuck = 0
	}
	return o
}

func trExec1(raw json.RawMessage) interface{} {
	var in trInput
	if err := json.Unmarshal(raw, &in); err != nil {
		return trObs{Err: "bad-input"}
	}
	// the kind table is the harness's: an input whose table was altered (shrinking) is rejected
	if len(in.Cats) != len(trKinds) {
		return trObs{Err: "bad-input"}
	}
	for k, e := range trKinds {
		if in.Cats[k] != e.cat {
			return trObs{Err: "bad-input"}
		}
	}
	pm := make(map[string]bool)
	for _, p := range in.Panics {
		pm[trKey(p.Op, trName(p.Name), trKindName(p.Kind), p.Body)] = true
	}
	trRec.mu.Lock()
	trRec.panics = pm
	trRec.calls = nil
	trRec.mu.Unlock()
	for len(trSigSup) > 0 {
		<-trSigSup
	}
	for len(trSigGate) > 0 {
		<-trSigGate
	}

	dir, err := os.MkdirTemp("", "verifc20tr")
	if err != nil {
		return trObs{Err: "tmpdir"}
	}
	defer os.RemoveAll(dir)
	opt := option.New()
	opt.AbsHomeDir = dir

	syncCh := make(chan map[string]string)
	syncer := clustertest.NewMockedSyncer()
	syncer.MockedSyncPrefix = func(string) (<-chan map[string]string, error) { return syncCh, nil }
	cls := clustertest.NewMockedCluster()
	layout := &cluster.Layout{}
	cls.MockedLayout = func() *cluster.Layout { return layout }
	cls.MockedGetPrefix = func(string) (map[string]string, error) { return map[string]string{}, nil }
	cls.MockedSyncer = func(time.Duration) (cluster.Syncer, error) { return syncer, nil }
	prefix := layout.ConfigObjectPrefix()

	super := supervisor.MustNew(opt, cls)
	defer func() {
		var wg sync.WaitGroup
		wg.Add(1)
		super.Close(&wg)
		wg.Wait()
		trRec.take()
	}()
	tcEntity, ok := super.GetSystemController(trafficcontroller.Kind)
	if !ok {
		return trObs{Err: "no traffic controller"}
	}
	tc := tcEntity.Instance().(*trafficcontroller.TrafficController)
	if _, ok := super.GetSystemController(Kind); !ok {
		return trObs{Err: "no raw config traffic controller"}
	}
	observer := super.ObjectRegistry().NewWatcher("verif-observer", supervisor.FilterCategory(supervisor.CategoryAll))
	if observer == nil {
		return trObs{Err: "no observer"}
	}
	<-observer.Watch() // first event (empty)

	tags := &trTags{gen: make(map[interface{}]int), pipes: make(map[*pipeline.Pipeline]int)}
	obs := trObs{Steps: []trStep{}}
	wait := func(ch chan struct{}, what string) bool {
		select {
		case <-ch:
			return true
		case <-time.After(3 * time.Second):
			obs.Err = what
			return false
		}
	}
	snapIdx, barrier := 0, 0
	observerSeen := false
	observerIdx := -1
	for i, w := range in.Watchers {
		if w.All && !w.NoEvents {
			observerIdx = i
		}
	}
	for _, it := range in.Hist {
		if !it.IsSnap { // all watchers were attached before the first snapshot
			st := trStep{Events: []trEvent{}, Log: []trObsCall{}, Live: []trEnt{}, Reg: []trEnt{}, Ns: -1}
			if it.Attach == observerIdx && !observerSeen {
				observerSeen = true // NewWatcher's first event (received above, empty)
				st.Events = append(st.Events, trEvent{W: observerIdx, Del: []trEnt{}, Cre: []trEnt{}, Upd: []trEnt{}})
			}
			obs.Steps = append(obs.Steps, st)
			continue
		}
		step := trStep{Events: []trEvent{}}
		for round := 0; round < 2; round++ {
			cfg := make(map[string]string)
			for _, e := range it.Snap {
				cfg[prefix+trName(e.Name)] = trYaml(e)
			}
			barrier++
			cfg[prefix+"zbarrier"] = fmt.Sprintf("name: zbarrier\nkind: VerifBarrier\nbody: %d\n", barrier)
			if round == 0 {
				// the barrier gate is transient (created in round 0: Init signals; removed in round 1:
				// Close signals), so that it never keeps the traffic controller's namespace alive
				cfg[prefix+"zbarriergate"] = fmt.Sprintf("name: zbarriergate\nkind: VerifBarrierGate\nbody: %d\n", barrier)
			}
			select {
			case syncCh <- cfg:
			case <-time.After(3 * time.Second):
				obs.Err = "registry run loop does not take the snapshot"
				return obs
			}
			if !wait(trSigSup, "supervisor run loop did not reach the barrier") || !wait(trSigGate, "traffic run loop did not reach the barrier") {
				return obs
			}
			// observer: one event per push (the barriers always change)
			select {
			case ev := <-observer.Watch():
				tags.tag(ev.Create, snapIdx)
				tags.tag(ev.Update, snapIdx)
				e := trEvent{W: observerIdx, Del: tags.ents(ev.Delete), Cre: tags.ents(ev.Create), Upd: tags.ents(ev.Update)}
				if observerIdx >= 0 && len(e.Del)+len(e.Cre)+len(e.Upd) > 0 {
					step.Events = append(step.Events, e)
				}
			case <-time.After(3 * time.Second):
				obs.Err = "observer got no event"
				return obs
			}
		}
		snapIdx++
		step.Log = tags.calls(trRec.take())
		live := map[string]*supervisor.ObjectEntity{}
		for _, e := range tc.ListPipelines(DefaultNamespace) {
			live[e.Spec().Name()] = e
		}
		gates := map[string]*supervisor.ObjectEntity{}
		for _, e := range tc.ListTrafficGates(DefaultNamespace) {
			gates[e.Spec().Name()] = e
		}
		ctls := map[string]*supervisor.ObjectEntity{}
		super.WalkControllers(func(e *supervisor.ObjectEntity) bool {
			ctls[e.Spec().Name()] = e
			return true
		})
		step.Live = append(append(tags.ents(live), tags.ents(gates)...), tags.ents(ctls)...)
		step.Reg = tags.ents(observer.Entities())
		step.Ns = 0
		if st, ok := tc.Status().ObjectStatus.(*trafficcontroller.Status); ok {
			for _, sp := range st.Specs {
				if sp.Namespace == DefaultNamespace {
					step.Ns = 1
				}
			}
		} else {
			step.Ns = -1
		}
		obs.Steps = append(obs.Steps, step)
	}
	return obs
}

func trGen(r *verifh.Rand, i int) interface{} {
	cfg := verifh.Env()
	cats := make([]int, len(trKinds))
	for k, e := range trKinds {
		cats[k] = e.cat
	}
	in := trInput{Cats: cats, Panics: []trPanic{}}
	in.Watchers = []trWatcher{
		{Cats: []int{1}, Consumer: true, NoEvents: true, PipeKinds: []int{0, 1}, CreateChecks: true},
		{Cats: []int{3, 2}, Consumer: true, NoEvents: true, PipeKinds: []int{4}, Namespaced: true},
		{Cats: []int{}, All: true, PipeKinds: []int{}},
	}
	in.Hist = []trItem{{Attach: 0}, {Attach: 1}, {Attach: 2}}
	nNames := r.PickInt(2, 3, 3)
	steps := 8
	if cfg.Thorough() {
		steps = 20
	}
	steps = r.Range(steps/2, steps)
	if r.Bool(2, 5) {
		trScenario(r, &in, steps)
		return in
	}
	valid := []int{0, 1, 2, 3, 4}
	sameSlot := map[int]int{0: 1, 1: 0, 2: 3, 3: 2, 4: 4}
	cur := map[int]trEntry{}
	for s := 0; s < steps; s++ {
		if r.Intn(10) > 0 {
			for n := 0; n < nNames; n++ {
				e, ok := cur[n]
				switch x := r.Intn(20); {
				case x < 6:
				case x < 9:
					if ok {
						e.Body = (e.Body + 1 + r.Intn(2)) % 3
						cur[n] = e
					}
				case x < 11: // kind change inside the consumer's map
					if ok {
						e.Kind, e.Bad = sameSlot[e.Kind], 0
						cur[n] = e
					}
				case x < 14: // any other kind (other map of the traffic controller / other consumer)
					if ok {
						e.Kind, e.Bad = valid[r.Intn(len(valid))], 0
						cur[n] = e
					}
				case x < 16:
					delete(cur, n)
				case x < 19:
					cur[n] = trEntry{Name: n, Kind: valid[r.Intn(len(valid))], Body: r.Intn(3)}
				default:
					cur[n] = trEntry{Name: n, Kind: 5, Body: r.Intn(3)}
				}
			}
		}
		var snap []trEntry
		for n := 0; n < nNames; n++ {
			if e, ok := cur[n]; ok {
				snap = append(snap, e)
			}
		}
		in.Hist = append(in.Hist, trItem{IsSnap: true, Snap: snap})
	}
	np := r.PickInt(0, 0, 1, 2, 6)
	for k := 0; k < np; k++ { // the real Pipeline's callbacks are not fault-injected
		in.Panics = append(in.Panics, trPanic{Op: r.Pick("init", "inherit", "close"), Name: r.Intn(nNames), Kind: r.Intn(4), Body: r.Intn(3)})
	}
	return in
}

// trScenario: namespace bookkeeping. Pipelines and traffic gates live together in the (single)
// namespace; then the last object of ONE category disappears (removed, or moved to another
// category / to a business controller) while the other category stays; follow-up snapshots
// change, keep and remove the survivors and bring the vanished category back.
func trScenario(r *verifh.Rand, in *trInput, steps int) {
	const nNames = 4
	cur := map[int]trEntry{}
	emit := func() {
		var snap []trEntry
		for n := 0; n < nNames; n++ {
			if e, ok := cur[n]; ok {
				snap = append(snap, e)
			}
		}
		in.Hist = append(in.Hist, trItem{IsSnap: true, Snap: snap})
	}
	gateKinds := []int{2, 3}
	isGate := func(k int) bool { return k == 2 || k == 3 }
	// phase 1: one or two objects of each category (possibly in two snapshots), maybe a controller
	nP, nG := r.Range(1, 2), r.Range(1, 2)
	names := []int{0, 1, 2, 3}
	for k := len(names) - 1; k > 0; k-- {
		j := r.Intn(k + 1)
		names[k], names[j] = names[j], names[k]
	}
	idx := 0
	for i := 0; i < nP && idx < nNames; i++ {
		cur[names[idx]] = trEntry{Name: names[idx], Kind: 4, Body: r.Intn(3)}
		idx++
	}
	if r.Bool(1, 2) {
		emit()
	}
	for i := 0; i < nG && idx < nNames; i++ {
		cur[names[idx]] = trEntry{Name: names[idx], Kind: gateKinds[r.Intn(2)], Body: r.Intn(3)}
		idx++
	}
	if idx < nNames && r.Bool(1, 3) {
		cur[names[idx]] = trEntry{Name: names[idx], Kind: r.Intn(2), Body: r.Intn(3)}
	}
	emit()
	for len(in.Hist) < steps+5 {
		// phase 2: the last object(s) of one category disappear, the other category stays
		victimGates := r.Bool(2, 3)
		for n, e := range cur {
			if (victimGates && isGate(e.Kind)) || (!victimGates && e.Kind == 4) {
				switch r.Intn(4) {
				case 0: // moved to the other traffic category
					if victimGates {
						e.Kind = 4
					} else {
						e.Kind = gateKinds[r.Intn(2)]
					}
					cur[n] = e
				case 1: // becomes a business controller
					e.Kind = r.Intn(2)
					cur[n] = e
				default:
					delete(cur, n)
				}
			}
		}
		emit()
		// phase 3: follow-ups on the survivors
		for f := r.Range(1, 3); f > 0; f-- {
			for n, e := range cur {
				if e.Kind != 4 && !isGate(e.Kind) {
					continue
				}
				switch r.Intn(5) {
				case 0, 1: // spec change (must be inherited)
					e.Body = (e.Body + 1) % 3
					cur[n] = e
				case 2: // removed (must be closed)
					delete(cur, n)
				}
			}
			if r.Bool(1, 3) { // same snapshot again
			}
			emit()
		}
		// phase 4: the vanished category comes back (fresh namespace entry next to the survivors)
		for n := 0; n < nNames; n++ {
			if _, ok := cur[n]; !ok && r.Bool(1, 2) {
				k := 4
				if r.Bool(1, 2) {
					k = gateKinds[r.Intn(2)]
				}
				cur[n] = trEntry{Name: n, Kind: k, Body: r.Intn(3)}
			}
		}
		emit()
	}
	if r.Bool(1, 2) {
		cur = map[int]trEntry{}
		emit()
	}
	if r.Bool(1, 3) {
		in.Panics = append(in.Panics, trPanic{Op: r.Pick("init", "inherit", "close"), Name: r.Intn(nNames), Kind: r.Range(2, 3), Body: r.Intn(3)})
	}
}

func TestVerifC20Traffic(t *testing.T) {
	verifh.Run(t, trGen, trExec, 0)
}
