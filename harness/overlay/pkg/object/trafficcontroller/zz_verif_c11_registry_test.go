package trafficcontroller

// Correspondence harness for property C11, part (c): "applying an unchanged
// spec is a no-op, and creating, updating or deleting one object never makes
// another object unavailable".
//
// A case is a history of CreatePipelineForSpec / UpdatePipelineForSpec /
// ApplyPipelineForSpec / DeletePipeline calls on a few names of one namespace.
// `setup` runs first; while `ops` run, background goroutines keep calling
// Namespace.GetHandler + Handle (exactly what muxInstance.serveHTTP does) on
// every name that exists after setup and is not the target of any later op.
// After every operation a snapshot (instance identity, spec, generation counter
// per name, obtained through GetHandler/Handle) is emitted; the Lean judge
// compares it with Model.HotUpdate.Reg and evaluates frame/no-op on it.

import (
	"encoding/json"
	"fmt"
	"net/http"
	"net/http/httptest"
	"os"
	"sync"
	"sync/atomic"
	"testing"
	"time"

	"github.com/megaease/easegress/pkg/context"
	_ "github.com/megaease/easegress/pkg/filters/mock"
	"github.com/megaease/easegress/pkg/logger"
	"github.com/megaease/easegress/pkg/protocols/httpprot"
	"github.com/megaease/easegress/pkg/supervisor"
	"github.com/megaease/easegress/pkg/tracing"
	"github.com/megaease/easegress/pkg/util/verifh"
)

type c11rOp struct {
	Op   string `json:"op"` // create | update | apply | delete
	Name string `json:"name"`
	Spec int    `json:"spec"` // the pipeline answers 200+spec
}

type c11rInput struct {
	Names   []string `json:"names"`
	Setup   []c11rOp `json:"setup"`
	Ops     []c11rOp `json:"ops"`
	Readers int      `json:"readers"`
}

type c11rStep struct {
	Res  string        `json:"res"`
	Snap []interface{} `json:"snap"` // per name: null | [inst, spec, generation]
}

type c11rObs struct {
	Err       string     `json:"err,omitempty"`
	Steps     []c11rStep `json:"steps"`
	Protected []string   `json:"protected"`
	BgReads   int64      `json:"bgReads"`
	BgMiss    int64      `json:"bgMiss"`
	BgWrong   int64      `json:"bgWrong"`
	HandleBad int64      `json:"handleBad"`
}

const c11rNS = "default"

func c11rSpec(name string, code int) (*supervisor.Spec, error) {
	y := fmt.Sprintf("name: %q\nkind: Pipeline\nfilters:\n- name: m\n  kind: Mock\n  rules:\n  - match: {pathPrefix: /}\n    code: %d\n", name, 200+code)
	return supervisor.NewSpec(y)
}

// c11rCall does what muxInstance.serveHTTP does with a mux mapper: one GetHandler, then Handle.
func c11rCall(space *Namespace, name string) (status int, ok bool) {
	h, ok := space.GetHandler(name)
	if !ok {
		return 0, false
	}
	stdr := httptest.NewRequest(http.MethodGet, "http://x/", http.NoBody)
	req, _ := httpprot.NewRequest(stdr)
	ctx := context.New(tracing.NoopSpan)
	ctx.SetRequest(context.DefaultNamespace, req)
	h.Handle(ctx)
	if resp := ctx.GetOutputResponse(); resp != nil {
		if hr, ok := resp.(*httpprot.Response); ok {
			return hr.StatusCode(), true
		}
	}
	return -1, true
}

var c11rLogOnce sync.Once

// c11rStart / c11rOverBudget: when the check driver widens the run (VERIF_N_OVERRIDE) the case count can
// exceed what fits into the harness timeout; cases beyond the time budget are reported as skipped
// instead of letting the test binary be killed.
var c11rStart = time.Now()

func c11rOverBudget() bool {
	b := 10 * time.Second // quick: ≈ 2× what the tier's 300 cases need; bounds the driver's 5× wider search
	if os.Getenv("VERIF_TIER") == "thorough" {
		b = 780 * time.Second
	}
	return os.Getenv("VERIF_MODE") != "replay" && time.Since(c11rStart) > b
}

func c11rExec(raw json.RawMessage) interface{} {
	if c11rOverBudget() {
		return c11rObs{Err: "budget-exhausted"}
	}
	c11rLogOnce.Do(logger.InitNop)
	var in c11rInput
	if err := json.Unmarshal(raw, &in); err != nil {
		return c11rObs{Err: "bad-input"}
	}
	tcSpec, err := supervisor.NewSpec("name: tc\nkind: TrafficController\n")
	if err != nil {
		return c11rObs{Err: "bad-tc-spec"}
	}
	tc := &TrafficController{}
	tc.Init(tcSpec)
	tc.super = supervisor.NewDefaultMock()
	defer tc.Close()

	obs := c11rObs{Steps: []c11rStep{}, Protected: []string{}}
	instIDs := map[interface{}]int{}
	snapshot := func() []interface{} {
		tc.mutex.Lock()
		space := tc.namespaces[c11rNS]
		tc.mutex.Unlock()
		out := make([]interface{}, 0, len(in.Names))
		for _, n := range in.Names {
			if space == nil {
				out = append(out, nil)
				continue
			}
			v, ok := space.pipelines.Load(n)
			if !ok {
				out = append(out, nil)
				continue
			}
			e := v.(*supervisor.ObjectEntity)
			id, seen := instIDs[e.Instance()]
			if !seen {
				id = len(instIDs)
				instIDs[e.Instance()] = id
			}
			st, ok := c11rCall(space, n)
			if !ok || st < 200 {
				atomic.AddInt64(&obs.HandleBad, 1)
			}
			out = append(out, []int{id, st - 200, int(e.Generation())})
		}
		return out
	}
	apply := func(op c11rOp) string {
		switch op.Op {
		case "create":
			s, err := c11rSpec(op.Name, op.Spec)
			if err != nil {
				return "bad-spec"
			}
			if _, err := tc.CreatePipelineForSpec(c11rNS, s); err != nil {
				return "error"
			}
			return "created"
		case "update":
			s, err := c11rSpec(op.Name, op.Spec)
			if err != nil {
				return "bad-spec"
			}
			if _, err := tc.UpdatePipelineForSpec(c11rNS, s); err != nil {
				return "notFound"
			}
			return "updated"
		case "apply":
			s, err := c11rSpec(op.Name, op.Spec)
			if err != nil {
				return "bad-spec"
			}
			prev, had := tc.GetPipeline(c11rNS, op.Name)
			e, err := tc.ApplyPipelineForSpec(c11rNS, s)
			if err != nil {
				return "error"
			}
			if !had {
				return "created"
			}
			if e == prev {
				return "unchanged"
			}
			return "updated"
		case "delete":
			if err := tc.DeletePipeline(c11rNS, op.Name); err != nil {
				return "notFound"
			}
			return "deleted"
		}
		return "bad-op"
	}

	for _, op := range in.Setup {
		obs.Steps = append(obs.Steps, c11rStep{Res: apply(op), Snap: snapshot()})
	}

	// names that exist now and that no later operation targets
	touched := map[string]bool{}
	for _, op := range in.Ops {
		touched[op.Name] = true
	}
	tc.mutex.Lock()
	space := tc.namespaces[c11rNS]
	tc.mutex.Unlock()
	type prot struct {
		name string
		code int
	}
	var protected []prot
	if space != nil {
		for _, n := range in.Names {
			if touched[n] {
				continue
			}
			if st, ok := c11rCall(space, n); ok {
				protected = append(protected, prot{n, st})
				obs.Protected = append(obs.Protected, n)
			}
		}
	}
	var stop int32
	var wg sync.WaitGroup
	readers := in.Readers
	if readers > 8 {
		readers = 8
	}
	if len(protected) > 0 {
		for w := 0; w < readers; w++ {
			wg.Add(1)
			go func() {
				defer wg.Done()
				for atomic.LoadInt32(&stop) == 0 {
					for _, p := range protected {
						st, ok := c11rCall(space, p.name)
						atomic.AddInt64(&obs.BgReads, 1)
						if !ok {
							atomic.AddInt64(&obs.BgMiss, 1)
						} else if st != p.code {
							atomic.AddInt64(&obs.BgWrong, 1)
						}
					}
				}
			}()
		}
	}
	for _, op := range in.Ops {
		obs.Steps = append(obs.Steps, c11rStep{Res: apply(op), Snap: snapshot()})
	}
	atomic.StoreInt32(&stop, 1)
	wg.Wait()
	return obs
}

func c11rGen(r *verifh.Rand, i int) interface{} {
	in := c11rInput{Names: []string{"n0", "n1", "n2", "z0", "z1"}, Readers: r.PickInt(0, 2, 2, 4)}
	in.Setup = []c11rOp{{Op: "create", Name: "z0", Spec: r.Range(0, 3)}}
	if r.Bool(2, 3) {
		in.Setup = append(in.Setup, c11rOp{Op: r.Pick("create", "apply"), Name: "z1", Spec: r.Range(0, 3)})
	}
	if r.Bool(1, 2) {
		in.Setup = append(in.Setup, c11rOp{Op: "create", Name: r.Pick("n0", "n1"), Spec: r.Range(0, 3)})
	}
	in.Ops = []c11rOp{}
	n := r.Range(1, 14)
	for k := 0; k < n; k++ {
		op := c11rOp{Name: r.Pick("n0", "n0", "n1", "n2"), Spec: r.Range(0, 3)}
		switch r.Intn(10) {
		case 0, 1:
			op.Op = "create"
		case 2, 3:
			op.Op = "update"
		case 4, 5, 6, 7:
			op.Op = "apply"
		default:
			op.Op = "delete"
		}
		if r.Bool(1, 20) { // occasionally operate on a name the readers would otherwise watch
			op.Name = "z1"
		}
		in.Ops = append(in.Ops, op)
	}
	return in
}

func TestVerifC11Registry(t *testing.T) {
	verifh.Run(t, c11rGen, c11rExec, 0)
}
