package ratelimiter

// Correspondence harness for property C09, filter level: Init / Inherit
// (reload, isSamePolicy, createRateLimiter defaults) and Handle (first matching
// URL rule, 429 / rateLimited, unmatched requests). The util limiter's clock is
// not reachable from this package, so policies whose refresh period is an hour
// keep every request in cycle 0 (deterministic); limiter objects are observed
// by pointer identity and (read-only) reflection on their unexported fields.

import (
	stdctx "context"
	"encoding/json"
	"net/http"
	"reflect"
	"regexp"
	"testing"
	"time"

	"github.com/megaease/easegress/pkg/context"
	"github.com/megaease/easegress/pkg/logger"
	"github.com/megaease/easegress/pkg/protocols/httpprot"
	librl "github.com/megaease/easegress/pkg/util/ratelimiter"
	"github.com/megaease/easegress/pkg/util/urlrule"
	"github.com/megaease/easegress/pkg/util/verifh"
)

type c09fPolicy struct {
	Name    string `json:"name"`
	Timeout string `json:"timeout"`
	Refresh string `json:"refresh"`
	Limit   int    `json:"limit"`
}

type c09fURL struct {
	Methods   []string `json:"methods"`
	Exact     string   `json:"exact"`
	Prefix    string   `json:"prefix"`
	RegEx     string   `json:"regex"`
	Empty     bool     `json:"empty,omitempty"`
	PolicyRef string   `json:"policyRef"`
}

type c09fSpec struct {
	Policies   []c09fPolicy `json:"policies"`
	DefaultRef string       `json:"defaultRef"`
	URLs       []c09fURL    `json:"urls"`
}

// step: {"reload": spec} or {"req": [method, path]}
type c09fStep struct {
	Reload *c09fSpec `json:"reload,omitempty"`
	Req    []string  `json:"req,omitempty"`
}

type c09fInput struct {
	Steps []c09fStep `json:"steps"`
}

type c09fLim struct {
	ID     int   `json:"id"` // 0 = nil, else order of creation
	L      int64 `json:"L"`
	T      int64 `json:"T"`
	P      int64 `json:"P"`
	Tokens int64 `json:"tokens"`
}

type c09fObs struct {
	Kind    string    `json:"kind"` // reload | req | skip
	Panic   string    `json:"panic,omitempty"`
	Valid   bool      `json:"valid"`
	Lims    []c09fLim `json:"lims"`
	Prev    []int     `json:"prev"`              // the previous generation's pointers after the hand-over
	ParsedT []int64   `json:"parsedT,omitempty"` // oracle: time.ParseDuration per policy of the new spec
	ParsedP []int64   `json:"parsedP,omitempty"`
	Matches []bool    `json:"matches,omitempty"` // what URLRule.Match answered per rule
	ReOra   []bool    `json:"reOra,omitempty"`   // oracle (standard library, not urlrule): regexp.MatchString(rule.RegEx, path) per rule
	Empties []bool    `json:"empties,omitempty"` // rule.URL.Empty per rule
	Method  string    `json:"method,omitempty"`
	Path    string    `json:"path"` // req.URL.Path as the filter sees it
	Result  string    `json:"result"`
	Status  int       `json:"status"` // 0 = no output response set
	Header  string    `json:"header,omitempty"`
}

func (s *c09fSpec) build() *Spec {
	sp := &Spec{DefaultPolicyRef: s.DefaultRef}
	for _, p := range s.Policies {
		sp.Policies = append(sp.Policies, &Policy{Name: p.Name, TimeoutDuration: p.Timeout, LimitRefreshPeriod: p.Refresh, LimitForPeriod: p.Limit})
	}
	for _, u := range s.URLs {
		sp.URLs = append(sp.URLs, &URLRule{URLRule: urlrule.URLRule{
			Methods: u.Methods, URL: urlrule.StringMatch{Exact: u.Exact, Prefix: u.Prefix, RegEx: u.RegEx, Empty: u.Empty}, PolicyRef: u.PolicyRef}})
	}
	return sp
}

type c09fWorld struct {
	ids  map[*librl.RateLimiter]int
	next int
	cur  *RateLimiter
}

func (w *c09fWorld) id(rl *librl.RateLimiter) int {
	if rl == nil {
		return 0
	}
	if v, ok := w.ids[rl]; ok {
		return v
	}
	w.next++
	w.ids[rl] = w.next
	return w.next
}

func (w *c09fWorld) lim(rl *librl.RateLimiter) c09fLim {
	l := c09fLim{ID: w.id(rl)}
	if rl == nil {
		return l
	}
	v := reflect.ValueOf(rl).Elem()
	pol := v.FieldByName("policy").Elem()
	l.L = pol.FieldByName("LimitForPeriod").Int()
	l.T = pol.FieldByName("TimeoutDuration").Int()
	l.P = pol.FieldByName("LimitRefreshPeriod").Int()
	l.Tokens = v.FieldByName("tokens").Int()
	return l
}

func (w *c09fWorld) lims(f *RateLimiter) []c09fLim {
	out := []c09fLim{}
	if f == nil {
		return out
	}
	for _, u := range f.spec.URLs {
		out = append(out, w.lim(u.rl))
	}
	return out
}

func c09fParse(d string) int64 {
	v, _ := time.ParseDuration(d)
	return int64(v)
}

func (w *c09fWorld) step(st c09fStep) (obs c09fObs) {
	defer func() {
		if p := recover(); p != nil {
			obs.Panic = "panic"
			if e, ok := p.(error); ok {
				obs.Panic = e.Error()
			}
		}
	}()
	switch {
	case st.Reload != nil:
		obs.Kind = "reload"
		sp := st.Reload.build()
		obs.Valid = sp.Validate() == nil
		for _, p := range st.Reload.Policies {
			obs.ParsedT = append(obs.ParsedT, c09fParse(p.Timeout))
			obs.ParsedP = append(obs.ParsedP, c09fParse(p.Refresh))
		}
		if !obs.Valid {
			obs.Kind = "skip" // a spec the pipeline would refuse: not instantiated
			return
		}
		f := &RateLimiter{spec: sp}
		prev := w.cur
		// make sure the previous generation's limiters are numbered before the new ones
		w.lims(prev)
		func() {
			defer func() {
				if prev != nil {
					for _, u := range prev.spec.URLs {
						obs.Prev = append(obs.Prev, w.id(u.rl))
					}
				}
			}()
			if prev == nil {
				f.Init()
			} else {
				f.Inherit(prev)
			}
		}()
		obs.Lims = w.lims(f)
		w.cur = f
	case len(st.Req) >= 2 && w.cur != nil:
		obs.Kind = "req"
		stdr, err := http.NewRequest(st.Req[0], "http://example.test"+st.Req[1], nil)
		if err != nil {
			obs.Kind = "skip"
			return
		}
		cctx, cancel := stdctx.WithCancel(stdctx.Background())
		cancel() // a permitted-with-wait request returns at once instead of sleeping
		stdr = stdr.WithContext(cctx)
		req, _ := httpprot.NewRequest(stdr)
		ctx := context.New(nil)
		ctx.SetInputRequest(req)
		obs.Method, obs.Path = stdr.Method, stdr.URL.Path
		for _, u := range w.cur.spec.URLs {
			obs.Matches = append(obs.Matches, u.Match(stdr))
			ok := false
			if u.URL.RegEx != "" {
				ok, _ = regexp.MatchString(u.URL.RegEx, stdr.URL.Path)
			}
			obs.ReOra = append(obs.ReOra, ok)
			obs.Empties = append(obs.Empties, u.URL.Empty)
		}
		obs.Result = w.cur.Handle(ctx)
		if r := ctx.GetOutputResponse(); r != nil {
			if hr, ok := r.(*httpprot.Response); ok {
				obs.Status = hr.StatusCode()
				obs.Header = hr.Std().Header.Get("X-EG-Rate-Limiter")
			}
		}
		obs.Lims = w.lims(w.cur)
	default:
		obs.Kind = "skip"
	}
	return
}

func c09fExec(raw json.RawMessage) interface{} {
	var in c09fInput
	if err := json.Unmarshal(raw, &in); err != nil {
		return map[string]string{"error": "bad-input"}
	}
	w := &c09fWorld{ids: map[*librl.RateLimiter]int{}}
	out := struct {
		Steps []c09fObs `json:"steps"`
	}{Steps: []c09fObs{}}
	for _, st := range in.Steps {
		o := w.step(st)
		out.Steps = append(out.Steps, o)
		if o.Panic != "" {
			break // the generation is unusable after a panic in Init / Inherit
		}
	}
	return out
}

var c09fPaths = []string{"/a", "/a/b", "/ab", "/b", "/", "/c/x", "", "/a"}

func c09fGenSpec(r *verifh.Rand, base *c09fSpec) *c09fSpec {
	s := &c09fSpec{}
	if base != nil && r.Bool(3, 4) {
		// mutate the previous spec a little (or not at all)
		b, _ := json.Marshal(base)
		json.Unmarshal(b, s)
		switch r.Intn(9) {
		case 0, 1: // unchanged
		case 2: // change one policy's content
			if len(s.Policies) > 0 {
				p := &s.Policies[r.Intn(len(s.Policies))]
				switch r.Intn(3) {
				case 0:
					p.Limit = r.PickInt(0, 1, 2, 3)
				case 1:
					p.Timeout = r.Pick("", "0s", "1ms", "1h", "2h")
				default:
					p.Refresh = r.Pick("1h", "2h", "60m")
				}
			}
		case 3: // change the default policy
			s.DefaultRef = r.Pick("p0", "p1")
		case 4: // drop a rule
			if len(s.URLs) > 1 {
				k := r.Intn(len(s.URLs))
				s.URLs = append(s.URLs[:k], s.URLs[k+1:]...)
			}
		case 5: // add a rule in front
			s.URLs = append([]c09fURL{c09fGenURL(r)}, s.URLs...)
		case 6: // swap two rules
			if len(s.URLs) > 1 {
				s.URLs[0], s.URLs[len(s.URLs)-1] = s.URLs[len(s.URLs)-1], s.URLs[0]
			}
		case 7: // change a rule's policy reference or methods
			if len(s.URLs) > 0 {
				u := &s.URLs[r.Intn(len(s.URLs))]
				if r.Bool(1, 2) {
					u.PolicyRef = r.Pick("", "p0", "p1")
				} else {
					u.Methods = c09fMethods(r)
				}
			}
		default: // reorder policies / add a shadowed duplicate policy name
			if len(s.Policies) > 0 {
				s.Policies = append(s.Policies, c09fPolicy{Name: s.Policies[0].Name, Refresh: "1h", Limit: 9})
			}
		}
		return s
	}
	np := r.Range(1, 2)
	for i := 0; i < np; i++ {
		s.Policies = append(s.Policies, c09fPolicy{
			Name:    []string{"p0", "p1"}[i],
			Timeout: r.Pick("", "0s", "1ms", "1h", "2h", "90m"),
			Refresh: r.Pick("1h", "1h", "1h", "2h"),
			Limit:   r.PickInt(0, 1, 1, 2, 3),
		})
	}
	if r.Bool(1, 12) { // timing-dependent default refresh period (10ms): reload-only comparison
		s.Policies[0].Refresh = ""
	}
	s.DefaultRef = r.Pick("p0", "p0", "p1")
	if np == 1 {
		s.DefaultRef = "p0"
	}
	nu := r.Range(1, 4)
	for i := 0; i < nu; i++ {
		u := c09fGenURL(r)
		if np == 1 && u.PolicyRef == "p1" {
			u.PolicyRef = ""
		}
		s.URLs = append(s.URLs, u)
	}
	if r.Bool(1, 10) && len(s.URLs) > 0 { // an exact duplicate of a rule
		s.URLs = append(s.URLs, s.URLs[r.Intn(len(s.URLs))])
	}
	return s
}

func c09fMethods(r *verifh.Rand) []string {
	switch r.Intn(4) {
	case 0:
		return []string{"GET"}
	case 1:
		return []string{"GET", "POST"}
	case 2:
		return []string{"POST"}
	}
	return nil
}

func c09fGenURL(r *verifh.Rand) c09fURL {
	u := c09fURL{Methods: c09fMethods(r), PolicyRef: r.Pick("", "", "p0", "p1")}
	if r.Bool(1, 9) { // only the empty path
		u.Empty = true
		return u
	}
	switch r.Intn(4) {
	case 0:
		u.Exact = r.Pick("/a", "/b", "/a/b")
	case 1:
		u.Prefix = r.Pick("/a", "/", "/b")
	case 2:
		u.RegEx = r.Pick("^/a.*$", "^/[ab]$", "b")
	default:
		u.Exact = r.Pick("/a", "/ab")
		u.Prefix = r.Pick("/a/", "/c")
	}
	return u
}

func c09fGen(r *verifh.Rand, i int) interface{} {
	in := c09fInput{}
	cur := c09fGenSpec(r, nil)
	in.Steps = append(in.Steps, c09fStep{Reload: cur})
	n := r.Range(2, 30)
	for k := 0; k < n; k++ {
		if r.Bool(1, 6) {
			cur = c09fGenSpec(r, cur)
			in.Steps = append(in.Steps, c09fStep{Reload: cur})
			continue
		}
		in.Steps = append(in.Steps, c09fStep{Req: []string{r.Pick("GET", "GET", "POST", "PUT"), c09fPaths[r.Intn(len(c09fPaths))]}})
	}
	return in
}

func TestVerifC09Filter(t *testing.T) {
	logger.InitNop()
	verifh.Run(t, c09fGen, c09fExec, 0)
}
