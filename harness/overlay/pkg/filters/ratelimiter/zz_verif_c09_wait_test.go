package ratelimiter

// Correspondence harness for property C09, filter level, WAITING requests (Extension resil): a real filter
// RateLimiter with one URL rule whose limiter runs on a virtual clock (pkg/util/ratelimiter's nowFunc,
// reached through the overlay-only VerifSetNow), requests that are admitted with a wait, cancellations of
// waiting requests (before they are handled, or later while others wait behind them), and later arrivals.
//
// What is observed per request: its virtual arrival time, the filter result / status, and — when its
// timer fired — the exact wait it was given (the tag "rateLimiter: waiting duration: <d>"). Nothing is
// judged on real time: the timers are real (a few tens of ms) but only the *value* d is used; a request
// whose timer fires before the harness gets to cancel it is simply an ordinary waiter; every blocking
// wait of the harness has a generous guard after which the case is reported `inconclusive` (never a
// violation).

import (
	stdctx "context"
	"encoding/json"
	"net/http"
	"strings"
	"sync"
	"sync/atomic"
	"testing"
	"time"

	"github.com/megaease/easegress/pkg/context"
	"github.com/megaease/easegress/pkg/logger"
	"github.com/megaease/easegress/pkg/protocols/httpprot"
	librl "github.com/megaease/easegress/pkg/util/ratelimiter"
	"github.com/megaease/easegress/pkg/util/urlrule"
	"github.com/megaease/easegress/pkg/util/verifh"
)

type c09wOp struct {
	Op   string `json:"op"`   // "req" | "cancel"
	DtNs int64  `json:"dtNs"` // req: the virtual clock advances by this much first
	Pre  bool   `json:"pre"`  // req: the client's context is already cancelled
	I    int    `json:"i"`    // cancel: index (among the req ops) of the request whose client goes away
}

type c09wInput struct {
	L        int      `json:"L"`
	PeriodNs int64    `json:"periodNs"`
	TimeoutN int      `json:"timeoutN"` // timeout = timeoutN * period
	Ops      []c09wOp `json:"ops"`
}

type c09wReq struct {
	ArrivalNs int64  `json:"arrivalNs"`
	Result    string `json:"result"`
	Status    int    `json:"status"`
	WaitNs    int64  `json:"waitNs"`    // from the tag when the timer fired, else -1
	Cancelled bool   `json:"cancelled"` // the harness cancelled this request's context before it returned
	Returned  bool   `json:"returned"`
}

type c09wObs struct {
	Reqs         []c09wReq `json:"reqs"`
	Inconclusive string    `json:"inconclusive,omitempty"`
}

var (
	c09wVirt  int64 // virtual ns since c09wBase
	c09wReads int64 // number of clock reads
	c09wBase  = time.Unix(1700000000, 0)
)

func c09wGen(r *verifh.Rand, i int) interface{} {
	in := c09wInput{L: r.PickInt(1, 1, 1, 2, 3), PeriodNs: int64(r.PickInt(30, 40, 50)) * int64(time.Millisecond), TimeoutN: r.PickInt(2, 3, 3, 4)}
	nreq := 0
	n := r.Range(3, 9)
	for k := 0; k < n; k++ {
		if nreq >= 2 && r.Bool(1, 3) {
			// the client of an earlier request goes away (possibly while others wait behind it)
			in.Ops = append(in.Ops, c09wOp{Op: "cancel", I: r.Intn(nreq)})
			continue
		}
		dt := int64(0)
		switch r.Intn(6) {
		case 0:
			dt = in.PeriodNs / 4
		case 1:
			dt = in.PeriodNs // exactly one period later
		case 2:
			dt = int64(r.Intn(1000)) * 1000
		}
		in.Ops = append(in.Ops, c09wOp{Op: "req", DtNs: dt, Pre: r.Bool(1, 6)})
		nreq++
	}
	return in
}

func c09wExec(raw json.RawMessage) interface{} {
	var in c09wInput
	if err := json.Unmarshal(raw, &in); err != nil {
		return map[string]string{"error": "bad-input"}
	}
	if in.L < 1 || in.L > 100 || in.PeriodNs < int64(time.Millisecond) || in.PeriodNs > int64(200*time.Millisecond) ||
		in.TimeoutN < 0 || in.TimeoutN > 8 || len(in.Ops) > 64 {
		return map[string]string{"error": "bad-input"}
	}
	obs := c09wObs{}
	atomic.StoreInt64(&c09wVirt, 0)
	librl.VerifSetNow(func() time.Time {
		atomic.AddInt64(&c09wReads, 1)
		return c09wBase.Add(time.Duration(atomic.LoadInt64(&c09wVirt)))
	})
	defer librl.VerifSetNow(nil)

	period := time.Duration(in.PeriodNs)
	sp := &Spec{DefaultPolicyRef: "p",
		Policies: []*Policy{{Name: "p", LimitForPeriod: in.L, LimitRefreshPeriod: period.String(),
			TimeoutDuration: (time.Duration(in.TimeoutN) * period).String()}},
		URLs: []*URLRule{{URLRule: urlrule.URLRule{URL: urlrule.StringMatch{Prefix: "/"}}}}}
	if sp.Validate() != nil {
		return map[string]string{"error": "spec"}
	}
	f := &RateLimiter{spec: sp}
	f.Init()
	defer f.Close()

	const guard = 10 * time.Second
	type inflight struct {
		cancel stdctx.CancelFunc
		done   chan struct{}
	}
	var mu sync.Mutex
	var fl []inflight
	waitDone := func(ch chan struct{}) bool {
		select {
		case <-ch:
			return true
		case <-time.After(guard):
			return false
		}
	}
	for _, op := range in.Ops {
		if obs.Inconclusive != "" {
			break
		}
		switch op.Op {
		case "cancel":
			if op.I < 0 || op.I >= len(fl) {
				continue
			}
			mu.Lock()
			if !obs.Reqs[op.I].Returned {
				obs.Reqs[op.I].Cancelled = true
			}
			mu.Unlock()
			fl[op.I].cancel()
			if !waitDone(fl[op.I].done) {
				obs.Inconclusive = "cancelled request did not return"
			}
		case "req":
			if op.DtNs > 0 && op.DtNs < int64(time.Hour) {
				atomic.AddInt64(&c09wVirt, op.DtNs)
			}
			idx := len(fl)
			cctx, cancel := stdctx.WithCancel(stdctx.Background())
			if op.Pre {
				cancel()
			}
			stdr, _ := http.NewRequestWithContext(cctx, http.MethodGet, "http://example.test/x", nil)
			req, _ := httpprot.NewRequest(stdr)
			ctx := context.New(nil)
			ctx.SetInputRequest(req)
			done := make(chan struct{})
			fl = append(fl, inflight{cancel, done})
			mu.Lock()
			obs.Reqs = append(obs.Reqs, c09wReq{ArrivalNs: atomic.LoadInt64(&c09wVirt), WaitNs: -1, Cancelled: op.Pre})
			mu.Unlock()
			reads0 := atomic.LoadInt64(&c09wReads)
			go func() {
				defer close(done)
				res := f.Handle(ctx)
				status := 0
				if r := ctx.GetOutputResponse(); r != nil {
					if hr, ok := r.(*httpprot.Response); ok {
						status = hr.StatusCode()
					}
				}
				wait := int64(-1)
				for _, tg := range strings.Split(ctx.Tags(), " | ") {
					if strings.HasPrefix(tg, "rateLimiter: waiting duration: ") {
						if d, err := time.ParseDuration(strings.TrimPrefix(tg, "rateLimiter: waiting duration: ")); err == nil {
							wait = int64(d)
						}
					}
				}
				mu.Lock()
				obs.Reqs[idx].Result, obs.Reqs[idx].Status, obs.Reqs[idx].WaitNs, obs.Reqs[idx].Returned = res, status, wait, true
				mu.Unlock()
			}()
			if op.Pre {
				// a client that is already gone: the request returns at once (or, if the goroutine is
				// delayed beyond its wait, after its timer — either way it returns)
				if !waitDone(done) {
					obs.Inconclusive = "pre-cancelled request did not return"
				}
				continue
			}
			// wait until this request has read the limiter's clock (it then holds / has passed the limiter's
			// mutex, so the next arrival is ordered after it) or has returned
			deadline := time.Now().Add(guard)
		sync:
			for atomic.LoadInt64(&c09wReads) == reads0 {
				select {
				case <-done:
					break sync
				default:
				}
				if time.Now().After(deadline) {
					obs.Inconclusive = "request did not reach the limiter"
					break sync
				}
				time.Sleep(20 * time.Microsecond)
			}
		}
	}
	// let every waiter's timer fire (real time ≤ timeout + period), then cancel what is left
	for i := range fl {
		select {
		case <-fl[i].done:
		case <-time.After(time.Duration(in.TimeoutN+2)*period + guard):
			obs.Inconclusive = "waiter did not return"
		}
		fl[i].cancel()
	}
	mu.Lock()
	defer mu.Unlock()
	out := c09wObs{Inconclusive: obs.Inconclusive, Reqs: append([]c09wReq{}, obs.Reqs...)}
	return out
}

func TestVerifC09Wait(t *testing.T) {
	logger.InitNop()
	verifh.Run(t, c09wGen, c09wExec, 5*time.Minute)
}
