package validator

// Correspondence harness for property C06 (Validator filter).
//
// Injected with `go test -overlay`. Every case is a *recipe*: a validator
// configuration, a base request, credentials to attach (JWT / API signature /
// Basic) and a list of single mutations. exec builds the credentials
// independently of /repo's code (crypto/hmac, crypto/sha256 and golang-jwt's
// issuing side only), serialises every request to HTTP/1.1 bytes, parses it
// with net/http's http.ReadRequest (what the server's conn.readRequest uses),
// wraps it with httpprot.NewRequest + FetchPayload exactly like
// pkg/object/httpserver/mux.go, and calls Validator.Handle.
//
// Observed per request: Handle's result, the response status, X-AUTH-USER, the
// payload that would be forwarded — plus the request as parsed by the Go
// standard library and the answers of standard-library oracles (regexp, time
// parsing, cookie parsing, ParseUint, HMAC-SHA384/512) that the Lean model is
// parametric in.

import (
	"bufio"
	"bytes"
	"crypto/hmac"
	"crypto/sha1"
	"crypto/sha256"
	"crypto/sha512"
	"encoding/base64"
	"encoding/hex"
	"encoding/json"
	"fmt"
	"hash"
	"net/http"
	"net/textproto"
	"net/url"
	"os"
	"regexp"
	"sort"
	"strconv"
	"strings"
	"testing"
	"time"
	"unicode/utf8"

	"github.com/golang-jwt/jwt"
	"golang.org/x/crypto/bcrypt"

	"github.com/megaease/easegress/pkg/context"
	"github.com/megaease/easegress/pkg/filters"
	"github.com/megaease/easegress/pkg/protocols/httpprot"
	"github.com/megaease/easegress/pkg/util/verifh"
	"github.com/megaease/easegress/pkg/util/yamltool"
)

// ---------------------------------------------------------------- input types

type c06HdrRule struct {
	Key    string   `json:"key"`
	Values []string `json:"values"`
	Regexp string   `json:"regexp"`
}

type c06JWTCfg struct {
	Alg       string `json:"alg"`
	SecretHex string `json:"secret_hex"`
	Cookie    string `json:"cookie"`
}

type c06Literal struct {
	ScopeSuffix      string `json:"scopeSuffix"`
	AlgorithmName    string `json:"algorithmName"`
	AlgorithmValue   string `json:"algorithmValue"`
	SignedHeaders    string `json:"signedHeaders"`
	Signature        string `json:"signature"`
	Date             string `json:"date"`
	Expires          string `json:"expires"`
	Credential       string `json:"credential"`
	ContentSHA256    string `json:"contentSha256"`
	SigningKeyPrefix string `json:"signingKeyPrefix"`
}

var c06DefaultLiteral = c06Literal{
	ScopeSuffix: "megaease_request", AlgorithmName: "X-Me-Algorithm", AlgorithmValue: "ME-HMAC-SHA256",
	SignedHeaders: "X-Me-SignedHeaders", Signature: "X-Me-Signature", Date: "X-Me-Date", Expires: "X-Me-Expires",
	Credential: "X-Me-Credential", ContentSHA256: "X-Me-Content-Sha256", SigningKeyPrefix: "ME",
}

type c06SigCfg struct {
	Keys        [][]string  `json:"keys"` // [id, secret]
	TTLs        int64       `json:"ttl_s"`
	ExcludeBody bool        `json:"exclude_body"`
	Ignored     []string    `json:"ignored"`
	Literal     *c06Literal `json:"literal"`
}

func (c *c06SigCfg) lit() c06Literal {
	if c.Literal != nil {
		return *c.Literal
	}
	return c06DefaultLiteral
}

type c06BasicCfg struct {
	Users [][]string `json:"users"` // [user, password, scheme(sha|bcrypt|plain)]
}

type c06Cfg struct {
	Headers []c06HdrRule `json:"headers"`
	JWT     *c06JWTCfg   `json:"jwt"`
	Sig     *c06SigCfg   `json:"sig"`
	Basic   *c06BasicCfg `json:"basic"`
	OAuth2  *c06JWTCfg   `json:"oauth2"` // OAuth2 validator in JWT mode (alg, secret; no cookie)
}

type c06Req struct {
	Method  string     `json:"method"`
	Target  string     `json:"target"`
	Host    string     `json:"host"`
	Headers [][]string `json:"headers"` // [name, value]
	BodyHex string     `json:"body_hex"`
	Chunked bool       `json:"chunked"`
}

type c06JWTCred struct {
	Alg       string `json:"alg"`
	SecretHex string `json:"secret_hex"`
	Exp       *int64 `json:"exp"` // offsets in seconds from now; nil = claim absent
	Nbf       *int64 `json:"nbf"`
	Iat       *int64 `json:"iat"`
	// spelling of the exp / nbf NumericDate in the token's JSON: "" integer, "frac" value+0.5, "frac25" value+0.25,
	// "e" exponent form of the integer (1.7907e9), "E" (1.7907E+9), "em1" (<value*10+5>e-1 = value+0.5),
	// "dot0" (value.0), "str" (a JSON string: not a NumericDate; golang-jwt ignores it)
	ExpForm string `json:"exp_form,omitempty"`
	NbfForm string `json:"nbf_form,omitempty"`
	Sub     string `json:"sub"`
	Scope   string `json:"scope,omitempty"`
	Where   string `json:"where"` // bearer | cookie | both
	Cookie  string `json:"cookie"`
}

type c06SigCred struct {
	Key      string   `json:"key"`
	Secret   string   `json:"secret"`
	OffS     int64    `json:"off_s"`
	Scopes   []string `json:"scopes"`
	Presign  bool     `json:"presign"`
	ExpiresS int64    `json:"expires_s"`
	BodyAs   *string  `json:"body_as"` // sign as if the body were this (hex)
}

type c06BasicCred struct {
	User string  `json:"user"`
	Pass string  `json:"pass"`
	Raw  *string `json:"raw"` // raw Authorization value instead
}

type c06Cred struct {
	JWT   *c06JWTCred   `json:"jwt"`
	Sig   *c06SigCred   `json:"sig"`
	Basic *c06BasicCred `json:"basic"`
}

type c06Mut struct {
	K    string `json:"k"`
	Name string `json:"name,omitempty"`
	V    string `json:"v,omitempty"`
	Pos  int    `json:"pos,omitempty"`
	X    int    `json:"x,omitempty"`
}

type c06Input struct {
	Cfg  c06Cfg   `json:"cfg"`
	Base c06Req   `json:"base"`
	Cred c06Cred  `json:"cred"`
	Muts []c06Mut `json:"muts"`
}

// ---------------------------------------------------------------- observation types

type c06RuleOracle struct {
	Present bool   `json:"present"`
	First   string `json:"first"`
	ReOK    bool   `json:"re_ok"`
	ReMatch bool   `json:"re_match"`
}

type c06TimeOracle struct {
	S     string `json:"s"`
	OK    bool   `json:"ok"`
	Unix  int64  `json:"unix_ns"`
	Refmt string `json:"refmt"`
	Date  string `json:"date"`
}

type c06UintOracle struct {
	S  string `json:"s"`
	OK bool   `json:"ok"`
	NS int64  `json:"ns"`
}

type c06TokOracle struct {
	Tok   string `json:"tok"`
	HS384 bool   `json:"hs384"`
	HS512 bool   `json:"hs512"`
	HS256 bool   `json:"hs256"`
}

type c06Parsed struct {
	Method     string          `json:"method"`
	EPath      string          `json:"epath"`
	Opaque     string          `json:"opaque"`
	Host       string          `json:"host"`
	URLHost    string          `json:"url_host"`
	Scheme     string          `json:"scheme"`
	Query      [][]string      `json:"query"`     // [key, v1, v2, ...] sorted by key
	QueryErr   bool            `json:"query_err"` // url.ParseQuery(RawQuery) reports an error: some pair (';', bad escape) is not in Query
	Headers    [][]string      `json:"headers"`   // [Key, v1, v2, ...] sorted by key
	PayloadHex string          `json:"payload_hex"`
	CookieOK   bool            `json:"cookie_ok"`
	CookieVal  string          `json:"cookie_val"`
	Rules      []c06RuleOracle `json:"rules"`
	Times      []c06TimeOracle `json:"times"`
	Uints      []c06UintOracle `json:"uints"`
	Toks       []c06TokOracle  `json:"toks"`
}

type c06ReqObs struct {
	Label      string     `json:"label"`
	Sent       c06Req     `json:"sent"`
	ParseErr   string     `json:"parse_err"`
	FetchErr   string     `json:"fetch_err"`
	P          *c06Parsed `json:"p"`
	Result     string     `json:"result"`
	Status     int        `json:"status"`
	HasResp    bool       `json:"has_resp"`
	AuthUser   string     `json:"auth_user"`
	OAuthUser  string     `json:"oauth_user"`  // X-Authenticated-Userid after Handle
	OAuthScope string     `json:"oauth_scope"` // X-Authenticated-Scope after Handle
	FwdHex     string     `json:"fwd_hex"`     // payload after Handle = what the backend would receive
	T0         int64      `json:"t0_ns"`
	T1         int64      `json:"t1_ns"`
	JWTNow     int64      `json:"jwt_now_s"`
	Panic      string     `json:"panic,omitempty"`
}

type c06Obs struct {
	Err  string      `json:"error,omitempty"`
	Reqs []c06ReqObs `json:"reqs"`
}

// ---------------------------------------------------------------- independent credential issuers

func c06HexDec(s string) []byte {
	b, err := hex.DecodeString(s)
	if err != nil {
		return nil
	}
	return b
}

func c06Unreserved(c byte) bool {
	return (c >= 'A' && c <= 'Z') || (c >= 'a' && c <= 'z') || (c >= '0' && c <= '9') || c == '-' || c == '.' || c == '_' || c == '~'
}

func c06PctPath(p string) string {
	if p == "" {
		return "/"
	}
	var sb strings.Builder
	for i := 0; i < len(p); i++ {
		c := p[i]
		if c06Unreserved(c) || c == '/' {
			sb.WriteByte(c)
		} else {
			fmt.Fprintf(&sb, "%%%02X", c)
		}
	}
	return sb.String()
}

func c06Collapse(v string) string {
	v = strings.Trim(v, " ")
	for strings.Contains(v, "  ") {
		v = strings.ReplaceAll(v, "  ", " ")
	}
	return v
}

func c06Mac(key []byte, data string) []byte {
	m := hmac.New(sha256.New, key)
	m.Write([]byte(data))
	return m.Sum(nil)
}

func c06Sha(data []byte) string {
	s := sha256.Sum256(data)
	return hex.EncodeToString(s[:])
}

func c06SetHeader(r *c06Req, name, value string) {
	cn := textproto.CanonicalMIMEHeaderKey(name)
	out := r.Headers[:0:0]
	for _, h := range r.Headers {
		if len(h) >= 1 && textproto.CanonicalMIMEHeaderKey(h[0]) == cn {
			continue
		}
		out = append(out, h)
	}
	r.Headers = append(out, []string{name, value})
}

func c06GetHeader(r *c06Req, name string) (string, bool) {
	cn := textproto.CanonicalMIMEHeaderKey(name)
	for _, h := range r.Headers {
		if len(h) >= 2 && textproto.CanonicalMIMEHeaderKey(h[0]) == cn {
			return h[1], true
		}
	}
	return "", false
}

// c06Sign attaches an API signature computed from first principles (the
// SigV4-style scheme documented in signer.go's comments), not with /repo's
// signer package.
func c06Sign(cfg *c06SigCfg, c *c06SigCred, now time.Time, r *c06Req) {
	lit := cfg.lit()
	t := now.Add(time.Duration(c.OffS) * time.Second).UTC()
	date, ts := t.Format("20060102"), t.Format("20060102T150405Z")
	scope := date
	for _, s := range c.Scopes {
		scope += "/" + s
	}
	scope += "/" + lit.ScopeSuffix

	body := c06HexDec(r.BodyHex)
	if c.BodyAs != nil {
		body = c06HexDec(*c.BodyAs)
	}
	bodyHash := c06Sha(body)
	if cfg.ExcludeBody {
		bodyHash = "UNSIGNED-PAYLOAD"
		c06SetHeader(r, lit.ContentSHA256, bodyHash)
	}
	if !c.Presign {
		c06SetHeader(r, lit.Date, ts)
	}

	u, err := url.ParseRequestURI(r.Target)
	if err != nil {
		u = &url.URL{Path: "/"}
	}
	q := u.Query()
	for _, k := range []string{lit.Signature, lit.AlgorithmName, lit.Credential, lit.Date, lit.Expires, lit.SignedHeaders} {
		q.Del(k)
	}

	// headers
	ign := map[string]bool{"Authorization": true, "User-Agent": true}
	for _, h := range cfg.Ignored {
		ign[h] = true
	}
	grouped := map[string][]string{}
	for _, h := range r.Headers {
		if len(h) < 2 {
			continue
		}
		k := textproto.CanonicalMIMEHeaderKey(h[0])
		if ign[k] || k == "Host" {
			continue
		}
		grouped[strings.ToLower(k)] = append(grouped[strings.ToLower(k)], strings.Trim(h[1], " \t"))
	}
	host := r.Host
	if strings.HasSuffix(host, ":") {
		host = host[:len(host)-1]
	}
	grouped["host"] = []string{host}
	names := make([]string, 0, len(grouped))
	for k := range grouped {
		names = append(names, k)
	}
	sort.Strings(names)
	var ch strings.Builder
	for _, n := range names {
		vs := make([]string, len(grouped[n]))
		for i, v := range grouped[n] {
			vs[i] = c06Collapse(v)
		}
		if n == "host" {
			vs = []string{host}
		}
		ch.WriteString(n + ":" + strings.Join(vs, ",") + "\n")
	}
	signed := strings.Join(names, ";")

	if c.Presign {
		q.Set(lit.AlgorithmName, lit.AlgorithmValue)
		q.Set(lit.Date, ts)
		q.Set(lit.Credential, c.Key+"/"+scope)
		q.Set(lit.Expires, strconv.FormatInt(c.ExpiresS, 10))
		q.Set(lit.SignedHeaders, signed)
	}
	for _, v := range q {
		sort.Strings(v)
	}
	cq := q.Encode()

	creq := r.Method + "\n" + c06PctPath(u.EscapedPath()) + "\n" + cq + "\n" + ch.String() + "\n" + signed + "\n" + bodyHash
	sts := lit.AlgorithmValue + "\n" + ts + "\n" + scope + "\n" + c06Sha([]byte(creq))
	key := c06Mac([]byte(lit.SigningKeyPrefix+c.Secret), date)
	for _, s := range c.Scopes {
		key = c06Mac(key, s)
	}
	key = c06Mac(key, lit.ScopeSuffix)
	sig := hex.EncodeToString(c06Mac(key, sts))

	if c.Presign {
		q.Add(lit.Signature, sig)
		path := r.Target
		if i := strings.IndexByte(path, '?'); i >= 0 {
			path = path[:i]
		}
		r.Target = path + "?" + strings.ReplaceAll(q.Encode(), "+", "%20")
	} else {
		c06SetHeader(r, "Authorization", fmt.Sprintf("%s Credential=%s/%s, SignedHeaders=%s, Signature=%s",
			lit.AlgorithmValue, c.Key, scope, signed, sig))
	}
}

// c06NumericDate spells the NumericDate v (seconds) in the given form (see c06JWTCred).
func c06NumericDate(v int64, form string) interface{} {
	expForm := func(e string) string {
		neg := ""
		if v < 0 {
			neg, v = "-", -v
		}
		d := strconv.FormatInt(v, 10)
		mant := strings.TrimRight(d[1:], "0")
		if mant == "" {
			mant = "0"
		}
		return neg + d[:1] + "." + mant + e + strconv.Itoa(len(d)-1)
	}
	switch form {
	case "frac":
		return json.RawMessage(strconv.FormatInt(v, 10) + ".5")
	case "frac25":
		return json.RawMessage(strconv.FormatInt(v, 10) + ".25")
	case "dot0":
		return json.RawMessage(strconv.FormatInt(v, 10) + ".0")
	case "em1":
		return json.RawMessage(strconv.FormatInt(v, 10) + "5e-1")
	case "e":
		return json.RawMessage(expForm("e"))
	case "E":
		return json.RawMessage(expForm("E+"))
	case "str":
		return strconv.FormatInt(v, 10)
	}
	return v
}

func c06IssueJWT(c *c06JWTCred, now int64) string {
	claims := jwt.MapClaims{}
	if c.Exp != nil {
		claims["exp"] = c06NumericDate(now+*c.Exp, c.ExpForm)
	}
	if c.Nbf != nil {
		claims["nbf"] = c06NumericDate(now+*c.Nbf, c.NbfForm)
	}
	if c.Iat != nil {
		claims["iat"] = now + *c.Iat
	}
	if c.Sub != "" {
		claims["sub"] = c.Sub
	}
	switch c.Scope {
	case "":
	case "#number": // a scope claim that is not a string
		claims["scope"] = 7
	default:
		claims["scope"] = c.Scope
	}
	secret := c06HexDec(c.SecretHex)
	if c.Alg == "none" {
		tok := jwt.NewWithClaims(jwt.SigningMethodNone, claims)
		s, _ := tok.SignedString(jwt.UnsafeAllowNoneSignatureType)
		return s
	}
	m := jwt.GetSigningMethod(c.Alg)
	if m == nil {
		m = jwt.SigningMethodHS256
	}
	tok := jwt.NewWithClaims(m, claims)
	s, err := tok.SignedString(secret)
	if err != nil {
		return "issue-error"
	}
	return s
}

// c06Build applies the credential recipe to a copy of the base request.
func c06Build(in *c06Input, cred c06Cred, now time.Time) c06Req {
	r := in.Base
	r.Headers = append([][]string(nil), in.Base.Headers...)
	if cred.JWT != nil {
		tok := c06IssueJWT(cred.JWT, now.Unix())
		if cred.JWT.Where == "cookie" || cred.JWT.Where == "both" {
			ck, _ := c06GetHeader(&r, "Cookie")
			if ck != "" {
				ck += "; "
			}
			c06SetHeader(&r, "Cookie", ck+cred.JWT.Cookie+"="+tok)
		}
		if cred.JWT.Where != "cookie" {
			c06SetHeader(&r, "Authorization", "Bearer "+tok)
		}
	}
	if cred.Basic != nil {
		if cred.Basic.Raw != nil {
			c06SetHeader(&r, "Authorization", *cred.Basic.Raw)
		} else {
			c06SetHeader(&r, "Authorization", "Basic "+base64.StdEncoding.EncodeToString([]byte(cred.Basic.User+":"+cred.Basic.Pass)))
		}
	}
	if cred.Sig != nil && in.Cfg.Sig != nil {
		c06Sign(in.Cfg.Sig, cred.Sig, now, &r)
	}
	return r
}

// ---------------------------------------------------------------- mutations

func c06Printable(b byte, x int) byte {
	// another printable, non-space ASCII byte
	const lo, n = 0x21, 0x7e - 0x21 + 1
	if x%n == 0 {
		x = 1
	}
	if b < lo || b > 0x7e {
		return byte(lo + (x%n+n)%n)
	}
	return byte(lo + (int(b)-lo+x%n+n)%n)
}

func c06Index(pos, n int) int {
	if n == 0 {
		return -1
	}
	if pos < 0 {
		pos = n + pos%n
	}
	return pos % n
}

// pre-mutations change the credential recipe; post-mutations change the finished request.
func c06ApplyPre(cred c06Cred, m c06Mut) (c06Cred, bool) {
	switch m.K {
	case "jwt_alg", "jwt_secret", "jwt_exp", "jwt_nbf", "jwt_where":
		if cred.JWT == nil {
			return cred, true
		}
		j := *cred.JWT
		switch m.K {
		case "jwt_alg":
			j.Alg = m.V
		case "jwt_secret":
			j.SecretHex = m.V
		case "jwt_exp":
			v := int64(m.Pos)
			j.Exp, j.ExpForm = &v, m.V
		case "jwt_nbf":
			v := int64(m.Pos)
			j.Nbf, j.NbfForm = &v, m.V
		case "jwt_where":
			j.Where = m.V
		}
		cred.JWT = &j
		return cred, true
	case "basic_pass", "basic_user", "basic_raw":
		if cred.Basic == nil {
			return cred, true
		}
		b := *cred.Basic
		switch m.K {
		case "basic_pass":
			b.Pass = m.V
		case "basic_user":
			b.User = m.V
		case "basic_raw":
			v := m.V
			b.Raw = &v
		}
		cred.Basic = &b
		return cred, true
	case "sig_secret", "sig_key", "sig_off", "sig_body", "sig_scopes", "sig_cred":
		if cred.Sig == nil {
			return cred, true
		}
		s := *cred.Sig
		switch m.K {
		case "sig_secret":
			s.Secret = m.V
		case "sig_key":
			s.Key = m.V
		case "sig_cred": // key id V with secret Name
			s.Key, s.Secret = m.V, m.Name
		case "sig_off":
			s.OffS = int64(m.Pos)
		case "sig_body":
			v := m.V
			s.BodyAs = &v
		case "sig_scopes":
			s.Scopes = append(append([]string(nil), s.Scopes...), m.V)
		}
		cred.Sig = &s
		return cred, true
	}
	return cred, false
}

func c06ApplyPost(r c06Req, m c06Mut) c06Req {
	r.Headers = append([][]string(nil), r.Headers...)
	switch m.K {
	case "method":
		r.Method = m.V
	case "target":
		r.Target = m.V
	case "target_append": // more query pairs after the ones that were signed
		if strings.Contains(r.Target, "?") {
			r.Target += "&" + m.V
		} else {
			r.Target += "?" + m.V
		}
	case "target_byte":
		b := []byte(r.Target)
		if i := c06Index(m.Pos, len(b)); i > 0 { // never the leading '/'
			b[i] = c06Printable(b[i], m.X)
			r.Target = string(b)
		}
	case "host":
		r.Host = m.V
	case "hdr_set":
		c06SetHeader(&r, m.Name, m.V)
	case "hdr_add":
		r.Headers = append(r.Headers, []string{m.Name, m.V})
	case "hdr_del":
		cn := textproto.CanonicalMIMEHeaderKey(m.Name)
		out := r.Headers[:0:0]
		for _, h := range r.Headers {
			if len(h) >= 1 && textproto.CanonicalMIMEHeaderKey(h[0]) == cn {
				continue
			}
			out = append(out, h)
		}
		r.Headers = out
	case "hdr_byte":
		cn := textproto.CanonicalMIMEHeaderKey(m.Name)
		for i, h := range r.Headers {
			if len(h) >= 2 && textproto.CanonicalMIMEHeaderKey(h[0]) == cn {
				b := []byte(h[1])
				if j := c06Index(m.Pos, len(b)); j >= 0 {
					b[j] = c06Printable(b[j], m.X)
				}
				r.Headers[i] = []string{h[0], string(b)}
				break
			}
		}
	case "hdr_prepend": // a further value *before* the existing ones
		r.Headers = append([][]string{{m.Name, m.V}}, r.Headers...)
	case "hdr_trunc": // drop the last Pos bytes of the value
		cn := textproto.CanonicalMIMEHeaderKey(m.Name)
		for i, h := range r.Headers {
			if len(h) >= 2 && textproto.CanonicalMIMEHeaderKey(h[0]) == cn {
				n := m.Pos
				if n < 0 {
					n = -n
				}
				if n > len(h[1]) {
					n = len(h[1])
				}
				r.Headers[i] = []string{h[0], h[1][:len(h[1])-n]}
				break
			}
		}
	case "hdr_after": // change the byte Pos positions after the first occurrence of V
		cn := textproto.CanonicalMIMEHeaderKey(m.Name)
		for i, h := range r.Headers {
			if len(h) >= 2 && textproto.CanonicalMIMEHeaderKey(h[0]) == cn {
				if at := strings.Index(h[1], m.V); at >= 0 && m.Pos >= 0 && at+len(m.V)+m.Pos < len(h[1]) {
					b := []byte(h[1])
					j := at + len(m.V) + m.Pos
					if b[j] >= '0' && b[j] <= '9' {
						b[j] = '0' + (b[j]-'0'+byte(1+(m.X%9+9)%9))%10
					} else {
						b[j] = c06Printable(b[j], m.X)
					}
					r.Headers[i] = []string{h[0], string(b)}
				}
				break
			}
		}
	case "body_byte":
		b := c06HexDec(r.BodyHex)
		if j := c06Index(m.Pos, len(b)); j >= 0 {
			x := byte(m.X)
			if x == 0 {
				x = 1
			}
			b[j] ^= x
			r.BodyHex = hex.EncodeToString(b)
		}
	case "body_set":
		r.BodyHex = m.V
	case "chunked":
		r.Chunked = !r.Chunked
	}
	return r
}

// ---------------------------------------------------------------- running one request

func c06Raw(r *c06Req) []byte {
	var b bytes.Buffer
	body := c06HexDec(r.BodyHex)
	fmt.Fprintf(&b, "%s %s HTTP/1.1\r\nHost: %s\r\n", r.Method, r.Target, r.Host)
	for _, h := range r.Headers {
		if len(h) >= 2 {
			fmt.Fprintf(&b, "%s: %s\r\n", h[0], h[1])
		}
	}
	if r.Chunked && len(body) > 0 {
		b.WriteString("Transfer-Encoding: chunked\r\n\r\n")
		half := len(body) / 2
		if half > 0 {
			fmt.Fprintf(&b, "%x\r\n", half)
			b.Write(body[:half])
			b.WriteString("\r\n")
		}
		fmt.Fprintf(&b, "%x\r\n", len(body)-half)
		b.Write(body[half:])
		b.WriteString("\r\n0\r\n\r\n")
	} else {
		if len(body) > 0 || (r.Method != "GET" && r.Method != "HEAD") {
			fmt.Fprintf(&b, "Content-Length: %d\r\n", len(body))
		}
		b.WriteString("\r\n")
		b.Write(body)
	}
	return b.Bytes()
}

// c06S makes a Go (byte) string safe for JSON transport: invalid UTF-8 is sent as "\x01hex:<hex>".
func c06S(s string) string {
	if utf8.ValidString(s) && !strings.HasPrefix(s, "\x01hex:") {
		return s
	}
	return "\x01hex:" + hex.EncodeToString([]byte(s))
}

func c06SortedMap(m map[string][]string) [][]string {
	keys := make([]string, 0, len(m))
	for k := range m {
		keys = append(keys, k)
	}
	sort.Strings(keys)
	out := make([][]string, 0, len(keys))
	for _, k := range keys {
		e := []string{c06S(k)}
		for _, v := range m[k] {
			e = append(e, c06S(v))
		}
		out = append(out, e)
	}
	return out
}

func c06HSOK(h func() hash.Hash, secret []byte, tok string) bool {
	parts := strings.Split(tok, ".")
	if len(parts) != 3 {
		return false
	}
	seg := parts[2]
	if l := len(seg) % 4; l > 0 {
		seg += strings.Repeat("=", 4-l)
	}
	sig, err := base64.URLEncoding.DecodeString(seg)
	if err != nil {
		return false
	}
	m := hmac.New(h, secret)
	m.Write([]byte(parts[0] + "." + parts[1]))
	return hmac.Equal(sig, m.Sum(nil))
}

func c06Oracles(in *c06Input, stdr *http.Request, p *c06Parsed) {
	// header rules: first value + regexp verdict (regexp is standard library)
	for _, rule := range in.Cfg.Headers {
		o := c06RuleOracle{}
		vs := stdr.Header[textproto.CanonicalMIMEHeaderKey(rule.Key)]
		if len(vs) > 0 {
			o.Present, o.First = true, c06S(vs[0])
		}
		if rule.Regexp != "" {
			if re, err := regexp.Compile(rule.Regexp); err == nil {
				o.ReOK = true
				o.ReMatch = o.Present && re.MatchString(vs[0])
			}
		}
		p.Rules = append(p.Rules, o)
	}
	// candidate tokens
	var toks []string
	if in.Cfg.JWT != nil {
		if in.Cfg.JWT.Cookie != "" {
			if ck, err := stdr.Cookie(in.Cfg.JWT.Cookie); err == nil {
				p.CookieOK, p.CookieVal = true, c06S(ck.Value)
				toks = append(toks, ck.Value)
			}
		}
		if a := stdr.Header.Get("Authorization"); strings.HasPrefix(a, "Bearer ") {
			toks = append(toks, a[len("Bearer "):])
		}
		secret := c06HexDec(in.Cfg.JWT.SecretHex)
		for _, tk := range toks {
			p.Toks = append(p.Toks, c06TokOracle{Tok: c06S(tk), HS256: c06HSOK(sha256.New, secret, tk),
				HS384: c06HSOK(sha512.New384, secret, tk), HS512: c06HSOK(sha512.New, secret, tk)})
		}
	}
	if in.Cfg.Sig != nil {
		lit := in.Cfg.Sig.lit()
		q := stdr.URL.Query()
		for _, s := range []string{stdr.Header.Get(lit.Date), q.Get(lit.Date)} {
			o := c06TimeOracle{S: c06S(s)}
			if t, err := time.ParseInLocation("20060102T150405Z", s, time.UTC); err == nil {
				o.OK, o.Unix, o.Refmt, o.Date = true, t.UnixNano(), t.Format("20060102T150405Z"), t.Format("20060102")
			}
			p.Times = append(p.Times, o)
		}
		s := q.Get(lit.Expires)
		o := c06UintOracle{S: c06S(s)}
		if v, err := strconv.ParseUint(s, 0, 64); err == nil {
			o.OK, o.NS = true, int64(time.Duration(v)*time.Second)
		}
		p.Uints = append(p.Uints, o)
	}
}

func c06RunOne(v *Validator, in *c06Input, label string, r c06Req) (o c06ReqObs) {
	o.Label, o.Sent = label, r
	defer func() {
		if p := recover(); p != nil {
			o.Panic = fmt.Sprint(p)
		}
	}()
	stdr, err := http.ReadRequest(bufio.NewReader(bytes.NewReader(c06Raw(&r))))
	if err != nil {
		o.ParseErr = "read-request"
		return
	}
	// exactly as pkg/object/httpserver/mux.go does
	req, _ := httpprot.NewRequest(stdr)
	ctx := context.New(nil)
	ctx.SetRequest(context.DefaultNamespace, req)
	if err := req.FetchPayload(0); err != nil {
		o.FetchErr = "fetch"
		return
	}
	p := &c06Parsed{Method: c06S(stdr.Method), EPath: c06S(stdr.URL.EscapedPath()), Opaque: stdr.URL.Opaque, Host: c06S(stdr.Host),
		URLHost: c06S(stdr.URL.Host), Scheme: c06S(stdr.URL.Scheme), Query: c06SortedMap(stdr.URL.Query()),
		Headers: c06SortedMap(stdr.Header), PayloadHex: hex.EncodeToString(req.RawPayload())}
	if _, qe := url.ParseQuery(stdr.URL.RawQuery); qe != nil {
		p.QueryErr = true
	}
	c06Oracles(in, stdr, p)
	o.P = p

	t0 := time.Now()
	o.T0, o.JWTNow = t0.UnixNano(), t0.Unix()
	jwt.TimeFunc = func() time.Time { return time.Unix(o.JWTNow, 0) }
	defer func() { jwt.TimeFunc = time.Now }()
	o.Result = v.Handle(ctx)
	o.T1 = time.Now().UnixNano()
	if resp := ctx.GetOutputResponse(); resp != nil {
		o.HasResp = true
		o.Status = resp.(*httpprot.Response).StatusCode()
	}
	o.AuthUser = c06S(stdr.Header.Get("X-AUTH-USER"))
	o.OAuthUser, o.OAuthScope = c06S(stdr.Header.Get("X-Authenticated-Userid")), c06S(stdr.Header.Get("X-Authenticated-Scope"))
	o.FwdHex = hex.EncodeToString(req.RawPayload())
	return
}

func c06MakeValidator(cfg *c06Cfg) (*Validator, func(), error) {
	raw := map[string]interface{}{"kind": "Validator", "name": "validator"}
	cleanup := func() {}
	if len(cfg.Headers) > 0 {
		hs := map[string]interface{}{}
		for _, r := range cfg.Headers {
			e := map[string]interface{}{}
			if len(r.Values) > 0 {
				e["values"] = r.Values
			}
			if r.Regexp != "" {
				e["regexp"] = r.Regexp
			}
			hs[r.Key] = e
		}
		raw["headers"] = hs
	}
	if cfg.JWT != nil {
		raw["jwt"] = map[string]interface{}{"algorithm": cfg.JWT.Alg, "secret": cfg.JWT.SecretHex, "cookieName": cfg.JWT.Cookie}
	}
	if cfg.OAuth2 != nil {
		raw["oauth2"] = map[string]interface{}{"jwt": map[string]interface{}{"algorithm": cfg.OAuth2.Alg, "secret": cfg.OAuth2.SecretHex}}
	}
	if cfg.Sig != nil {
		s := map[string]interface{}{"excludeBody": cfg.Sig.ExcludeBody}
		keys := map[string]string{}
		for _, kv := range cfg.Sig.Keys {
			if len(kv) >= 2 {
				keys[kv[0]] = kv[1]
			}
		}
		s["accessKeys"] = keys
		if cfg.Sig.TTLs > 0 {
			s["ttl"] = fmt.Sprintf("%ds", cfg.Sig.TTLs)
		}
		if len(cfg.Sig.Ignored) > 0 {
			s["ignoredHeaders"] = cfg.Sig.Ignored
		}
		if cfg.Sig.Literal != nil {
			s["literal"] = cfg.Sig.Literal
		}
		raw["signature"] = s
	}
	if cfg.Basic != nil {
		f, err := os.CreateTemp("", "verif-c06-htpasswd")
		if err != nil {
			return nil, cleanup, err
		}
		for _, u := range cfg.Basic.Users {
			if len(u) < 3 {
				continue
			}
			var enc string
			switch u[2] {
			case "bcrypt":
				h, _ := bcrypt.GenerateFromPassword([]byte(u[1]), bcrypt.MinCost)
				enc = string(h)
			case "plain":
				enc = u[1]
			default:
				s := sha1.Sum([]byte(u[1]))
				enc = "{SHA}" + base64.StdEncoding.EncodeToString(s[:])
			}
			fmt.Fprintf(f, "%s:%s\n", u[0], enc)
		}
		f.Close()
		name := f.Name()
		cleanup = func() { os.Remove(name) }
		raw["basicAuth"] = map[string]interface{}{"mode": "FILE", "userFile": name}
	}
	// through the same YAML -> filters.NewSpec path the object store uses
	y, err := json.Marshal(raw)
	if err != nil {
		return nil, cleanup, err
	}
	rawSpec := map[string]interface{}{}
	yamltool.Unmarshal(y, &rawSpec)
	var spec filters.Spec
	func() {
		defer func() {
			if p := recover(); p != nil {
				err = fmt.Errorf("spec panic: %v", p)
			}
		}()
		spec, err = filters.NewSpec(nil, "", rawSpec)
	}()
	if err != nil {
		return nil, cleanup, err
	}
	v := &Validator{spec: spec.(*Spec)}
	v.Init()
	c0 := cleanup
	return v, func() { v.Close(); c0() }, nil
}

func c06Exec(raw json.RawMessage) interface{} {
	var in c06Input
	if err := json.Unmarshal(raw, &in); err != nil {
		return c06Obs{Err: "bad-input"}
	}
	v, cleanup, err := c06MakeValidator(&in.Cfg)
	defer cleanup()
	if err != nil {
		return c06Obs{Err: "spec-rejected"}
	}
	obs := c06Obs{}
	now := time.Now()
	base := c06Build(&in, in.Cred, now)
	obs.Reqs = append(obs.Reqs, c06RunOne(v, &in, "base", base))
	for i, m := range in.Muts {
		label := fmt.Sprintf("mut%d:%s", i, m.K)
		if cred, pre := c06ApplyPre(in.Cred, m); pre {
			obs.Reqs = append(obs.Reqs, c06RunOne(v, &in, label, c06Build(&in, cred, now)))
		} else {
			obs.Reqs = append(obs.Reqs, c06RunOne(v, &in, label, c06ApplyPost(base, m)))
		}
	}
	return obs
}

func TestVerifC06Validator(t *testing.T) {
	verifh.Run(t, c06Gen, c06Exec, 0)
}
