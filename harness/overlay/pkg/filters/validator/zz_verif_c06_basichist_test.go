package validator

// C06 harness `basichist` (judge `basichist`): generation histories of a Validator with basicAuth.
//
//	Init → ( Inherit(new generation) + Close(old generation) | update of the user table | request )*
//
// in FILE mode (temp htpasswd file, fsnotify watcher) and ETCD mode (clustertest.MockedCluster, one mocked
// syncer channel per generation, as the package's own tests do). The property: the Basic credentials a
// request is checked against are the CURRENT content of the file / etcd prefix — whatever generation answers.
//
// No verdict from wall-clock luck: after an update the harness polls (bounded) until a canary user written with
// every update is visible through the current generation; independently it observes DETERMINISTICALLY whether the
// current generation's cache is still alive (FILE: `watcher.Add` fails with "already closed" after Close; ETCD: the
// syncer context is cancelled). A request after an update that is not visible is judged only when the cache is
// dead (the snapshot is frozen for good); not visible but alive = `inconclusive`.

import (
	"encoding/base64"
	"encoding/json"
	"fmt"
	"net/http"
	"os"
	"sync"
	"sync/atomic"
	"testing"
	"time"

	"github.com/fsnotify/fsnotify"
	"github.com/megaease/easegress/pkg/cluster"
	"github.com/megaease/easegress/pkg/cluster/clustertest"
	"github.com/megaease/easegress/pkg/context"
	"github.com/megaease/easegress/pkg/filters"
	"github.com/megaease/easegress/pkg/protocols/httpprot"
	"github.com/megaease/easegress/pkg/supervisor"
	"github.com/megaease/easegress/pkg/util/verifh"
	"github.com/megaease/easegress/pkg/util/yamltool"
)

type c06hOp struct {
	K     string     `json:"k"`               // inherit | update | req
	Hdr   bool       `json:"hdr,omitempty"`   // inherit: the new spec also gets a (satisfied) header rule; basicAuth unchanged
	Users [][]string `json:"users,omitempty"` // update: the new table [user, password]
	U     string     `json:"u,omitempty"`
	P     string     `json:"p,omitempty"`
}

type c06hInput struct {
	Mode  string     `json:"mode"` // FILE | ETCD
	Users [][]string `json:"users"`
	Ops   []c06hOp   `json:"ops"`
}

type c06hStep struct {
	K       string `json:"k"`
	Alive   bool   `json:"alive"`    // the current generation's user cache is alive after the step
	OldDead bool   `json:"old_dead"` // inherit: the closed generation's cache is dead
	Visible bool   `json:"visible"`  // update: the canary of this update is visible through the current generation
	// update: the change demonstrably reached the notification mechanism — FILE: the harness' own fsnotify watcher on the
	// file got an event; ETCD: the current generation's syncer reader took the new content
	CtlVisible bool   `json:"ctl_visible"`
	Result     string `json:"result"`    // req
	Status     int    `json:"status"`    // req
	User       string `json:"auth_user"` // req: X-AUTH-USER afterwards
	Panic      string `json:"panic,omitempty"`
}

type c06hObs struct {
	Steps []c06hStep `json:"steps"`
	Err   string     `json:"error,omitempty"`
}

const c06hCanary = "zz-canary"

// c06hLate counts updates that did not become visible within the full bound although the change demonstrably reached the
// notification mechanism. On a healthy tree this never happens; after the first one (a broken watcher / syncer) the
// remaining waits of this process are cut short so that a failing run stays bounded.
var c06hLate int32

func c06hBound(full time.Duration) time.Duration {
	if atomic.LoadInt32(&c06hLate) >= 1 {
		return 150 * time.Millisecond
	}
	return full
}

type c06hWorld struct {
	mode    string
	file    string
	cl      *clustertest.MockedCluster
	super   *supervisor.Supervisor
	mu      sync.Mutex
	kvs     map[string]string
	chans   []chan map[string]string // one per Syncer() call = per generation, in creation order
	version int
}

func (w *c06hWorld) table(users [][]string) [][]string {
	w.version++
	out := append([][]string(nil), users...)
	return append(out, []string{c06hCanary, fmt.Sprintf("v%d", w.version)})
}

func (w *c06hWorld) write(users [][]string) error {
	if w.mode == "FILE" {
		s := ""
		for _, u := range users {
			if len(u) >= 2 {
				s += u[0] + ":" + u[1] + "\n" // plain entries
			}
		}
		return os.WriteFile(w.file, []byte(s), 0o600) // in place: the watch is on this inode
	}
	kvs := map[string]string{}
	for i, u := range users {
		if len(u) >= 2 {
			kvs[fmt.Sprintf("/custom-data/credentials/%d", i)] = fmt.Sprintf("username: %q\npassword: %q", u[0], u[1])
		}
	}
	w.mu.Lock()
	w.kvs = kvs
	w.mu.Unlock()
	return nil
}

func (w *c06hWorld) newValidator(prev *Validator, hdr bool) (*Validator, error) {
	raw := map[string]interface{}{"kind": "Validator", "name": "validator"}
	if w.mode == "FILE" {
		raw["basicAuth"] = map[string]interface{}{"mode": "FILE", "userFile": w.file}
	} else {
		raw["basicAuth"] = map[string]interface{}{"mode": "ETCD", "etcdPrefix": "credentials/"}
	}
	if hdr {
		raw["headers"] = map[string]interface{}{"X-Ok": map[string]interface{}{"values": []string{"1"}}}
	}
	y, err := json.Marshal(raw)
	if err != nil {
		return nil, err
	}
	rawSpec := map[string]interface{}{}
	yamltool.Unmarshal(y, &rawSpec)
	spec, err := filters.NewSpec(w.super, "", rawSpec)
	if err != nil {
		return nil, err
	}
	v := &Validator{spec: spec.(*Spec)}
	if prev == nil {
		v.Init()
	} else {
		v.Inherit(prev)
	}
	return v, nil
}

// alive: deterministic, in-package observation of the generation's user cache.
func c06hAlive(v *Validator) bool {
	if v == nil || v.basicAuth == nil {
		return false
	}
	switch c := v.basicAuth.authorizedUsersCache.(type) {
	case *htpasswdUserCache:
		if c.watcher == nil {
			return false
		}
		// fsnotify closes Events and Errors when the watcher is closed; a non-blocking receive on Errors does not
		// change the set of watches (unlike Add) and takes no file event away
		select {
		case _, ok := <-c.watcher.Errors:
			return ok
		default:
			return true
		}
	case *etcdUserCache:
		return c.stopCtx != nil && c.stopCtx.Err() == nil
	}
	return false
}

func c06hHandle(v *Validator, u, p string) (st c06hStep) {
	st.K = "req"
	defer func() {
		if r := recover(); r != nil {
			st.Panic = fmt.Sprint(r)
		}
	}()
	stdr, _ := http.NewRequest(http.MethodGet, "http://a.com/", nil)
	stdr.Header.Set("Authorization", "Basic "+base64.StdEncoding.EncodeToString([]byte(u+":"+p)))
	stdr.Header.Set("X-Ok", "1")
	req, _ := httpprot.NewRequest(stdr)
	ctx := context.New(nil)
	ctx.SetRequest(context.DefaultNamespace, req)
	if err := req.FetchPayload(0); err != nil {
		st.Panic = "fetch: " + err.Error()
		return
	}
	st.Result = v.Handle(ctx)
	if resp := ctx.GetOutputResponse(); resp != nil {
		st.Status = resp.(*httpprot.Response).StatusCode()
	}
	st.User = stdr.Header.Get("X-AUTH-USER")
	return
}

// waitVisible: the canary of the current version is accepted by the current generation (bounded poll).
func (w *c06hWorld) waitVisible(v *Validator, bound time.Duration) bool {
	pw := fmt.Sprintf("v%d", w.version)
	deadline := time.Now().Add(bound)
	for {
		if st := c06hHandle(v, c06hCanary, pw); st.Result == "" && st.Panic == "" {
			return true
		}
		if time.Now().After(deadline) {
			return false
		}
		time.Sleep(2 * time.Millisecond)
	}
}

func c06hExec(raw json.RawMessage) interface{} {
	var in c06hInput
	if err := json.Unmarshal(raw, &in); err != nil {
		return c06hObs{Err: "bad-input"}
	}
	w := &c06hWorld{mode: in.Mode}
	if in.Mode != "ETCD" {
		w.mode = "FILE"
		f, err := os.CreateTemp("", "verif-c06-hist")
		if err != nil {
			return c06hObs{Err: "tempfile"}
		}
		f.Close()
		w.file = f.Name()
		defer os.Remove(w.file)
	} else {
		w.cl = clustertest.NewMockedCluster()
		w.cl.MockedGetPrefix = func(string) (map[string]string, error) {
			w.mu.Lock()
			defer w.mu.Unlock()
			out := map[string]string{}
			for k, v := range w.kvs {
				out[k] = v
			}
			return out, nil
		}
		w.cl.MockedSyncer = func(time.Duration) (cluster.Syncer, error) {
			s := clustertest.NewMockedSyncer()
			ch := make(chan map[string]string)
			w.mu.Lock()
			w.chans = append(w.chans, ch)
			w.mu.Unlock()
			s.MockedSyncPrefix = func(string) (<-chan map[string]string, error) { return ch, nil }
			return s, nil
		}
		var m sync.Map
		w.super = supervisor.NewMock(nil, w.cl, m, m, nil, nil, false, nil, nil)
	}
	if err := w.write(w.table(in.Users)); err != nil {
		return c06hObs{Err: "write"}
	}
	cur, err := w.newValidator(nil, false)
	if err != nil {
		return c06hObs{Err: "spec-rejected"}
	}
	var all []*Validator
	all = append(all, cur)
	// FILE mode: the harness' own fsnotify watcher on the file, independent of the code under test
	var ctl *fsnotify.Watcher
	if w.mode == "FILE" {
		if ctl, err = fsnotify.NewWatcher(); err == nil {
			defer ctl.Close()
			if ctl.Add(w.file) != nil {
				ctl = nil
			}
		} else {
			ctl = nil
		}
	}
	defer func() {
		for _, v := range all {
			func() {
				defer func() { recover() }()
				v.Close()
			}()
		}
	}()
	obs := c06hObs{}
	if !w.waitVisible(cur, 3*time.Second) {
		return c06hObs{Err: "initial-table-not-visible"}
	}
	for _, op := range in.Ops {
		switch op.K {
		case "inherit":
			st := c06hStep{K: "inherit"}
			func() {
				defer func() {
					if r := recover(); r != nil {
						st.Panic = fmt.Sprint(r)
					}
				}()
				nv, err := w.newValidator(cur, op.Hdr)
				if err != nil {
					st.Panic = "spec: " + err.Error()
					return
				}
				old := cur
				cur = nv
				all = append(all, nv)
				old.Close() // what Pipeline.Inherit does with the previous generation
				st.OldDead = !c06hAlive(old) || old.basicAuth == cur.basicAuth
			}()
			st.Alive = c06hAlive(cur)
			obs.Steps = append(obs.Steps, st)
		case "update":
			st := c06hStep{K: "update"}
			tbl := w.table(op.Users)
			if err := w.write(tbl); err != nil {
				st.Panic = "write"
			}
			handed := false
			if w.mode == "ETCD" {
				// hand the new content to every generation's syncer channel that still has a reader
				w.mu.Lock()
				chans, kvs := append([]chan map[string]string(nil), w.chans...), w.kvs
				w.mu.Unlock()
				curAlive := c06hAlive(cur)
				for i, ch := range chans {
					bound := 10 * time.Millisecond
					if i == len(chans)-1 && curAlive {
						bound = c06hBound(2 * time.Second) // the newest syncer belongs to the current generation; its reader is running
					}
					select {
					case ch <- kvs:
						handed = handed || (i == len(chans)-1 && curAlive)
					case <-time.After(bound):
					}
				}
			}
			st.Alive = c06hAlive(cur)
			bound := c06hBound(3 * time.Second)
			if !st.Alive {
				bound = 50 * time.Millisecond // dead for good: nothing to wait for
			}
			if ctl != nil {
				select {
				case _, ok := <-ctl.Events:
					st.CtlVisible = ok
				case <-time.After(3 * time.Second):
				}
				for drained := false; !drained; { // the rest of this write's events
					select {
					case <-ctl.Events:
					case <-time.After(5 * time.Millisecond):
						drained = true
					}
				}
			} else {
				st.CtlVisible = handed
			}
			st.Visible = w.waitVisible(cur, bound)
			if !st.Visible && st.Alive && st.CtlVisible {
				atomic.AddInt32(&c06hLate, 1)
			}
			obs.Steps = append(obs.Steps, st)
		case "req":
			st := c06hHandle(cur, op.U, op.P)
			st.Alive = c06hAlive(cur)
			obs.Steps = append(obs.Steps, st)
		default:
			obs.Steps = append(obs.Steps, c06hStep{K: op.K})
		}
	}
	return obs
}

var c06hUsers = [][]string{{"alice", "wonderland"}, {"bob", "pa:ss"}, {"carol", "secret"}, {"dave", "x"}, {"eve", "p w"}, {"frank", "a:"}}

func c06hGen(r *verifh.Rand, i int) interface{} {
	in := c06hInput{Mode: r.Pick("FILE", "FILE", "ETCD")}
	n := r.Range(1, 4)
	start := r.Intn(len(c06hUsers))
	cur := [][]string{}
	for k := 0; k < n; k++ {
		cur = append(cur, c06hUsers[(start+k)%len(c06hUsers)])
	}
	in.Users = cur
	req := func(tbl [][]string, prev [][]string) {
		// current credentials, credentials of the previous table (stale), a wrong password, an unknown user
		if len(tbl) > 0 {
			u := tbl[r.Intn(len(tbl))]
			in.Ops = append(in.Ops, c06hOp{K: "req", U: u[0], P: u[1]})
		}
		if len(prev) > 0 {
			u := prev[r.Intn(len(prev))]
			in.Ops = append(in.Ops, c06hOp{K: "req", U: u[0], P: u[1]})
		}
		if r.Bool(1, 2) {
			in.Ops = append(in.Ops, c06hOp{K: "req", U: r.Pick("alice", "bob", "nobody"), P: r.Pick("wonderland", "nope", "")})
		}
	}
	req(cur, nil)
	steps := r.Range(2, 6)
	for s := 0; s < steps; s++ {
		switch r.Intn(5) {
		case 0, 1:
			in.Ops = append(in.Ops, c06hOp{K: "inherit", Hdr: r.Bool(1, 3)})
			if r.Bool(1, 3) {
				req(cur, nil)
			}
		default:
			prev := cur
			next := [][]string{}
			for _, u := range cur {
				switch r.Intn(4) {
				case 0: // removed
				case 1: // password changed
					next = append(next, []string{u[0], u[1] + r.Pick("2", "!", ":x")})
				default:
					next = append(next, u)
				}
			}
			if r.Bool(1, 3) { // a new user (never a second entry for a present one: etcd entries have no order)
				add := c06hUsers[r.Intn(len(c06hUsers))]
				dup := false
				for _, u := range next {
					dup = dup || u[0] == add[0]
				}
				if !dup {
					next = append(next, add)
				}
			}
			cur = next
			in.Ops = append(in.Ops, c06hOp{K: "update", Users: cur})
			req(cur, prev)
		}
	}
	return in
}

func TestVerifC06BasicHist(t *testing.T) {
	verifh.Run(t, c06hGen, c06hExec, 0)
}
