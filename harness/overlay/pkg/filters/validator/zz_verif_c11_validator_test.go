package validator

// Correspondence harness for property C11, harness `validatorgen`: "closing generation g-1 leaves
// everything generation g uses alive" for the Validator's basicAuth user cache.
//
// A case is a history  Init(spec_0) ; [ new.Inherit(old) with spec_i ; old.Close() ]*  exactly as
// Pipeline.Inherit does it (reload(previous), then previous.Close()). Specs differ in the basicAuth
// section (which user file / etcd prefix) and/or only in a header rule, so that many updates leave
// basicAuth unchanged. After every step the harness looks, in-package and without any timing,
// whether the CURRENT generation's user cache still has its update source:
//
//	FILE mode: huc.watcher.Add(huc.userFile) == nil   (fsnotify answers "inotify instance already
//	           closed" once the watcher was closed; re-adding a watched path is idempotent)
//	ETCD mode: euc.stopCtx.Err() == nil               (Close cancels the syncer goroutine's context)
//
// and whether the generation that was just closed has lost it. The Lean judge (`validatorgen`)
// compares with Model.HotUpdate.vRun (fresh cache per generation) and applies the spec.

import (
	"encoding/json"
	"fmt"
	"os"
	"path/filepath"
	"sync"
	"testing"
	"time"

	"github.com/megaease/easegress/pkg/cluster"
	"github.com/megaease/easegress/pkg/cluster/clustertest"
	"github.com/megaease/easegress/pkg/filters"
	"github.com/megaease/easegress/pkg/logger"
	"github.com/megaease/easegress/pkg/supervisor"
	"github.com/megaease/easegress/pkg/util/verifh"
)

type c11vStep struct {
	Auth int `json:"auth"` // which basicAuth section (user file / etcd prefix); equal numbers = equal section
	Hdr  int `json:"hdr"`  // which header rule (an edit that does not touch basicAuth)
}

type c11vInput struct {
	Mode  string     `json:"mode"` // file | etcd
	Steps []c11vStep `json:"steps"`
}

type c11vObsStep struct {
	CurAlive string `json:"curAlive"` // alive | dead | none (no cache of the expected mode)
	PrevDead string `json:"prevDead"` // dead | alive | none | first
	Shared   bool   `json:"shared"`   // the new generation holds the previous generation's cache object
}

type c11vObs struct {
	Err   string        `json:"err,omitempty"`
	Note  string        `json:"note,omitempty"`
	Steps []c11vObsStep `json:"steps"`
}

var (
	c11vOnce  sync.Once
	c11vFiles [3]string
)

func c11vSetup() {
	c11vOnce.Do(func() {
		logger.InitNop()
		dir, _ := os.MkdirTemp("", "verifc11v")
		for i := range c11vFiles {
			c11vFiles[i] = filepath.Join(dir, fmt.Sprintf("htpasswd%d", i))
			os.WriteFile(c11vFiles[i], []byte("u:{SHA}UWkuD4QJQRZ5KDaoNiI9ZSHKfdU=\n"), 0o644)
		}
	})
}

// c11vSuper: mock supervisor + cluster; every Syncer() call returns its own mocked syncer whose
// channel never fires (as validator_test.go's createClusterAndSyncer).
func c11vSuper() *supervisor.Supervisor {
	cls := clustertest.NewMockedCluster()
	cls.MockedSyncer = func(time.Duration) (cluster.Syncer, error) {
		sy := clustertest.NewMockedSyncer()
		sy.MockedSyncPrefix = func(string) (<-chan map[string]string, error) {
			return make(chan map[string]string), nil
		}
		return sy, nil
	}
	return supervisor.NewMock(nil, cls, sync.Map{}, sync.Map{}, nil, nil, false, nil, nil)
}

func c11vMake(super *supervisor.Supervisor, mode string, st c11vStep) (v *Validator, err error) {
	defer func() {
		if p := recover(); p != nil {
			err = fmt.Errorf("%v", p)
		}
	}()
	a := st.Auth
	if a < 0 {
		a = -a
	}
	ba := map[string]interface{}{"mode": "FILE", "userFile": c11vFiles[a%len(c11vFiles)]}
	if mode == "etcd" {
		ba = map[string]interface{}{"mode": "ETCD", "etcdPrefix": fmt.Sprintf("creds%d", a%len(c11vFiles))}
	}
	raw := map[string]interface{}{"name": "v", "kind": Kind, "basicAuth": ba,
		"headers": map[string]interface{}{"X-K": map[string]interface{}{"values": []interface{}{fmt.Sprintf("v%d", st.Hdr)}}}}
	spec, err := filters.NewSpec(super, "", raw)
	if err != nil {
		return nil, err
	}
	vv, ok := filters.Create(spec).(*Validator)
	if !ok {
		return nil, fmt.Errorf("kind %s not registered", Kind)
	}
	return vv, nil
}

// c11vCache returns the user cache object of a generation (nil if it has none).
func c11vCache(v *Validator) AuthorizedUsersCache {
	if v == nil || v.basicAuth == nil {
		return nil
	}
	return v.basicAuth.authorizedUsersCache
}

// c11vAlive: does the cache still have its update source?
func c11vAlive(c AuthorizedUsersCache) string {
	switch t := c.(type) {
	case *htpasswdUserCache:
		if t == nil || t.watcher == nil {
			return "none"
		}
		if t.watcher.Add(t.userFile) == nil {
			return "alive"
		}
		return "dead"
	case *etcdUserCache:
		if t == nil || t.stopCtx == nil {
			return "none"
		}
		if t.stopCtx.Err() == nil {
			return "alive"
		}
		return "dead"
	}
	return "none"
}

func c11vGuard(what string, fn func()) (msg string) {
	defer func() {
		if p := recover(); p != nil {
			msg = what + ": " + fmt.Sprint(p)
		}
	}()
	fn()
	return ""
}

var c11vStart = time.Now()

func c11vOverBudget() bool {
	b := 6 * time.Second
	if os.Getenv("VERIF_TIER") == "thorough" {
		b = 300 * time.Second
	}
	return os.Getenv("VERIF_MODE") != "replay" && time.Since(c11vStart) > b
}

func c11vExec(raw json.RawMessage) interface{} {
	if c11vOverBudget() {
		return c11vObs{Err: "budget-exhausted"}
	}
	c11vSetup()
	var in c11vInput
	if err := json.Unmarshal(raw, &in); err != nil || (in.Mode != "file" && in.Mode != "etcd") {
		return c11vObs{Err: "bad-input"}
	}
	obs := c11vObs{Steps: []c11vObsStep{}}
	var super *supervisor.Supervisor
	if in.Mode == "etcd" {
		super = c11vSuper()
	}
	var cur *Validator
	defer func() {
		if cur != nil {
			c11vGuard("cleanup", cur.Close)
		}
	}()
	for i, st := range in.Steps {
		nv, err := c11vMake(super, in.Mode, st)
		if err != nil {
			obs.Err, obs.Note = "bad-spec", err.Error()
			return obs
		}
		if i == 0 {
			if m := c11vGuard("init", nv.Init); m != "" {
				obs.Err, obs.Note = "init-panic", m
				return obs
			}
			cur = nv
			obs.Steps = append(obs.Steps, c11vObsStep{CurAlive: c11vAlive(c11vCache(cur)), PrevDead: "first"})
			continue
		}
		old := cur
		oldCache := c11vCache(old)
		// Pipeline.Inherit: p.reload(previousGeneration) → filter.Inherit(prev); then previousGeneration.Close()
		if m := c11vGuard("inherit", func() { nv.Inherit(old) }); m != "" {
			obs.Err, obs.Note = "inherit-panic", m
			return obs
		}
		cur = nv
		if m := c11vGuard("close", old.Close); m != "" {
			obs.Err, obs.Note = "close-panic", m
			return obs
		}
		pd := c11vAlive(oldCache)
		obs.Steps = append(obs.Steps, c11vObsStep{CurAlive: c11vAlive(c11vCache(cur)), PrevDead: pd,
			Shared: oldCache != nil && oldCache == c11vCache(cur)})
	}
	return obs
}

func c11vGen(r *verifh.Rand, i int) interface{} {
	in := c11vInput{Mode: r.Pick("file", "etcd"), Steps: []c11vStep{}}
	auth, hdr := r.Intn(3), r.Intn(3)
	for k := r.Range(2, 6); k > 0; k-- {
		in.Steps = append(in.Steps, c11vStep{Auth: auth, Hdr: hdr})
		switch r.Intn(4) {
		case 0: // no-op re-apply
		case 1, 2: // an edit that leaves basicAuth alone
			hdr = (hdr + 1 + r.Intn(2)) % 3
		default: // another user file / etcd prefix
			auth = (auth + 1 + r.Intn(2)) % 3
		}
	}
	return in
}

func TestVerifC11ValidatorGen(t *testing.T) {
	verifh.Run(t, c11vGen, c11vExec, 0)
}
