package validator

// Generator for the C06 validator harness: one splitmix64 state per case,
// mostly-accepted base requests, colliding alphabets, every single-mutation
// class the property lists, plus a malformed stream.

import (
	"encoding/hex"
	"strings"

	"github.com/megaease/easegress/pkg/util/verifh"
)

var (
	c06Methods = []string{"GET", "POST", "PUT", "DELETE", "PATCH"}
	c06Paths   = []string{"/", "/a", "/a/b", "/a%20b", "/a+b", "/%E4%BD%A0", "/你好", "/a//b", "/a/./b", "/~u/-._", "/a%2Fb",
		"/a;b=c", "/a:b@c", "/a$&'()*,=!", "/A", "/a/", "/a%2fb"}
	c06Queries = []string{"", "", "x=1", "x=1&y=2", "y=2&x=1", "x=1&x=2", "x=2&x=1", "x=a%20b", "x=a+b", "x", "x=", "%E4%BD%A0=%E5%A5%BD",
		"x=1&X-Me-Date=junk", "a=b=c", "x=1&&y=2", "x=%zz", "k=v;w=1"}
	c06Hosts  = []string{"a.com", "a.com", "a.com:80", "a.com:8080", "[::1]:80", "[::1]", "a.com:", "A.com", "b.com"}
	c06HNames = []string{"X-A", "X-B", "Content-Type", "Accept", "X-Me-Extra", "User-Agent", "x-lower", "X-A"}
	c06HVals  = []string{"a", "b", "a  b", "a b", "a,b", "你好", "", "a\tb", "text/plain", "a   b  c", "1"}
	c06Bodies = []string{"", "", "a", "b", "hello world", "{\"k\":\"v\"}"}
)

func c06RandBody(r *verifh.Rand) string {
	switch r.Intn(10) {
	case 0, 1, 2:
		return hex.EncodeToString([]byte(r.Pick(c06Bodies...)))
	case 3, 4: // sha-256 padding boundaries
		n := r.PickInt(55, 56, 57, 63, 64, 65, 119, 120, 128)
		b := make([]byte, n)
		for i := range b {
			b[i] = byte('a' + r.Intn(3))
		}
		return hex.EncodeToString(b)
	case 5:
		n := r.Range(1, 300)
		b := make([]byte, n)
		for i := range b {
			b[i] = byte(r.Intn(256))
		}
		return hex.EncodeToString(b)
	case 6:
		return ""
	default:
		n := r.Range(1, 20)
		b := make([]byte, n)
		for i := range b {
			b[i] = byte("ab \n\x00\xff"[r.Intn(6)])
		}
		return hex.EncodeToString(b)
	}
}

func c06RandTarget(r *verifh.Rand) string {
	t := r.Pick(c06Paths...)
	if q := r.Pick(c06Queries...); q != "" {
		t += "?" + q
	}
	return t
}

func c06RandSecretHex(r *verifh.Rand) string {
	n := r.PickInt(1, 8, 16, 32, 64, 65, 100) // around the HMAC block size too
	b := make([]byte, n)
	for i := range b {
		b[i] = byte(r.Intn(256))
	}
	return hex.EncodeToString(b)
}

func c06I64(v int64) *int64 { return &v }

func c06GenBase(r *verifh.Rand) c06Req {
	b := c06Req{Method: r.Pick(c06Methods...), Target: c06RandTarget(r), Host: r.Pick(c06Hosts...)}
	n := r.Intn(5)
	for i := 0; i < n; i++ {
		b.Headers = append(b.Headers, []string{r.Pick(c06HNames...), r.Pick(c06HVals...)})
	}
	if b.Method != "GET" || r.Bool(1, 4) {
		b.BodyHex = c06RandBody(r)
	}
	b.Chunked = r.Bool(1, 6)
	return b
}

func c06GenSig(r *verifh.Rand, in *c06Input, presign bool) {
	cfg := &c06SigCfg{Keys: [][]string{{"AKID", "SECRET"}, {"AK2", "S2"}, {"ak/3", "s,3"}}}
	cfg.TTLs = int64(r.PickInt(0, 600, 600, 60))
	cfg.ExcludeBody = r.Bool(1, 7)
	if r.Bool(1, 4) {
		cfg.Ignored = []string{r.Pick("X-B", "X-A", "Accept")}
	}
	if r.Bool(1, 6) {
		cfg.Literal = &c06Literal{ScopeSuffix: r.Pick("aws4_request", "req"), AlgorithmName: "X-Amz-Algorithm", AlgorithmValue: r.Pick("AWS4-HMAC-SHA256", "HS"),
			SignedHeaders: "X-Amz-SignedHeaders", Signature: "X-Amz-Signature", Date: "X-Amz-Date", Expires: "X-Amz-Expires",
			Credential: "X-Amz-Credential", ContentSHA256: "X-Amz-Content-Sha256", SigningKeyPrefix: r.Pick("AWS4", "", "ME")}
	}
	in.Cfg.Sig = cfg
	c := &c06SigCred{Key: "AKID", Secret: "SECRET", Presign: presign, ExpiresS: int64(r.PickInt(60, 3600, 3600, 1, 0))}
	if r.Bool(1, 5) {
		c.Key, c.Secret = "AK2", "S2"
	}
	switch r.Intn(4) {
	case 0:
		c.Scopes = []string{"us-east-1"}
	case 1:
		c.Scopes = []string{"a", "b"}
	case 2:
		c.Scopes = []string{"eu", "svc", "x"}
	}
	ttl := cfg.TTLs
	if ttl == 0 {
		ttl = 600
	}
	c.OffS = int64(r.PickInt(0, 0, 0, 0, -5, 5, -int(ttl-20), int(ttl-20), -int(ttl+20), int(ttl+20), -86400, 86400))
	in.Cred.Sig = c
}

func c06SigMuts(r *verifh.Rand, in *c06Input) []c06Mut {
	b := &in.Base
	lit := in.Cfg.Sig.lit()
	m := []c06Mut{}
	for {
		if o := r.Pick(c06Methods...); o != b.Method {
			m = append(m, c06Mut{K: "method", V: o})
			break
		}
	}
	m = append(m, c06Mut{K: "target", V: c06RandTarget(r)})
	m = append(m, c06Mut{K: "target_byte", Pos: r.Range(1, 40), X: r.Range(1, 90)})
	m = append(m, c06Mut{K: "target_byte", Pos: -r.Range(1, 6), X: r.Range(1, 90)})
	// query pairs added to a signed request: parsable ones, and ones url.Query() cannot parse (';', bad escape)
	m = append(m, c06Mut{K: "target_append", V: r.Pick("admin=1;x=2", "role=root;", "z=%zz", "x=9;x=8", ";", "a=1;b=2&c=3", "q=%")})
	m = append(m, c06Mut{K: "target_append", V: r.Pick("zz=1", "x=1", "admin=1", "x")})
	m = append(m, c06Mut{K: "host", V: r.Pick(c06Hosts...)})
	if len(b.Headers) > 0 {
		h := b.Headers[r.Intn(len(b.Headers))]
		m = append(m, c06Mut{K: "hdr_set", Name: h[0], V: r.Pick(c06HVals...)})
		m = append(m, c06Mut{K: "hdr_byte", Name: h[0], Pos: r.Intn(8), X: r.Range(1, 90)})
		m = append(m, c06Mut{K: "hdr_del", Name: h[0]})
		m = append(m, c06Mut{K: "hdr_add", Name: h[0], V: r.Pick(c06HVals...)})
	}
	m = append(m, c06Mut{K: "hdr_add", Name: r.Pick("X-New", "X-B", "User-Agent", "Content-Type"), V: r.Pick(c06HVals...)})
	m = append(m, c06Mut{K: "body_byte", Pos: r.Intn(400), X: 1 << uint(r.Intn(8))})
	m = append(m, c06Mut{K: "body_byte", Pos: -1, X: r.Range(1, 255)})
	m = append(m, c06Mut{K: "body_set", V: c06RandBody(r)})
	m = append(m, c06Mut{K: "body_set", V: ""})
	m = append(m, c06Mut{K: "chunked"})
	m = append(m, c06Mut{K: "sig_body", V: ""})
	m = append(m, c06Mut{K: "sig_body", V: c06RandBody(r)})
	m = append(m, c06Mut{K: "sig_secret", V: r.Pick("SECRE", "SECRET ", "S2", "secret", "")})
	m = append(m, c06Mut{K: "sig_key", V: r.Pick("AKID", "AK2", "NOPE", "akid", "")})
	m = append(m, c06Mut{K: "sig_cred", V: r.Pick("NOPE", "", "akid", "AK2"), Name: r.Pick("", "", "SECRET", "S2")}) // unknown id, guessable secret
	ttl := int(in.Cfg.Sig.TTLs)
	if ttl == 0 {
		ttl = 600
	}
	m = append(m, c06Mut{K: "sig_off", Pos: r.PickInt(-ttl-20, ttl+20, -ttl+20, ttl-20, -86400, 86400*400)})
	m = append(m, c06Mut{K: "sig_scopes", V: r.Pick("extra", "")})
	if in.Cred.Sig.Presign {
		m = append(m, c06Mut{K: "target_byte", Pos: -r.Range(1, 64), X: r.Range(1, 15)})
		m = append(m, c06Mut{K: "hdr_set", Name: "Authorization", V: r.Pick("x", "Bearer x")})
	} else {
		m = append(m, c06Mut{K: "hdr_byte", Name: "Authorization", Pos: -r.Range(1, 64), X: r.Range(1, 15)})
		m = append(m, c06Mut{K: "hdr_byte", Name: "Authorization", Pos: r.Range(0, 80), X: r.Range(1, 90)})
		m = append(m, c06Mut{K: "hdr_byte", Name: lit.Date, Pos: r.Intn(16), X: r.Range(1, 9)})
		m = append(m, c06Mut{K: "hdr_del", Name: lit.Date})
		m = append(m, c06Mut{K: "hdr_del", Name: "Authorization"})
		m = append(m, c06Mut{K: "hdr_trunc", Name: "Authorization", Pos: r.PickInt(1, 2, 32, 63, 64)})
		m = append(m, c06Mut{K: "hdr_after", Name: "Authorization", V: "/", Pos: r.Intn(8), X: r.Range(1, 8)}) // date in the credential scope
		m = append(m, c06Mut{K: "hdr_after", Name: "Authorization", V: "SignedHeaders=", Pos: r.Intn(12), X: r.Range(1, 90)})
		m = append(m, c06Mut{K: "hdr_set", Name: lit.ContentSHA256, V: "e3b0c44298fc1c149afbf4c8996fb92427ae41e4649b934ca495991b7852b855"})
	}
	return m
}

func c06GenJWT(r *verifh.Rand, in *c06Input, forceCookie bool) {
	cfg := &c06JWTCfg{Alg: r.Pick("HS256", "HS256", "HS384", "HS512"), SecretHex: c06RandSecretHex(r)}
	if forceCookie || r.Bool(1, 3) {
		cfg.Cookie = r.Pick("tok", "jwt")
	}
	in.Cfg.JWT = cfg
	c := &c06JWTCred{Alg: cfg.Alg, SecretHex: cfg.SecretHex, Cookie: cfg.Cookie, Where: "bearer", Sub: r.Pick("", "alice", "你")}
	if cfg.Cookie != "" {
		c.Where = r.Pick("cookie", "cookie", "both")
		if !forceCookie && r.Bool(1, 4) {
			c.Where = "bearer"
		}
	}
	switch r.Intn(8) {
	case 0:
	case 1:
		c.Exp = c06I64(0) // boundary: exp == now is still valid
	case 2:
		c.Exp = c06I64(int64(r.PickInt(-1, -3600)))
	default:
		c.Exp = c06I64(int64(r.PickInt(1, 60, 3600)))
	}
	switch r.Intn(8) {
	case 0:
		c.Nbf = c06I64(0)
	case 1:
		c.Nbf = c06I64(int64(r.PickInt(1, 3600)))
	case 2, 3:
		c.Nbf = c06I64(-10)
	}
	forms := []string{"", "", "", "frac", "frac25", "e", "E", "em1", "dot0", "str"}
	if c.Exp != nil {
		c.ExpForm = forms[r.Intn(len(forms))]
	}
	if c.Nbf != nil {
		c.NbfForm = forms[r.Intn(len(forms))]
	}
	switch r.Intn(8) {
	case 0:
		c.Iat = c06I64(0)
	case 1:
		c.Iat = c06I64(int64(r.PickInt(1, 5)))
	case 2, 3:
		c.Iat = c06I64(-5)
	}
	in.Cred.JWT = c
}

func c06JWTMuts(r *verifh.Rand, in *c06Input) []c06Mut {
	c := in.Cred.JWT
	hdr := "Authorization"
	if c.Where != "bearer" {
		hdr = "Cookie"
	}
	m := []c06Mut{
		{K: "hdr_byte", Name: hdr, Pos: -r.Range(1, 43), X: r.Range(1, 90)}, // signature segment
		{K: "hdr_byte", Name: hdr, Pos: -1, X: r.Range(1, 90)},              // last char (padding bits)
		{K: "hdr_byte", Name: hdr, Pos: -r.Range(44, 100), X: r.Range(1, 90)},
		{K: "hdr_byte", Name: hdr, Pos: r.Range(7, 40), X: r.Range(1, 90)},
		{K: "hdr_byte", Name: hdr, Pos: r.Range(0, 6), X: r.Range(1, 90)},
		{K: "hdr_trunc", Name: hdr, Pos: r.PickInt(1, 2, 3, 10, 43, 44)},
		{K: "jwt_alg", V: r.Pick("HS256", "HS384", "HS512", "none", "RS256")},
		{K: "jwt_alg", V: "none"},
		{K: "jwt_secret", V: c06RandSecretHex(r)},
		{K: "jwt_secret", V: c.SecretHex + "00"},
		{K: "jwt_exp", Pos: r.PickInt(-1, -10, 0, 1)},
		{K: "jwt_nbf", Pos: r.PickInt(1, 10, 0, -1)},
		// an expired / not-yet-valid NumericDate in every numeric spelling (and as a JSON string, which is no NumericDate)
		{K: "jwt_exp", Pos: r.PickInt(-2, -10, -3600, -86400*400), V: r.Pick("frac", "frac25", "em1")},
		{K: "jwt_exp", Pos: r.PickInt(-1, -10, -3600, -86400*400), V: r.Pick("e", "E", "dot0")},
		{K: "jwt_nbf", Pos: r.PickInt(1, 10, 3600, 86400*400), V: r.Pick("frac", "frac25", "em1")},
		{K: "jwt_nbf", Pos: r.PickInt(1, 10, 3600, 86400*400), V: r.Pick("e", "E", "dot0")},
		{K: "jwt_exp", Pos: r.PickInt(-10, 10, 0), V: r.Pick("str", "frac", "e")},
		{K: "jwt_nbf", Pos: r.PickInt(-10, 10, 0), V: r.Pick("str", "frac", "e")},
		{K: "jwt_where", V: r.Pick("bearer", "cookie", "both")},
		{K: "hdr_del", Name: hdr},
		{K: "hdr_set", Name: "Authorization", V: r.Pick("bearer x.y.z", "Bearer", "Bearer ", "Bearer  a.b.c", "Basic YTpi", "")},
		{K: "hdr_set", Name: "Cookie", V: r.Pick("tok=", "tok=a.b.c", "other=1", "jwt=x; tok=y")},
	}
	return m
}

var c06Users = [][]string{
	{"alice", "wonderland", "sha"}, {"bob", "pa:ss", "sha"}, {"carol", "пароль", "bcrypt"}, {"dave", "x", "plain"},
	{"eve", ":", "sha"}, {"frank", "a:", "sha"}, {"grace", ":a", "sha"}, {"heidi", "a:b:c", "bcrypt"}, {"ivan", "", "sha"},
	{"judy", "pa", "sha"}, {"mallory", "p w", "sha"}, {"niaj", "wonderland", "sha"}, {"олег", "pw", "sha"},
}

func c06GenBasic(r *verifh.Rand, in *c06Input) {
	cfg := &c06BasicCfg{}
	n := r.Range(1, 6)
	start := r.Intn(len(c06Users))
	for i := 0; i < n; i++ {
		cfg.Users = append(cfg.Users, c06Users[(start+i)%len(c06Users)])
	}
	in.Cfg.Basic = cfg
	u := cfg.Users[r.Intn(len(cfg.Users))]
	in.Cred.Basic = &c06BasicCred{User: u[0], Pass: u[1]}
}

func c06BasicMuts(r *verifh.Rand, in *c06Input) []c06Mut {
	c := in.Cred.Basic
	flip := func(s string) string {
		if s == "" {
			return "x"
		}
		b := []byte(s)
		i := r.Intn(len(b))
		b[i] = c06Printable(b[i], r.Range(1, 90))
		return string(b)
	}
	trunc := c.Pass
	if i := strings.IndexByte(trunc, ':'); i >= 0 {
		trunc = trunc[:i]
	} else if len(trunc) > 0 {
		trunc = trunc[:len(trunc)-1]
	}
	other := in.Cfg.Basic.Users[r.Intn(len(in.Cfg.Basic.Users))]
	m := []c06Mut{
		{K: "basic_pass", V: flip(c.Pass)},
		{K: "basic_pass", V: trunc},
		{K: "basic_pass", V: c.Pass + ":junk"},
		{K: "basic_pass", V: c.Pass + r.Pick(":", " ", "x", "::")},
		{K: "basic_pass", V: other[1]},
		{K: "basic_user", V: flip(c.User)},
		{K: "basic_user", V: other[0]},
		{K: "basic_user", V: r.Pick("", "nobody", c.User+":"+c.Pass)},
		{K: "basic_raw", V: r.Pick("Basic", "Basic ", "basic YTpi", "Basic !!!!", "Basic YWxpY2U=", "Basic YWxpY2U", "Bearer YTpi", "Basic  YTpi")},
		{K: "hdr_byte", Name: "Authorization", Pos: -r.Range(1, 12), X: r.Range(1, 90)},
		{K: "hdr_byte", Name: "Authorization", Pos: r.Range(0, 12), X: r.Range(1, 90)},
		{K: "hdr_del", Name: "Authorization"},
		{K: "hdr_trunc", Name: "Authorization", Pos: r.PickInt(1, 2, 3, 4)},
	}
	return m
}

func c06GenRules(r *verifh.Rand, in *c06Input) {
	rules := []c06HdrRule{{Key: "X-Env", Values: []string{"prod", "stage", ""}}, {Key: "X-Id", Regexp: "^[0-9]+$"},
		{Key: "x-both", Values: []string{"abc"}, Regexp: "^ok-.+$"}, {Key: "X-Sub", Regexp: "b"}}
	n := r.Range(1, 3)
	s := r.Intn(len(rules))
	for i := 0; i < n; i++ {
		rule := rules[(s+i)%len(rules)]
		in.Cfg.Headers = append(in.Cfg.Headers, rule)
		var v string
		switch rule.Key {
		case "X-Env":
			v = r.Pick("prod", "stage", "", "prod")
		case "X-Id":
			v = r.Pick("0", "42", "007")
		case "x-both":
			v = r.Pick("abc", "ok-1", "ok-abc")
		default:
			v = r.Pick("b", "abc", "xbx")
		}
		in.Base.Headers = append(in.Base.Headers, []string{rule.Key, v})
	}
}

func c06RuleMuts(r *verifh.Rand, in *c06Input) []c06Mut {
	rule := in.Cfg.Headers[r.Intn(len(in.Cfg.Headers))]
	bad := r.Pick("dev", "x1", "ok-", "PROD", " ", "a c")
	good, _ := c06GetHeader(&in.Base, rule.Key)
	return []c06Mut{
		{K: "hdr_set", Name: rule.Key, V: bad},
		{K: "hdr_del", Name: rule.Key},
		{K: "hdr_add", Name: rule.Key, V: bad},     // second value is never looked at
		{K: "hdr_prepend", Name: rule.Key, V: bad}, // … but the first one is
		{K: "hdr_byte", Name: rule.Key, Pos: r.Intn(4), X: r.Range(1, 90)},
		{K: "hdr_set", Name: strings.ToLower(rule.Key), V: good}, // same header, other spelling
	}
}

func c06Gen(r *verifh.Rand, i int) interface{} {
	in := c06Input{}
	in.Base = c06GenBase(r)
	mode := r.Intn(107)
	var muts []c06Mut
	add := func(ms []c06Mut, keep int) {
		for len(ms) > keep { // drop random ones to bound the case size
			k := r.Intn(len(ms))
			ms = append(ms[:k], ms[k+1:]...)
		}
		muts = append(muts, ms...)
	}
	switch {
	case mode >= 100: // OAuth2 validator, self-encoded access token (JWT) mode
		c06GenJWT(r, &in, false)
		in.Cfg.OAuth2 = &c06JWTCfg{Alg: in.Cfg.JWT.Alg, SecretHex: in.Cfg.JWT.SecretHex}
		in.Cred.JWT.Where, in.Cred.JWT.Cookie = "bearer", ""
		in.Cred.JWT.Scope = r.Pick("", "read", "read write", "#number")
		switch r.Intn(4) {
		case 0: // JWT validator (cookie) and OAuth2 validator (bearer) on the same token
			in.Cfg.JWT.Cookie = r.Pick("tok", "jwt")
			in.Cred.JWT.Where, in.Cred.JWT.Cookie = "both", in.Cfg.JWT.Cookie
		case 1: // both validators on the bearer token, different secrets: at most one of them can accept
			in.Cfg.JWT.Cookie = ""
			in.Cfg.OAuth2.SecretHex = c06RandSecretHex(r)
		default:
			in.Cfg.JWT = nil
		}
		add(c06JWTMuts(r, &in), 12)
	case mode < 30: // signature, header mode
		c06GenSig(r, &in, false)
		add(c06SigMuts(r, &in), 14)
	case mode < 38: // signature, presigned URL
		c06GenSig(r, &in, true)
		add(c06SigMuts(r, &in), 14)
	case mode < 56:
		c06GenJWT(r, &in, false)
		add(c06JWTMuts(r, &in), 12)
	case mode < 74:
		c06GenBasic(r, &in)
		add(c06BasicMuts(r, &in), 12)
	case mode < 80:
		c06GenRules(r, &in)
		add(c06RuleMuts(r, &in), 6)
	case mode < 86: // rules + one method
		c06GenRules(r, &in)
		add(c06RuleMuts(r, &in), 3)
		if r.Bool(1, 2) {
			c06GenBasic(r, &in)
			add(c06BasicMuts(r, &in), 5)
		} else {
			c06GenJWT(r, &in, false)
			add(c06JWTMuts(r, &in), 5)
		}
	case mode < 91: // JWT in a cookie + signature in the header
		c06GenJWT(r, &in, true)
		c06GenSig(r, &in, false)
		add(c06JWTMuts(r, &in), 5)
		add(c06SigMuts(r, &in), 6)
	case mode < 95: // presigned URL + Basic
		c06GenSig(r, &in, true)
		c06GenBasic(r, &in)
		add(c06SigMuts(r, &in), 5)
		add(c06BasicMuts(r, &in), 5)
	case mode < 97: // all four
		c06GenRules(r, &in)
		c06GenJWT(r, &in, true)
		c06GenSig(r, &in, true)
		c06GenBasic(r, &in)
		add(c06RuleMuts(r, &in), 2)
		add(c06JWTMuts(r, &in), 3)
		add(c06SigMuts(r, &in), 4)
		add(c06BasicMuts(r, &in), 3)
	default: // conflicting methods on one Authorization header / no credentials at all
		switch r.Intn(3) {
		case 0:
			c06GenJWT(r, &in, false)
			c06GenBasic(r, &in)
			in.Cred.JWT.Where = "bearer"
		case 1:
			c06GenSig(r, &in, false)
			in.Cred.Sig = nil
		default:
			c06GenBasic(r, &in)
			in.Cred.Basic = nil
		}
		add([]c06Mut{{K: "hdr_set", Name: "Authorization", V: "x"}}, 1)
	}
	in.Muts = muts
	return in
}
