package kafka

// Correspondence harness for property C11 ("a request that already holds the old
// generation still completes without panic"), filter kind `KafkaMQTT` (package kafka, the MQTT
// backend; contexts carry mqttprot requests). The package variable `newAsyncProducer` keeps its
// default (sarama.NewAsyncProducer): the real producer talks to the MockBroker.
//
// The filter is driven against sarama's in-process MockBroker (module cache, loopback TCP), i.e.
// through the REAL sarama.AsyncProducer and its real shutdown path:
//
//	old.Init(); old.Handle(pre…); new.Inherit(old); old.Close()
//	[wait until the old producer's shutdown has finished: its Errors() channel is closed —
//	 sarama's shutdown() closes input, retries, errors, successes in that order; bounded poll,
//	 `inconclusive` if it does not happen within 10 s]
//	old.Handle / new.Handle (ops…), each under recover
//
// plus a baseline instance per spec that is never inherited from nor closed. With `wait=false` the
// old generation is used immediately after Close (the repaired code answers deterministically;
// the code as found races with the asynchronous shutdown).

import (
	"encoding/json"
	"fmt"
	"os"
	"strings"
	"sync"
	"testing"
	"time"

	"github.com/Shopify/sarama"
	"github.com/eclipse/paho.mqtt.golang/packets"
	"github.com/megaease/easegress/pkg/context"
	"github.com/megaease/easegress/pkg/logger"
	"github.com/megaease/easegress/pkg/protocols/mqttprot"
	"github.com/megaease/easegress/pkg/tracing"
	"github.com/megaease/easegress/pkg/util/verifh"
)

type c11qReq struct {
	Pkt         string `json:"pkt"`         // publish | connect
	Topic       string `json:"topic"`       // PUBLISH topic
	Body        string `json:"body"`        // PUBLISH payload
	DataTopic   string `json:"dataTopic"`   // context data under the spec's topicKey ("" = not set)
	DataHeaders bool   `json:"dataHeaders"` // context data under the spec's headerKey set?
	DataPayload string `json:"dataPayload"` // context data under the spec's payloadKey ("" = not set)
}

type c11qOp struct {
	G   int     `json:"g"` // 0 = old generation, 1 = new generation
	Req c11qReq `json:"req"`
}

type c11qSpec struct {
	Topic      string `json:"topic"` // default topic
	TopicKey   string `json:"topicKey"`
	HeaderKey  string `json:"headerKey"`
	PayloadKey string `json:"payloadKey"`
}

type c11qInput struct {
	Kind string    `json:"kind"`
	Old  c11qSpec  `json:"old"`
	New  c11qSpec  `json:"new"`
	Wait bool      `json:"wait"` // wait for the old producer's shutdown before using the old generation again
	Pre  []c11qReq `json:"pre"`
	Ops  []c11qOp  `json:"ops"`
}

type c11qOut struct {
	Panic  string `json:"panic,omitempty"`
	Result string `json:"result"`
}

type c11qObs struct {
	Err      string    `json:"err,omitempty"`
	Note     string    `json:"note,omitempty"`
	Shutdown string    `json:"shutdown"` // closed | not-waited | timeout
	WaitedMs int64     `json:"-"`
	Pre      []c11qOut `json:"pre"`
	BasePre  []c11qOut `json:"basePre"`
	Ops      []c11qOut `json:"ops"`
	Base     []c11qOut `json:"base"`
	Produced int       `json:"-"`
}

// c11qReporter collects what the mock broker reports instead of failing the test binary.
type c11qReporter struct {
	mu   sync.Mutex
	msgs []string
}

func (r *c11qReporter) add(s string) {
	r.mu.Lock()
	r.msgs = append(r.msgs, s)
	r.mu.Unlock()
}
func (r *c11qReporter) Error(a ...interface{})            { r.add(fmt.Sprint(a...)) }
func (r *c11qReporter) Errorf(f string, a ...interface{}) { r.add(fmt.Sprintf(f, a...)) }
func (r *c11qReporter) Fatal(a ...interface{})            { r.add(fmt.Sprint(a...)) }
func (r *c11qReporter) Fatalf(f string, a ...interface{}) { r.add(fmt.Sprintf(f, a...)) }

var c11qTopics = []string{"t", "t1", "t2", "dyn"}

func c11qBroker(rep *c11qReporter) *sarama.MockBroker {
	b := sarama.NewMockBroker(rep, 1)
	md := sarama.NewMockMetadataResponse(rep).SetBroker(b.Addr(), b.BrokerID())
	for _, t := range c11qTopics {
		md.SetLeader(t, 0, b.BrokerID())
	}
	b.SetHandlerByMap(map[string]sarama.MockResponse{
		"MetadataRequest": md,
		"ProduceRequest":  sarama.NewMockProduceResponse(rep),
	})
	return b
}

func c11qMake(addr string, s c11qSpec) (f *Kafka, err error) {
	defer func() {
		if p := recover(); p != nil {
			err = fmt.Errorf("%v", p)
		}
	}()
	spec := &Spec{Backend: []string{addr}, Topic: &Topic{Default: s.Topic},
		KVMap: &KVMap{TopicKey: s.TopicKey, HeaderKey: s.HeaderKey, PayloadKey: s.PayloadKey}}
	spec.BaseSpec.MetaSpec.Kind = Kind
	spec.BaseSpec.MetaSpec.Name = "k"
	kf, ok := kind.CreateInstance(spec).(*Kafka)
	if !ok {
		return nil, fmt.Errorf("kind %s: unexpected instance type", Kind)
	}
	return kf, nil
}

func c11qHandle(f *Kafka, sp c11qSpec, q c11qReq) (out c11qOut) {
	defer func() {
		if p := recover(); p != nil {
			out = c11qOut{Panic: fmt.Sprint(p)}
		}
	}()
	var pkt packets.ControlPacket
	if q.Pkt == "connect" {
		pkt = packets.NewControlPacket(packets.Connect)
	} else {
		pp := packets.NewControlPacket(packets.Publish).(*packets.PublishPacket)
		pp.TopicName = q.Topic
		if q.Body != "" {
			pp.Payload = []byte(q.Body)
		}
		pkt = pp
	}
	ctx := context.New(tracing.NoopSpan)
	ctx.SetRequest(context.DefaultNamespace, mqttprot.NewRequest(pkt, &mqttprot.MockClient{MockClientID: "c"}))
	ctx.SetResponse(context.DefaultNamespace, mqttprot.NewResponse())
	if q.DataTopic != "" && sp.TopicKey != "" {
		ctx.SetData(sp.TopicKey, q.DataTopic)
	}
	if q.DataHeaders && sp.HeaderKey != "" {
		ctx.SetData(sp.HeaderKey, map[string]string{"h": "v"})
	}
	if q.DataPayload != "" && sp.PayloadKey != "" {
		ctx.SetData(sp.PayloadKey, []byte(q.DataPayload))
	}
	out.Result = f.Handle(ctx)
	return out
}

// c11qWaitShutdown waits until the producer's shutdown has completed (Errors() closed ⇒ input closed).
func c11qWaitShutdown(p sarama.AsyncProducer, max time.Duration) bool {
	deadline := time.After(max)
	for {
		select {
		case _, ok := <-p.Errors():
			if !ok {
				return true
			}
		case <-deadline:
			return false
		}
	}
}

func c11qGuard(what string, fn func()) (msg string) {
	defer func() {
		if p := recover(); p != nil {
			msg = what + ": " + fmt.Sprint(p)
		}
	}()
	fn()
	return ""
}

var (
	c11qStart   = time.Now()
	c11qLogOnce sync.Once
)

func c11qOverBudget() bool {
	b := 20 * time.Second
	if os.Getenv("VERIF_TIER") == "thorough" {
		b = 420 * time.Second
	}
	return os.Getenv("VERIF_MODE") != "replay" && time.Since(c11qStart) > b
}

func c11qExec(raw json.RawMessage) interface{} {
	if c11qOverBudget() {
		return c11qObs{Err: "budget-exhausted"}
	}
	c11qLogOnce.Do(logger.InitNop)
	var in c11qInput
	if err := json.Unmarshal(raw, &in); err != nil || in.Kind == "" {
		return c11qObs{Err: "bad-input"}
	}
	rep := &c11qReporter{}
	broker := c11qBroker(rep)
	defer broker.Close()
	obs := c11qObs{Pre: []c11qOut{}, BasePre: []c11qOut{}, Ops: []c11qOut{}, Base: []c11qOut{}, Shutdown: "not-waited"}

	fo, e1 := c11qMake(broker.Addr(), in.Old)
	fn, e2 := c11qMake(broker.Addr(), in.New)
	bo, e3 := c11qMake(broker.Addr(), in.Old)
	bn, e4 := c11qMake(broker.Addr(), in.New)
	if e1 != nil || e2 != nil || e3 != nil || e4 != nil {
		return c11qObs{Err: "bad-spec", Note: fmt.Sprint(e1, e2)}
	}
	if m := c11qGuard("init", func() { fo.Init(); bo.Init(); bn.Init() }); m != "" {
		return c11qObs{Err: "init-panic", Note: m}
	}
	// cleanup: close the instances and wait for their producers' shutdown BEFORE the broker goes away
	// (a producer that loses its broker mid-flight retries, and sarama 1.34's retry path can crash
	// the process in one of its own goroutines)
	var live []*Kafka
	defer func() {
		for _, f := range live {
			p := f.producer
			c11qGuard("cleanup", f.Close)
			if p != nil {
				c11qWaitShutdown(p, 10*time.Second)
			}
		}
	}()
	live = append(live, bo, bn)
	for _, q := range in.Pre {
		obs.Pre = append(obs.Pre, c11qHandle(fo, in.Old, q))
		obs.BasePre = append(obs.BasePre, c11qHandle(bo, in.Old, q))
	}
	oldProducer := fo.producer
	if m := c11qGuard("inherit", func() { fn.Inherit(fo) }); m != "" {
		obs.Err, obs.Note = "inherit-panic", m
		return obs
	}
	live = append(live, fn)
	if m := c11qGuard("close", func() { fo.Close() }); m != "" {
		obs.Err, obs.Note = "close-panic", m
		return obs
	}
	if in.Wait {
		if oldProducer == nil {
			return c11qObs{Err: "inconclusive", Note: "no producer"}
		}
		if c11qWaitShutdown(oldProducer, 10*time.Second) {
			obs.Shutdown = "closed"
		} else {
			return c11qObs{Err: "inconclusive", Note: "the old producer's shutdown did not finish within 10s", Shutdown: "timeout"}
		}
	}
	if !in.Wait && oldProducer != nil {
		defer c11qWaitShutdown(oldProducer, 10*time.Second)
	}
	for _, op := range in.Ops {
		if op.G == 0 {
			obs.Ops = append(obs.Ops, c11qHandle(fo, in.Old, op.Req))
			obs.Base = append(obs.Base, c11qHandle(bo, in.Old, op.Req))
		} else {
			obs.Ops = append(obs.Ops, c11qHandle(fn, in.New, op.Req))
			obs.Base = append(obs.Base, c11qHandle(bn, in.New, op.Req))
		}
	}
	return obs
}

func c11qReqGen(r *verifh.Rand) c11qReq {
	q := c11qReq{Pkt: r.Pick("publish", "publish", "publish", "connect"), Topic: r.Pick("t", "t2", "dyn", ""),
		Body: r.Pick("", "x", "payload", strings.Repeat("z", r.PickInt(1, 100, 5000)))}
	if r.Bool(2, 3) {
		q.DataTopic = r.Pick("t1", "dyn")
	}
	q.DataHeaders = r.Bool(2, 3)
	if r.Bool(1, 2) {
		q.DataPayload = r.Pick("p", "data")
	}
	return q
}

func c11qGen(r *verifh.Rand, i int) interface{} {
	mk := func() c11qSpec {
		return c11qSpec{Topic: r.Pick("t", "t", "t1", ""), TopicKey: r.Pick("", "topic"), HeaderKey: r.Pick("", "headers"), PayloadKey: r.Pick("", "", "payload")}
	}
	in := c11qInput{Kind: Kind, Old: mk(), Wait: r.Bool(3, 4), Pre: []c11qReq{}, Ops: []c11qOp{}}
	in.New = in.Old
	if r.Bool(2, 3) {
		in.New = mk()
	}
	for k := r.Range(0, 3); k > 0; k-- {
		in.Pre = append(in.Pre, c11qReqGen(r))
	}
	for k := r.Range(1, 5); k > 0; k-- {
		g := 0
		if r.Bool(1, 3) {
			g = 1
		}
		in.Ops = append(in.Ops, c11qOp{G: g, Req: c11qReqGen(r)})
	}
	return in
}

func TestVerifC11KafkaMQTT(t *testing.T) {
	verifh.Run(t, c11qGen, c11qExec, 0)
}
