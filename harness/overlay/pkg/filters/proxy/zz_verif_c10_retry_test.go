package proxy

// Correspondence harness for property C10 (retry / time limit / one circuit
// breaker record per client request). Injected with `go test -overlay`. A real
// Proxy is built from a spec map through filters.NewSpec, real resilience
// policies are injected, and the transport is replaced through the package
// variable fnSendRequest by a stub that follows a generated outcome script and
// records when it was called. Durations are real but small (1–5 ms).
//
// Timing robustness (the check must never alarm on an unchanged tree, however
// loaded the machine is): no outcome depends on a race between a real timer and
// the scheduler.
//   - pool timeout "small" (10 ms): the script only contains entries whose
//     classification does not consult the request context (responses) and
//     "hang" (the stub waits until the context is done, so it is a deadline
//     however late the goroutine runs); no network errors, no cancellation;
//   - pool timeout "large" (5 s) or none: no "hang"; network errors and
//     cancellation allowed;
//   - cancellation is performed by the stub itself, synchronously, inside the
//     first call ("during": before it returns the context error; "backoff":
//     before it returns a response-type failure, so the select of the back-off
//     finds ctx.Done() ready) or before Handle is called ("before"); such cases
//     use a 3 s wait (back-off >= 1.5 s) so that no preemption can make the
//     back-off timer ready together with ctx.Done(), and they never sleep it;
//   - only lower bounds on gaps are reported/judged; the per-request guard
//     (20 s) exists only so that a hanging mutant ends.

import (
	stdcontext "context"
	"encoding/json"
	"fmt"
	"io"
	"net/http"
	"strconv"
	"strings"
	"sync"
	"sync/atomic"
	"testing"
	"time"

	"github.com/megaease/easegress/pkg/context"
	"github.com/megaease/easegress/pkg/filters"
	"github.com/megaease/easegress/pkg/protocols/httpprot"
	"github.com/megaease/easegress/pkg/resilience"
	"github.com/megaease/easegress/pkg/tracing"
	libcb "github.com/megaease/easegress/pkg/util/circuitbreaker"
	"github.com/megaease/easegress/pkg/util/verifh"
)

type c10Retry struct {
	Max     int    `json:"max"`
	Wait    string `json:"wait"`    // RetryPolicy.WaitDuration
	Backoff string `json:"backoff"` // "random" | "exponential" | ""
	FNum    int    `json:"fNum"`    // RandomizationFactor = fNum / fDen
	FDen    int    `json:"fDen"`
}

type c10CB struct {
	MinCalls  int `json:"minCalls"`
	Threshold int `json:"threshold"` // failure rate threshold, percent
	Window    int `json:"window"`
}

type c10Req struct {
	Stream bool `json:"stream"`
	// Payload: the request body ("" in the input = the historical "payload"; "-" = really empty).
	// SKind (stream requests only): how the stream is made — "" POST with Content-Length > 0 fetched with
	// FetchPayload(-1); "cl0": bodiless GET whose payload an earlier filter replaced by SetPayload(io.Reader)
	// (Std().ContentLength == 0); "clneg": body of unknown length (ContentLength -1, chunked);
	// "unk0": body of an unknown reader type (http.NewRequest leaves ContentLength 0).
	Payload string   `json:"payload,omitempty"`
	SKind   string   `json:"skind,omitempty"`
	Script  []string `json:"script"` // per transport call: ok | s:<code> | net | hang | bad
	Cancel  string   `json:"cancel"` // "" | before | during | backoff (all performed synchronously by the stub)
	At      int      `json:"at"`     // transport call index the cancellation is tied to
	// Pool: which of the `shared` server pools (0 = main pool, i > 0 = candidate pool i, selected by the
	// header X-Verif-Pool) serves the request. With a circuit breaker all requests use the pool of request 0.
	Pool int `json:"pool,omitempty"`
}

type c10Input struct {
	Retry        *c10Retry `json:"retry"`
	CB           *c10CB    `json:"cb"`
	TimeoutNs    int64     `json:"timeoutNs"`
	FailureCodes []int     `json:"failureCodes"`
	// Shared: number of server pools of the Proxy that name the SAME retry (and circuit breaker) policy object
	// (0/1 = main pool only; k > 1 = main pool + k-1 candidate pools). Proxy.InjectResiliencePolicy then calls
	// CreateWrapper k times on the one policy object; every wrapper must behave as if it were the only one.
	Shared int      `json:"shared,omitempty"`
	Reqs   []c10Req `json:"reqs"`
}

type c10ReqObs struct {
	Calls     int      `json:"calls"`
	Bodies    []string `json:"bodies"` // the request body each transport call carried (read to EOF by the stub)
	Gaps      []int64  `json:"gaps"`   // ns between the return of call i and the start of call i+1
	Result    string   `json:"result"`
	Status    int      `json:"status"`
	CBState   int      `json:"cbState"` // after the request: 1 closed, 3 open, 0 no breaker
	ElapsedNs int64    `json:"elapsedNs"`
	Panic     string   `json:"panic,omitempty"`
	Late      bool     `json:"late,omitempty"` // did not return within the per-request guard
}

type c10Obs struct {
	WaitNs int64       `json:"waitNs"` // time.ParseDuration(retry.wait) (0 on error / "")
	Reqs   []c10ReqObs `json:"reqs"`
}

func c10GenScript(r *verifh.Rand, n int, tkind int, codes []int) []string {
	// tkind: 0 no pool timeout, 1 small (every hang is a deadline), 2 large
	fails := []string{"bad"}
	for _, c := range codes {
		fails = append(fails, "s:"+strconv.Itoa(c))
	}
	if tkind == 1 {
		fails = append(fails, "hang", "hang", "hang")
	} else {
		fails = append(fails, "net", "net", "net")
	}
	oks := []string{"ok", "ok", "s:201", "s:404", "s:500", "s:503"}
	isFail := func(s string) bool {
		for _, f := range fails {
			if f == s {
				return true
			}
		}
		return false
	}
	pickOK := func() string {
		for {
			s := oks[r.Intn(len(oks))]
			if !isFail(s) {
				return s
			}
		}
	}
	out := make([]string, 0, n)
	switch r.Intn(5) {
	case 0: // all fail
		for i := 0; i < n; i++ {
			out = append(out, fails[r.Intn(len(fails))])
		}
	case 1, 2: // first success at a chosen attempt
		at := r.Intn(n)
		for i := 0; i < n; i++ {
			if i == at {
				out = append(out, pickOK())
			} else if i < at {
				out = append(out, fails[r.Intn(len(fails))])
			} else if r.Bool(1, 2) {
				out = append(out, pickOK())
			} else {
				out = append(out, fails[r.Intn(len(fails))])
			}
		}
	case 3: // immediate success
		for i := 0; i < n; i++ {
			out = append(out, pickOK())
		}
	default:
		for i := 0; i < n; i++ {
			if r.Bool(1, 3) {
				out = append(out, pickOK())
			} else {
				out = append(out, fails[r.Intn(len(fails))])
			}
		}
	}
	return out
}

func c10Gen(r *verifh.Rand, i int) interface{} {
	in := c10Input{}
	switch r.Intn(4) {
	case 0:
	case 1:
		in.FailureCodes = []int{503}
	case 2:
		in.FailureCodes = []int{500, 503}
	default:
		in.FailureCodes = []int{404, 500, 503}
	}
	tkind := r.PickInt(0, 0, 1, 1, 2)
	switch tkind {
	case 1:
		in.TimeoutNs = int64(10 * time.Millisecond)
	case 2:
		in.TimeoutNs = int64(5 * time.Second)
	}
	defaultWait, cancelCase := false, false
	if r.Bool(17, 20) {
		rt := &c10Retry{Max: r.PickInt(1, 2, 2, 3, 3, 4, 5), Wait: r.Pick("1ms", "2ms", "2ms", "3ms", "5ms", "1500us"),
			Backoff: r.Pick("random", "exponential", "exponential", "")}
		f := [][2]int{{0, 1}, {1, 4}, {1, 2}, {1, 1}, {1, 10}, {3, 4}}[r.Intn(6)]
		rt.FNum, rt.FDen = f[0], f[1]
		if r.Bool(1, 150) { // CreateWrapper default (500 ms): expensive, rare, few attempts
			rt.Wait = r.Pick("", "0s", "-1ms", "bogus")
			rt.Max = r.PickInt(1, 2)
			rt.Backoff = "random"
			defaultWait = true
		}
		// Cancellation cases: after the client is gone the back-off select has ctx.Done() ready
		// and a timer; if the goroutine were preempted for longer than the back-off both would
		// be ready and Go may pick either. A back-off of >= 1.5 s makes that impossible in
		// practice, and a correct tree never sleeps it (see the request generator below).
		if tkind != 1 && r.Bool(1, 4) {
			cancelCase, defaultWait = true, false
			rt.Wait = "3s"
			if rt.FNum*2 > rt.FDen {
				rt.FNum, rt.FDen = 1, 2
			}
			if rt.Max < 2 {
				rt.Max = r.PickInt(2, 3, 5)
			}
		}
		in.Retry = rt
	}
	// Cancellation at a LATER attempt (audit item 16): attempt 0 fails with a response-type failure, the 2 s
	// back-off is really slept (fixed back-off, f = 0), and the client goes away inside attempt 1. The
	// following select has ctx.Done() ready and a 2 s timer: strict judging, no race. Rare (each costs 2 s).
	lateCancel := false
	if in.Retry != nil && tkind != 1 && !cancelCase && !defaultWait && r.Bool(1, 90) {
		lateCancel = true
		in.Retry.Wait, in.Retry.Backoff, in.Retry.FNum, in.Retry.FDen = "2s", "random", 0, 1
		if in.Retry.Max < 3 {
			in.Retry.Max = 3
		}
		in.CB = nil
	}
	if in.Retry == nil && tkind != 1 && r.Bool(1, 4) {
		cancelCase = true // no back-off at all: only the 499 classification is exercised
	}
	nreq := r.Range(1, 3)
	if r.Bool(2, 5) {
		in.CB = &c10CB{MinCalls: r.PickInt(1, 2, 3, 5), Threshold: r.PickInt(1, 34, 50, 100), Window: 100}
		nreq = r.Range(2, 8)
	}
	max := 1
	if in.Retry != nil {
		max = in.Retry.Max
	}
	if defaultWait || lateCancel {
		nreq = 1
	}
	if in.Retry != nil {
		in.Shared = r.PickInt(1, 1, 2, 2, 3)
	}
	cbPool := 0
	if in.Shared > 1 {
		cbPool = r.Intn(in.Shared)
	}
	for q := 0; q < nreq; q++ {
		rq := c10Req{Stream: r.Bool(1, 4)}
		if in.Shared > 1 {
			if in.CB != nil {
				rq.Pool = cbPool
			} else {
				rq.Pool = r.Intn(in.Shared)
			}
		}
		rq.Payload = r.Pick("", "", "x", "0123456789abcdef0123456789abcdef", "{\"k\":\"v\"}", "-")
		if rq.Stream {
			rq.SKind = r.Pick("", "", "cl0", "cl0", "clneg", "unk0")
		}
		rq.Script = c10GenScript(r, max+1, tkind, in.FailureCodes)
		if lateCancel {
			rq.Stream = false
			rq.Cancel, rq.At = r.Pick("during", "backoff"), 1
			rq.Script[0] = "bad"
			if rq.Cancel == "backoff" && len(rq.Script) > 1 {
				rq.Script[1] = "bad"
			}
		}
		if cancelCase {
			// Every request of a cancel case is cancelled at its first transport call (or is
			// answered at once), so the 3 s back-off of the case is never actually slept.
			if r.Bool(1, 4) {
				for k := range rq.Script {
					rq.Script[k] = "ok"
				}
			} else {
				rq.Cancel = r.Pick("before", "during", "during", "backoff", "backoff")
				rq.At = 0
				if rq.Cancel == "backoff" {
					// the stub cancels inside call 0 and then answers with a failure whose
					// classification does not consult the context
					rq.Script[0] = "bad"
				}
			}
		}
		in.Reqs = append(in.Reqs, rq)
	}
	return in
}

type c10State struct {
	mu       sync.Mutex
	script   []string
	cancel   string
	at       int
	cancelFn stdcontext.CancelFunc
	client   stdcontext.Context
	starts   []time.Time
	ends     []time.Time
	bodies   []string
}

var (
	c10StubOnce sync.Once
	c10Cur      atomic.Value // *c10State of the request in flight (requests run one at a time)
)

func c10Resp(code int, bad bool) *http.Response {
	resp := &http.Response{StatusCode: code, Header: http.Header{}, Body: io.NopCloser(strings.NewReader("body")), ContentLength: 4}
	if bad {
		resp.ContentLength = 1 << 40 // larger than any ServerMaxBodySize: buildResponse fails
	}
	return resp
}

func (st *c10State) send(r *http.Request) (resp *http.Response, err error) {
	// what a transport does first: write the request, i.e. read its body to EOF
	body := ""
	if r.Body != nil {
		b, _ := io.ReadAll(io.LimitReader(r.Body, 1<<20))
		body = string(b)
	}
	st.mu.Lock()
	k := len(st.starts)
	st.starts = append(st.starts, time.Now())
	st.bodies = append(st.bodies, body)
	entry := "net"
	if k < len(st.script) {
		entry = st.script[k]
	} else if len(st.script) > 0 {
		entry = st.script[len(st.script)-1]
	}
	st.mu.Unlock()
	defer func() {
		st.mu.Lock()
		st.ends = append(st.ends, time.Now())
		st.mu.Unlock()
	}()
	ctx := r.Context()
	// what net/http does for a request whose client is already gone
	if st.client != nil && st.client.Err() != nil {
		return nil, st.client.Err()
	}
	if st.cancel == "during" && k >= st.at {
		st.cancelFn() // synchronous: the client goes away inside this call
		<-ctx.Done()
		return nil, ctx.Err()
	}
	if st.cancel == "backoff" && k == st.at {
		st.cancelFn() // synchronous: ctx.Done() is ready when the back-off select is evaluated
		if entry == "net" || entry == "hang" {
			return nil, st.client.Err()
		}
	}
	switch {
	case entry == "ok":
		return c10Resp(200, false), nil
	case strings.HasPrefix(entry, "s:"):
		code, _ := strconv.Atoi(entry[2:])
		if code < 100 || code > 599 {
			code = 200
		}
		return c10Resp(code, false), nil
	case entry == "bad":
		return c10Resp(200, true), nil
	case entry == "hang":
		select {
		case <-ctx.Done():
			return nil, ctx.Err()
		case <-time.After(15 * time.Second): // guard: the generator only uses hang with a pool timeout
			return nil, fmt.Errorf("verif: hang guard")
		}
	default:
		return nil, fmt.Errorf("verif: network error")
	}
}

func c10InstallStub() {
	c10StubOnce.Do(func() {
		fnSendRequest = func(r *http.Request, client *http.Client) (*http.Response, error) {
			if st, _ := c10Cur.Load().(*c10State); st != nil {
				return st.send(r)
			}
			return c10Resp(200, false), nil
		}
	})
}

func c10Exec(raw json.RawMessage) interface{} {
	var in c10Input
	if err := json.Unmarshal(raw, &in); err != nil {
		return map[string]string{"error": "bad-input"}
	}
	c10InstallStub()
	obs := c10Obs{}
	pool := map[string]interface{}{"servers": []interface{}{map[string]interface{}{"url": "http://127.0.0.1:9"}}}
	if in.TimeoutNs > 0 {
		pool["timeout"] = time.Duration(in.TimeoutNs).String()
	}
	if len(in.FailureCodes) > 0 {
		pool["failureCodes"] = in.FailureCodes
	}
	policies := map[string]resilience.Policy{}
	if in.Retry != nil {
		pool["retryPolicy"] = "r"
		f := 0.0
		if in.Retry.FDen > 0 {
			f = float64(in.Retry.FNum) / float64(in.Retry.FDen)
		}
		policies["r"] = &resilience.RetryPolicy{MaxAttempts: in.Retry.Max, WaitDuration: in.Retry.Wait,
			BackOffPolicy: in.Retry.Backoff, RandomizationFactor: f}
		if d, err := time.ParseDuration(in.Retry.Wait); err == nil {
			obs.WaitNs = int64(d)
		}
	}
	if in.CB != nil {
		pool["circuitBreakerPolicy"] = "c"
		policies["c"] = &resilience.CircuitBreakerPolicy{SlidingWindowType: "COUNT_BASED",
			FailureRateThreshold: uint8(in.CB.Threshold), SlowCallRateThreshold: 100, SlidingWindowSize: uint32(in.CB.Window),
			PermittedNumberOfCallsInHalfOpen: 1, MinimumNumberOfCalls: uint32(in.CB.MinCalls),
			SlowCallDurationThreshold: "1h", WaitDurationInOpen: "1h"}
	}
	pools := []interface{}{pool}
	shared := in.Shared
	if shared > 4 {
		shared = 4
	}
	for i := 1; i < shared; i++ {
		cand := map[string]interface{}{}
		for k, v := range pool {
			cand[k] = v
		}
		cand["filter"] = map[string]interface{}{"headers": map[string]interface{}{
			"X-Verif-Pool": map[string]interface{}{"exact": strconv.Itoa(i)}}}
		pools = append(pools, cand)
	}
	rawSpec := map[string]interface{}{"name": "verif", "kind": Kind, "pools": pools}
	spec, err := filters.NewSpec(nil, "", rawSpec)
	if err != nil {
		return map[string]string{"error": "spec: " + err.Error()}
	}
	p := kind.CreateInstance(spec).(*Proxy)
	p.Init()
	defer p.Close()
	p.InjectResiliencePolicy(policies)
	poolOf := func(qi int) int {
		k := in.Reqs[qi].Pool
		if in.CB != nil {
			k = in.Reqs[0].Pool
		}
		if k < 0 || k > len(p.candidatePools) {
			k = 0
		}
		return k
	}

	for qi := range in.Reqs {
		rq := &in.Reqs[qi]
		if qi >= 64 {
			break
		}
		cctx, cancel := stdcontext.WithCancel(stdcontext.Background())
		st := &c10State{script: rq.Script, cancel: rq.Cancel, at: rq.At, cancelFn: cancel, client: cctx}
		if rq.Cancel == "before" {
			cancel()
		}
		payload := rq.Payload
		switch payload {
		case "":
			payload = "payload"
		case "-":
			payload = ""
		}
		var req *httpprot.Request
		switch {
		case rq.Stream && rq.SKind == "cl0":
			stdr, _ := http.NewRequestWithContext(cctx, http.MethodGet, "http://client.example/x", nil)
			req, _ = httpprot.NewRequest(stdr)
			req.FetchPayload(0)
			req.SetPayload(io.Reader(io.NopCloser(strings.NewReader(payload)))) // what RequestAdaptor / a WASM host may do
		case rq.Stream && (rq.SKind == "clneg" || rq.SKind == "unk0"):
			stdr, _ := http.NewRequestWithContext(cctx, http.MethodPost, "http://client.example/x", io.NopCloser(strings.NewReader(payload)))
			if rq.SKind == "clneg" {
				stdr.ContentLength = -1
			}
			req, _ = httpprot.NewRequest(stdr)
			req.FetchPayload(-1)
		default:
			stdr, _ := http.NewRequestWithContext(cctx, http.MethodPost, "http://client.example/x", strings.NewReader(payload))
			req, _ = httpprot.NewRequest(stdr)
			if rq.Stream {
				req.FetchPayload(-1)
			} else {
				req.FetchPayload(0)
			}
		}
		sp := p.mainPool
		if k := poolOf(qi); k > 0 {
			req.Std().Header.Set("X-Verif-Pool", strconv.Itoa(k))
			sp = p.candidatePools[k-1]
		}
		ctx := context.New(tracing.NoopSpan)
		ctx.SetRequest(context.DefaultNamespace, req)
		c10Cur.Store(st)
		ro := c10ReqObs{}
		type done struct {
			res   string
			panic interface{}
		}
		ch := make(chan done, 1)
		t0 := time.Now()
		go func() {
			defer func() {
				if r := recover(); r != nil {
					ch <- done{panic: r}
				}
			}()
			ch <- done{res: p.Handle(ctx)}
		}()
		select {
		case d := <-ch:
			ro.Result = d.res
			if d.panic != nil {
				ro.Panic = fmt.Sprint(d.panic)
			}
		case <-time.After(20 * time.Second): // hang guard only (never reached by a correct tree)
			ro.Late = true
			cancel()
			select {
			case d := <-ch:
				ro.Result = d.res
			case <-time.After(20 * time.Second):
			}
		}
		ro.ElapsedNs = int64(time.Since(t0))
		cancel()
		c10Cur.Store((*c10State)(nil))
		st.mu.Lock()
		ro.Calls = len(st.starts)
		ro.Bodies = append([]string{}, st.bodies...)
		for i := 0; i+1 < len(st.starts) && i < len(st.ends); i++ {
			ro.Gaps = append(ro.Gaps, int64(st.starts[i+1].Sub(st.ends[i])))
		}
		st.mu.Unlock()
		if resp, ok := ctx.GetOutputResponse().(*httpprot.Response); ok && resp != nil {
			ro.Status = resp.StatusCode()
		}
		if w, ok := sp.circuitBreakerWrapper.(interface{ State() libcb.State }); ok && sp.circuitBreakerWrapper != nil {
			ro.CBState = int(w.State())
		}
		obs.Reqs = append(obs.Reqs, ro)
	}
	return obs
}

func TestVerifC10(t *testing.T) {
	verifh.Run(t, c10Gen, c10Exec, 5*time.Minute)
}
