package proxy

// Correspondence harness for property C03, unit level (injected with
// `go test -overlay`): drives the real cloneHeader, Server.checkAddrPattern and
// compression.compress directly, and prepareRequest through Proxy.Handle (a real Proxy
// built from a spec, the package variable fnSendRequest records what every attempt would
// put on the wire — also with a pool retry policy and failureCodes).

import (
	"bufio"
	"bytes"
	"compress/gzip"
	"encoding/json"
	"fmt"
	"io"
	"net"
	"net/http"
	"net/url"
	"sort"
	"strings"
	"testing"

	"github.com/megaease/easegress/pkg/context"
	"github.com/megaease/easegress/pkg/filters"
	"github.com/megaease/easegress/pkg/protocols/httpprot"
	"github.com/megaease/easegress/pkg/resilience"
	"github.com/megaease/easegress/pkg/tracing"
	"github.com/megaease/easegress/pkg/util/verifh"
)

type c03uInput struct {
	Kind string `json:"kind"` // clone | addr | prep | compress

	Hdrs [][2]string `json:"hdrs"` // clone, prep: request header lines in order

	URL      string `json:"url"` // addr, prep: server URL
	KeepHost bool   `json:"keepHost"`

	Method  string `json:"method"` // prep
	Target  string `json:"target"` // prep: request-target as on the wire
	Host    string `json:"host"`
	BodyLen int    `json:"bodyLen"`
	Limit   int64  `json:"limit"` // prep: FetchPayload limit (-1 stream)

	// prep: pool retry policy (0 = none) and the scripted outcomes of the attempts before the final 200:
	// "s:503" (a status listed in failureCodes) | "err" (transport error)
	RetryMax int      `json:"retryMax"`
	Fails    []string `json:"fails"`

	MinLength int      `json:"minLength"` // compress
	AE        []string `json:"ae"`        // compress: Accept-Encoding values of the request (nil = absent)
	CE        []string `json:"ce"`        // compress: Content-Encoding values of the response
	CL        int64    `json:"cl"`        // compress: resp.ContentLength (-1 unknown)
}

type c03uObs struct {
	Hdrs  [][]string  `json:"hdrs"`
	Canon [][2]string `json:"canon"`

	Parsed     bool            `json:"parsed"`
	UHost      string          `json:"uhost"`
	IsHostName bool            `json:"isHostName"`
	IPs        [][]interface{} `json:"ips"`

	Err       string `json:"err"`
	OutURL    string `json:"outURL"`  // stdReq.URL.String()
	OutURI    string `json:"outURI"`  // stdReq.URL.RequestURI(): what the transport writes
	OutPath   string `json:"outPath"` // stdReq.URL.Path (decoded)
	OutQuery  string `json:"outQuery"`
	OutHost   string `json:"outHost"` // Host the transport will send
	OutMethod string `json:"outMethod"`
	OutCL     int64  `json:"outCL"`
	EscPath   string `json:"escPath"` // oracle: EscapedPath() of the client's request-target
	DecPath   string `json:"decPath"` // oracle: decoded path of the client's request-target
	RawQuery  string `json:"rawQuery"`

	// prep: one entry per attempt that reached fnSendRequest
	Atts   []c03uAttempt `json:"atts"`
	Result string        `json:"result"`

	Did      bool  `json:"did"`
	RespCL   int64 `json:"respCL"`
	BodyOK   bool  `json:"bodyOK"`
	BodySize int   `json:"bodySize"`
}

type c03uAttempt struct {
	CL       int64 `json:"cl"`
	BodySize int   `json:"bodySize"`
	BodyOK   bool  `json:"bodyOK"`
	Same     bool  `json:"same"` // method, URL, Host and header equal to the first attempt's
}

func c03uSorted(h http.Header) [][]string {
	keys := make([]string, 0, len(h))
	for k := range h {
		keys = append(keys, k)
	}
	sort.Strings(keys)
	out := make([][]string, 0, len(keys))
	for _, k := range keys {
		out = append(out, append([]string{k}, h[k]...))
	}
	return out
}

func c03uCanon(obs *c03uObs, hdrs [][2]string) {
	seen := map[string]bool{}
	add := func(n string) {
		n = strings.Trim(n, " \t")
		if n == "" || seen[n] {
			return
		}
		seen[n] = true
		obs.Canon = append(obs.Canon, [2]string{n, http.CanonicalHeaderKey(n)})
	}
	for _, kv := range hdrs {
		add(kv[0])
		if http.CanonicalHeaderKey(kv[0]) == "Connection" {
			for _, t := range strings.Split(kv[1], ",") {
				add(t)
			}
		}
	}
}

var c03uNames = []string{"X-A", "x-a", "X-Ab", "Accept", "Accept-Encoding", "Cookie", "Content-Type", "Authorization",
	"Keep-Alive", "keep-alive", "Proxy-Connection", "Proxy-Authenticate", "Proxy-Authorization", "TE", "Te", "Trailer",
	"Trailers", "Transfer-Encoding", "Upgrade", "upgrade", "X-Foo", "x-foo", "X-Bar", "Close", "Range", "Via", "X-Forwarded-For"}

func c03uGenHdrs(r *verifh.Rand) [][2]string {
	var out [][2]string
	n := r.Range(0, 8)
	for i := 0; i < n; i++ {
		name := c03uNames[r.Intn(len(c03uNames))]
		val := r.Pick("1", "2", "a,b", "trailers", "gzip", "x=y", "")
		if name == "Upgrade" || name == "upgrade" {
			val = "websocket"
		}
		out = append(out, [2]string{name, val})
	}
	// Connection lines naming arbitrary tokens (present or absent headers, odd spacing, empty tokens)
	nc := r.PickInt(0, 1, 1, 1, 2)
	for i := 0; i < nc; i++ {
		var toks []string
		nt := r.Range(0, 4)
		for j := 0; j < nt; j++ {
			t := r.Pick("close", "keep-alive", "Keep-Alive", "X-Foo", "x-foo", "x-bar", "X-A", "x-ab", "Cookie", "upgrade", "connection", "", "TE", "Accept")
			t = r.Pick("", " ", "\t", "  ") + t + r.Pick("", " ", " \t")
			toks = append(toks, t)
		}
		out = append(out, [2]string{r.Pick("Connection", "connection", "CONNECTION"), strings.Join(toks, ",")})
	}
	// shuffle
	for i := len(out) - 1; i > 0; i-- {
		j := r.Intn(i + 1)
		out[i], out[j] = out[j], out[i]
	}
	return out
}

func c03uGenAddr(r *verifh.Rand) string {
	host := r.Pick("127.0.0.1", "10.0.0.300", "example.com", "localhost", "a", "::1", "[::1]", "[fe80::1%25eth0]", "[::ffff:1.2.3.4]",
		"[example.com]", "1.2.3", "01.2.3.4", "[1.2.3.4]", "", "[]", "[::1", "::1]", "a]b", "[a]b")
	port := r.Pick("", "", ":80", ":8080", ":", ":http", ":0")
	scheme := r.Pick("http://", "https://", "http://", "", "//")
	path := r.Pick("", "/", "/base", "/a:b", "/x]y")
	if r.Bool(1, 12) {
		return r.Pick("http://[::1]:namedport", "http://a b", "%zz", "http://user:pw@1.2.3.4:80", "http://user@host", "1.2.3.4:80", "http://[::1]:80:90")
	}
	return scheme + host + port + path
}

var c03uPaths = []string{"/", "/a", "/a/b", "/a%20b", "/a%2Fb", "/a%2fb", "/a%3Fb", "/a%23b", "/a%25b", "/100%25", "/a%2541",
	"/%E4%B8%AD", "/a+b", "/a;p=1", "/a:b", "/a|b", "/a%7Cb", "/a[1]", "/~u", "/a%41", "//a", "/a//b", "/a/./b", "/a/../b", "/a%00b", "/*", "/a&b=c", "/a=b", "/a@b", "/a,b", "/a!$'()"}

var c03uQueries = []string{"", "", "x=1", "x=1&y=2", "x=%20", "x=a+b", "x=%2B", "x", "=", "&", "x=1&x=2", "a=%E4%B8%AD", "q=a/b", "q=a?b", "x=%25", "x=%", "x=%zz", "a;b", "x=[1]", "x=|"}

func c03uGen(r *verifh.Rand, i int) interface{} {
	in := c03uInput{}
	switch r.Intn(10) {
	case 0, 1, 2, 3:
		in.Kind = "clone"
		in.Hdrs = c03uGenHdrs(r)
	case 4, 5:
		in.Kind = "addr"
		in.URL = c03uGenAddr(r)
	case 6, 7, 8:
		in.Kind = "prep"
		in.Method = r.Pick("GET", "HEAD", "POST", "PUT", "DELETE", "OPTIONS", "PATCH", "M-SEARCH")
		in.Target = c03uPaths[r.Intn(len(c03uPaths))]
		if q := c03uQueries[r.Intn(len(c03uQueries))]; q != "" {
			in.Target += "?" + q
		} else if r.Bool(1, 10) {
			in.Target += "?"
		}
		in.Host = r.Pick("client.example", "client.example:8080", "a", "10.1.1.1", "[::1]:80")
		in.Hdrs = c03uGenHdrs(r)
		in.URL = r.Pick("http://127.0.0.1:9095", "http://example.com", "http://example.com:8080", "http://[::1]:9095",
			"https://svc.local", "http://10.0.0.1", "http://localhost:80/base", "http://example.com/")
		in.KeepHost = r.Bool(1, 3)
		in.BodyLen = r.PickInt(0, 0, 1, 10, 100)
		in.Limit = int64(r.PickInt(0, 0, -1, 1000))
		if r.Bool(1, 3) {
			in.RetryMax = r.PickInt(1, 2, 3, 3, 4)
			nf := r.PickInt(0, 1, 1, 2, 3)
			for k := 0; k < nf; k++ {
				in.Fails = append(in.Fails, r.Pick("s:503", "s:503", "err", "s:500"))
			}
			if r.Bool(1, 2) {
				in.BodyLen = r.PickInt(1, 10, 100, 2619)
				if in.Limit > 0 && int64(in.BodyLen) > in.Limit {
					in.Limit = 0
				}
			}
		}
	default:
		in.Kind = "compress"
		in.MinLength = r.PickInt(0, 1, 10, 100, 1024)
		switch r.Intn(5) {
		case 0:
			in.AE = nil
		case 1:
			in.AE = []string{"gzip"}
		case 2:
			in.AE = []string{r.Pick("gzip, deflate, br", "deflate", "identity", "*/*", "*", "br;q=1.0, gzip;q=0.8", "")}
		case 3:
			in.AE = []string{"deflate", "gzip"}
		default:
			in.AE = []string{r.Pick("GZIP", "x-gzip", "br")}
		}
		switch r.Intn(5) {
		case 0:
			in.CE = []string{r.Pick("gzip", "br", "deflate", "x-gzip", "gzip, br", "identity")}
		case 1:
			in.CE = []string{"br", "gzip"}
		default:
			in.CE = nil
		}
		in.BodyLen = r.PickInt(0, 1, 9, 10, 11, 99, 100, 101, 1023, 1024, 1025, 5000)
		in.CL = int64(in.BodyLen)
		if r.Bool(1, 3) {
			in.CL = -1
		}
	}
	return in
}

// c03uIPTable is the oracle net.ParseIP on every substring host[i:j] (i <= 2) the
// index arithmetic of checkAddrPattern could select.
func c03uIPTable(h string) [][]interface{} {
	var out [][]interface{}
	seen := map[string]bool{}
	for i := 0; i <= len(h) && i <= 2; i++ {
		for j := i; j <= len(h); j++ {
			sub := h[i:j]
			if !seen[sub] {
				seen[sub] = true
				out = append(out, []interface{}{sub, net.ParseIP(sub) != nil})
			}
		}
	}
	return out
}

func c03uBody(n int) []byte {
	b := make([]byte, n)
	for i := range b {
		b[i] = "the quick brown fox "[i%20]
	}
	return b
}

func c03uExec(raw json.RawMessage) interface{} {
	var in c03uInput
	if err := json.Unmarshal(raw, &in); err != nil {
		return map[string]string{"error": "bad-input"}
	}
	obs := &c03uObs{}
	switch in.Kind {
	case "clone":
		h := http.Header{}
		for _, kv := range in.Hdrs {
			h.Add(kv[0], kv[1])
		}
		c03uCanon(obs, in.Hdrs)
		obs.Hdrs = c03uSorted(cloneHeader(h))
	case "addr":
		s := &Server{URL: in.URL}
		s.checkAddrPattern()
		obs.IsHostName = s.addrIsHostName
		u, err := url.Parse(in.URL)
		obs.Parsed = err == nil
		if err == nil {
			obs.UHost = u.Host
			obs.IPs = c03uIPTable(u.Host)
		}
	case "prep":
		var rb bytes.Buffer
		body := c03uBody(in.BodyLen)
		fmt.Fprintf(&rb, "%s %s HTTP/1.1\r\nHost: %s\r\n", in.Method, in.Target, in.Host)
		for _, kv := range in.Hdrs {
			if k := http.CanonicalHeaderKey(kv[0]); k == "Transfer-Encoding" || k == "Content-Length" || k == "Host" || k == "Trailer" {
				continue // would change how net/http frames / rejects the request itself
			}
			fmt.Fprintf(&rb, "%s: %s\r\n", kv[0], kv[1])
		}
		fmt.Fprintf(&rb, "Content-Length: %d\r\n\r\n", len(body))
		rb.Write(body)
		stdr, err := http.ReadRequest(bufio.NewReader(&rb))
		if err != nil {
			obs.Err = "client-request-rejected-by-net/http"
			return obs
		}
		c03uCanon(obs, in.Hdrs)
		obs.EscPath, obs.DecPath, obs.RawQuery = stdr.URL.EscapedPath(), stdr.URL.Path, stdr.URL.RawQuery
		req, _ := httpprot.NewRequest(stdr)
		if err := req.FetchPayload(in.Limit); err != nil {
			obs.Err = "fetch"
			return obs
		}
		svr := &Server{URL: in.URL, KeepHost: in.KeepHost}
		svr.checkAddrPattern()
		obs.IsHostName = svr.addrIsHostName
		if u, err := url.Parse(in.URL); err == nil {
			obs.UHost = u.Host
			obs.IPs = c03uIPTable(u.Host)
		}
		// a real Proxy with one pool; fnSendRequest records every attempt instead of dialling
		pool := map[string]interface{}{"servers": []interface{}{map[string]interface{}{"url": in.URL, "keepHost": in.KeepHost}}}
		policies := map[string]resilience.Policy{}
		if in.RetryMax > 0 {
			pool["retryPolicy"] = "r"
			pool["failureCodes"] = []int{503, 500}
			policies["r"] = &resilience.RetryPolicy{MaxAttempts: in.RetryMax, WaitDuration: "1ms", BackOffPolicy: "random"}
		}
		spec, err := filters.NewSpec(nil, "", map[string]interface{}{"name": "verif", "kind": Kind, "pools": []interface{}{pool}})
		if err != nil {
			obs.Err = "spec-rejected"
			return obs
		}
		p := kind.CreateInstance(spec).(*Proxy)
		p.Init()
		defer p.Close()
		p.InjectResiliencePolicy(policies)
		var first *http.Request
		fails := in.Fails
		saved := fnSendRequest
		defer func() { fnSendRequest = saved }()
		fnSendRequest = func(o *http.Request, client *http.Client) (*http.Response, error) {
			k := len(obs.Atts)
			att := c03uAttempt{CL: o.ContentLength}
			if o.Body != nil {
				b, _ := io.ReadAll(o.Body)
				att.BodyOK, att.BodySize = bytes.Equal(b, body), len(b)
			} else {
				att.BodyOK = len(body) == 0
			}
			if first == nil {
				first = o
				obs.OutURL, obs.OutURI, obs.OutPath, obs.OutQuery = o.URL.String(), o.URL.RequestURI(), o.URL.Path, o.URL.RawQuery
				obs.OutHost = o.Host
				if obs.OutHost == "" {
					obs.OutHost = o.URL.Host
				}
				obs.OutMethod, obs.OutCL = o.Method, o.ContentLength
				obs.Hdrs = c03uSorted(o.Header)
				obs.BodyOK, obs.BodySize = att.BodyOK, att.BodySize
				att.Same = true
			} else {
				att.Same = o.Method == first.Method && o.URL.String() == first.URL.String() && o.Host == first.Host &&
					fmt.Sprint(c03uSorted(o.Header)) == fmt.Sprint(c03uSorted(first.Header))
			}
			obs.Atts = append(obs.Atts, att)
			status := 200
			if k < len(fails) {
				if fails[k] == "err" {
					return nil, fmt.Errorf("verif: network error")
				}
				fmt.Sscanf(fails[k], "s:%d", &status)
			}
			return &http.Response{StatusCode: status, Header: http.Header{}, ContentLength: 0, Body: http.NoBody, Request: o}, nil
		}
		ctx := context.New(tracing.NoopSpan)
		ctx.SetRequest(context.DefaultNamespace, req)
		obs.Result = p.Handle(ctx)
		if first == nil {
			obs.Err = "prepare"
		}
	case "compress":
		req, _ := http.NewRequest("GET", "http://x/", nil)
		for _, v := range in.AE {
			req.Header.Add("Accept-Encoding", v)
		}
		body := c03uBody(in.BodyLen)
		resp := &http.Response{StatusCode: 200, Header: http.Header{}, ContentLength: in.CL, Body: io.NopCloser(bytes.NewReader(body))}
		for _, v := range in.CE {
			resp.Header.Add("Content-Encoding", v)
		}
		if in.CL >= 0 {
			resp.Header.Set("Content-Length", fmt.Sprint(in.CL))
		}
		resp.Header.Set("X-Keep", "1")
		c := newCompression(&CompressionSpec{MinLength: uint32(in.MinLength)})
		obs.Did = c.compress(req, resp)
		obs.Hdrs = c03uSorted(resp.Header)
		obs.RespCL = resp.ContentLength
		out, _ := io.ReadAll(resp.Body)
		obs.BodySize = len(out)
		if obs.Did {
			if zr, err := gzip.NewReader(bytes.NewReader(out)); err == nil {
				d, err := io.ReadAll(zr)
				obs.BodyOK = err == nil && bytes.Equal(d, body)
			}
		} else {
			obs.BodyOK = bytes.Equal(out, body)
		}
	default:
		return map[string]string{"error": "bad-kind"}
	}
	return obs
}

func TestVerifC03Unit(t *testing.T) {
	verifh.Run(t, c03uGen, c03uExec, 0)
}
