package proxy

// Correspondence harness for property C04 (load balancers). Injected with
// `go test -overlay`; drives NewLoadBalancer/ChooseServer, ServerPool.useService
// and Proxy.Handle (transport stubbed through the package variable
// fnSendRequest) on generated pools. Nothing is written into /repo.

import (
	"encoding/json"
	"fmt"
	"io"
	"net/http"
	"runtime"
	"sort"
	"strings"
	"sync"
	"sync/atomic"
	"testing"

	"github.com/megaease/easegress/pkg/context"
	"github.com/megaease/easegress/pkg/filters"
	"github.com/megaease/easegress/pkg/object/serviceregistry"
	"github.com/megaease/easegress/pkg/protocols/httpprot"
	"github.com/megaease/easegress/pkg/tracing"
	"github.com/megaease/easegress/pkg/util/verifh"
)

type c04Server struct {
	URL    string   `json:"url"`
	Weight int      `json:"weight"`
	Tags   []string `json:"tags"`
}

type c04Inst struct {
	Name   string   `json:"name"` // map key (instance id)
	Addr   string   `json:"addr"`
	Port   int      `json:"port"`
	Tags   []string `json:"tags"`
	Weight int      `json:"weight"`
}

type c04Input struct {
	Mode        string      `json:"mode"` // seq | conc | swap | handle
	Policy      string      `json:"policy"`
	HeaderKey   string      `json:"headerKey"`
	Servers     []c04Server `json:"servers"`
	Keys        []string    `json:"keys"` // request keys (client IP and header value), used cyclically
	K           int         `json:"k"`    // number of selections
	G           int         `json:"g"`    // goroutines (conc, swap)
	ServiceName string      `json:"serviceName"`
	ServerTags  []string    `json:"serverTags"`
	Gens        [][]c04Inst `json:"gens"` // successive instance maps reported by discovery
	Path        string      `json:"path"`
}

type c04Triple struct {
	A   int    `json:"a"` // last generation whose publication had completed before the selection started
	B   int    `json:"b"` // last generation whose publication had started when the selection returned
	URL string `json:"url"`
}

type c04Req struct {
	Result string `json:"result"`
	Status int    `json:"status"`
	Target string `json:"target"`
}

type c04Obs struct {
	Seq     []int       `json:"seq,omitempty"` // chosen index per selection (first 512), -1 nil, -2 not in list
	Tally   []int       `json:"tally"`         // selections per server index
	Nil     int         `json:"nil"`
	Foreign int         `json:"foreign"`
	KeyEcho bool        `json:"keyEcho"` // RealIP()/Header.Get returned the generated key every time
	Lists   [][]string  `json:"lists,omitempty"`
	Sel     [][]string  `json:"sel,omitempty"` // swap: per step (initial list, then after every report) the distinct "url|weight" a pool with the case's policy selected
	Triples []c04Triple `json:"triples,omitempty"`
	Total   int         `json:"total"`
	Valid   bool        `json:"valid"`
	Reqs    []c04Req    `json:"reqs,omitempty"`
}

var c04Policies = []string{"roundRobin", "random", "weightedRandom", "ipHash", "headerHash", "", "bogus"}

func c04GenServers(r *verifh.Rand, n int, style int) []c04Server {
	ss := make([]c04Server, 0, n)
	for i := 0; i < n; i++ {
		w := 0
		switch style {
		case 0: // all zero
		case 1: // all positive
			w = r.PickInt(1, 1, 2, 3, 10, 100)
		case 2: // mixed zero / positive (rejected by Validate, possible through discovery)
			w = r.PickInt(0, 0, 1, 5)
		case 5: // garbage a registry may report (and validation accepts when none is positive): negative weights
			w = r.PickInt(-3, -1, 0, 0, 2)
		case 6: // none positive, some negative
			w = r.PickInt(-2, -1, 0)
		case 3: // one heavy
			if i == n-1 {
				w = 100
			} else {
				w = 1
			}
		default: // exactly one positive
			if i == n/2 {
				w = r.PickInt(1, 7)
			}
		}
		tags := []string{}
		for _, t := range []string{"v1", "v2", "green"} {
			if r.Bool(1, 3) {
				tags = append(tags, t)
			}
		}
		ss = append(ss, c04Server{URL: fmt.Sprintf("http://10.0.0.%d:80%02d", i+1, i%100), Weight: w, Tags: tags})
	}
	return ss
}

func c04GenKeys(r *verifh.Rand) []string {
	pool := []string{"", "1.2.3.4", "1.2.3.5", "8.8.8.8", "2001:db8::1", "a", "b", "ab", "ba", "foobar", "user-1", "user-2",
		"203.0.113.7", "203.0.113.70", "x", "9.9.9.9"}
	n := r.Range(0, 12)
	ks := make([]string, 0, n)
	for i := 0; i < n; i++ {
		if r.Bool(1, 5) {
			ks = append(ks, fmt.Sprintf("k%d", r.Intn(1000)))
		} else {
			ks = append(ks, pool[r.Intn(len(pool))])
		}
	}
	return ks
}

func c04GenInsts(r *verifh.Rand, gen int) []c04Inst {
	n := r.PickInt(0, 0, 1, 2, 3, 5)
	is := make([]c04Inst, 0, n)
	style := r.Intn(4)
	for i := 0; i < n; i++ {
		tags := []string{}
		for _, t := range []string{"v1", "v2", "green", "blue"} {
			if r.Bool(1, 3) {
				tags = append(tags, t)
			}
		}
		w := 0
		switch style {
		case 1:
			w = r.PickInt(0, 1, 3)
		case 2:
			w = r.PickInt(1, 2, 50)
		case 3:
			w = r.PickInt(-5, -1, 0, 0, 1, 4)
		}
		is = append(is, c04Inst{Name: fmt.Sprintf("i%d-%d", gen, i), Addr: fmt.Sprintf("10.%d.0.%d", gen+1, i+1), Port: 8000 + i, Tags: tags, Weight: w})
	}
	return is
}

// c04MutateInsts derives the next discovery report from the previous one: the registry re-publishes the
// full instance list, often with the same addresses — only weights changed (an instance drained to 0),
// one instance added / removed, a tag changed, the instance ids renamed (another map order), or nothing.
func c04MutateInsts(r *verifh.Rand, prev []c04Inst, gen int) []c04Inst {
	out := make([]c04Inst, len(prev))
	for i, p := range prev {
		out[i] = p
		out[i].Tags = append([]string{}, p.Tags...)
	}
	if len(out) == 0 {
		return c04GenInsts(r, gen)
	}
	switch r.Intn(8) {
	case 0: // identical re-report
	case 1: // every weight re-drawn
		for i := range out {
			out[i].Weight = r.PickInt(0, 0, 1, 2, 7, 50)
		}
	case 2, 3: // one instance drained to weight 0 (or, if it was 0, brought back)
		k := r.Intn(len(out))
		if out[k].Weight != 0 {
			out[k].Weight = 0
		} else {
			out[k].Weight = r.PickInt(1, 3, 9)
		}
	case 4: // one instance leaves
		k := r.Intn(len(out))
		out = append(out[:k], out[k+1:]...)
	case 5: // one instance joins
		out = append(out, c04Inst{Name: fmt.Sprintf("i%d-new", gen), Addr: fmt.Sprintf("10.9.%d.1", gen), Port: 8100 + gen,
			Tags: append([]string{}, out[0].Tags...), Weight: r.PickInt(0, 1, 4)})
	case 6: // a tag changes on one instance
		k := r.Intn(len(out))
		t := r.Pick("v1", "v2", "green", "blue")
		found := -1
		for j, x := range out[k].Tags {
			if x == t {
				found = j
			}
		}
		if found >= 0 {
			out[k].Tags = append(out[k].Tags[:found], out[k].Tags[found+1:]...)
		} else {
			out[k].Tags = append(out[k].Tags, t)
		}
	default: // same instances under new ids (the map iterates in another order anyway), weights rotated
		w0 := out[0].Weight
		for i := range out {
			out[i].Name = fmt.Sprintf("r%d-%d", gen, len(out)-i)
			if i+1 < len(out) {
				out[i].Weight = out[i+1].Weight
			} else {
				out[i].Weight = w0
			}
		}
	}
	return out
}

func c04Gen(r *verifh.Rand, i int) interface{} {
	in := c04Input{}
	in.Policy = c04Policies[r.Intn(len(c04Policies))]
	if r.Bool(1, 4) {
		in.Policy = "weightedRandom"
	}
	in.HeaderKey = r.Pick("X-User", "X-User", "x-user", "X-Real-Ip", "")
	n := r.PickInt(0, 1, 1, 2, 2, 3, 3, 4, 5, 7, 8, 16)
	in.Servers = c04GenServers(r, n, r.Intn(7))
	in.Keys = c04GenKeys(r)
	in.Path = r.Pick("/", "/a", "/a/b")
	switch m := r.Intn(10); {
	case m < 4:
		in.Mode = "seq"
		in.K = r.PickInt(0, 1, 2, n, n+1, 2*n, 3*n-1, 17, 100, 1000)
		if r.Bool(1, 20) {
			in.K = r.Range(1000, 10000)
		}
	case m < 6:
		in.Mode = "conc"
		in.G = r.PickInt(2, 3, 8)
		if verifh.Env().Thorough() {
			in.G = r.PickInt(2, 8, 64)
		}
		in.K = r.PickInt(n, 2*n+1, 64, 257, 1000, 4000)
	case m < 8:
		in.Mode = "swap"
		in.G = r.PickInt(1, 2, 4)
		in.K = r.PickInt(50, 200, 1000)
		in.ServiceName = "svc"
		for _, t := range []string{"v1", "v2", "green", "nope"} {
			if r.Bool(1, 3) {
				in.ServerTags = append(in.ServerTags, t)
			}
		}
		if r.Bool(2, 3) {
			in.Policy = r.Pick("roundRobin", "", "roundRobin", "ipHash")
		}
		ng := r.Range(1, 5)
		history := r.Bool(3, 5) // related reports: the same service re-published with small changes
		if history {
			ng = r.Range(2, 7)
			if r.Bool(1, 2) {
				in.Policy = "weightedRandom"
			}
			if len(in.ServerTags) == 0 || r.Bool(1, 2) {
				in.ServerTags = []string{r.Pick("v1", "v2", "green")}
			}
		}
		for g := 0; g < ng; g++ {
			if history && g > 0 && r.Bool(5, 6) {
				in.Gens = append(in.Gens, c04MutateInsts(r, in.Gens[g-1], g))
				continue
			}
			insts := c04GenInsts(r, g)
			if history {
				// most instances carry one of the pool's tags, so that weights matter
				for k := range insts {
					if r.Bool(3, 4) {
						insts[k].Tags = append(insts[k].Tags, in.ServerTags[0])
					}
				}
			}
			in.Gens = append(in.Gens, insts)
		}
	default:
		in.Mode = "handle"
		in.K = r.PickInt(1, 2, n+1, 2*n+1, 9)
		if r.Bool(1, 6) {
			in.ServiceName = "svc"
		}
	}
	return in
}

func c04Request(key, headerKey, path string) (*httpprot.Request, bool) {
	if path == "" {
		path = "/"
	}
	stdr, err := http.NewRequest(http.MethodGet, "http://client.example"+path, nil)
	if err != nil {
		stdr, _ = http.NewRequest(http.MethodGet, "http://client.example/", nil)
	}
	if key != "" {
		stdr.Header.Set("X-Real-Ip", key)
	}
	if headerKey != "" {
		stdr.Header.Set(headerKey, key)
	}
	req, _ := httpprot.NewRequest(stdr)
	echo := req.RealIP() == key && (headerKey == "" || req.HTTPHeader().Get(headerKey) == key)
	return req, echo
}

func c04Servers(in []c04Server) []*Server {
	ss := make([]*Server, 0, len(in))
	for _, s := range in {
		ss = append(ss, &Server{URL: s.URL, Weight: s.Weight, Tags: s.Tags})
	}
	return ss
}

func c04Key(in *c04Input, i int) string {
	if len(in.Keys) == 0 {
		return ""
	}
	return in.Keys[i%len(in.Keys)]
}

func c04Index(servers []*Server, s *Server) int {
	if s == nil {
		return -1
	}
	for i, x := range servers {
		if x == s {
			return i
		}
	}
	return -2
}

func c04Instances(is []c04Inst) map[string]*serviceregistry.ServiceInstanceSpec {
	m := map[string]*serviceregistry.ServiceInstanceSpec{}
	for _, i := range is {
		m[i.Name] = &serviceregistry.ServiceInstanceSpec{RegistryName: "reg", ServiceName: "svc", InstanceID: i.Name,
			Address: i.Addr, Port: uint16(i.Port), Tags: i.Tags, Weight: i.Weight}
	}
	return m
}

func c04Exec(raw json.RawMessage) interface{} {
	var in c04Input
	if err := json.Unmarshal(raw, &in); err != nil {
		return map[string]string{"error": "bad-input"}
	}
	if in.K < 0 {
		in.K = 0
	}
	if in.K > 200000 {
		in.K = 200000
	}
	if in.G < 1 {
		in.G = 1
	}
	if in.G > 256 {
		in.G = 256
	}
	switch in.Mode {
	case "conc":
		return c04Conc(&in)
	case "swap":
		return c04Swap(&in)
	case "handle":
		return c04Handle(&in)
	default:
		return c04Seq(&in)
	}
}

func c04Seq(in *c04Input) interface{} {
	servers := c04Servers(in.Servers)
	lb := NewLoadBalancer(&LoadBalanceSpec{Policy: in.Policy, HeaderHashKey: in.HeaderKey}, servers)
	obs := c04Obs{Tally: make([]int, len(servers)), KeyEcho: true, Valid: true}
	for i := 0; i < in.K; i++ {
		req, echo := c04Request(c04Key(in, i), in.HeaderKey, in.Path)
		obs.KeyEcho = obs.KeyEcho && echo
		idx := c04Index(servers, lb.ChooseServer(req))
		if i < 512 {
			obs.Seq = append(obs.Seq, idx)
		}
		switch {
		case idx == -1:
			obs.Nil++
		case idx < 0:
			obs.Foreign++
		default:
			obs.Tally[idx]++
		}
		obs.Total++
	}
	return obs
}

func c04Conc(in *c04Input) interface{} {
	servers := c04Servers(in.Servers)
	lb := NewLoadBalancer(&LoadBalanceSpec{Policy: in.Policy, HeaderHashKey: in.HeaderKey}, servers)
	obs := c04Obs{Tally: make([]int, len(servers)), KeyEcho: true, Valid: true}
	per := in.K / in.G
	type part struct {
		tally        []int
		nilc, foreig int
		panicked     interface{}
	}
	parts := make([]part, in.G)
	var wg sync.WaitGroup
	start := make(chan struct{})
	for g := 0; g < in.G; g++ {
		wg.Add(1)
		go func(g int) {
			defer wg.Done()
			p := &parts[g]
			p.tally = make([]int, len(servers))
			defer func() {
				if r := recover(); r != nil {
					p.panicked = r
				}
			}()
			req, _ := c04Request(c04Key(in, g), in.HeaderKey, in.Path)
			<-start
			for i := 0; i < per; i++ {
				idx := c04Index(servers, lb.ChooseServer(req))
				switch {
				case idx == -1:
					p.nilc++
				case idx < 0:
					p.foreig++
				default:
					p.tally[idx]++
				}
			}
		}(g)
	}
	close(start)
	wg.Wait()
	for g := range parts {
		if parts[g].panicked != nil {
			panic(parts[g].panicked)
		}
		for i, c := range parts[g].tally {
			obs.Tally[i] += c
			obs.Total += c
		}
		obs.Nil += parts[g].nilc
		obs.Foreign += parts[g].foreig
		obs.Total += parts[g].nilc + parts[g].foreig
	}
	return obs
}

func c04PoolSpec(in *c04Input) *ServerPoolSpec {
	return &ServerPoolSpec{
		Servers:     c04Servers(in.Servers),
		ServiceName: in.ServiceName,
		ServerTags:  in.ServerTags,
		LoadBalance: &LoadBalanceSpec{Policy: in.Policy, HeaderHashKey: in.HeaderKey},
	}
}

func c04URL(s *Server) string {
	if s == nil {
		return "<nil>"
	}
	return s.URL
}

// c04Swap: pass A (sequential) observes the list every useService publishes
// (round robin on a fresh balancer enumerates it); pass B runs selectors while
// the lists are replaced and reports, per selection, the window of generations
// that were current during it.
func c04Swap(in *c04Input) interface{} {
	obs := c04Obs{KeyEcho: true, Valid: true}
	maxLen := len(in.Servers)
	for _, g := range in.Gens {
		if len(g) > maxLen {
			maxLen = len(g)
		}
	}
	// pass A
	specA := c04PoolSpec(in)
	specA.LoadBalance = &LoadBalanceSpec{Policy: LoadBalancePolicyRoundRobin}
	spA := NewServerPool(nil, specA, "verif-a")
	enum := func() []string {
		lb := spA.LoadBalancer()
		out := []string{}
		for i := 0; i < maxLen; i++ {
			s := lb.ChooseServer(nil)
			if s == nil {
				break
			}
			out = append(out, fmt.Sprintf("%s|%d", s.URL, s.Weight))
		}
		// round robin walks the list in order from a fresh counter: cut at the first repetition
		for i := 1; i < len(out); i++ {
			if out[i] == out[0] {
				out = out[:i]
				break
			}
		}
		sort.Strings(out)
		return out
	}
	// … and a second pool with the case's own policy makes selections between the reports
	spC := NewServerPool(nil, c04PoolSpec(in), "verif-c")
	nsel := 0
	selections := func() []string {
		set := map[string]struct{}{}
		for i := 0; i < 48; i++ {
			req, _ := c04Request(c04Key(in, nsel), in.HeaderKey, in.Path)
			nsel++
			s := spC.LoadBalancer().ChooseServer(req)
			if s == nil {
				set["<nil>"] = struct{}{}
			} else {
				set[fmt.Sprintf("%s|%d", s.URL, s.Weight)] = struct{}{}
			}
		}
		out := make([]string, 0, len(set))
		for k := range set {
			out = append(out, k)
		}
		sort.Strings(out)
		return out
	}
	obs.Lists = append(obs.Lists, enum())
	obs.Sel = append(obs.Sel, selections())
	for _, g := range in.Gens {
		spA.useService(c04Instances(g))
		obs.Lists = append(obs.Lists, enum())
		spC.useService(c04Instances(g))
		obs.Sel = append(obs.Sel, selections())
	}
	spA.close()
	spC.close()

	// pass B
	sp := NewServerPool(nil, c04PoolSpec(in), "verif-b")
	var started, finished int64
	var stop int32
	per := in.K / in.G
	if per < 1 {
		per = 1
	}
	type rec struct{ m map[c04Triple]struct{} }
	recs := make([]rec, in.G)
	panics := make([]interface{}, in.G)
	var wg sync.WaitGroup
	var total int64
	for g := 0; g < in.G; g++ {
		wg.Add(1)
		go func(g int) {
			defer wg.Done()
			defer func() {
				if r := recover(); r != nil {
					panics[g] = r
				}
			}()
			recs[g].m = map[c04Triple]struct{}{}
			req, _ := c04Request(c04Key(in, g), in.HeaderKey, in.Path)
			for i := 0; i < per || atomic.LoadInt32(&stop) == 0; i++ {
				a := atomic.LoadInt64(&finished)
				s := sp.LoadBalancer().ChooseServer(req)
				b := atomic.LoadInt64(&started)
				recs[g].m[c04Triple{int(a), int(b), c04URL(s)}] = struct{}{}
				atomic.AddInt64(&total, 1)
				if i > 20*per+2000 {
					break
				}
			}
		}(g)
	}
	var mainPanic interface{}
	func() {
		defer func() { mainPanic = recover() }()
		for i, g := range in.Gens {
			atomic.StoreInt64(&started, int64(i+1))
			sp.useService(c04Instances(g))
			atomic.StoreInt64(&finished, int64(i+1))
			for j := 0; j < 20; j++ { // let selectors run between publications
				sp.LoadBalancer()
				runtime.Gosched()
			}
		}
	}()
	atomic.StoreInt32(&stop, 1)
	wg.Wait()
	sp.close()
	if mainPanic != nil {
		panic(mainPanic)
	}
	set := map[c04Triple]struct{}{}
	for g := range recs {
		if panics[g] != nil {
			panic(panics[g])
		}
		for t := range recs[g].m {
			set[t] = struct{}{}
		}
	}
	for t := range set {
		obs.Triples = append(obs.Triples, t)
	}
	sort.Slice(obs.Triples, func(i, j int) bool {
		x, y := obs.Triples[i], obs.Triples[j]
		if x.A != y.A {
			return x.A < y.A
		}
		if x.B != y.B {
			return x.B < y.B
		}
		return x.URL < y.URL
	})
	obs.Total = int(total)
	return obs
}

var (
	c04StubOnce sync.Once
	c04Targets  atomic.Value // *[]string of the running case (cases run one at a time)
	c04Mu       sync.Mutex
)

func c04InstallStub() {
	c04StubOnce.Do(func() {
		fnSendRequest = func(r *http.Request, client *http.Client) (*http.Response, error) {
			c04Mu.Lock()
			if p, _ := c04Targets.Load().(*[]string); p != nil {
				*p = append(*p, r.URL.String())
			}
			c04Mu.Unlock()
			return &http.Response{StatusCode: 200, Header: http.Header{}, Body: io.NopCloser(strings.NewReader("ok"))}, nil
		}
	})
}

// c04Handle builds a real Proxy from a spec map (so the spec goes through the
// repository's own validation) and sends K requests through Proxy.Handle.
func c04Handle(in *c04Input) interface{} {
	c04InstallStub()
	obs := c04Obs{KeyEcho: true}
	servers := []interface{}{}
	for _, s := range in.Servers {
		m := map[string]interface{}{"url": s.URL, "weight": s.Weight}
		if len(s.Tags) > 0 {
			m["tags"] = s.Tags
		}
		servers = append(servers, m)
	}
	pool := map[string]interface{}{"servers": servers}
	lbm := map[string]interface{}{"policy": in.Policy}
	if in.HeaderKey != "" {
		lbm["headerHashKey"] = in.HeaderKey
	}
	pool["loadBalance"] = lbm
	if in.ServiceName != "" {
		pool["serviceName"] = in.ServiceName
	}
	raw := map[string]interface{}{"name": "verif", "kind": Kind, "pools": []interface{}{pool}}
	spec, err := filters.NewSpec(nil, "", raw)
	if err != nil {
		return obs
	}
	obs.Valid = true
	p := kind.CreateInstance(spec).(*Proxy)
	p.Init()
	defer p.Close()
	targets := []string{}
	c04Targets.Store(&targets)
	defer c04Targets.Store((*[]string)(nil))
	for i := 0; i < in.K && i < 4096; i++ {
		req, echo := c04Request(c04Key(in, i), in.HeaderKey, in.Path)
		obs.KeyEcho = obs.KeyEcho && echo
		ctx := context.New(tracing.NoopSpan)
		ctx.SetRequest(context.DefaultNamespace, req)
		before := len(targets)
		res := p.Handle(ctx)
		r := c04Req{Result: res}
		if resp, ok := ctx.GetOutputResponse().(*httpprot.Response); ok && resp != nil {
			r.Status = resp.StatusCode()
		}
		c04Mu.Lock()
		if len(targets) == before+1 {
			r.Target = targets[before]
		} else if len(targets) != before {
			r.Target = fmt.Sprintf("<%d transport calls>", len(targets)-before)
		}
		c04Mu.Unlock()
		obs.Reqs = append(obs.Reqs, r)
		obs.Total++
	}
	return obs
}

func TestVerifC04(t *testing.T) {
	verifh.Run(t, c04Gen, c04Exec, 0)
}
