package proxy

// Correspondence harness for property C08, proxy level: a call refused by the
// circuit breaker is answered 503 with result shortCircuited and no server is
// contacted. The backend is the package variable fnSendRequest. Durations are
// 0 or one minute only (real clock inside resilience.Wrap).

import (
	"encoding/json"
	"errors"
	"io"
	"net/http"
	"strings"
	"testing"

	"github.com/megaease/easegress/pkg/context"
	"github.com/megaease/easegress/pkg/filters"
	"github.com/megaease/easegress/pkg/protocols/httpprot"
	"github.com/megaease/easegress/pkg/resilience"
	"github.com/megaease/easegress/pkg/tracing"
	"github.com/megaease/easegress/pkg/util/verifh"
	"gopkg.in/yaml.v2"
)

type c08pPolicy struct {
	FailTh      int   `json:"failTh"`
	SlowTh      int   `json:"slowTh"`
	TimeBased   int   `json:"timeBased"`
	Size        int   `json:"size"`
	Permitted   int   `json:"permitted"`
	MinCalls    int   `json:"minCalls"`
	SlowDur     int64 `json:"slowDur"`
	MaxWaitHalf int64 `json:"maxWaitHalf"`
	WaitOpen    int64 `json:"waitOpen"`
}

type c08pInput struct {
	Policy c08pPolicy `json:"policy"`
	Calls  []int      `json:"calls"` // 0 backend answers 200, 1 connection error, 2 backend answers 500 (a failure code)
}

func c08pGen(r *verifh.Rand, i int) interface{} {
	in := c08pInput{}
	p := &in.Policy
	p.FailTh = r.PickInt(1, 34, 50, 51, 100)
	p.SlowTh = 100
	p.Size = r.Range(1, 5)
	p.MinCalls = r.PickInt(1, 2, p.Size)
	p.Permitted = r.PickInt(0, 1, 2)
	p.SlowDur = 60000000000
	p.WaitOpen = int64(r.PickInt(0, 60000000000, 60000000000))
	n := r.Range(1, 25)
	bias := r.PickInt(3, 6, 9)
	for k := 0; k < n; k++ {
		c := 0
		if r.Intn(10) < bias {
			c = r.PickInt(1, 2)
		}
		in.Calls = append(in.Calls, c)
	}
	return in
}

const c08pYAML = `
name: proxy
kind: Proxy
pools:
- servers:
  - url: http://127.0.0.1:9095
  circuitBreakerPolicy: cb
  failureCodes: [500]
`

func c08pExec(raw json.RawMessage) interface{} {
	var in c08pInput
	if err := json.Unmarshal(raw, &in); err != nil {
		return map[string]string{"error": "bad-input"}
	}
	p := in.Policy
	if p.Size < 1 {
		return map[string]string{"error": "bad-input"}
	}
	dur := func(ns int64) string {
		if ns == 0 {
			return "0s"
		}
		return ""
	}
	rawSpec := make(map[string]interface{})
	if err := yaml.Unmarshal([]byte(c08pYAML), &rawSpec); err != nil {
		return map[string]string{"error": "yaml"}
	}
	spec, err := filters.NewSpec(nil, "", rawSpec)
	if err != nil {
		return map[string]string{"error": "spec: " + err.Error()}
	}
	px := kind.CreateInstance(spec).(*Proxy)
	px.Init()
	defer px.Close()
	px.InjectResiliencePolicy(map[string]resilience.Policy{"cb": &resilience.CircuitBreakerPolicy{
		SlidingWindowType:                "COUNT_BASED",
		FailureRateThreshold:             uint8(p.FailTh),
		SlowCallRateThreshold:            uint8(p.SlowTh),
		SlidingWindowSize:                uint32(p.Size),
		PermittedNumberOfCallsInHalfOpen: uint32(p.Permitted),
		MinimumNumberOfCalls:             uint32(p.MinCalls),
		SlowCallDurationThreshold:        dur(p.SlowDur),
		WaitDurationInOpen:               dur(p.WaitOpen),
	}})

	old := fnSendRequest
	defer func() { fnSendRequest = old }()
	sent := 0
	mode := 0
	fnSendRequest = func(r *http.Request, client *http.Client) (*http.Response, error) {
		sent++
		switch mode {
		case 1:
			return nil, errors.New("connection refused")
		case 2:
			return &http.Response{StatusCode: 500, Header: http.Header{}, Body: io.NopCloser(strings.NewReader("no"))}, nil
		}
		return &http.Response{StatusCode: 200, Header: http.Header{}, Body: io.NopCloser(strings.NewReader("ok"))}, nil
	}
	type call struct {
		Result string
		Status int
		Sent   int
	}
	out := struct {
		Calls [][]interface{} `json:"calls"`
	}{Calls: [][]interface{}{}}
	for _, c := range in.Calls {
		mode = c
		sent = 0
		stdr, _ := http.NewRequest(http.MethodGet, "https://www.megaease.com", nil)
		req, _ := httpprot.NewRequest(stdr)
		ctx := context.New(tracing.NoopSpan)
		ctx.SetRequest(context.DefaultNamespace, req)
		res := px.Handle(ctx)
		status := 0
		if r := ctx.GetOutputResponse(); r != nil {
			if hr, ok := r.(*httpprot.Response); ok {
				status = hr.StatusCode()
			}
		}
		ctx.Finish()
		out.Calls = append(out.Calls, []interface{}{res, status, sent})
	}
	return out
}

func TestVerifC08Proxy(t *testing.T) {
	verifh.Run(t, c08pGen, c08pExec, 0)
}
