package kafka

// Correspondence harness for property C11 ("a request that already holds the old
// generation still completes without panic"), filter kind `Kafka` (package kafkabackend).
//
// The filter is driven against sarama's in-process MockBroker (module cache, loopback TCP), i.e.
// through the REAL sarama.AsyncProducer and its real shutdown path:
//
//	old.Init(); old.Handle(pre…); new.Inherit(old); old.Close()
//	[wait until the old producer's shutdown has finished: its Errors() channel is closed —
//	 sarama's shutdown() closes input, retries, errors, successes in that order; bounded poll,
//	 `inconclusive` if it does not happen within 10 s]
//	old.Handle / new.Handle (ops…), each under recover
//
// plus a baseline instance per spec that is never inherited from nor closed. With `wait=false` the
// old generation is used immediately after Close (the repaired code answers deterministically;
// the code as found races with the asynchronous shutdown).

import (
	"encoding/json"
	"fmt"
	"net/http"
	"os"
	"strings"
	"sync"
	"testing"
	"time"

	"github.com/Shopify/sarama"
	"github.com/megaease/easegress/pkg/context"
	"github.com/megaease/easegress/pkg/filters"
	"github.com/megaease/easegress/pkg/logger"
	"github.com/megaease/easegress/pkg/protocols/httpprot"
	"github.com/megaease/easegress/pkg/tracing"
	"github.com/megaease/easegress/pkg/util/verifh"
)

type c11kReq struct {
	Hdr  string `json:"hdr"`  // value of the dynamic-topic header ("" = absent)
	Body string `json:"body"` // request body = Kafka message value
}

type c11kOp struct {
	G   int     `json:"g"` // 0 = old generation, 1 = new generation
	Req c11kReq `json:"req"`
}

type c11kSpec struct {
	Topic  string `json:"topic"`
	Header string `json:"header"` // dynamic topic header ("" = none)
}

type c11kInput struct {
	Kind string    `json:"kind"`
	Old  c11kSpec  `json:"old"`
	New  c11kSpec  `json:"new"`
	Wait bool      `json:"wait"` // wait for the old producer's shutdown before using the old generation again
	Pre  []c11kReq `json:"pre"`
	Ops  []c11kOp  `json:"ops"`
}

type c11kOut struct {
	Panic  string `json:"panic,omitempty"`
	Result string `json:"result"`
}

type c11kObs struct {
	Err      string    `json:"err,omitempty"`
	Note     string    `json:"note,omitempty"`
	Shutdown string    `json:"shutdown"` // closed | not-waited | timeout
	WaitedMs int64     `json:"-"`
	Pre      []c11kOut `json:"pre"`
	BasePre  []c11kOut `json:"basePre"`
	Ops      []c11kOut `json:"ops"`
	Base     []c11kOut `json:"base"`
	Produced int       `json:"-"`
}

// c11kReporter collects what the mock broker reports instead of failing the test binary.
type c11kReporter struct {
	mu   sync.Mutex
	msgs []string
}

func (r *c11kReporter) add(s string) {
	r.mu.Lock()
	r.msgs = append(r.msgs, s)
	r.mu.Unlock()
}
func (r *c11kReporter) Error(a ...interface{})            { r.add(fmt.Sprint(a...)) }
func (r *c11kReporter) Errorf(f string, a ...interface{}) { r.add(fmt.Sprintf(f, a...)) }
func (r *c11kReporter) Fatal(a ...interface{})            { r.add(fmt.Sprint(a...)) }
func (r *c11kReporter) Fatalf(f string, a ...interface{}) { r.add(fmt.Sprintf(f, a...)) }

var c11kTopics = []string{"t", "t1", "t2", "dyn"}

func c11kBroker(rep *c11kReporter) *sarama.MockBroker {
	b := sarama.NewMockBroker(rep, 1)
	md := sarama.NewMockMetadataResponse(rep).SetBroker(b.Addr(), b.BrokerID())
	for _, t := range c11kTopics {
		md.SetLeader(t, 0, b.BrokerID())
	}
	b.SetHandlerByMap(map[string]sarama.MockResponse{
		"MetadataRequest": md,
		"ProduceRequest":  sarama.NewMockProduceResponse(rep),
	})
	return b
}

func c11kMake(addr string, s c11kSpec) (f *Kafka, err error) {
	defer func() {
		if p := recover(); p != nil {
			err = fmt.Errorf("%v", p)
		}
	}()
	topic := map[string]interface{}{"default": s.Topic}
	if s.Header != "" {
		topic["dynamic"] = map[string]interface{}{"header": s.Header}
	}
	spec, err := filters.NewSpec(nil, "", map[string]interface{}{"name": "k", "kind": Kind, "backend": []interface{}{addr}, "topic": topic})
	if err != nil {
		return nil, err
	}
	kf, ok := filters.Create(spec).(*Kafka)
	if !ok {
		return nil, fmt.Errorf("kind %s not registered", Kind)
	}
	return kf, nil
}

func c11kHandle(f *Kafka, hdrKey string, q c11kReq) (out c11kOut) {
	defer func() {
		if p := recover(); p != nil {
			out = c11kOut{Panic: fmt.Sprint(p)}
		}
	}()
	stdr, _ := http.NewRequest(http.MethodPost, "http://example.com/k", strings.NewReader(q.Body))
	if q.Hdr != "" && hdrKey != "" {
		stdr.Header.Set(hdrKey, q.Hdr)
	}
	req, _ := httpprot.NewRequest(stdr)
	req.FetchPayload(1 << 20)
	ctx := context.New(tracing.NoopSpan)
	ctx.SetRequest(context.DefaultNamespace, req)
	resp, _ := httpprot.NewResponse(nil)
	ctx.SetResponse(context.DefaultNamespace, resp)
	out.Result = f.Handle(ctx)
	return out
}

// c11kWaitShutdown waits until the producer's shutdown has completed (Errors() closed ⇒ input closed).
func c11kWaitShutdown(p sarama.AsyncProducer, max time.Duration) bool {
	deadline := time.After(max)
	for {
		select {
		case _, ok := <-p.Errors():
			if !ok {
				return true
			}
		case <-deadline:
			return false
		}
	}
}

func c11kGuard(what string, fn func()) (msg string) {
	defer func() {
		if p := recover(); p != nil {
			msg = what + ": " + fmt.Sprint(p)
		}
	}()
	fn()
	return ""
}

var (
	c11kStart   = time.Now()
	c11kLogOnce sync.Once
)

func c11kOverBudget() bool {
	b := 20 * time.Second
	if os.Getenv("VERIF_TIER") == "thorough" {
		b = 420 * time.Second
	}
	return os.Getenv("VERIF_MODE") != "replay" && time.Since(c11kStart) > b
}

func c11kExec(raw json.RawMessage) interface{} {
	if c11kOverBudget() {
		return c11kObs{Err: "budget-exhausted"}
	}
	c11kLogOnce.Do(logger.InitNop)
	var in c11kInput
	if err := json.Unmarshal(raw, &in); err != nil || in.Old.Topic == "" || in.New.Topic == "" {
		return c11kObs{Err: "bad-input"}
	}
	rep := &c11kReporter{}
	broker := c11kBroker(rep)
	defer broker.Close()
	obs := c11kObs{Pre: []c11kOut{}, BasePre: []c11kOut{}, Ops: []c11kOut{}, Base: []c11kOut{}, Shutdown: "not-waited"}

	fo, e1 := c11kMake(broker.Addr(), in.Old)
	fn, e2 := c11kMake(broker.Addr(), in.New)
	bo, e3 := c11kMake(broker.Addr(), in.Old)
	bn, e4 := c11kMake(broker.Addr(), in.New)
	if e1 != nil || e2 != nil || e3 != nil || e4 != nil {
		return c11kObs{Err: "bad-spec", Note: fmt.Sprint(e1, e2)}
	}
	if m := c11kGuard("init", func() { fo.Init(); bo.Init(); bn.Init() }); m != "" {
		return c11kObs{Err: "init-panic", Note: m}
	}
	// cleanup: close the instances and wait for their producers' shutdown BEFORE the broker goes away
	// (a producer that loses its broker mid-flight retries, and sarama 1.34's retry path can crash
	// the process in one of its own goroutines)
	var live []*Kafka
	defer func() {
		for _, f := range live {
			p := f.producer
			c11kGuard("cleanup", f.Close)
			if p != nil {
				c11kWaitShutdown(p, 10*time.Second)
			}
		}
	}()
	live = append(live, bo, bn)
	for _, q := range in.Pre {
		obs.Pre = append(obs.Pre, c11kHandle(fo, in.Old.Header, q))
		obs.BasePre = append(obs.BasePre, c11kHandle(bo, in.Old.Header, q))
	}
	oldProducer := fo.producer
	if m := c11kGuard("inherit", func() { fn.Inherit(fo) }); m != "" {
		obs.Err, obs.Note = "inherit-panic", m
		return obs
	}
	live = append(live, fn)
	if m := c11kGuard("close", func() { fo.Close() }); m != "" {
		obs.Err, obs.Note = "close-panic", m
		return obs
	}
	if in.Wait {
		if oldProducer == nil {
			return c11kObs{Err: "inconclusive", Note: "no producer"}
		}
		if c11kWaitShutdown(oldProducer, 10*time.Second) {
			obs.Shutdown = "closed"
		} else {
			return c11kObs{Err: "inconclusive", Note: "the old producer's shutdown did not finish within 10s", Shutdown: "timeout"}
		}
	}
	if !in.Wait && oldProducer != nil {
		defer c11kWaitShutdown(oldProducer, 10*time.Second)
	}
	for _, op := range in.Ops {
		if op.G == 0 {
			obs.Ops = append(obs.Ops, c11kHandle(fo, in.Old.Header, op.Req))
			obs.Base = append(obs.Base, c11kHandle(bo, in.Old.Header, op.Req))
		} else {
			obs.Ops = append(obs.Ops, c11kHandle(fn, in.New.Header, op.Req))
			obs.Base = append(obs.Base, c11kHandle(bn, in.New.Header, op.Req))
		}
	}
	return obs
}

func c11kReqGen(r *verifh.Rand) c11kReq {
	body := r.Pick("", "x", "payload", strings.Repeat("z", r.PickInt(1, 100, 5000)))
	return c11kReq{Hdr: r.Pick("", "", "dyn", "t2"), Body: body}
}

func c11kGen(r *verifh.Rand, i int) interface{} {
	mk := func() c11kSpec {
		return c11kSpec{Topic: r.Pick("t", "t", "t1"), Header: r.Pick("", "", "X-Topic")}
	}
	in := c11kInput{Kind: Kind, Old: mk(), Wait: r.Bool(3, 4), Pre: []c11kReq{}, Ops: []c11kOp{}}
	in.New = in.Old
	if r.Bool(2, 3) {
		in.New = mk()
	}
	for k := r.Range(0, 3); k > 0; k-- {
		in.Pre = append(in.Pre, c11kReqGen(r))
	}
	for k := r.Range(1, 5); k > 0; k-- {
		g := 0
		if r.Bool(1, 3) {
			g = 1
		}
		in.Ops = append(in.Ops, c11kOp{G: g, Req: c11kReqGen(r)})
	}
	return in
}

func TestVerifC11Kafka(t *testing.T) {
	verifh.Run(t, c11kGen, c11kExec, 0)
}
