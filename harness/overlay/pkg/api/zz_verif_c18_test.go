package api

// Correspondence harness for property C18, admin-API part. Injected with `go test -overlay`.
//
// One embedded single-node etcd (cluster.New on test options) for the whole run, a real
// api.Server value created by MustNewServer and its dynamicMux router driven in-process
// (httptest recorders). In the thorough tier a second Server on a secondary cluster member
// (own lease/session) serves part of the clients. A case: client goroutines issue generated
// create / update / delete / get / list / invalid requests on overlapping names concurrently.
// Observed per request: status, X-Config-Version, logical start/end stamps; at the end the
// listing and the version.

import (
	"encoding/json"
	"fmt"
	"io/ioutil"
	"net/http"
	"net/http/httptest"
	"os"
	"sort"
	"strconv"
	"strings"
	"sync"
	"sync/atomic"
	"testing"
	"time"

	"github.com/go-chi/chi/v5"
	"github.com/go-chi/chi/v5/middleware"
	"github.com/phayes/freeport"
	yaml "gopkg.in/yaml.v2"

	"github.com/megaease/easegress/pkg/cluster"
	"github.com/megaease/easegress/pkg/env"
	"github.com/megaease/easegress/pkg/logger"
	"github.com/megaease/easegress/pkg/option"
	"github.com/megaease/easegress/pkg/supervisor"
	"github.com/megaease/easegress/pkg/util/verifh"
)

// two registered object kinds with a one-field spec
type (
	c18KindA struct{}
	c18KindB struct{}
	c18Spec  struct {
		Payload string `yaml:"payload"`
	}
)

func (*c18KindA) Category() supervisor.ObjectCategory                  { return supervisor.CategoryBusinessController }
func (*c18KindA) Kind() string                                         { return "VerifKindA" }
func (*c18KindA) DefaultSpec() interface{}                             { return &c18Spec{} }
func (*c18KindA) Status() *supervisor.Status                           { return &supervisor.Status{} }
func (*c18KindA) Close()                                               {}
func (*c18KindA) Init(superSpec *supervisor.Spec)                      {}
func (*c18KindA) Inherit(s *supervisor.Spec, prev supervisor.Object)   {}
func (*c18KindB) Category() supervisor.ObjectCategory                  { return supervisor.CategoryBusinessController }
func (*c18KindB) Kind() string                                         { return "VerifKindB" }
func (*c18KindB) DefaultSpec() interface{}                             { return &c18Spec{} }
func (*c18KindB) Status() *supervisor.Status                           { return &supervisor.Status{} }
func (*c18KindB) Close()                                               {}
func (*c18KindB) Init(superSpec *supervisor.Spec)                      {}
func (*c18KindB) Inherit(s *supervisor.Spec, prev supervisor.Object)   {}

type c18Op struct {
	Op      string `json:"op"`   // create | update | delete | get | list | badkind | badname
	Name    string `json:"name"` // object name
	Kind    string `json:"kind"` // A | B
	Payload string `json:"payload"`
	GapUs   int    `json:"gapUs"`
	Server  int    `json:"server"` // which member's API server (mod number of servers)
}

type c18Input struct {
	Init    []c18Op   `json:"init"`    // executed sequentially first
	Clients [][]c18Op `json:"clients"` // one goroutine each
}

type c18Res struct {
	Client  int    `json:"client"` // -1 = init phase
	Idx     int    `json:"idx"`
	Status  int    `json:"status"`
	Version string `json:"version"` // X-Config-Version header
	T0      int64  `json:"t0"`
	T1      int64  `json:"t1"`
	Seen    string `json:"seen,omitempty"` // get: "kind|payload" of the returned object
}

type c18Obs struct {
	Base      int64       `json:"base"` // config version before the case
	Results   []c18Res    `json:"results"`
	Final     [][3]string `json:"final"` // sorted (name, kind, payload)
	FinalVer  int64       `json:"finalVersion"`
	Servers   int         `json:"servers"`
	ElapsedMs int64       `json:"elapsedMs"` // diagnostics only
}

var (
	c18Servers  []*Server
	c18Handlers []http.Handler
	c18Cls      cluster.Cluster
)

func c18Body(op c18Op) string {
	kind := "VerifKind" + op.Kind
	if op.Op == "badkind" {
		kind = "NoSuchKind"
	}
	return fmt.Sprintf("name: %s\nkind: %s\npayload: %q\n", op.Name, kind, op.Payload)
}

func c18Do(h http.Handler, op c18Op, clock *int64) c18Res {
	var req *http.Request
	base := APIPrefix + ObjectPrefix
	switch op.Op {
	case "create", "badkind":
		req = httptest.NewRequest("POST", base, strings.NewReader(c18Body(op)))
	case "update":
		req = httptest.NewRequest("PUT", base+"/"+op.Name, strings.NewReader(c18Body(op)))
	case "badname":
		req = httptest.NewRequest("PUT", base+"/"+op.Name+"x", strings.NewReader(c18Body(op)))
	case "delete":
		req = httptest.NewRequest("DELETE", base+"/"+op.Name, nil)
	case "get":
		req = httptest.NewRequest("GET", base+"/"+op.Name, nil)
	default:
		req = httptest.NewRequest("GET", base, nil)
	}
	rec := httptest.NewRecorder()
	res := c18Res{T0: atomic.AddInt64(clock, 1)}
	h.ServeHTTP(rec, req)
	res.T1 = atomic.AddInt64(clock, 1)
	res.Status = rec.Code
	res.Version = rec.Header().Get(ConfigVersionKey)
	if op.Op == "get" && rec.Code == 200 {
		var m map[string]interface{}
		if err := yaml.Unmarshal(rec.Body.Bytes(), &m); err == nil {
			res.Seen = fmt.Sprintf("%v|%v", strings.TrimPrefix(fmt.Sprint(m["kind"]), "VerifKind"), m["payload"])
		} else {
			res.Seen = "<unparsable>"
		}
	}
	return res
}

func c18List(h http.Handler) ([][3]string, error) {
	req := httptest.NewRequest("GET", APIPrefix+ObjectPrefix, nil)
	rec := httptest.NewRecorder()
	h.ServeHTTP(rec, req)
	if rec.Code != 200 {
		return nil, fmt.Errorf("list status %d", rec.Code)
	}
	var l []map[string]interface{}
	if err := yaml.Unmarshal(rec.Body.Bytes(), &l); err != nil {
		return nil, err
	}
	out := [][3]string{}
	for _, m := range l {
		out = append(out, [3]string{fmt.Sprint(m["name"]), strings.TrimPrefix(fmt.Sprint(m["kind"]), "VerifKind"), fmt.Sprint(m["payload"])})
	}
	sort.Slice(out, func(i, j int) bool { return out[i][0] < out[j][0] })
	return out, nil
}

func c18Exec(raw json.RawMessage) interface{} {
	var in c18Input
	if err := json.Unmarshal(raw, &in); err != nil {
		return map[string]string{"error": "bad-input"}
	}
	t0 := time.Now()
	s0 := c18Servers[0]
	if err := c18Cls.DeletePrefix(c18Cls.Layout().ConfigObjectPrefix()); err != nil {
		return map[string]string{"error": "cleanup: " + err.Error()}
	}
	obs := c18Obs{Servers: len(c18Servers), Results: []c18Res{}}
	obs.Base = s0._getVersion()
	var clock int64
	pick := func(op c18Op) http.Handler {
		i := op.Server % len(c18Handlers)
		if i < 0 {
			i = 0
		}
		return c18Handlers[i]
	}
	for i, op := range in.Init {
		r := c18Do(pick(op), op, &clock)
		r.Client, r.Idx = -1, i
		obs.Results = append(obs.Results, r)
	}
	var mu sync.Mutex
	var wg sync.WaitGroup
	for ci, ops := range in.Clients {
		wg.Add(1)
		go func(ci int, ops []c18Op) {
			defer wg.Done()
			for i, op := range ops {
				if op.GapUs > 0 {
					time.Sleep(time.Duration(op.GapUs) * time.Microsecond)
				}
				r := c18Do(pick(op), op, &clock)
				r.Client, r.Idx = ci, i
				mu.Lock()
				obs.Results = append(obs.Results, r)
				mu.Unlock()
			}
		}(ci, ops)
	}
	wg.Wait()
	fin, err := c18List(c18Handlers[0])
	if err != nil {
		return map[string]string{"error": "final list: " + err.Error()}
	}
	obs.Final = fin
	obs.FinalVer = s0._getVersion()
	obs.ElapsedMs = time.Since(t0).Milliseconds()
	return obs
}

var c18Names = []string{"a", "b", "c"}

func c18GenOp(r *verifh.Rand, n *int) c18Op {
	*n++
	op := c18Op{Name: c18Names[r.Intn(len(c18Names))], Kind: r.Pick("A", "A", "B"), Payload: "p" + strconv.Itoa(*n), Server: r.Intn(4)}
	switch r.Intn(16) {
	case 0, 1, 2, 3:
		op.Op = "create"
	case 4, 5, 6, 7:
		op.Op = "update"
	case 8, 9, 10:
		op.Op = "delete"
	case 11, 12:
		op.Op = "get"
	case 13:
		op.Op = "list"
	case 14:
		op.Op = "badkind"
	default:
		op.Op = "badname"
	}
	if r.Bool(1, 4) {
		op.GapUs = r.Range(0, 2000)
	}
	return op
}

func c18Gen(r *verifh.Rand, i int) interface{} {
	in := c18Input{}
	n := 0
	for k, m := 0, r.PickInt(0, 0, 1, 2, 3); k < m; k++ {
		op := c18GenOp(r, &n)
		op.Op = "create"
		op.GapUs = 0
		in.Init = append(in.Init, op)
	}
	nc := r.Range(1, 6)
	for c := 0; c < nc; c++ {
		var ops []c18Op
		for k, m := 0, r.Range(1, 8); k < m; k++ {
			ops = append(ops, c18GenOp(r, &n))
		}
		in.Clients = append(in.Clients, ops)
	}
	return in
}

// c18Router builds, for a Server that was not registered in the global API table, the same
// chi router reloadAPIs builds (same middlewares, the server's own object entries).
func c18Router(s *Server) http.Handler {
	router := chi.NewMux()
	router.Use(middleware.StripSlashes)
	router.Use(s.router.newAPILogger)
	router.Use(s.router.newConfigVersionAttacher)
	router.Use(s.router.newRecoverer)
	for _, e := range s.objectAPIEntries() {
		router.Method(e.Method, APIPrefix+e.Path, e.Handler)
	}
	return router
}

func TestVerifC18API(t *testing.T) {
	cfg := verifh.Env()
	if cfg.Out == "" {
		t.Skip("VERIF_OUT not set")
	}
	logger.InitNop()
	dir, err := ioutil.TempDir("", "verif-c18api")
	if err != nil {
		t.Fatal(err)
	}
	defer os.RemoveAll(dir)
	supervisor.Register(&c18KindA{})
	supervisor.Register(&c18KindB{})
	super := supervisor.NewDefaultMock()

	opt := cluster.CreateOptionsForTest(dir)
	opt.HomeDir = dir
	opt.ClusterRequestTimeout = "120s" // lock / etcd request timeout: generous, the machine may be loaded
	cls, err := cluster.New(opt)
	if err != nil {
		t.Fatal(err)
	}
	c18Cls = cls
	s0 := MustNewServer(opt, cls, super, nil)
	s0.router.reloadAPIs() // the registration is applied asynchronously otherwise
	c18Servers = []*Server{s0}
	c18Handlers = []http.Handler{s0.router}

	if cfg.Thorough() || os.Getenv("VERIF_C18_MEMBERS") == "2" {
		ports, err := freeport.GetFreePorts(1)
		if err != nil {
			t.Fatal(err)
		}
		opt2 := option.New()
		opt2.Name = "verif-secondary-api"
		opt2.ClusterName = opt.ClusterName
		opt2.ClusterRole = "secondary"
		opt2.ClusterRequestTimeout = "120s"
		opt2.Cluster.PrimaryListenPeerURLs = opt.Cluster.InitialAdvertisePeerURLs
		opt2.APIAddr = fmt.Sprintf("localhost:%d", ports[0])
		opt2.HomeDir = dir + "/sec"
		if _, err := opt2.Parse(); err != nil {
			t.Fatal(err)
		}
		env.InitServerDir(opt2)
		cls2, err := cluster.New(opt2)
		if err != nil {
			t.Fatal(err)
		}
		// not MustNewServer: a second registration would overwrite the process-global API table
		s1 := &Server{opt: opt2, cluster: cls2, super: super}
		s1.router = newDynamicMux(s1)
		c18Servers = append(c18Servers, s1)
		c18Handlers = append(c18Handlers, c18Router(s1))
	}
	verifh.Run(t, c18Gen, c18Exec, 600*time.Second)
}
