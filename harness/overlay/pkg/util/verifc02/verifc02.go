// Package verifc02 holds what the two C02 correspondence harnesses
// (pkg/object/pipeline and pkg/object/globalfilter) share: the test-only
// scripted filter kinds, the recorder, the input format and the generator.
// It exists only in the build overlay; nothing is written to /repo.
//
// It must not import pkg/object/pipeline (the pipeline harness is in-package).
package verifc02

import (
	"encoding/json"
	"sort"
	"strings"

	"github.com/megaease/easegress/pkg/context"
	"github.com/megaease/easegress/pkg/filters"
	"github.com/megaease/easegress/pkg/protocols"
	"github.com/megaease/easegress/pkg/util/verifh"
)

// ---------------------------------------------------------------------------
// scripted filter kinds

// KindDecl declares one test-only filter kind: its name and declared results.
type KindDecl struct {
	K string   `json:"k"`
	R []string `json:"r"`
}

// DefaultKinds are the kinds the generator uses. The kinds actually registered
// for a case are the ones listed in its input ("kinds"), so that the input
// alone determines the case (also after shrinking).
var DefaultKinds = []KindDecl{
	{"VerifScripted", []string{"r1", "r2", "r3"}},
	{"VerifOther", []string{"r2", "r4"}},
}

// Call is one recorded filter invocation.
type Call struct {
	Filter string // name of the filter instance that ran
	Kind   string // its kind
	Ns     string // the namespace that was active (observed through the public Context API)
}

// Rec is the per-run recorder (harness cases run sequentially).
var Rec struct {
	Script []string
	Calls  []Call
}

// Reset prepares the recorder for one run.
func Reset(script []string) {
	Rec.Script = script
	Rec.Calls = nil
}

type spec struct {
	filters.BaseSpec `yaml:",inline"`
}

type scripted struct {
	kind *filters.Kind
	spec *spec
}

// markReq is a request object used only as an identity marker.
type markReq struct {
	protocols.Request
	id int
}

func (m *markReq) Close() {}

func (f *scripted) Name() string           { return f.spec.Name() }
func (f *scripted) Kind() *filters.Kind    { return f.kind }
func (f *scripted) Spec() filters.Spec     { return f.spec }
func (f *scripted) Init()                  {}
func (f *scripted) Inherit(filters.Filter) {}
func (f *scripted) Status() interface{}    { return nil }
func (f *scripted) Close()                 {}

// Handle records (instance name, kind, active namespace) and returns the
// scripted result of this invocation. The active namespace is found by writing
// a fresh marker request into the *input* namespace and looking up under which
// namespace key the context now holds it.
func (f *scripted) Handle(ctx *context.Context) string {
	k := len(Rec.Calls)
	m := &markReq{id: k}
	ctx.SetInputRequest(m)
	ns := "?"
	for name, r := range ctx.Requests() {
		if r == protocols.Request(m) {
			if ns != "?" {
				ns = "multiple"
			} else {
				ns = name
			}
		}
	}
	Rec.Calls = append(Rec.Calls, Call{Filter: f.spec.Name(), Kind: f.kind.Name, Ns: ns})
	if k < len(Rec.Script) {
		return Rec.Script[k]
	}
	return ""
}

var registered []string

// Register (re-)registers exactly the kinds declared by the input. Kinds this
// package registered earlier are removed first; a name owned by somebody else,
// an empty name or a repeated name is skipped (the judge applies the same rule:
// the first declaration of a name counts).
func Register(decls []KindDecl) {
	for _, n := range registered {
		filters.Unregister(n)
	}
	registered = nil
	for _, d := range decls {
		name := d.K
		if name == "" || filters.GetKind(name) != nil {
			continue
		}
		seen := map[string]bool{}
		var res []string
		for _, r := range d.R {
			if !seen[r] {
				seen[r] = true
				res = append(res, r)
			}
		}
		k := &filters.Kind{
			Name:        name,
			Description: name,
			Results:     res,
			DefaultSpec: func() filters.Spec { return &spec{} },
		}
		k.CreateInstance = func(s filters.Spec) filters.Filter {
			return &scripted{kind: k, spec: s.(*spec)}
		}
		filters.Register(k)
		registered = append(registered, name)
	}
}

// ---------------------------------------------------------------------------
// input format

// Node is one flow node. J is the jumpIf map as a list of [result, target].
type Node struct {
	F  string      `json:"f"`
	A  string      `json:"a"`
	Ns string      `json:"ns"`
	J  [][2]string `json:"j"`
}

// Part is one pipeline spec: filters as [name, kind] and the flow.
type Part struct {
	Filters [][2]string `json:"filters"`
	Flow    []Node      `json:"flow"`
}

// Input is one harness case: a spec (main, optional before/after) and a list
// of scripts; script[k] is the result returned by the k-th filter invocation.
type Input struct {
	Mode    string     `json:"mode"` // handle | hwba | gf
	Kinds   []KindDecl `json:"kinds"`
	Main    *Part      `json:"main"`
	Before  *Part      `json:"before"`
	After   *Part      `json:"after"`
	Scripts [][]string `json:"scripts"`
}

// Run is what one script produced.
type Run struct {
	Calls  [][3]string `json:"calls"`  // [filter instance, kind, active namespace]
	Stats  [][2]string `json:"stats"`  // [alias, result] parsed from the stats tag
	Result string      `json:"result"` // returned by Handle / HandleWithBeforeAfter
	NTags  int         `json:"ntags"`  // number of tags added to the context
	Raw    string      `json:"raw,omitempty"`
}

// Obs is the observation of one case.
type Obs struct {
	Valid map[string]string `json:"valid"` // part -> "ok" | error class
	GF    string            `json:"gf,omitempty"`
	Init  string            `json:"init"` // "ok" | "skipped" | "newspec:<part>"
	Runs  []Run             `json:"runs"`
}

// Parse reads an input robustly (shrinking may delete list elements).
func Parse(raw json.RawMessage) (*Input, bool) {
	var in Input
	if err := json.Unmarshal(raw, &in); err != nil {
		return nil, false
	}
	if in.Main == nil {
		in.Main = &Part{}
	}
	return &in, true
}

// JumpMap converts the pair list into the Go map (later duplicates win, as in YAML).
func JumpMap(j [][2]string) map[string]string {
	if len(j) == 0 {
		return nil
	}
	m := map[string]string{}
	for _, p := range j {
		m[p[0]] = p[1]
	}
	return m
}

// FilterMaps renders the filters list as the raw spec maps.
func FilterMaps(p *Part) []map[string]interface{} {
	out := make([]map[string]interface{}, 0, len(p.Filters))
	for _, f := range p.Filters {
		m := map[string]interface{}{}
		if f[0] != "<none>" { // "<none>" = key omitted altogether
			m["name"] = f[0]
		}
		if f[1] != "<none>" {
			m["kind"] = f[1]
		}
		out = append(out, m)
	}
	return out
}

// FlowMaps renders a flow for YAML.
func FlowMaps(p *Part) []map[string]interface{} {
	out := make([]map[string]interface{}, 0, len(p.Flow))
	for _, n := range p.Flow {
		m := map[string]interface{}{"filter": n.F}
		if n.A != "" {
			m["alias"] = n.A
		}
		if n.Ns != "" {
			m["namespace"] = n.Ns
		}
		if jm := JumpMap(n.J); jm != nil {
			m["jumpIf"] = jm
		}
		out = append(out, m)
	}
	return out
}

// PipelineMap renders a whole pipeline object spec.
func PipelineMap(name string, p *Part) map[string]interface{} {
	m := map[string]interface{}{"name": name, "kind": "Pipeline", "filters": FilterMaps(p)}
	if len(p.Flow) > 0 {
		m["flow"] = FlowMaps(p)
	}
	return m
}

// ErrClass maps a validation error to a small enum.
func ErrClass(err error) string {
	if err == nil {
		return "ok"
	}
	s := err.Error()
	switch {
	case strings.Contains(s, "built-in"):
		return "reserved-name"
	case strings.Contains(s, "duplicated filter name/alias"):
		return "dup-target"
	case strings.Contains(s, "duplicated filter name"):
		return "dup-filter"
	case strings.Contains(s, "target filter"):
		return "no-target"
	case strings.Contains(s, "is not in"):
		return "undeclared-result"
	case strings.Contains(s, "kind") && strings.Contains(s, "not found"):
		return "unknown-kind"
	case strings.Contains(s, "not found"):
		return "filter-not-found"
	case strings.Contains(s, "jsonschemaErrs") || strings.Contains(s, "required") || strings.Contains(s, "format"):
		return "meta"
	}
	return "other"
}

// ParseStats parses the tag written by serializeStats:
// "pipeline: a(r1,12µs)->b(3µs)" -> [[a r1] [b ""]].
func ParseStats(tag string) ([][2]string, bool) {
	const pre = "pipeline: "
	if !strings.HasPrefix(tag, pre) {
		return nil, false
	}
	body := tag[len(pre):]
	if body == "<empty>" {
		return [][2]string{}, true
	}
	out := [][2]string{}
	for _, seg := range strings.Split(body, "->") {
		o := strings.LastIndexByte(seg, '(')
		if o < 0 || !strings.HasSuffix(seg, ")") {
			return nil, false
		}
		name, inner := seg[:o], seg[o+1:len(seg)-1]
		res := ""
		if c := strings.LastIndexByte(inner, ','); c >= 0 {
			res = inner[:c]
		}
		out = append(out, [2]string{name, res})
	}
	return out, true
}

// Collect turns the recorder + context into a Run.
func Collect(ctx *context.Context, result string) Run {
	r := Run{Result: result, Calls: [][3]string{}, Stats: [][2]string{}}
	for _, c := range Rec.Calls {
		r.Calls = append(r.Calls, [3]string{c.Filter, c.Kind, c.Ns})
	}
	tag := ctx.Tags()
	r.NTags = strings.Count(tag, " | ") + 1
	st, ok := ParseStats(tag)
	if !ok {
		r.Raw = tag
	} else {
		r.Stats = st
	}
	return r
}

// ---------------------------------------------------------------------------
// generator

var (
	filterNames = []string{"f1", "f2", "f3", "f4", "x", "y"}
	aliasNames  = []string{"", "", "", "x", "y", "z", "f1", "f2", "END"}
	nsNames     = []string{"", "", "n1", "n2", "DEFAULT"}
	declared    = map[string][]string{"VerifScripted": {"r1", "r2", "r3"}, "VerifOther": {"r2", "r4"}}
	scriptAlpha = []string{"", "", "r1", "r2", "r3", "r4", "zz"}
)

// GenPart builds one pipeline spec. valid=true builds a spec that validation
// accepts by construction (forward jumps to unique names, declared results);
// otherwise targets/results/names are drawn freely from colliding alphabets
// (backward, duplicate, missing, reserved ...).
func GenPart(r *verifh.Rand, maxNodes int, valid bool, allowNoFlow bool) *Part {
	p := &Part{}
	nf := r.Range(1, 4)
	names := append([]string(nil), filterNames...)
	// shuffle
	for i := len(names) - 1; i > 0; i-- {
		j := r.Intn(i + 1)
		names[i], names[j] = names[j], names[i]
	}
	kindOf := map[string]string{}
	for i := 0; i < nf; i++ {
		k := "VerifScripted"
		if r.Bool(1, 4) {
			k = "VerifOther"
		}
		p.Filters = append(p.Filters, [2]string{names[i], k})
		kindOf[names[i]] = k
	}
	if !valid {
		switch r.Intn(12) {
		case 0: // duplicated filter name
			p.Filters = append(p.Filters, [2]string{p.Filters[r.Intn(len(p.Filters))][0], "VerifScripted"})
		case 1: // reserved name
			p.Filters = append(p.Filters, [2]string{"END", "VerifScripted"})
		case 2: // unknown kind
			p.Filters = append(p.Filters, [2]string{"u", "NoSuchKind"})
		case 3: // bad meta
			p.Filters = append(p.Filters, [2]string{r.Pick("", "a b", "<none>"), r.Pick("VerifScripted", "<none>")})
		}
	}
	if allowNoFlow && r.Bool(1, 10) {
		return p // no flow: synthesised from the filters
	}
	n := r.Range(1, maxNodes)
	nodes := make([]Node, n)
	for i := range nodes {
		nd := &nodes[i]
		if r.Bool(1, 7) && (i > 0 || r.Bool(1, 3)) {
			nd.F = "END"
			if r.Bool(1, 4) {
				nd.A = r.Pick("x", "y", "z", "f1")
			}
			continue
		}
		nd.F = p.Filters[r.Intn(nf)][0]
		if !valid && r.Bool(1, 25) {
			nd.F = r.Pick("nosuch", "f1", "x")
		}
		nd.A = aliasNames[r.Intn(len(aliasNames))]
		nd.Ns = nsNames[r.Intn(len(nsNames))]
	}
	name := func(nd *Node) string {
		if nd.A != "" {
			return nd.A
		}
		return nd.F
	}
	// jumpIf
	for i := range nodes {
		nd := &nodes[i]
		if nd.F == "END" {
			if !valid && r.Bool(1, 10) {
				nd.J = [][2]string{{"r1", "END"}}
			}
			continue
		}
		res := declared[kindOf[nd.F]]
		if len(res) == 0 {
			res = []string{"r1"}
		}
		nj := r.PickInt(0, 1, 1, 2, 2, 3)
		used := map[string]bool{}
		for k := 0; k < nj; k++ {
			rs := res[r.Intn(len(res))]
			if !valid && r.Bool(1, 12) {
				rs = r.Pick("r4", "zz", "r1", "")
			}
			if used[rs] {
				continue
			}
			used[rs] = true
			var tgt string
			switch {
			case r.Bool(1, 4):
				tgt = "END"
			case valid:
				// a later non-END node whose name is unique among the later non-END nodes
				var cands []string
				for j := i + 1; j < n; j++ {
					if nodes[j].F == "END" {
						continue
					}
					nm, cnt := name(&nodes[j]), 0
					for l := i + 1; l < n; l++ {
						if nodes[l].F != "END" && name(&nodes[l]) == nm {
							cnt++
						}
					}
					if cnt == 1 && nm != "END" {
						cands = append(cands, nm)
					}
				}
				if len(cands) == 0 {
					tgt = "END"
				} else {
					tgt = cands[r.Intn(len(cands))]
				}
			default:
				// any node's name (forward, backward, self, duplicated) or junk
				if r.Bool(1, 8) {
					tgt = r.Pick("nosuch", "", "x", "END")
				} else {
					tgt = name(&nodes[r.Intn(n)])
				}
			}
			nd.J = append(nd.J, [2]string{rs, tgt})
		}
		sort.Slice(nd.J, func(a, b int) bool { return nd.J[a][0] < nd.J[b][0] })
	}
	if valid {
		// "END" used as an alias of a later node makes a jump to END ambiguous: drop such aliases
		for i := range nodes {
			if nodes[i].F != "END" && nodes[i].A == "END" {
				nodes[i].A = ""
			}
		}
		// re-check: the alias change may have created a duplicate target; fall back to END
		for i := range nodes {
			for k := range nodes[i].J {
				t := nodes[i].J[k][1]
				if t == "END" {
					continue
				}
				cnt := 0
				for l := i + 1; l < n; l++ {
					if nodes[l].F != "END" && name(&nodes[l]) == t {
						cnt++
					}
				}
				if cnt != 1 {
					nodes[i].J[k][1] = "END"
				}
			}
		}
	}
	p.Flow = nodes
	return p
}

// GenScripts produces result vectors: exhaustive over a small alphabet for short
// flows when asked, otherwise random, biased towards results the flow maps.
func GenScripts(r *verifh.Rand, in *Input, count int, exhaustive bool) [][]string {
	total := 0
	mapped := []string{}
	for _, p := range []*Part{in.Before, in.Main, in.After} {
		if p == nil {
			continue
		}
		if len(p.Flow) == 0 {
			total += len(p.Filters)
		}
		total += len(p.Flow)
		for _, nd := range p.Flow {
			for _, j := range nd.J {
				mapped = append(mapped, j[0])
			}
		}
	}
	if total == 0 {
		total = 1
	}
	if exhaustive && total <= 4 {
		alpha := []string{"", "r1", "r2", "zz"}
		out := [][]string{}
		idx := make([]int, total)
		for {
			s := make([]string, total)
			for i, v := range idx {
				s[i] = alpha[v]
			}
			out = append(out, s)
			i := 0
			for i < total {
				idx[i]++
				if idx[i] < len(alpha) {
					break
				}
				idx[i] = 0
				i++
			}
			if i == total {
				break
			}
		}
		return out
	}
	out := make([][]string, 0, count)
	out = append(out, []string{}) // all filters return ""
	for len(out) < count {
		s := make([]string, total)
		for i := range s {
			switch {
			case r.Bool(2, 5):
				s[i] = ""
			case len(mapped) > 0 && r.Bool(2, 3):
				s[i] = mapped[r.Intn(len(mapped))]
			default:
				s[i] = scriptAlpha[r.Intn(len(scriptAlpha))]
			}
		}
		out = append(out, s)
	}
	return out
}

// Gen builds one case. modes: the modes this harness can run.
func Gen(r *verifh.Rand, i int, modes []string, thorough bool) *Input {
	in := &Input{Mode: modes[r.Intn(len(modes))], Kinds: DefaultKinds}
	maxNodes := 7
	if thorough && r.Bool(1, 5) {
		maxNodes = 10
	}
	small := r.Bool(1, 4)
	if small {
		maxNodes = r.Range(1, 3)
	}
	valid := r.Bool(7, 10)
	in.Main = GenPart(r, maxNodes, valid, true)
	if in.Mode != "handle" {
		sub := maxNodes
		if sub > 4 {
			sub = 4
		}
		if small {
			sub = 1
		}
		// in gf mode an empty flow means "no before/after pipeline"
		if r.Bool(3, 4) {
			in.Before = GenPart(r, sub, valid || r.Bool(1, 2), true)
		}
		if r.Bool(3, 4) {
			in.After = GenPart(r, sub, valid || r.Bool(1, 2), true)
		}
	}
	n := 8
	if thorough {
		n = 32
	}
	in.Scripts = GenScripts(r, in, n, small)
	return in
}
