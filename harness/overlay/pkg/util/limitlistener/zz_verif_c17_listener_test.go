package limitlistener

// Correspondence harness for property C17, HTTP side: a real loopback TCP
// listener wrapped by LimitListener. Injected with `go test -overlay`.
//
// One acceptor goroutine loops over LimitListener.Accept (as net/http's Serve
// does) and counts, at the instant of every accept, the accepted connections
// that are open. Operations:
//
//	dial       a client connects (real TCP); the connection waits in the kernel queue
//	           until the acceptor, holding a unit of the semaphore, accepts it
//	close k    server-side Close of the k-th accepted connection (closing twice is allowed:
//	           release once)
//	set n      SetMaxConnection(n) (grow, shrink below usage, repeated)
//	half k     the client of the k-th accepted connection half-closes (CloseWrite); the server side reads
//	           to EOF and keeps the connection open (it still counts: released only by Close)
//
// Operations marked "race" are followed by the next one at once; otherwise the
// harness waits until the acceptor and every SetMaxCount goroutine is parked
// (goroutine dump: in Weighted.Acquire's select, or in the inner listener
// waiting for a dialled connection) and takes a snapshot. The inner listener
// hands a connection to Accept only when one has been dialled, which makes
// "acquired, not yet accepted" visible.

import (
	"encoding/json"
	"net"
	"reflect"
	"runtime"
	"strings"
	"sync"
	"testing"
	"time"
	"unsafe"

	"github.com/megaease/easegress/pkg/util/verifh"
)

type c17lOp struct {
	Op   string `json:"op"`
	K    int    `json:"k,omitempty"`
	N    uint32 `json:"n,omitempty"`
	Race bool   `json:"race,omitempty"`
}

type c17lInput struct {
	Cap0 uint32   `json:"cap0"`
	Ops  []c17lOp `json:"ops"`
}

type c17lSnap struct {
	After     int     `json:"after"`
	Accepted  int     `json:"accepted"`  // connections accepted so far
	Open      []int   `json:"open"`      // indices (accept order) of accepted connections not closed
	MaxOpen   int     `json:"maxOpen"`   // largest open count seen at an accept since the previous snapshot
	InInner   bool    `json:"inInner"`   // acceptor holds a unit and waits for a dialled connection
	AdjParked int     `json:"adjParked"` // SetMaxCount goroutines parked in Acquire
	Cur       int64   `json:"cur"`
	Waiters   []int64 `json:"waiters"`
	Skipped   []int   `json:"skipped"`
	Settled   bool    `json:"settled"`
}

type c17lObs struct {
	Snaps []c17lSnap `json:"snaps"`
	Alive int        `json:"alive"` // open accepted connections that still carry data at the end
	Dials int        `json:"dials"`
}

type c17lInner struct {
	net.Listener
	feed chan struct{}
}

func (i *c17lInner) Accept() (net.Conn, error) {
	if _, ok := <-i.feed; !ok {
		return nil, net.ErrClosed
	}
	return i.Listener.Accept()
}

// c17lScan inspects the goroutine dump: settled = the acceptor and all
// SetMaxCount goroutines are parked; inInner = acceptor waits in the inner
// listener; adj = number of parked SetMaxCount goroutines.
func c17lScan() (settled, inInner bool, adj int) {
	buf := make([]byte, 1<<16)
	for {
		n := runtime.Stack(buf, true)
		if n < len(buf) {
			buf = buf[:n]
			break
		}
		buf = make([]byte, 2*len(buf))
	}
	settled = true
	for _, g := range strings.Split(string(buf), "\n\n") {
		isAcc := strings.Contains(g, "limitlistener.c17lAcceptor")
		isAdj := strings.Contains(g, "sem.(*Semaphore).SetMaxCount.func")
		if !isAcc && !isAdj {
			continue
		}
		hdr := g
		if i := strings.Index(g, "\n"); i >= 0 {
			hdr = g[:i]
		}
		inAcquire := strings.Contains(hdr, "[select") && strings.Contains(g, "semaphore.(*Weighted).Acquire")
		if isAdj && strings.Contains(hdr, "[chan receive") && strings.Contains(g, "semaphore.(*Weighted).Acquire") {
			inAcquire = true // a weight larger than the semaphore's size: parked for ever in `<-ctx.Done()`
		}
		if isAdj {
			if inAcquire {
				adj++
			} else {
				settled = false
			}
			continue
		}
		if inAcquire {
			continue
		}
		if strings.Contains(hdr, "[chan receive") && strings.Contains(g, "limitlistener.(*c17lInner).Accept") {
			inInner = true
			continue
		}
		settled = false
	}
	return
}

func c17lPeek(l *LimitListener) (int64, []int64) {
	sv := reflect.ValueOf(l.sem).Elem().FieldByName("sem") // *semaphore.Weighted (unexported field)
	v := reflect.NewAt(sv.Type().Elem(), unsafe.Pointer(sv.Pointer())).Elem()
	mu := (*sync.Mutex)(unsafe.Pointer(v.FieldByName("mu").UnsafeAddr()))
	mu.Lock()
	defer mu.Unlock()
	cur := v.FieldByName("cur").Int()
	ws := []int64{}
	lst := v.FieldByName("waiters")
	n := int(lst.FieldByName("len").Int())
	e := lst.FieldByName("root").FieldByName("next")
	for i := 0; i < n && !e.IsNil(); i++ {
		el := e.Elem()
		ws = append(ws, el.FieldByName("Value").Elem().FieldByName("n").Int())
		e = el.FieldByName("next")
	}
	return cur, ws
}

type c17lState struct {
	mu       sync.Mutex
	accepted []net.Conn
	closed   map[int]bool
	open     int
	maxOpen  int
}

func c17lAcceptor(l *LimitListener, st *c17lState, started, done chan struct{}) {
	defer close(done)
	close(started) // from here on this function is on the goroutine's stack (see c17lScan)
	for {
		c, err := l.Accept()
		if err != nil {
			return
		}
		st.mu.Lock()
		st.accepted = append(st.accepted, c)
		st.open++
		if st.open > st.maxOpen {
			st.maxOpen = st.open
		}
		st.mu.Unlock()
	}
}

func c17lExec(raw json.RawMessage) interface{} {
	var in c17lInput
	if err := json.Unmarshal(raw, &in); err != nil {
		return map[string]string{"error": "bad-input"}
	}
	if in.Cap0 > 1000 {
		in.Cap0 = 1000
	}
	tl, err := net.Listen("tcp", "127.0.0.1:0")
	if err != nil {
		return map[string]string{"error": "listen"}
	}
	inner := &c17lInner{Listener: tl, feed: make(chan struct{}, 4096)}
	l := NewLimitListener(inner, in.Cap0)
	st := &c17lState{closed: map[int]bool{}}
	accDone := make(chan struct{})
	accStarted := make(chan struct{})
	go c17lAcceptor(l, st, accStarted, accDone)
	<-accStarted
	clients := []net.Conn{}
	obs := c17lObs{Snaps: []c17lSnap{}}
	skipped := []int{}
	wait := func() (bool, bool, int) {
		deadline := time.Now().Add(40 * time.Second)
		for i := 0; ; i++ {
			runtime.Gosched()
			ok, inInner, adj := c17lScan()
			if ok {
				// a dialled connection that the parked acceptor could take means it is about to move
				if !(inInner && len(inner.feed) > 0) {
					return true, inInner, adj
				}
			}
			if time.Now().After(deadline) {
				return false, inInner, adj
			}
			if i > 20 {
				time.Sleep(100 * time.Microsecond)
			}
		}
	}
	// one observation: settle, then read the bookkeeping and the semaphore
	observe := func() c17lSnap {
		ok, inInner, adj := wait()
		sn := c17lSnap{Open: []int{}, Settled: ok, InInner: inInner, AdjParked: adj}
		st.mu.Lock()
		sn.Accepted = len(st.accepted)
		for i := range st.accepted {
			if !st.closed[i] {
				sn.Open = append(sn.Open, i)
			}
		}
		sn.MaxOpen = st.maxOpen
		st.mu.Unlock()
		sn.Cur, sn.Waiters = c17lPeek(l)
		return sn
	}
	snap := func(after int) {
		// a snapshot is taken only when two consecutive observations (each after its own settling
		// scan) are identical: nothing moved between the goroutine dump and the reads
		sn := observe()
		for tries := 0; tries < 200; tries++ {
			again := observe()
			same := reflect.DeepEqual(sn, again)
			sn = again
			if same || !sn.Settled {
				break
			}
		}
		sn.After, sn.Skipped = after, skipped
		skipped = []int{}
		st.mu.Lock()
		st.maxOpen = st.open
		st.mu.Unlock()
		obs.Snaps = append(obs.Snaps, sn)
	}
	bigSeen := false
	lastSet := in.Cap0
	halfClosed := map[int]bool{}
	for i, op := range in.Ops {
		switch op.Op {
		case "dial":
			c, err := net.DialTimeout("tcp", tl.Addr().String(), 40*time.Second)
			if err != nil {
				skipped = append(skipped, i)
				break
			}
			clients = append(clients, c)
			obs.Dials++
			inner.feed <- struct{}{}
		case "close":
			st.mu.Lock()
			var c net.Conn
			if op.K >= 0 && op.K < len(st.accepted) {
				c = st.accepted[op.K]
				if !st.closed[op.K] {
					st.closed[op.K] = true
					st.open--
				}
			}
			st.mu.Unlock()
			if c == nil {
				skipped = append(skipped, i)
			} else {
				c.Close()
			}
		case "half":
			// the client shuts down its sending side; the server side (a handler that is still busy with the
			// connection) reads until EOF. The connection stays open on the server side: it counts until Close.
			st.mu.Lock()
			var sc net.Conn
			if op.K >= 0 && op.K < len(st.accepted) && !st.closed[op.K] {
				sc = st.accepted[op.K]
			}
			st.mu.Unlock()
			if sc == nil || op.K >= len(clients) {
				skipped = append(skipped, i)
				break
			}
			if tc, ok := clients[op.K].(*net.TCPConn); ok {
				tc.CloseWrite()
			}
			halfClosed[op.K] = true
			sc.SetReadDeadline(time.Now().Add(40 * time.Second))
			rb := make([]byte, 16)
			for {
				if _, err := sc.Read(rb); err != nil {
					break
				}
			}
			sc.SetReadDeadline(time.Time{})
		case "set":
			// capacities near maxCapacity: only between settled, quiet snapshots, and only shrinks afterwards
			// (a grow next to a pending / parked shrink would make Weighted.Release panic, see the sem harness)
			prevRace := i > 0 && in.Ops[i-1].Race
			quiet := true
			if c17IsBig(int64(op.N)) || bigSeen {
				_, _, adj := c17lScan()
				quiet = adj == 0
			}
			switch {
			case op.N > 1000 && !c17IsBig(int64(op.N)):
				skipped = append(skipped, i)
			case (c17IsBig(int64(op.N)) || bigSeen) && (op.Race || prevRace || !quiet):
				skipped = append(skipped, i)
			case bigSeen && op.N > lastSet:
				skipped = append(skipped, i)
			default:
				if c17IsBig(int64(op.N)) {
					bigSeen = true
				}
				lastSet = op.N
				l.SetMaxConnection(op.N)
			}
		default:
			skipped = append(skipped, i)
		}
		if !op.Race || i == len(in.Ops)-1 {
			snap(i)
		}
	}
	if len(in.Ops) == 0 {
		snap(-1)
	}
	// established connections must still work: one byte client -> server on each
	st.mu.Lock()
	acc := append([]net.Conn(nil), st.accepted...)
	closed := map[int]bool{}
	for k, v := range st.closed {
		closed[k] = v
	}
	st.mu.Unlock()
	for i, sc := range acc {
		if closed[i] || i >= len(clients) {
			continue
		}
		if halfClosed[i] {
			// half-closed by the client: the other direction must still work
			if _, err := sc.Write([]byte{byte(i)}); err != nil {
				continue
			}
			b := make([]byte, 1)
			clients[i].SetReadDeadline(time.Now().Add(40 * time.Second))
			if n, _ := clients[i].Read(b); n == 1 && b[0] == byte(i) {
				obs.Alive++
			}
			continue
		}
		if _, err := clients[i].Write([]byte{byte(i)}); err != nil {
			continue
		}
		b := make([]byte, 1)
		sc.SetReadDeadline(time.Now().Add(40 * time.Second))
		if n, _ := sc.Read(b); n == 1 && b[0] == byte(i) {
			obs.Alive++
		}
	}
	// teardown: stop the acceptor, un-park adjustment goroutines
	l.Close()
	close(inner.feed)
	for _, c := range clients {
		// reset instead of FIN: no TIME_WAIT sockets pile up over tens of thousands of cases
		if tc, ok := c.(*net.TCPConn); ok {
			tc.SetLinger(0)
		}
		c.Close()
	}
	for i, sc := range acc {
		if !closed[i] {
			sc.Close()
		}
	}
	select {
	case <-accDone:
	case <-time.After(40 * time.Second):
	}
	for i := 0; i < 64 && !bigSeen; i++ {
		_, ws := c17lPeek(l)
		if len(ws) == 0 {
			break
		}
		sv := reflect.ValueOf(l.sem).Elem().FieldByName("sem")
		_ = sv
		l.sem.SetMaxCount(1000) // grow: releases enough for every parked shrink
		time.Sleep(200 * time.Microsecond)
	}
	return obs
}


// capacities at and beyond maxCapacity (20 000 000): the clamp of SetMaxCount
var c17BigCaps = []int64{19999999, 20000000, 20000001, 25000000, 4294967295}

func c17IsBig(n int64) bool {
	for _, b := range c17BigCaps {
		if n == b {
			return true
		}
	}
	return false
}

// c17lGenShrinkQueued: the cap fully used, further clients already waiting (the acceptor is queued in the
// semaphore), a run-time shrink by at least 2 below the number of open connections, then several closes (and
// more dials): while the shrink is parked at most the one Accept that was ahead of it may be served.
func c17lGenShrinkQueued(r *verifh.Rand) interface{} {
	c := r.Range(3, 5)
	in := c17lInput{Cap0: uint32(c)}
	for k := 0; k < c+r.Range(1, 3); k++ {
		in.Ops = append(in.Ops, c17lOp{Op: "dial"})
	}
	in.Ops = append(in.Ops, c17lOp{Op: "set", N: uint32(r.Range(1, c-2))})
	order := []int{}
	for k := 0; k < c; k++ {
		order = append(order, k)
	}
	for k := len(order) - 1; k > 0; k-- { // shuffle
		j := r.Intn(k + 1)
		order[k], order[j] = order[j], order[k]
	}
	for _, k := range order[:r.Range(3, c)] {
		if r.Intn(3) == 0 {
			in.Ops = append(in.Ops, c17lOp{Op: "dial"})
		}
		in.Ops = append(in.Ops, c17lOp{Op: "close", K: k})
	}
	return in
}

// c17lGenBig: grow to a capacity at / beyond maxCapacity, then shrink below usage, then closes and dials
func c17lGenBig(r *verifh.Rand) interface{} {
	in := c17lInput{Cap0: uint32(r.PickInt(1, 2, 3))}
	dials := 0
	for k := r.Range(0, 3); k > 0; k-- {
		in.Ops = append(in.Ops, c17lOp{Op: "dial"})
		dials++
	}
	in.Ops = append(in.Ops, c17lOp{Op: "set", N: uint32(c17BigCaps[r.Intn(len(c17BigCaps))])})
	for k := r.Range(1, 5); k > 0; k-- {
		in.Ops = append(in.Ops, c17lOp{Op: "dial"})
		dials++
	}
	in.Ops = append(in.Ops, c17lOp{Op: "set", N: uint32(r.Range(0, 3))})
	for k := r.Range(2, 10); k > 0; k-- {
		if r.Intn(2) == 0 {
			in.Ops = append(in.Ops, c17lOp{Op: "dial"})
			dials++
		} else {
			in.Ops = append(in.Ops, c17lOp{Op: "close", K: r.Intn(dials)})
		}
	}
	return in
}

func c17lGen(r *verifh.Rand, i int) interface{} {
	if r.Intn(12) == 0 {
		return c17lGenShrinkQueued(r)
	}
	if r.Intn(15) == 0 {
		return c17lGenBig(r)
	}
	in := c17lInput{Cap0: uint32(r.PickInt(0, 1, 1, 2, 2, 3, 4))}
	n := r.Range(4, 28)
	dials := 0
	capNow := int(in.Cap0)
	raceBias := r.PickInt(0, 0, 2, 5)
	for len(in.Ops) < n {
		var op c17lOp
		switch r.Intn(11) {
		case 0, 1, 2, 3:
			op = c17lOp{Op: "dial"}
			dials++
		case 10:
			if dials == 0 {
				continue
			}
			op = c17lOp{Op: "half", K: r.Intn(dials)} // the client half-closes; may hit a not yet accepted / closed index (skipped)
		case 4, 5, 6:
			if dials == 0 {
				continue
			}
			op = c17lOp{Op: "close", K: r.Intn(dials)} // may hit a not yet accepted index (skipped) or a closed one (double close)
		case 7:
			op = c17lOp{Op: "set", N: uint32(r.Range(0, capNow))}
			capNow = int(op.N)
		case 8:
			op = c17lOp{Op: "set", N: uint32(capNow + r.Range(0, 3))}
			capNow = int(op.N)
		default:
			op = c17lOp{Op: "set", N: uint32(r.PickInt(0, 1, 2, 3, 5))}
			capNow = int(op.N)
		}
		op.Race = r.Intn(10) < raceBias
		if k := len(in.Ops); k >= 3 && in.Ops[k-1].Race && in.Ops[k-2].Race && in.Ops[k-3].Race {
			op.Race = false // at most four operations race at a time (the judge explores every order)
		}
		if (op.Op == "close" || op.Op == "half") && len(in.Ops) > 0 {
			// whether its target exists must not depend on a race
			in.Ops[len(in.Ops)-1].Race = false
		}
		in.Ops = append(in.Ops, op)
	}
	return in
}

func TestVerifC17Listener(t *testing.T) {
	verifh.Run(t, c17lGen, c17lExec, 180*time.Second)
}
