package ratelimiter

// Correspondence harness for property C09 (core limiter). Injected with
// `go test -overlay`; drives the real RateLimiter under a virtual clock.

import (
	"encoding/json"
	"testing"
	"time"

	"github.com/megaease/easegress/pkg/util/verifh"
)

type c09Input struct {
	L        int     `json:"L"`        // LimitForPeriod
	P        int64   `json:"P"`        // LimitRefreshPeriod (ns)
	T        int64   `json:"T"`        // TimeoutDuration (ns)
	Arrivals []int64 `json:"arrivals"` // ns since limiter creation, non-decreasing
	Counts   []int   `json:"counts"`   // permits requested per arrival (1 = AcquirePermission)
}

type c09Obs struct {
	Res [][2]int64 `json:"res"` // per arrival: [permitted(0/1), wait ns]
}

func c09Gen(r *verifh.Rand, i int) interface{} {
	unit := int64(r.PickInt(1, 1, 1000, 1000000))
	in := c09Input{}
	in.L = r.PickInt(1, 1, 2, 2, 3, 4, 5, 7)
	p := int64(r.Range(1, 10))
	in.P = p * unit
	switch r.Intn(7) {
	case 0:
		in.T = 0
	case 1:
		in.T = int64(r.Range(0, int(p)-1)) * unit // T < P
	case 2:
		in.T = in.P
	case 3:
		in.T = in.P * int64(r.Range(1, 4))
	case 4:
		in.T = in.P*int64(r.Range(1, 4)) - 1
	default:
		in.T = int64(r.Range(0, 50)) * unit
	}
	n := r.Range(1, 80)
	var now int64
	multi := r.Bool(1, 6)
	for k := 0; k < n; k++ {
		switch r.Intn(8) {
		case 0, 1, 2: // burst
		case 3:
			now += int64(r.Range(0, 3)) * unit
		case 4: // land exactly on a period boundary
			now = (now/in.P + int64(r.Range(1, 2))) * in.P
		case 5: // just before a boundary
			now = (now/in.P+1)*in.P - 1
		case 6: // idle gap spanning many periods
			now += in.P*int64(r.Range(2, 40)) + int64(r.Range(0, int(p)))*unit
		default:
			now += int64(r.Range(0, int(p))) * unit
		}
		in.Arrivals = append(in.Arrivals, now)
		c := 1
		if multi {
			c = r.PickInt(1, 1, 2, 3, in.L, in.L+1, 0)
		}
		in.Counts = append(in.Counts, c)
	}
	return in
}

func c09Exec(raw json.RawMessage) interface{} {
	var in c09Input
	if err := json.Unmarshal(raw, &in); err != nil {
		return map[string]string{"error": "bad-input"}
	}
	base := time.Unix(1700000000, 0)
	cur := int64(0)
	old := nowFunc
	defer func() { nowFunc = old }()
	nowFunc = func() time.Time { return base.Add(time.Duration(cur)) }
	rl := New(NewPolicy(time.Duration(in.T), time.Duration(in.P), in.L))
	obs := c09Obs{Res: make([][2]int64, 0, len(in.Arrivals))}
	for k, a := range in.Arrivals {
		cur = a
		c := 1
		if k < len(in.Counts) {
			c = in.Counts[k]
		}
		var ok bool
		var d time.Duration
		if c == 1 {
			ok, d = rl.AcquirePermission()
		} else {
			ok, d = rl.AcquireNPermission(c)
		}
		b := int64(0)
		if ok {
			b = 1
		}
		obs.Res = append(obs.Res, [2]int64{b, int64(d)})
	}
	return obs
}

func TestVerifC09(t *testing.T) {
	verifh.Run(t, c09Gen, c09Exec, 0)
}
