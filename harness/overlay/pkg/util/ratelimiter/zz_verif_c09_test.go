package ratelimiter

// Correspondence harness for property C09 (core limiter). Injected with
// `go test -overlay`; drives the real RateLimiter under a virtual clock.

import (
	"encoding/json"
	"sync/atomic"
	"testing"
	"time"

	"github.com/megaease/easegress/pkg/util/verifh"
)

type c09Input struct {
	L        int     `json:"L"`        // LimitForPeriod
	P        int64   `json:"P"`        // LimitRefreshPeriod (ns)
	T        int64   `json:"T"`        // TimeoutDuration (ns)
	Arrivals []int64 `json:"arrivals"` // ns since limiter creation, non-decreasing
	Counts   []int   `json:"counts"`   // permits requested per arrival (1 = AcquirePermission)
	// Race (0 = none): call Race-1 (A) is issued by a goroutine whose clock read is a schedule point: the
	// stub blocks it there (it has read arrivals[Race-1]) while call Race (B, clock arrivals[Race]) runs in a
	// second goroutine; after B returned, or after 20 ms (B is blocked behind A's lock), A is released.
	// The clock is read inside the critical section, so B can only run after A and the results are those of
	// the sequential history in input order — that is what is judged (no verdict depends on the 20 ms).
	Race int `json:"race,omitempty"`
}

type c09Obs struct {
	Res [][2]int64 `json:"res"` // per arrival: [permitted(0/1), wait ns]
}

func c09Gen(r *verifh.Rand, i int) interface{} {
	unit := int64(r.PickInt(1, 1, 1000, 1000000))
	in := c09Input{}
	in.L = r.PickInt(1, 1, 2, 2, 3, 4, 5, 7)
	p := int64(r.Range(1, 10))
	in.P = p * unit
	switch r.Intn(7) {
	case 0:
		in.T = 0
	case 1:
		in.T = int64(r.Range(0, int(p)-1)) * unit // T < P
	case 2:
		in.T = in.P
	case 3:
		in.T = in.P * int64(r.Range(1, 4))
	case 4:
		in.T = in.P*int64(r.Range(1, 4)) - 1
	default:
		in.T = int64(r.Range(0, 50)) * unit
	}
	n := r.Range(1, 80)
	var now int64
	multi := r.Bool(1, 6)
	for k := 0; k < n; k++ {
		switch r.Intn(8) {
		case 0, 1, 2: // burst
		case 3:
			now += int64(r.Range(0, 3)) * unit
		case 4: // land exactly on a period boundary
			now = (now/in.P + int64(r.Range(1, 2))) * in.P
		case 5: // just before a boundary
			now = (now/in.P+1)*in.P - 1
		case 6: // idle gap spanning many periods
			now += in.P*int64(r.Range(2, 40)) + int64(r.Range(0, int(p)))*unit
		default:
			now += int64(r.Range(0, int(p))) * unit
		}
		in.Arrivals = append(in.Arrivals, now)
		c := 1
		if multi {
			c = r.PickInt(1, 1, 2, 3, in.L, in.L+1, 0)
		}
		in.Counts = append(in.Counts, c)
	}
	// schedule-point share: A reads the clock late in a period, B arrives many periods later
	if r.Bool(1, 70) {
		in.T = int64(r.PickInt(0, 0, int(in.P), int(2*in.P)))
		in.Arrivals, in.Counts = nil, nil
		k := r.Range(0, in.L)
		for j := 0; j < k; j++ {
			in.Arrivals = append(in.Arrivals, 0)
		}
		in.Arrivals = append(in.Arrivals, in.P-1, in.P*int64(r.Range(1, 60))+int64(r.Range(0, int(p)-1))*unit)
		in.Race = len(in.Arrivals) - 1
		for j := r.Range(0, 3); j > 0; j-- {
			in.Arrivals = append(in.Arrivals, in.Arrivals[len(in.Arrivals)-1]+int64(r.Range(0, int(p)))*unit)
		}
		for range in.Arrivals {
			in.Counts = append(in.Counts, 1)
		}
	}
	return in
}

func c09Exec(raw json.RawMessage) interface{} {
	var in c09Input
	if err := json.Unmarshal(raw, &in); err != nil {
		return map[string]string{"error": "bad-input"}
	}
	base := time.Unix(1700000000, 0)
	var cur int64
	var armed int32
	entered, release := make(chan struct{}), make(chan struct{})
	old := nowFunc
	defer func() { nowFunc = old }()
	nowFunc = func() time.Time {
		t := base.Add(time.Duration(atomic.LoadInt64(&cur)))
		if atomic.CompareAndSwapInt32(&armed, 1, 0) { // A's clock read: the schedule point
			close(entered)
			<-release
		}
		return t
	}
	rl := New(NewPolicy(time.Duration(in.T), time.Duration(in.P), in.L))
	obs := c09Obs{Res: make([][2]int64, 0, len(in.Arrivals))}
	call := func(k int) [2]int64 {
		c := 1
		if k < len(in.Counts) {
			c = in.Counts[k]
		}
		var ok bool
		var d time.Duration
		if c == 1 {
			ok, d = rl.AcquirePermission()
		} else {
			ok, d = rl.AcquireNPermission(c)
		}
		b := int64(0)
		if ok {
			b = 1
		}
		return [2]int64{b, int64(d)}
	}
	raced := false
	for k := 0; k < len(in.Arrivals); k++ {
		atomic.StoreInt64(&cur, in.Arrivals[k])
		if in.Race >= 1 && k == in.Race-1 && k+1 < len(in.Arrivals) && !raced {
			raced = true
			ra, rb := make(chan [2]int64, 1), make(chan [2]int64, 1)
			atomic.StoreInt32(&armed, 1)
			go func() { ra <- call(k) }()
			var resA, resB [2]int64
			gotA := false
			select {
			case <-entered:
			case resA = <-ra: // A returned without reading the clock
				gotA = true
				atomic.StoreInt32(&armed, 0)
			case <-time.After(20 * time.Second):
				return map[string]string{"error": "race: A never reached the clock"}
			}
			atomic.StoreInt64(&cur, in.Arrivals[k+1])
			go func() { rb <- call(k + 1) }()
			gotB := false
			select {
			case resB = <-rb:
				gotB = true
			case <-time.After(20 * time.Millisecond): // B is blocked behind A's lock (the correct outcome)
			}
			if !gotA {
				close(release)
				select {
				case resA = <-ra:
				case <-time.After(20 * time.Second):
					return map[string]string{"error": "race: A did not return"}
				}
			}
			if !gotB {
				select {
				case resB = <-rb:
				case <-time.After(20 * time.Second):
					return map[string]string{"error": "race: B did not return"}
				}
			}
			obs.Res = append(obs.Res, resA, resB)
			k++
			continue
		}
		obs.Res = append(obs.Res, call(k))
	}
	return obs
}

func TestVerifC09(t *testing.T) {
	verifh.Run(t, c09Gen, c09Exec, 0)
}
