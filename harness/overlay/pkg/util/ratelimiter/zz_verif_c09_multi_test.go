package ratelimiter

// Correspondence harness for property C09 (MultiRateLimiter, as used by the MQTT
// proxy with timeout 0). Drives the real MultiRateLimiter under a virtual clock.

import (
	"encoding/json"
	"testing"
	"time"

	"github.com/megaease/easegress/pkg/util/verifh"
)

type c09mInput struct {
	Ls       []int   `json:"Ls"`
	P        int64   `json:"P"`
	T        int64   `json:"T"`
	Arrivals []int64 `json:"arrivals"`
	Counts   [][]int `json:"counts"`
}

type c09mObs struct {
	Res [][3]int64 `json:"res"` // permitted, wait, err
}

func c09mGen(r *verifh.Rand, i int) interface{} {
	unit := int64(r.PickInt(1, 1000, 1000000, 1000000000))
	in := c09mInput{}
	nd := r.PickInt(2, 2, 2, 1, 3)
	mqtt := nd == 2 && r.Bool(2, 3) // [requests, bytes] with T = 0 and counts [1, size]
	for k := 0; k < nd; k++ {
		in.Ls = append(in.Ls, r.PickInt(1, 2, 3, 5, 8, 20))
	}
	p := int64(r.Range(1, 6))
	in.P = p * unit
	if mqtt {
		in.Ls[1] = r.PickInt(1, 4, 10, 16, 50)
	} else {
		in.T = int64(r.PickInt(0, 0, 1, int(p), int(p)-1, 2*int(p), 3*int(p)+1)) * unit
	}
	n := r.Range(1, 60)
	var now int64
	for k := 0; k < n; k++ {
		switch r.Intn(7) {
		case 0, 1, 2:
		case 3:
			now = (now/in.P + int64(r.Range(1, 2))) * in.P
		case 4:
			now = (now/in.P+1)*in.P - 1
		case 5:
			now += in.P*int64(r.Range(2, 9)) + int64(r.Range(0, int(p)))*unit
		default:
			now += int64(r.Range(0, int(p))) * unit
		}
		in.Arrivals = append(in.Arrivals, now)
		c := make([]int, nd)
		for d := range c {
			c[d] = r.PickInt(1, 1, 2, 3, in.Ls[d], in.Ls[d]+1, 0)
		}
		if mqtt {
			c[0] = 1
			c[1] = r.PickInt(1, 2, 3, 7, in.Ls[1]-1, in.Ls[1], in.Ls[1]+5, 40)
			if c[1] < 1 {
				c[1] = 1
			}
		}
		if r.Bool(1, 60) {
			c = c[:len(c)-1] // wrong arity: error path
		}
		in.Counts = append(in.Counts, c)
	}
	return in
}

func c09mExec(raw json.RawMessage) interface{} {
	var in c09mInput
	if err := json.Unmarshal(raw, &in); err != nil {
		return map[string]string{"error": "bad-input"}
	}
	if in.P <= 0 {
		return map[string]string{"error": "bad-input"}
	}
	base := time.Unix(1700000000, 0)
	cur := int64(0)
	old := nowFunc
	defer func() { nowFunc = old }()
	nowFunc = func() time.Time { return base.Add(time.Duration(cur)) }
	rl := NewMulti(NewMultiPolicy(time.Duration(in.T), time.Duration(in.P), append([]int(nil), in.Ls...)))
	obs := c09mObs{Res: make([][3]int64, 0, len(in.Arrivals))}
	for k, a := range in.Arrivals {
		cur = a
		var c []int
		if k < len(in.Counts) {
			c = in.Counts[k]
		}
		ok, d, err := rl.AcquirePermission(c)
		var b, e int64
		if ok {
			b = 1
		}
		if err != nil {
			e = 1
		}
		obs.Res = append(obs.Res, [3]int64{b, int64(d), e})
	}
	return obs
}

func TestVerifC09Multi(t *testing.T) {
	verifh.Run(t, c09mGen, c09mExec, 0)
}
