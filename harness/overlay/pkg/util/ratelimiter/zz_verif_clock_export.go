package ratelimiter

import "time"

// VerifSetNow replaces the package clock. This file is NOT part of the repository: it is added to the
// package through `go test -overlay` only for the C09 `wait` harness, which lives in
// pkg/filters/ratelimiter and needs the util limiter's virtual clock. nil restores time.Now.
func VerifSetNow(f func() time.Time) {
	if f == nil {
		nowFunc = time.Now
		return
	}
	nowFunc = f
}
