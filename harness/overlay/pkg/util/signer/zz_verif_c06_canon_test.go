package signer

// Correspondence harness for property C06, signer part: drives the real
// Sign / Presign / Verify of pkg/util/signer on generated client-side
// requests and reports every intermediate canonical piece, so that the Lean
// model (Model/Signer.lean: sign, presign, verify, canonical request string)
// can be compared with it component by component.

import (
	"bytes"
	"encoding/hex"
	"encoding/json"
	"io"
	"net/http"
	"net/url"
	"sort"
	"strconv"
	"strings"
	"testing"
	"time"
	"unicode/utf8"

	"github.com/megaease/easegress/pkg/util/verifh"
)

type c06cCfg struct {
	Literal     *Literal `json:"literal"`
	Ignored     []string `json:"ignored"`
	ExcludeBody bool     `json:"exclude_body"`
}

type c06cInput struct {
	Cfg      c06cCfg    `json:"cfg"`
	Key      string     `json:"key"`
	Secret   string     `json:"secret"`
	StoreKey string     `json:"store_key"` // what the verifying side knows
	StoreSec string     `json:"store_secret"`
	TimeNS   int64      `json:"time_ns"` // virtual signing time (header mode)
	OffS     int64      `json:"off_s"`   // presign: now + off
	Scopes   []string   `json:"scopes"`
	Presign  bool       `json:"presign"`
	ExpiresS int64      `json:"expires_s"`
	Method   string     `json:"method"`
	URL      string     `json:"url"`
	Host     string     `json:"host"` // overrides req.Host when non-empty
	Headers  [][]string `json:"headers"`
	BodyHex  string     `json:"body_hex"`
	BodyNil  bool       `json:"body_nil"`
	Tamper   string     `json:"tamper"` // what to change before the second Verify: body|method|path|query|header|none
}

type c06cFmt struct {
	Unix int64  `json:"unix_ns"`
	Date string `json:"date"`
	Time string `json:"time"`
}

type c06cParsed struct {
	Method  string     `json:"method"`
	EPath   string     `json:"epath"`
	Opaque  string     `json:"opaque"`
	Host    string     `json:"host"`
	URLHost string     `json:"url_host"`
	Scheme  string     `json:"scheme"`
	Query   [][]string `json:"query"`
	Headers [][]string `json:"headers"`
	// url.ParseQuery(RawQuery) reports an error: some pair (';', bad escape) is not in Query
	QueryErr bool `json:"query_err"`
}

type c06cTime struct {
	S     string `json:"s"`
	OK    bool   `json:"ok"`
	Unix  int64  `json:"unix_ns"`
	Refmt string `json:"refmt"`
	Date  string `json:"date"`
}

type c06cUint struct {
	S  string `json:"s"`
	OK bool   `json:"ok"`
	NS int64  `json:"ns"`
}

type c06cObs struct {
	Err        string       `json:"error,omitempty"`
	Before     *c06cParsed  `json:"before"` // request as the signer received it
	After      *c06cParsed  `json:"after"`  // request after Sign / Presign
	SignTime   int64        `json:"sign_time_ns"`
	Fmt        []c06cFmt    `json:"fmt"`
	Times      []c06cTime   `json:"times"`
	Uints      []c06cUint   `json:"uints"`
	CanonURI   string       `json:"canon_uri"`
	CanonQuery string       `json:"canon_query"`
	CanonHdrs  string       `json:"canon_headers"`
	SignedHdrs string       `json:"signed_headers"`
	BodyHash   string       `json:"body_hash"`
	HCR        string       `json:"hcr"`
	Signature  string       `json:"signature"`
	VerifyNow  int64        `json:"verify_now_ns"`
	VerifyNow2 int64        `json:"verify_now2_ns"`
	VerifyOK   bool         `json:"verify_ok"`
	VerifyErr  string       `json:"verify_err"`
	Tampered   *c06cParsed  `json:"tampered"`
	TamperBody string       `json:"tamper_body_hex"`
	TamperOK   bool         `json:"tamper_ok"`
}

// c06cS makes a Go (byte) string safe for JSON transport: invalid UTF-8 is sent as "\x01hex:<hex>".
func c06cS(s string) string {
	if utf8.ValidString(s) && !strings.HasPrefix(s, "\x01hex:") {
		return s
	}
	return "\x01hex:" + hex.EncodeToString([]byte(s))
}

func c06cSorted(m map[string][]string) [][]string {
	keys := make([]string, 0, len(m))
	for k := range m {
		keys = append(keys, k)
	}
	sort.Strings(keys)
	out := make([][]string, 0, len(keys))
	for _, k := range keys {
		e := []string{c06cS(k)}
		for _, v := range m[k] {
			e = append(e, c06cS(v))
		}
		out = append(out, e)
	}
	return out
}

func c06cParse(r *http.Request) *c06cParsed {
	_, qe := url.ParseQuery(r.URL.RawQuery)
	return &c06cParsed{Method: r.Method, EPath: r.URL.EscapedPath(), Opaque: r.URL.Opaque, Host: c06cS(r.Host), URLHost: c06cS(r.URL.Host),
		Scheme: r.URL.Scheme, Query: c06cSorted(r.URL.Query()), Headers: c06cSorted(r.Header), QueryErr: qe != nil}
}

func c06cErrClass(err error) string {
	if err == nil {
		return ""
	}
	switch s := err.Error(); {
	case s == "signature expired":
		return "expired"
	case s == "access-key-id not found":
		return "unknownKey"
	case s == "signature verification failed":
		return "mismatch"
	case s == "signature timestamp mismatch":
		return "timestampMismatch"
	default:
		return "other"
	}
}

func c06cFresh(r *http.Request, body []byte) *http.Request {
	c := r.Clone(r.Context())
	c.Body = io.NopCloser(bytes.NewReader(body))
	return c
}

func c06cExec(raw json.RawMessage) interface{} {
	var in c06cInput
	if err := json.Unmarshal(raw, &in); err != nil {
		return c06cObs{Err: "bad-input"}
	}
	body, _ := hex.DecodeString(in.BodyHex)
	var rd io.Reader
	if !in.BodyNil {
		rd = bytes.NewReader(body)
	} else {
		body = nil
	}
	req, err := http.NewRequest(in.Method, in.URL, rd)
	if err != nil {
		return c06cObs{Err: "new-request"}
	}
	if in.Host != "" {
		req.Host = in.Host
	}
	for _, h := range in.Headers {
		if len(h) >= 2 {
			req.Header.Add(h[0], h[1])
		}
	}
	obs := c06cObs{Before: c06cParse(req)}

	spec := &Spec{Literal: in.Cfg.Literal, IgnoredHeaders: in.Cfg.Ignored, ExcludeBody: in.Cfg.ExcludeBody,
		AccessKeyID: in.Key, AccessKeySecret: in.Secret, AccessKeys: map[string]string{in.StoreKey: in.StoreSec}}
	s := CreateFromSpec(spec)
	lit := s.literal

	st := time.Unix(0, in.TimeNS)
	if in.Presign {
		st = time.Now().Add(time.Duration(in.OffS) * time.Second)
	}
	obs.SignTime = st.UnixNano()
	ctx := s.NewContext(st, in.Scopes...)
	if in.Presign {
		err = ctx.Presign(req, time.Duration(in.ExpiresS)*time.Second)
	} else {
		err = ctx.Sign(req)
	}
	if err != nil {
		obs.Err = "sign-error"
		return obs
	}
	obs.After = c06cParse(req)
	obs.CanonURI = buildCanonicalURI(req.URL)
	obs.CanonQuery = ctx.getCanonicalQuery(req.URL)
	obs.CanonHdrs, obs.SignedHdrs, obs.BodyHash, obs.Signature = c06cS(ctx.CanonicalHeaders), c06cS(ctx.SignedHeaders), c06cS(ctx.BodyHash), ctx.Signature
	obs.HCR = ctx.hashCanonicalRequest(req)

	// clock oracles (standard library only)
	tr := st.UTC().Truncate(time.Second)
	for _, t := range []time.Time{st.UTC(), tr} {
		obs.Fmt = append(obs.Fmt, c06cFmt{Unix: t.UnixNano(), Date: t.Format("20060102"), Time: t.Format("20060102T150405Z")})
	}
	q := req.URL.Query()
	for _, v := range []string{req.Header.Get(lit.Date), q.Get(lit.Date)} {
		o := c06cTime{S: c06cS(v)}
		if t, err := time.ParseInLocation("20060102T150405Z", v, time.UTC); err == nil {
			o.OK, o.Unix, o.Refmt, o.Date = true, t.UnixNano(), t.Format("20060102T150405Z"), t.Format("20060102")
		}
		obs.Times = append(obs.Times, o)
	}
	ev := q.Get(lit.Expires)
	uo := c06cUint{S: c06cS(ev)}
	if v, err := strconv.ParseUint(ev, 0, 64); err == nil {
		uo.OK, uo.NS = true, int64(time.Duration(v)*time.Second)
	}
	obs.Uints = append(obs.Uints, uo)

	// Verify as a server would: a fresh request with the same line, headers and body
	obs.VerifyNow = time.Now().UnixNano()
	verr := s.Verify(c06cFresh(req, body))
	obs.VerifyNow2 = time.Now().UnixNano()
	obs.VerifyOK, obs.VerifyErr = verr == nil, c06cErrClass(verr)

	// one tampering, signature kept
	t2 := c06cFresh(req, body)
	tb := body
	switch in.Tamper {
	case "body":
		tb = append(append([]byte(nil), body...), 'x')
		t2 = c06cFresh(req, tb)
	case "method":
		if t2.Method == "GET" {
			t2.Method = "POST"
		} else {
			t2.Method = "GET"
		}
	case "path":
		u := *t2.URL
		u.Path, u.RawPath = u.Path+"x", ""
		t2.URL = &u
	case "query":
		u := *t2.URL
		if u.RawQuery == "" {
			u.RawQuery = "zz=1"
		} else {
			u.RawQuery += "&zz=1"
		}
		t2.URL = &u
	case "query-unparsed": // pairs that url.Query() drops: they must not ride along unsigned
		u := *t2.URL
		if u.RawQuery == "" {
			u.RawQuery = "zz=1;y=2"
		} else {
			u.RawQuery += "&zz=1;y=%zz"
		}
		t2.URL = &u
	case "header":
		for k := range t2.Header {
			if k != "Authorization" && !s.ignoredHeaders[k] {
				t2.Header[k] = append([]string{"tampered"}, t2.Header[k]...)
				break
			}
		}
	case "unsigned-header":
		t2.Header.Set("X-Added-Later", "v")
	}
	obs.Tampered = c06cParse(t2)
	obs.TamperBody = hex.EncodeToString(tb)
	obs.TamperOK = s.Verify(t2) == nil
	return obs
}

var (
	c06cURLs = []string{"http://a.com/", "http://a.com", "https://a.com:443/a/b", "http://a.com:80/a%20b", "http://a.com:8080/a+b?x=1",
		"https://a.com:80/~u/-._?x=1&y=2", "http://A.com/%E4%BD%A0?y=2&x=1", "http://a.com/你好?x=2&x=1", "http://[::1]:80/a//b?x=a%20b",
		"http://[::1]/a;b=c?x=a+b", "http://a.com:/a:b@c?x", "https://a.com/a$&'()*,=!?x=&y", "http://a.com/a%2Fb?%E4=%BD", "http://a.com/p?a=b=c&&k=v",
		"HTTP://a.com:80/x?X-Me-Date=junk&x=1", "http://a.com/q?x=1&X-Me-Signature=abc", "/relative/path?x=1", "http://a.com/%zz"}
	c06cNames = []string{"X-A", "X-B", "Content-Type", "Accept", "X-Me-Extra", "User-Agent", "x-lower", "X-A", "X-Me-Content-Sha256", "X-Me-Date"}
	c06cVals  = []string{"a", "b", "a  b", " a ", "a,b", "你好", "", "a\tb", "  ", "a   b  c ", "1"}
)

func c06cGen(r *verifh.Rand, i int) interface{} {
	in := c06cInput{Key: "AKID", Secret: "SECRET", StoreKey: "AKID", StoreSec: "SECRET"}
	in.Method = r.Pick("GET", "POST", "PUT", "DELETE")
	in.URL = r.Pick(c06cURLs...)
	if r.Bool(1, 6) {
		in.Host = r.Pick("b.com", "b.com:80", "b.com:443", "[::2]:8080")
	}
	n := r.Intn(5)
	for k := 0; k < n; k++ {
		in.Headers = append(in.Headers, []string{r.Pick(c06cNames...), r.Pick(c06cVals...)})
	}
	switch r.Intn(6) {
	case 0:
		in.BodyNil = true
	case 1:
	case 2:
		m := r.PickInt(55, 56, 63, 64, 65, 119, 120)
		b := make([]byte, m)
		for k := range b {
			b[k] = byte(r.Intn(256))
		}
		in.BodyHex = hex.EncodeToString(b)
	default:
		in.BodyHex = hex.EncodeToString([]byte(r.Pick("a", "hello world", "{\"k\":1}", "\x00\xff")))
	}
	in.Cfg.ExcludeBody = r.Bool(1, 7)
	if r.Bool(1, 4) {
		in.Cfg.Ignored = []string{r.Pick("X-B", "X-A", "Accept")}
	}
	if r.Bool(1, 6) {
		in.Cfg.Literal = &Literal{ScopeSuffix: r.Pick("aws4_request", "req"), AlgorithmName: "X-Amz-Algorithm", AlgorithmValue: r.Pick("AWS4-HMAC-SHA256", "HS"),
			SignedHeaders: "X-Amz-SignedHeaders", Signature: "X-Amz-Signature", Date: "X-Amz-Date", Expires: "X-Amz-Expires",
			Credential: "X-Amz-Credential", ContentSHA256: "X-Amz-Content-Sha256", SigningKeyPrefix: r.Pick("AWS4", "", "ME")}
	}
	switch r.Intn(4) {
	case 0:
		in.Scopes = []string{"us-east-1"}
	case 1:
		in.Scopes = []string{"a", "b"}
	case 2:
		in.Scopes = []string{"eu", "svc", "x"}
	}
	in.TimeNS = int64(1500000000+r.Intn(300000000))*1000000000 + int64(r.PickInt(0, 0, 1, 999999999, 500000000))
	if r.Bool(1, 4) {
		in.Presign = true
		in.OffS = int64(r.PickInt(0, -5, -5, 5))
		in.ExpiresS = int64(r.PickInt(3600, 3600, 1, 60))
	}
	if r.Bool(1, 10) {
		in.StoreKey = r.Pick("OTHER", "akid")
		if r.Bool(1, 2) {
			in.Secret = "" // unknown key id signed with the empty secret
		}
	} else if r.Bool(1, 10) {
		in.StoreSec = r.Pick("SECRE", "secret", "")
	}
	in.Tamper = r.Pick("body", "body", "method", "path", "query", "query-unparsed", "header", "unsigned-header", "none")
	return in
}

func TestVerifC06Canon(t *testing.T) {
	verifh.Run(t, c06cGen, c06cExec, 0)
}
