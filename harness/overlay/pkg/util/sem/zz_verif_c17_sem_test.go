package sem

// Correspondence harness for property C17, Semaphore alone. Injected with
// `go test -overlay`.
//
// A case is a sequence of operations on one real Semaphore:
//
//	acq        a new goroutine calls AcquireWithContext (ids 0,1,2… in order of issue)
//	rel k      Release() on behalf of acquisition k (only if k has been granted and not released)
//	set n      SetMaxCount(n): bookkeeping now, the adjustment in its own goroutine
//
// After every operation that is not marked "race" the harness waits until every
// goroutine it started (or SetMaxCount started) has either finished or is parked
// in Weighted.Acquire's select (found in the goroutine dump - no sleeps, no model),
// then records: which acquisitions have been granted, which SetMaxCount
// adjustments are done, and - read from the x/sync Weighted by reflection under
// its mutex - `cur` and the weights of the queued waiters in FIFO order.
// Operations marked "race" are followed immediately by the next one, so the
// asynchronous parts genuinely race; the judge accepts any interleaving.

import (
	"context"
	"encoding/json"
	"os"
	"os/exec"
	"reflect"
	"runtime"
	"sort"
	"strings"
	"sync"
	"testing"
	"time"
	"unsafe"

	"github.com/megaease/easegress/pkg/util/verifh"
)

type c17sOp struct {
	Op   string `json:"op"`
	K    int    `json:"k,omitempty"`
	N    int64  `json:"n,omitempty"`
	Race bool   `json:"race,omitempty"`
}

type c17sInput struct {
	Cap0 uint32   `json:"cap0"`
	Ops  []c17sOp `json:"ops"`
	// Child: the history is executed sequentially (each operation settled by a pause) in a child process
	// and only "did the process die, with which panic" is observed: histories on which the code under test
	// may panic in one of its own goroutines (which no recover() in the harness can contain).
	Child bool `json:"child,omitempty"`
}

// c17sChild runs in the child process (TestVerifC17SemChild).
func c17sChild(in c17sInput) {
	s := NewSem(in.Cap0)
	for _, op := range in.Ops {
		switch op.Op {
		case "acq":
			go s.Acquire()
		case "set":
			s.SetMaxCount(op.N)
		}
		// ("rel" is not executed here: releasing without a granted unit would be the harness' own panic)
		time.Sleep(30 * time.Millisecond)
	}
	time.Sleep(100 * time.Millisecond)
}

func c17sExecChild(raw json.RawMessage) interface{} {
	cmd := exec.Command(os.Args[0], "-test.run", "^TestVerifC17SemChild$", "-test.count=1")
	cmd.Env = append(os.Environ(), "VERIF_C17_CHILD_IN="+string(raw))
	done := make(chan struct{})
	var out []byte
	var err error
	go func() { out, err = cmd.CombinedOutput(); close(done) }()
	select {
	case <-done:
	case <-time.After(120 * time.Second):
		if cmd.Process != nil {
			cmd.Process.Kill()
		}
		<-done
		return map[string]interface{}{"child": map[string]interface{}{"inconclusive": "timeout"}}
	}
	res := map[string]interface{}{"died": err != nil, "panic": ""}
	text := string(out)
	if i := strings.Index(text, "panic: "); i >= 0 {
		msg := text[i+len("panic: "):]
		if j := strings.IndexByte(msg, '\n'); j >= 0 {
			msg = msg[:j]
		}
		res["panic"] = strings.TrimSpace(msg)
	} else if err != nil && !strings.Contains(text, "CHILD-DONE") {
		res["inconclusive"] = "child failed without a panic message"
	}
	return map[string]interface{}{"child": res}
}

func TestVerifC17SemChild(t *testing.T) {
	raw := os.Getenv("VERIF_C17_CHILD_IN")
	if raw == "" {
		return
	}
	var in c17sInput
	if err := json.Unmarshal([]byte(raw), &in); err != nil {
		t.Fatalf("bad input")
	}
	c17sChild(in)
	os.Stdout.WriteString("CHILD-DONE\n")
}

type c17sSnap struct {
	After   int     `json:"after"`   // index of the last executed op
	Granted []int   `json:"granted"` // acquisition ids granted so far
	SetDone []int   `json:"setDone"` // SetMaxCount calls (in order of issue) whose done channel is closed
	Cur     int64   `json:"cur"`
	Waiters []int64 `json:"waiters"`
	Skipped []int   `json:"skipped"` // ops skipped since the previous snapshot (invalid rel)
	Settled bool    `json:"settled"`
}

type c17sObs struct {
	Snaps []c17sSnap `json:"snaps"`
}

// c17sSettled reports whether no goroutine running Semaphore code is runnable:
// each one is parked in the select of Weighted.Acquire.
func c17sSettled() bool {
	buf := make([]byte, 1<<16)
	for {
		n := runtime.Stack(buf, true)
		if n < len(buf) {
			buf = buf[:n]
			break
		}
		buf = make([]byte, 2*len(buf))
	}
	for _, g := range strings.Split(string(buf), "\n\n") {
		if !strings.Contains(g, "pkg/util/sem.(*Semaphore)") && !strings.Contains(g, "pkg/util/sem.c17sExec.func") {
			continue
		}
		if strings.Contains(g, "c17sSettled") { // this goroutine
			continue
		}
		hdr := g
		if i := strings.Index(g, "\n"); i >= 0 {
			hdr = g[:i]
		}
		// parked in the select of Weighted.Acquire, or (a weight larger than the semaphore's size: doomed)
		// in its `<-ctx.Done()`
		if !(strings.Contains(hdr, "[select") || strings.Contains(hdr, "[chan receive")) || !strings.Contains(g, "semaphore.(*Weighted).Acquire") {
			return false
		}
	}
	return true
}

func c17sWaitSettled() bool {
	deadline := time.Now().Add(40 * time.Second)
	for i := 0; ; i++ {
		runtime.Gosched()
		if c17sSettled() {
			return true
		}
		if time.Now().After(deadline) {
			return false
		}
		if i > 20 {
			time.Sleep(100 * time.Microsecond)
		}
	}
}

// c17sPeek reads cur and the queued weights of the x/sync Weighted under its mutex.
func c17sPeek(s *Semaphore) (int64, []int64) {
	v := reflect.ValueOf(s.sem).Elem()
	mu := (*sync.Mutex)(unsafe.Pointer(v.FieldByName("mu").UnsafeAddr()))
	mu.Lock()
	defer mu.Unlock()
	cur := v.FieldByName("cur").Int()
	ws := []int64{}
	lst := v.FieldByName("waiters")
	n := int(lst.FieldByName("len").Int())
	e := lst.FieldByName("root").FieldByName("next")
	for i := 0; i < n && !e.IsNil(); i++ {
		el := e.Elem()
		ws = append(ws, el.FieldByName("Value").Elem().FieldByName("n").Int())
		e = el.FieldByName("next")
	}
	return cur, ws
}

func c17sExec(raw json.RawMessage) interface{} {
	var in c17sInput
	if err := json.Unmarshal(raw, &in); err != nil {
		return map[string]string{"error": "bad-input"}
	}
	if in.Cap0 > 1000 {
		in.Cap0 = 1000
	}
	if in.Child {
		return c17sExecChild(raw)
	}
	s := NewSem(in.Cap0)
	ctx, cancel := context.WithCancel(context.Background())
	var mu sync.Mutex
	granted := map[int]bool{}
	released := map[int]bool{}
	var dones []chan struct{}
	nextID := 0
	obs := c17sObs{Snaps: []c17sSnap{}}
	skipped := []int{}
	observe := func() c17sSnap {
		ok := c17sWaitSettled()
		sn := c17sSnap{Granted: []int{}, SetDone: []int{}, Settled: ok}
		mu.Lock()
		for k := range granted {
			sn.Granted = append(sn.Granted, k)
		}
		mu.Unlock()
		sort.Ints(sn.Granted)
		for i, d := range dones {
			select {
			case <-d:
				sn.SetDone = append(sn.SetDone, i)
			default:
			}
		}
		sn.Cur, sn.Waiters = c17sPeek(s)
		return sn
	}
	snap := func(after int) {
		// a snapshot is taken only when two consecutive observations (each after its own settling
		// scan) are identical: nothing moved between the goroutine dump and the reads
		sn := observe()
		for tries := 0; tries < 200; tries++ {
			again := observe()
			same := reflect.DeepEqual(sn, again)
			sn = again
			if same || !sn.Settled {
				break
			}
		}
		sn.After, sn.Skipped = after, skipped
		skipped = []int{}
		obs.Snaps = append(obs.Snaps, sn)
	}
	bigSeen := false
	lastSet := int64(in.Cap0)
	quietNow := func() bool { // every SetMaxCount so far has completed
		for _, d := range dones {
			select {
			case <-d:
			default:
				return false
			}
		}
		return true
	}
	for i, op := range in.Ops {
		switch op.Op {
		case "acq":
			id := nextID
			nextID++
			go func() {
				if s.AcquireWithContext(ctx) == nil {
					mu.Lock()
					granted[id] = true
					mu.Unlock()
				}
			}()
		case "rel":
			mu.Lock()
			ok := granted[op.K] && !released[op.K]
			if ok {
				released[op.K] = true
			}
			mu.Unlock()
			if ok {
				s.Release()
			} else {
				skipped = append(skipped, i)
			}
		case "set":
			// Capacities near maxCapacity: with the carved-out capacity close to the semaphore's size, a grow
			// executed while a shrink is pending or parked would make Weighted.Release panic ("released more
			// than held"; outside the modelled range, see notes/C17.md). Such a set, and every set after it,
			// runs only between settled snapshots, and after it only shrinks are executed.
			prevRace := i > 0 && in.Ops[i-1].Race
			switch {
			case op.N < 0 || (op.N > 1000 && !c17IsBig(op.N)):
				skipped = append(skipped, i)
			case (c17IsBig(op.N) || bigSeen) && (op.Race || prevRace || !quietNow()):
				skipped = append(skipped, i)
			case bigSeen && op.N > lastSet:
				skipped = append(skipped, i)
			default:
				if c17IsBig(op.N) {
					bigSeen = true
				}
				lastSet = op.N
				dones = append(dones, s.SetMaxCount(op.N))
			}
		default:
			skipped = append(skipped, i)
		}
		if !op.Race || i == len(in.Ops)-1 {
			snap(i)
		}
	}
	if len(in.Ops) == 0 {
		snap(-1)
	}
	// let every parked unit acquirer go (blocked adjustments stay parked: they use
	// context.Background() in the code under test)
	cancel()
	// un-park the leaked adjustment goroutines so that they do not pile up over the run
	if bigSeen {
		// no grow-based un-parking next to maxCapacity (see the "set" case): give the held units back instead,
		// a parked shrink is then granted and its goroutine ends
		mu.Lock()
		var held []int
		for k := range granted {
			if !released[k] {
				released[k] = true
				held = append(held, k)
			}
		}
		mu.Unlock()
		for range held {
			s.Release()
		}
		c17sWaitSettled()
	}
	for i := 0; i < 64 && !bigSeen; i++ {
		c17sWaitSettled()
		_, ws := c17sPeek(s)
		if len(ws) == 0 {
			break
		}
		if ws[0] > 1 || i > 8 {
			s.sem.Release(ws[0])
		}
	}
	return obs
}


// capacities at and beyond maxCapacity (20 000 000): the clamp of SetMaxCount
var c17BigCaps = []int64{19999999, 20000000, 20000001, 25000000, 4294967295}

func c17IsBig(n int64) bool {
	for _, b := range c17BigCaps {
		if n == b {
			return true
		}
	}
	return false
}

// c17sGenBig: grow to a capacity at / beyond maxCapacity, then shrink below usage, then releases and
// acquisitions (no further set: see c17sExec)
func c17sGenBig(r *verifh.Rand) interface{} {
	in := c17sInput{Cap0: uint32(r.PickInt(1, 2, 3))}
	acq := 0
	for k := r.Range(0, 3); k > 0; k-- {
		in.Ops = append(in.Ops, c17sOp{Op: "acq"})
		acq++
	}
	in.Ops = append(in.Ops, c17sOp{Op: "set", N: c17BigCaps[r.Intn(len(c17BigCaps))]})
	for k := r.Range(1, 5); k > 0; k-- {
		in.Ops = append(in.Ops, c17sOp{Op: "acq"})
		acq++
	}
	in.Ops = append(in.Ops, c17sOp{Op: "set", N: int64(r.Range(0, 3))})
	for k := r.Range(2, 10); k > 0; k-- {
		if r.Intn(2) == 0 {
			in.Ops = append(in.Ops, c17sOp{Op: "acq"})
			acq++
		} else {
			in.Ops = append(in.Ops, c17sOp{Op: "rel", K: r.Intn(acq)})
		}
	}
	return in
}

// c17sGenChild: capacity at / beyond maxCapacity, k units in use, a shrink below usage (parks), then a grow:
// `Release(n - old)` with only `k` units held by the weighted semaphore. Executed in a child process.
func c17sGenChild(r *verifh.Rand) interface{} {
	in := c17sInput{Cap0: uint32(r.PickInt(1, 2, 3)), Child: true}
	in.Ops = append(in.Ops, c17sOp{Op: "set", N: c17BigCaps[r.Intn(len(c17BigCaps))]})
	k := r.Range(1, 4)
	for j := 0; j < k; j++ {
		in.Ops = append(in.Ops, c17sOp{Op: "acq"})
	}
	small := int64(r.Range(0, k)) // ≤ k: parks iff small < k
	in.Ops = append(in.Ops, c17sOp{Op: "set", N: small})
	in.Ops = append(in.Ops, c17sOp{Op: "set", N: small + int64(r.Range(1, 9))})
	return in
}

func c17sGen(r *verifh.Rand, i int) interface{} {
	if r.Intn(400) == 0 {
		return c17sGenChild(r)
	}
	if r.Intn(15) == 0 {
		return c17sGenBig(r)
	}
	in := c17sInput{Cap0: uint32(r.PickInt(0, 1, 1, 2, 2, 3, 4, 5))}
	n := r.Range(4, 30)
	acq := 0
	capNow := int64(in.Cap0)
	raceBias := r.PickInt(0, 0, 2, 5) // probability/10 of leaving an op unsettled
	for len(in.Ops) < n {
		var op c17sOp
		switch r.Intn(10) {
		case 0, 1, 2, 3:
			op = c17sOp{Op: "acq"}
			acq++
		case 4, 5, 6:
			if acq == 0 {
				continue
			}
			op = c17sOp{Op: "rel", K: r.Intn(acq)}
		case 7: // shrink, often below current usage
			op = c17sOp{Op: "set", N: int64(r.Range(0, int(capNow)))}
			capNow = op.N
		case 8: // grow
			op = c17sOp{Op: "set", N: capNow + int64(r.Range(0, 3))}
			capNow = op.N
		default: // repeated / arbitrary
			op = c17sOp{Op: "set", N: int64(r.PickInt(0, 1, 2, 3, 5, 8))}
			capNow = op.N
		}
		op.Race = r.Intn(10) < raceBias
		if k := len(in.Ops); k >= 3 && in.Ops[k-1].Race && in.Ops[k-2].Race && in.Ops[k-3].Race {
			op.Race = false // at most four operations race at a time (the judge explores every order)
		}
		if op.Op == "acq" {
			// one acquisition per racing group: queued unit waiters carry no identity in the
			// weighted semaphore, so their relative order could not be observed
			for k := len(in.Ops) - 1; k >= 0 && in.Ops[k].Race; k-- {
				if in.Ops[k].Op == "acq" {
					in.Ops[len(in.Ops)-1].Race = false
					break
				}
			}
		}
		if op.Op == "rel" && len(in.Ops) > 0 {
			// whether its target exists must not depend on a race
			in.Ops[len(in.Ops)-1].Race = false
		}
		in.Ops = append(in.Ops, op)
	}
	return in
}

func TestVerifC17Sem(t *testing.T) {
	verifh.Run(t, c17sGen, c17sExec, 180*time.Second)
}
