package ipfilter

// Correspondence harness for property C05 (package level): New(spec).Allow(ip)
// against the Lean model and against net.IPNet.Contains (the reference the
// property names). Injected with `go test -overlay`.

import (
	"encoding/json"
	"fmt"
	"net"
	"strings"
	"testing"

	"github.com/megaease/easegress/pkg/logger"
	"github.com/megaease/easegress/pkg/util/verifh"
)

type c05Input struct {
	BlockByDefault bool     `json:"blockByDefault"`
	AllowIPs       []string `json:"allowIPs"`
	BlockIPs       []string `json:"blockIPs"`
	IPs            []string `json:"ips"`
}

type c05Addr struct {
	K    string `json:"k,omitempty"`
	Fam  int    `json:"fam"`
	B    []int  `json:"b"`
	Ones int    `json:"ones"`
	Bits int    `json:"bits"`
}

type c05FilterData struct {
	BBD   bool      `json:"bbd"`
	Allow []c05Addr `json:"allow"`
	Block []c05Addr `json:"block"`
}

type c05Obs struct {
	Filter    c05FilterData `json:"filter"`
	IPs       []*c05Addr    `json:"ips"`
	Res       []bool        `json:"res"`
	Std       [][2]bool     `json:"std"`
	HasMapped bool          `json:"hasMapped"`
}

func c05Bytes(b []byte) []int {
	out := make([]int, len(b))
	for i, x := range b {
		out[i] = int(x)
	}
	return out
}

func c05AddrOf(ip net.IP) *c05Addr {
	if ip == nil {
		return nil
	}
	if v4 := ip.To4(); v4 != nil {
		return &c05Addr{Fam: 4, B: c05Bytes(v4)}
	}
	if v6 := ip.To16(); v6 != nil {
		return &c05Addr{Fam: 6, B: c05Bytes(v6)}
	}
	return nil
}

// c05Std parses an entry into the network the standard library says it denotes
// (a literal is the full-length network of its own family).
func c05Std(s string) *net.IPNet {
	if ip := net.ParseIP(s); ip != nil {
		if ip.To4() != nil {
			return &net.IPNet{IP: ip.To4(), Mask: net.CIDRMask(32, 32)}
		}
		return &net.IPNet{IP: ip, Mask: net.CIDRMask(128, 128)}
	}
	if _, n, err := net.ParseCIDR(s); err == nil {
		return n
	}
	return nil
}

func c05Raw(s string) (c05Addr, bool) {
	if ip := net.ParseIP(s); ip != nil {
		a := c05AddrOf(ip)
		a.K = "ip"
		return *a, a.Fam == 4 && strings.Contains(s, ":")
	}
	if _, n, err := net.ParseCIDR(s); err == nil {
		if a := c05AddrOf(n.IP); a != nil {
			a.K = "cidr"
			a.Ones, a.Bits = n.Mask.Size()
			return *a, a.Fam == 4 && a.Bits == 128
		}
	}
	return c05Addr{K: "bad", B: []int{}}, false
}

func c05Exec(raw json.RawMessage) interface{} {
	var in c05Input
	if err := json.Unmarshal(raw, &in); err != nil {
		return map[string]string{"error": "bad-input"}
	}
	obs := c05Obs{Filter: c05FilterData{BBD: in.BlockByDefault, Allow: []c05Addr{}, Block: []c05Addr{}},
		IPs: []*c05Addr{}, Res: []bool{}, Std: [][2]bool{}}
	var aNets, bNets []*net.IPNet
	for _, s := range in.AllowIPs {
		a, m := c05Raw(s)
		obs.Filter.Allow = append(obs.Filter.Allow, a)
		obs.HasMapped = obs.HasMapped || m
		if n := c05Std(s); n != nil {
			aNets = append(aNets, n)
		}
	}
	for _, s := range in.BlockIPs {
		a, m := c05Raw(s)
		obs.Filter.Block = append(obs.Filter.Block, a)
		obs.HasMapped = obs.HasMapped || m
		if n := c05Std(s); n != nil {
			bNets = append(bNets, n)
		}
	}
	f := New(&Spec{BlockByDefault: in.BlockByDefault, AllowIPs: in.AllowIPs, BlockIPs: in.BlockIPs})
	for _, s := range in.IPs {
		ip := net.ParseIP(s)
		obs.IPs = append(obs.IPs, c05AddrOf(ip))
		obs.Res = append(obs.Res, f.Allow(s))
		var st [2]bool
		if ip != nil {
			for _, n := range aNets {
				st[0] = st[0] || n.Contains(ip)
			}
			for _, n := range bNets {
				st[1] = st[1] || n.Contains(ip)
			}
		}
		obs.Std = append(obs.Std, st)
	}
	return obs
}

// ---------------------------------------------------------------- generator

func c05RandIP(r *verifh.Rand, v6 bool) net.IP {
	n := 4
	if v6 {
		n = 16
	}
	b := make(net.IP, n)
	for i := range b {
		b[i] = byte(r.PickInt(0, 0, 1, 127, 128, 255, r.Intn(256)))
	}
	if v6 && r.Bool(1, 2) {
		copy(b, []byte{0x20, 0x01, 0x0d, 0xb8})
	}
	if !v6 && r.Bool(1, 2) {
		b[0], b[1] = 10, 1
	}
	return b
}

// c05Flip returns ip with bit i (0 = most significant) inverted.
func c05Flip(ip net.IP, i int) net.IP {
	out := append(net.IP(nil), ip...)
	if i >= 0 && i < len(out)*8 {
		out[i/8] ^= 0x80 >> uint(i%8)
	}
	return out
}

func c05Lit(r *verifh.Rand, ip net.IP) string {
	if len(ip) == 4 && r.Bool(1, 10) {
		return "::ffff:" + ip.String() // IPv4-mapped spelling of the same address
	}
	return ip.String()
}

func c05Gen(r *verifh.Rand, i int) interface{} {
	in := c05Input{BlockByDefault: r.Bool(1, 2), AllowIPs: []string{}, BlockIPs: []string{}, IPs: []string{}}
	mapped := r.Bool(1, 8)
	base := []net.IP{c05RandIP(r, false), c05RandIP(r, true)}
	add := func(list *[]string, s string) {
		for _, x := range *list {
			if x == s {
				return
			}
		}
		*list = append(*list, s)
	}
	ne := r.Range(1, 6)
	for k := 0; k < ne; k++ {
		v6 := r.Bool(1, 3)
		var ip net.IP
		if r.Bool(2, 3) {
			ip = append(net.IP(nil), base[map[bool]int{false: 0, true: 1}[v6]]...)
			if r.Bool(1, 2) { // a neighbour of the base address
				ip = c05Flip(ip, r.Range(len(ip)*8-6, len(ip)*8-1))
			}
		} else {
			ip = c05RandIP(r, v6)
		}
		bits := len(ip) * 8
		var s string
		switch r.Intn(5) {
		case 0: // single address
			s = ip.String()
			if mapped && !v6 {
				s = "::ffff:" + s
			}
		default:
			l := r.PickInt(0, 1, 7, 8, 9, bits/2, bits-9, bits-8, bits-7, bits-2, bits-1, bits, r.Range(0, bits))
			if l < 0 {
				l = 0
			}
			s = fmt.Sprintf("%s/%d", ip.String(), l)
			if mapped && !v6 {
				s = fmt.Sprintf("::ffff:%s/%d", ip.String(), 96+l)
			}
		}
		switch r.Intn(5) {
		case 0, 1:
			add(&in.AllowIPs, s)
		case 2, 3:
			add(&in.BlockIPs, s)
		default: // overlapping: in both lists
			add(&in.AllowIPs, s)
			add(&in.BlockIPs, s)
		}
	}
	if r.Bool(1, 25) {
		add(&in.BlockIPs, r.Pick("bogus", "1.2.3.4/33", "1.2.3", "::1/129", ""))
	}
	// client addresses: at the prefix boundaries of every entry, plus noise
	for _, s := range append(append([]string{}, in.AllowIPs...), in.BlockIPs...) {
		n := c05Std(s)
		if n == nil {
			continue
		}
		ones, _ := n.Mask.Size()
		ip := n.IP
		if v4 := ip.To4(); v4 != nil {
			ip = v4
			if ones > 32 {
				ones -= 96
			}
		}
		in.IPs = append(in.IPs, c05Lit(r, ip))                        // network address
		in.IPs = append(in.IPs, c05Lit(r, c05Flip(ip, ones-1)))       // last prefix bit flipped: outside
		in.IPs = append(in.IPs, c05Lit(r, c05Flip(ip, ones)))         // first host bit flipped: inside
		in.IPs = append(in.IPs, c05Lit(r, c05Flip(ip, len(ip)*8-1)))  // last bit flipped
		if r.Bool(1, 3) {
			in.IPs = append(in.IPs, c05Lit(r, c05Flip(ip, r.Range(0, len(ip)*8-1))))
		}
	}
	in.IPs = append(in.IPs, c05RandIP(r, false).String(), c05RandIP(r, true).String())
	if r.Bool(1, 4) {
		in.IPs = append(in.IPs, r.Pick("", "bogus", "1.2.3", "1.2.3.4:80", "[::1]", "fe80::1%eth0", "1.2.3.4 ", "01.2.3.4"))
	}
	return in
}

func init() { logger.InitNop() }

func TestVerifC05(t *testing.T) { verifh.Run(t, c05Gen, c05Exec, 0) }
