package circuitbreaker

// Correspondence harness for property C08 (circuit breaker core). Injected with
// `go test -overlay`; drives the real CircuitBreaker under a virtual clock
// (package variable nowFunc) through histories of acquire / record / advance.

import (
	"encoding/json"
	"sync/atomic"
	"testing"
	"time"

	"github.com/megaease/easegress/pkg/util/verifh"
)

type c08Policy struct {
	FailTh      int   `json:"failTh"`
	SlowTh      int   `json:"slowTh"`
	TimeBased   int   `json:"timeBased"`
	Size        int   `json:"size"`
	Permitted   int   `json:"permitted"`
	MinCalls    int   `json:"minCalls"`
	SlowDur     int64 `json:"slowDur"`
	MaxWaitHalf int64 `json:"maxWaitHalf"`
	WaitOpen    int64 `json:"waitOpen"`
}

type c08Input struct {
	Policy c08Policy `json:"policy"`
	T0     int64     `json:"t0"`  // ns after a whole second at which the breaker is created
	Ops    [][]int64 `json:"ops"` // [0] acquire | [1, ref, hasErr, d] record | [2, d] advance
	// Race (0 = none; count-based policies, ops[Race-1] = B and ops[Race] = A both records): B runs in a
	// goroutine whose first clock read (transitTo, inside the critical section) is a schedule point: the
	// stub blocks it there while A is started in a second goroutine; after 20 ms B is released. B holds
	// the lock, so A can only run after B's transition (its state id is then stale: A changes nothing)
	// and the outcome is that of the sequential history in input order — that is what is judged; both
	// steps report the state after both calls. If B does not transition the two run one after the other.
	Race int `json:"race,omitempty"`
}

type c08Obs struct {
	Steps [][4]int64 `json:"steps"` // per op: permitted, id, State(), window.Total()
}

const c08Sec = int64(time.Second)

var c08Base = time.Unix(1700000000, 0)

func (p c08Policy) policy() *Policy {
	wt := uint8(CountBased)
	if p.TimeBased != 0 {
		wt = TimeBased
	}
	return NewPolicy(uint8(p.FailTh), uint8(p.SlowTh), wt, uint32(p.Size), uint32(p.Permitted), uint32(p.MinCalls),
		time.Duration(p.SlowDur), time.Duration(p.MaxWaitHalf), time.Duration(p.WaitOpen))
}

func c08At(op []int64, i int) int64 {
	if i < len(op) {
		return op[i]
	}
	return 0
}

// c08Driver executes ops one at a time on the real breaker.
type c08Driver struct {
	cb  *CircuitBreaker
	cur int64
	log []struct {
		ok bool
		id uint32
	}
}

func newC08Driver(p c08Policy, t0 int64, cur *int64) *c08Driver {
	*cur = t0
	return &c08Driver{cb: New(p.policy()), cur: t0}
}

func (d *c08Driver) step(op []int64, cur *int64) [4]int64 {
	var permitted, id int64
	entry := struct {
		ok bool
		id uint32
	}{}
	switch c08At(op, 0) {
	case 0:
		ok, sid := d.cb.AcquirePermission()
		if ok {
			permitted = 1
		}
		id = int64(sid)
		entry.ok, entry.id = ok, sid
	case 1:
		ref := c08At(op, 1)
		if ref >= 0 && ref < int64(len(d.log)) && d.log[ref].ok {
			d.cb.RecordResult(d.log[ref].id, c08At(op, 2) != 0, time.Duration(c08At(op, 3)))
		}
	case 2:
		if a := c08At(op, 1); a > 0 {
			*cur += a
		}
	}
	d.log = append(d.log, entry)
	return [4]int64{permitted, id, int64(d.cb.State()), int64(d.cb.window.Total())}
}

func c08SafeStep(d *c08Driver, op []int64, cur *int64) (res [4]int64, ok bool) {
	defer func() {
		if recover() != nil {
			ok = false
		}
	}()
	return d.step(op, cur), true
}

func c08GenPolicy(r *verifh.Rand) c08Policy {
	p := c08Policy{}
	th := func() int {
		switch r.Intn(4) {
		case 0:
			return r.PickInt(1, 25, 33, 34, 50, 51, 66, 67, 75, 100)
		case 1:
			return 100
		default:
			return r.Range(1, 100)
		}
	}
	p.FailTh = th()
	p.SlowTh = th()
	if r.Bool(1, 2) {
		p.SlowTh = 100
	}
	p.TimeBased = r.Intn(2)
	p.Size = r.Range(1, 8)
	if p.TimeBased != 0 {
		p.Size = r.PickInt(1, 1, 2, 2, 3, 4, 8)
	}
	p.MinCalls = r.PickInt(0, 1, p.Size-1, p.Size, p.Size, p.Size+1, r.Range(1, p.Size), 2, 3)
	if p.MinCalls < 0 {
		p.MinCalls = 0
	}
	p.Permitted = r.PickInt(0, 1, 1, 2, 2, 3, 4)
	p.SlowDur = int64(r.PickInt(0, 1000, 1000000, 1000000000))
	p.MaxWaitHalf = int64(r.PickInt(0, 0, 0, 1, 500000000, 1000000000, 2000000000))
	p.WaitOpen = int64(r.PickInt(0, 1, 1000000000, 1500000000, 3000000000))
	return p
}

// c08RaceCase: open by m failures, wait, three half-open trials; the m-th trial's success closes the
// breaker (B) while the next trial's failure (A) is recorded concurrently.
func c08RaceCase(r *verifh.Rand) c08Input {
	m := int64(r.PickInt(1, 2))
	in := c08Input{Policy: c08Policy{FailTh: r.PickInt(50, 100, 1), SlowTh: 100, Size: r.Range(2, 5), Permitted: 3,
		MinCalls: int(m), SlowDur: c08Sec, WaitOpen: c08Sec}, T0: int64(r.PickInt(0, 1, 500000000))}
	for j := int64(0); j < m; j++ {
		in.Ops = append(in.Ops, []int64{0})
	}
	for j := int64(0); j < m; j++ {
		in.Ops = append(in.Ops, []int64{1, j, 1, 0})
	}
	in.Ops = append(in.Ops, []int64{2, c08Sec}, []int64{0}, []int64{0}, []int64{0})
	if m == 2 {
		in.Ops = append(in.Ops, []int64{1, 2*m + 1, 0, 0})
	}
	in.Ops = append(in.Ops, []int64{1, 2*m + m, 0, 0}, []int64{1, 2*m + m + 1, 1, 0}, []int64{0})
	in.Race = len(in.Ops) - 2
	return in
}

func c08Gen(r *verifh.Rand, i int) interface{} {
	if r.Bool(1, 80) {
		return c08RaceCase(r)
	}
	in := c08Input{Policy: c08GenPolicy(r)}
	in.T0 = int64(r.PickInt(0, 1, 999999999, 500000000, r.Intn(1000000000)))
	old := nowFunc
	defer func() { nowFunc = old }()
	var cur int64
	nowFunc = func() time.Time { return c08Base.Add(time.Duration(cur)) }
	d := newC08Driver(in.Policy, in.T0, &cur)
	n := r.Range(1, 60)
	if verifh.Env().Thorough() {
		n = r.Range(1, 200)
	}
	errNum := r.PickInt(1, 5, 9) // failure propensity /10
	var pending, done []int64    // op indices of admitted acquires not yet / already recorded
	p := in.Policy
	for k := 0; k < n; k++ {
		var op []int64
		st := d.cb.State()
		c := r.Intn(100)
		switch {
		case c < 40 || (len(pending) == 0 && c < 70):
			op = []int64{0}
		case c < 80 && len(pending) > 0:
			j := r.Intn(len(pending))
			if r.Bool(1, 2) {
				j = 0 // oldest first: late results
			}
			he := int64(0)
			if r.Intn(10) < errNum {
				he = 1
			}
			dur := p.SlowDur + int64(r.PickInt(-1, 0, 1, -1000, 0))
			if dur < 0 {
				dur = 0
			}
			op = []int64{1, pending[j], he, dur}
			done = append(done, pending[j])
			pending = append(pending[:j], pending[j+1:]...)
		case c < 83 && len(done) > 0: // double record (outside Wrap's contract; still modelled)
			op = []int64{1, done[r.Intn(len(done))], int64(r.Intn(2)), p.SlowDur}
		default:
			var a int64
			since := cur - d.cb.transitTime.Sub(c08Base).Nanoseconds()
			switch r.Intn(10) {
			case 0:
				a = 1
			case 1:
				a = int64(r.Range(1, 999)) * 1000000
			case 2: // exactly to the next whole second
				a = c08Sec - cur%c08Sec
			case 3: // one ns before the next whole second
				a = c08Sec - cur%c08Sec - 1
			case 4:
				a = c08Sec * int64(r.Range(1, p.Size+1))
			case 5: // exactly the open wait
				a = p.WaitOpen - since
			case 6:
				a = p.WaitOpen - since - 1
			case 7: // just past the half-open max wait
				a = p.MaxWaitHalf - since + int64(r.PickInt(0, 1))
			case 8:
				a = c08Sec*int64(p.Size) - cur%c08Sec - int64(r.PickInt(0, 1))
			default:
				a = int64(r.Range(0, 3000)) * 1000000
			}
			if a < 0 {
				a = 0
			}
			_ = st
			op = []int64{2, a}
		}
		res, ok := c08SafeStep(d, op, &cur)
		in.Ops = append(in.Ops, op)
		if !ok {
			break // the implementation panicked: exec will reproduce it under recover
		}
		if op[0] == 0 && res[0] == 1 {
			pending = append(pending, int64(k))
		}
	}
	return in
}

func c08Exec(raw json.RawMessage) interface{} {
	var in c08Input
	if err := json.Unmarshal(raw, &in); err != nil {
		return map[string]string{"error": "bad-input"}
	}
	if in.Policy.Size < 1 || in.T0 < 0 {
		return map[string]string{"error": "bad-input"}
	}
	old := nowFunc
	defer func() { nowFunc = old }()
	var cur int64
	var armed int32
	entered, release := make(chan struct{}), make(chan struct{})
	nowFunc = func() time.Time {
		t := c08Base.Add(time.Duration(cur))
		if atomic.CompareAndSwapInt32(&armed, 1, 0) { // B's first clock read: the schedule point
			close(entered)
			<-release
		}
		return t
	}
	d := newC08Driver(in.Policy, in.T0, &cur)
	obs := c08Obs{Steps: make([][4]int64, 0, len(in.Ops))}
	record := func(op []int64, done chan interface{}) {
		defer func() { done <- recover() }()
		ref := c08At(op, 1)
		if ref >= 0 && ref < int64(len(d.log)) && d.log[ref].ok {
			d.cb.RecordResult(d.log[ref].id, c08At(op, 2) != 0, time.Duration(c08At(op, 3)))
		}
	}
	for k := 0; k < len(in.Ops); k++ {
		op := in.Ops[k]
		if in.Race >= 1 && k == in.Race-1 && k+1 < len(in.Ops) && in.Policy.TimeBased == 0 &&
			c08At(op, 0) == 1 && c08At(in.Ops[k+1], 0) == 1 {
			doneB, doneA := make(chan interface{}, 1), make(chan interface{}, 1)
			atomic.StoreInt32(&armed, 1)
			go record(op, doneB)
			gated := false
			var pb, pa interface{}
			select {
			case <-entered:
				gated = true
			case pb = <-doneB: // no transition: B is complete, A follows sequentially
				atomic.StoreInt32(&armed, 0)
			case <-time.After(20 * time.Second):
				return map[string]string{"error": "race: B neither finished nor reached the clock"}
			}
			if gated {
				go record(in.Ops[k+1], doneA)
				time.Sleep(20 * time.Millisecond) // lets A run up to the lock B holds; only needed to find a violation
				close(release)
				pb = <-doneB
				pa = <-doneA
				if pb != nil {
					panic(pb)
				}
				if pa != nil {
					panic(pa)
				}
				d.log = append(d.log, struct {
					ok bool
					id uint32
				}{}, struct {
					ok bool
					id uint32
				}{})
				st := [4]int64{0, 0, int64(d.cb.State()), int64(d.cb.window.Total())}
				obs.Steps = append(obs.Steps, st, st)
				k++
				continue
			}
			if pb != nil {
				panic(pb)
			}
			d.log = append(d.log, struct {
				ok bool
				id uint32
			}{})
			obs.Steps = append(obs.Steps, [4]int64{0, 0, int64(d.cb.State()), int64(d.cb.window.Total())})
			continue
		}
		obs.Steps = append(obs.Steps, d.step(op, &cur))
	}
	return obs
}

func TestVerifC08(t *testing.T) {
	verifh.Run(t, c08Gen, c08Exec, 0)
}
