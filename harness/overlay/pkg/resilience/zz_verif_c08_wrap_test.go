package resilience

// Correspondence harness for property C08: circuitBreakerWrapper.Wrap (one
// acquire and exactly one record per wrapped call, panic counted as a failure,
// refused calls do not invoke the handler and return ErrShortCircuited).
// Wrap uses the real clock: the policies use durations of 0 or one minute
// only, so that the elapsed real time (micro-seconds) never matters.

import (
	"context"
	"encoding/json"
	"errors"
	"testing"

	"github.com/megaease/easegress/pkg/util/verifh"
)

type c08wPolicy struct {
	FailTh      int   `json:"failTh"`
	SlowTh      int   `json:"slowTh"`
	TimeBased   int   `json:"timeBased"`
	Size        int   `json:"size"`
	Permitted   int   `json:"permitted"`
	MinCalls    int   `json:"minCalls"`
	SlowDur     int64 `json:"slowDur"`     // 0 or 60e9
	MaxWaitHalf int64 `json:"maxWaitHalf"` // 0
	WaitOpen    int64 `json:"waitOpen"`    // 0 or 60e9
}

type c08wInput struct {
	Policy c08wPolicy `json:"policy"`
	Calls  []int      `json:"calls"` // 0 handler returns nil, 1 returns an error, 2 panics
}

func c08wGen(r *verifh.Rand, i int) interface{} {
	in := c08wInput{}
	p := &in.Policy
	p.FailTh = r.PickInt(1, 34, 50, 51, 100, r.Range(1, 100))
	p.SlowTh = r.PickInt(100, 100, 50, 67)
	p.TimeBased = r.PickInt(0, 0, 1)
	p.Size = r.Range(1, 6)
	if p.TimeBased != 0 {
		p.Size = 60
	}
	p.MinCalls = r.PickInt(1, 2, 3, p.Size, 0)
	p.Permitted = r.PickInt(0, 1, 2, 3)
	p.SlowDur = int64(r.PickInt(0, 60000000000, 60000000000))
	p.WaitOpen = int64(r.PickInt(0, 0, 60000000000))
	n := r.Range(1, 40)
	bias := r.PickInt(2, 5, 8)
	for k := 0; k < n; k++ {
		c := 0
		if r.Intn(10) < bias {
			c = r.PickInt(1, 1, 2)
		}
		in.Calls = append(in.Calls, c)
	}
	return in
}

func c08wDur(ns int64) string {
	if ns == 0 {
		return "0s"
	}
	return "" // default: one minute
}

func c08wExec(raw json.RawMessage) interface{} {
	var in c08wInput
	if err := json.Unmarshal(raw, &in); err != nil {
		return map[string]string{"error": "bad-input"}
	}
	p := in.Policy
	if p.Size < 1 {
		return map[string]string{"error": "bad-input"}
	}
	pol := &CircuitBreakerPolicy{
		SlidingWindowType:                "COUNT_BASED",
		FailureRateThreshold:             uint8(p.FailTh),
		SlowCallRateThreshold:            uint8(p.SlowTh),
		SlidingWindowSize:                uint32(p.Size),
		PermittedNumberOfCallsInHalfOpen: uint32(p.Permitted),
		MinimumNumberOfCalls:             uint32(p.MinCalls),
		SlowCallDurationThreshold:        c08wDur(p.SlowDur),
		WaitDurationInOpen:               c08wDur(p.WaitOpen),
	}
	if p.TimeBased != 0 {
		pol.SlidingWindowType = "time_based"
	}
	w := pol.CreateWrapper().(circuitBreakerWrapper)
	errBoom := errors.New("boom")
	out := struct {
		Calls [][3]int `json:"calls"`
	}{Calls: [][3]int{}}
	for _, c := range in.Calls {
		invoked := 0
		h := w.Wrap(func(ctx context.Context) error {
			invoked++
			switch c {
			case 1:
				return errBoom
			case 2:
				panic("handler panic")
			}
			return nil
		})
		class := func() (cl int) {
			defer func() {
				if e := recover(); e != nil {
					cl = 3
				}
			}()
			err := h(context.Background())
			switch {
			case err == nil:
				return 0
			case err == ErrShortCircuited:
				return 2
			default:
				return 1
			}
		}()
		out.Calls = append(out.Calls, [3]int{class, invoked, int(w.State())})
	}
	return out
}

func TestVerifC08Wrap(t *testing.T) {
	verifh.Run(t, c08wGen, c08wExec, 0)
}
