// Package verifh is the shared runner for the correspondence harnesses.
// It exists only in the build overlay (mapped to
// /repo/pkg/util/verifh/verifh.go by bin/check); nothing is written to /repo.
//
// Protocol (one JSON object per line):
//
//	gen mode    (VERIF_MODE=gen, default): for i in [0,N): input := gen(rng,i);
//	            the input is marshalled, then *re-read* by exec from its JSON so
//	            that the JSON alone determines what the implementation is asked;
//	            output line {"id":i,"input":…,"obs":…}
//	replay mode (VERIF_MODE=replay): lines {"id":…,"input":…} are read from
//	            VERIF_IN, exec runs on each, same output format.
//
// Every exec runs under recover; a panic is reported as obs {"panic": "..."}.
package verifh

import (
	"bufio"
	"encoding/json"
	"fmt"
	"os"
	"runtime/debug"
	"strconv"
	"strings"
	"time"
)

// Rand is a splitmix64 generator: deterministic across Go versions, one state.
type Rand struct{ s uint64 }

// NewRand seeds a generator.
// The seed is scrambled first so that consecutive seeds give unrelated streams
// (workers use seed*1000+w).
func NewRand(seed uint64) *Rand {
	z := seed + 0x9E3779B97F4A7C15
	z = (z ^ (z >> 30)) * 0xBF58476D1CE4E5B9
	z = (z ^ (z >> 27)) * 0x94D049BB133111EB
	return &Rand{s: z ^ (z >> 31)}
}

// U64 returns the next 64 random bits.
func (r *Rand) U64() uint64 {
	r.s += 0x9E3779B97F4A7C15
	z := r.s
	z = (z ^ (z >> 30)) * 0xBF58476D1CE4E5B9
	z = (z ^ (z >> 27)) * 0x94D049BB133111EB
	return z ^ (z >> 31)
}

// Intn returns a value in [0,n). n<=0 yields 0.
func (r *Rand) Intn(n int) int {
	if n <= 0 {
		return 0
	}
	return int(r.U64() % uint64(n))
}

// Range returns a value in [lo,hi].
func (r *Rand) Range(lo, hi int) int {
	if hi <= lo {
		return lo
	}
	return lo + r.Intn(hi-lo+1)
}

// Bool is true with probability num/den.
func (r *Rand) Bool(num, den int) bool { return r.Intn(den) < num }

// Pick returns one of the strings.
func (r *Rand) Pick(xs ...string) string { return xs[r.Intn(len(xs))] }

// PickInt returns one of the ints.
func (r *Rand) PickInt(xs ...int) int { return xs[r.Intn(len(xs))] }

// Fork derives an independent generator (for per-case streams).
func (r *Rand) Fork() *Rand { return NewRand(r.U64()) }

// Case is one output line.
type Case struct {
	ID    int             `json:"id"`
	Input json.RawMessage `json:"input"`
	Obs   interface{}     `json:"obs"`
}

// Config is read from the environment.
type Config struct {
	Mode    string
	Seed    uint64
	N       int
	Tier    string
	In, Out string
}

// Env reads the configuration.
func Env() Config {
	c := Config{Mode: os.Getenv("VERIF_MODE"), Tier: os.Getenv("VERIF_TIER"), In: os.Getenv("VERIF_IN"), Out: os.Getenv("VERIF_OUT")}
	if c.Mode == "" {
		c.Mode = "gen"
	}
	if c.Tier == "" {
		c.Tier = "quick"
	}
	if s := os.Getenv("VERIF_SEED"); s != "" {
		v, _ := strconv.ParseUint(strings.TrimSpace(s), 10, 64)
		c.Seed = v
	}
	c.N = 100
	if s := os.Getenv("VERIF_N"); s != "" {
		v, _ := strconv.Atoi(strings.TrimSpace(s))
		if v > 0 {
			c.N = v
		}
	}
	return c
}

// Thorough reports whether the thorough tier was requested.
func (c Config) Thorough() bool { return c.Tier == "thorough" }

// Exec runs the implementation on one input (given as JSON) and returns what
// was observed (anything json.Marshal accepts).
type Exec func(input json.RawMessage) interface{}

// Gen produces the i-th input from the generator state.
type Gen func(r *Rand, i int) interface{}

// Fataler is the part of testing.TB used here.
type Fataler interface {
	Fatalf(format string, args ...interface{})
	Logf(format string, args ...interface{})
}

func safeExec(exec Exec, in json.RawMessage, timeout time.Duration) (obs interface{}) {
	type res struct{ v interface{} }
	ch := make(chan res, 1)
	go func() {
		defer func() {
			if p := recover(); p != nil {
				st := string(debug.Stack())
				if len(st) > 1500 {
					st = st[:1500]
				}
				ch <- res{map[string]interface{}{"panic": fmt.Sprint(p), "stack": st}}
			}
		}()
		ch <- res{exec(in)}
	}()
	if timeout <= 0 {
		timeout = 60 * time.Second
	}
	select {
	case r := <-ch:
		return r.v
	case <-time.After(timeout):
		return map[string]interface{}{"hang": timeout.String()}
	}
}

// Run drives a harness. caseTimeout <= 0 means 60s.
func Run(t Fataler, gen Gen, exec Exec, caseTimeout time.Duration) {
	cfg := Env()
	if cfg.Out == "" {
		t.Logf("VERIF_OUT not set: harness skipped")
		return
	}
	f, err := os.Create(cfg.Out)
	if err != nil {
		t.Fatalf("create %s: %v", cfg.Out, err)
	}
	defer f.Close()
	w := bufio.NewWriterSize(f, 1<<20)
	defer w.Flush()
	emit := func(id int, in json.RawMessage, obs interface{}) {
		b, err := json.Marshal(Case{ID: id, Input: in, Obs: obs})
		if err != nil {
			b, _ = json.Marshal(Case{ID: id, Input: in, Obs: map[string]string{"marshal_error": err.Error()}})
		}
		w.Write(b)
		w.WriteByte('\n')
	}
	switch cfg.Mode {
	case "gen":
		r := NewRand(cfg.Seed)
		for i := 0; i < cfg.N; i++ {
			in := gen(r.Fork(), i)
			b, err := json.Marshal(in)
			if err != nil {
				t.Fatalf("marshal input: %v", err)
			}
			emit(i, b, safeExec(exec, b, caseTimeout))
			if i%64 == 63 {
				w.Flush()
			}
		}
	case "replay":
		rf, err := os.Open(cfg.In)
		if err != nil {
			t.Fatalf("open %s: %v", cfg.In, err)
		}
		defer rf.Close()
		sc := bufio.NewScanner(rf)
		sc.Buffer(make([]byte, 1<<20), 1<<28)
		for sc.Scan() {
			line := sc.Bytes()
			if len(strings.TrimSpace(string(line))) == 0 {
				continue
			}
			var c struct {
				ID    int             `json:"id"`
				Input json.RawMessage `json:"input"`
			}
			if err := json.Unmarshal(line, &c); err != nil {
				t.Fatalf("bad replay line: %v", err)
			}
			in := append(json.RawMessage(nil), c.Input...)
			emit(c.ID, in, safeExec(exec, in, caseTimeout))
			w.Flush()
		}
	default:
		t.Fatalf("unknown VERIF_MODE %q", cfg.Mode)
	}
}
