// Package quic is a stub, see http3/http3.go.
package quic
