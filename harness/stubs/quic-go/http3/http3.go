// Package http3 is a minimal stand-in for github.com/lucas-clemente/quic-go/http3
// (v0.27.2 does not compile with the Go toolchain installed in this sandbox).
// Only what pkg/object/httpserver/runtime.go touches is provided; HTTP/3 itself
// is outside every modelled property.
package http3

import (
	"errors"
	"net/http"
)

// Server mirrors the shape of quic-go's http3.Server used by easegress.
type Server struct {
	*http.Server
}

// ListenAndServe is not supported by the stub.
func (s *Server) ListenAndServe() error {
	return errors.New("http3 stub: not supported in verification builds")
}

// Close closes nothing.
func (s *Server) Close() error { return nil }
