module github.com/lucas-clemente/quic-go

go 1.17
