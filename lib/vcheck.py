#!/usr/bin/env python3
"""Common machinery of /verif/bin/check (see DESIGN.md section 2).

One invocation decides one property:
  facts  -> lake build (proof obligations) -> axiom audit -> correspondence run
  (real Go code, in-package overlay harness) -> Lean judge (model + executable
  spec) -> verdict / shrink / replay / known findings -> evidence file.
Only the Python standard library is used.
"""
import fcntl
import hashlib
import json
import os
import re
import shutil
import subprocess
import sys
import time

VERIF = os.path.dirname(os.path.dirname(os.path.abspath(__file__)))
REPO = os.environ.get("VERIF_REPO", "/repo")
BUILD = os.path.join(VERIF, "build")
LEAN = os.path.join(VERIF, "lean")
OVERLAY = os.path.join(VERIF, "harness", "overlay")
SEARCH_BUDGET_S = 240   # wall-clock bound of the widened search pass of a failing quick run (per harness and for starting new ones)
ALLOWED_AXIOMS = {"propext", "Classical.choice", "Quot.sound"}
FORBIDDEN = re.compile(r"\b(sorry|admit|native_decide|bv_decide|implemented_by|unsafe)\b|^\s*axiom\s|maxHeartbeats\s+0\b")
HELPER_MAP = {os.path.join(REPO, "pkg/util/verifh/verifh.go"): os.path.join(VERIF, "harness/verifh/verifh.go")}


def log(*a):
    print("[check]", *a, file=sys.stderr, flush=True)


def go_env():
    e = dict(os.environ)
    e.update({"GOFLAGS": "-mod=mod", "GOPROXY": "off", "GOSUMDB": "off", "GOTOOLCHAIN": "local",
              "CGO_ENABLED": e.get("CGO_ENABLED", "1")})
    return e


class Lock:
    def __init__(self, name):
        os.makedirs(BUILD, exist_ok=True)
        self.path = os.path.join(BUILD, name + ".lock")

    def __enter__(self):
        self.f = open(self.path, "w")
        fcntl.flock(self.f, fcntl.LOCK_EX)
        return self

    def __exit__(self, *a):
        fcntl.flock(self.f, fcntl.LOCK_UN)
        self.f.close()


def run(cmd, cwd=None, env=None, timeout=None, stdin=None, stdout=subprocess.PIPE):
    p = subprocess.run(cmd, cwd=cwd, env=env, timeout=timeout, stdin=stdin, stdout=stdout,
                       stderr=subprocess.STDOUT, text=True)
    return p.returncode, (p.stdout or "")


def write_if_changed(path, content):
    try:
        if open(path).read() == content:
            return False
    except OSError:
        pass
    os.makedirs(os.path.dirname(path), exist_ok=True)
    tmp = path + ".tmp%d" % os.getpid()
    with open(tmp, "w") as f:
        f.write(content)
    os.replace(tmp, path)
    return True


# --------------------------------------------------------------------------
# facts

def run_facts(cfg):
    """Regenerate lean/EgVerif/Gen/Facts<pid>*.lean from the repo's current source.
    The extractor binary is built per property from main.go + irlib.go + facts_<pid>*.go so that
    properties cannot break each other."""
    pid = cfg["id"]
    src = os.path.join(VERIF, "harness", "factextract")
    mine = sorted(f for f in os.listdir(src) if f.lower().startswith("facts_%s" % pid.lower()) and f.endswith(".go"))
    mine += [f for f in cfg.get("facts_extra", []) if f not in mine]   # extractors shared by several properties
    if not mine:
        return True, ""
    with Lock("facts_" + pid):
        binp = os.path.join(BUILD, "factextract_" + pid)
        files = ["main.go", "irlib.go"] + mine    # irlib.go: shared micro-translator (notes/IR.md)
        newest = max(os.path.getmtime(os.path.join(src, f)) for f in files)
        if not os.path.exists(binp) or os.path.getmtime(binp) < newest:
            rc, out = run(["go", "build", "-o", binp] + files, cwd=src, env=go_env(), timeout=300)
            if rc != 0:
                return False, "factextract build failed:\n" + out
        rc, out = run([binp, "-repo", REPO, "-out", os.path.join(LEAN, "EgVerif", "Gen")], timeout=300)
        return rc == 0, out


# --------------------------------------------------------------------------
# lean

def lean_sources(cfg):
    """The Lean sources this property depends on: the import closure (inside the project) of its
    Props module and of its judge, so that another property's work in progress cannot disturb it."""
    roots = [cfg["props_module"], "Driver." + cfg["id"]]
    seen, todo = set(), list(roots)
    while todo:
        m = todo.pop()
        if m in seen:
            continue
        p = module_path(m)
        if not os.path.exists(p):
            continue
        seen.add(m)
        try:
            txt = open(p).read()
        except OSError:
            continue
        for im in re.findall(r"^\s*(?:public\s+)?import\s+(?:all\s+)?([A-Za-z0-9_.]+)", txt, re.M):
            if im.startswith("EgVerif.") or im.startswith("Driver."):
                todo.append(im)
    return sorted(module_path(m) for m in seen)


def strip_comments(text):
    # remove /- ... -/ (nested) and -- ... comments, keep string literals as they are
    out, i, depth, n = [], 0, 0, len(text)
    while i < n:
        if text.startswith("/-", i):
            depth += 1
            i += 2
        elif depth and text.startswith("-/", i):
            depth -= 1
            i += 2
        elif depth:
            if text[i] == "\n":
                out.append("\n")
            i += 1
        elif text.startswith("--", i):
            while i < n and text[i] != "\n":
                i += 1
        else:
            out.append(text[i])
            i += 1
    return "".join(out)


def forbidden_scan(cfg):
    hits = []
    for f in lean_sources(cfg):
        if f.endswith("Audit/Tool.lean"):
            continue
        body = strip_comments(open(f).read())
        for ln, line in enumerate(body.split("\n"), 1):
            if FORBIDDEN.search(line):
                hits.append("%s:%d: %s" % (os.path.relpath(f, VERIF), ln, line.strip()[:120]))
    return hits


def module_path(mod):
    return os.path.join(LEAN, *mod.split(".")) + ".lean"


def source_theorems(mod):
    """Names of the theorems written in a Props module (obligations)."""
    body = strip_comments(open(module_path(mod)).read())
    return re.findall(r"^\s*(?:private\s+|protected\s+)?theorem\s+([^\s:({\[]+)", body, re.M)


def enclosing_decl(path, line):
    try:
        lines = open(path).read().split("\n")
    except OSError:
        return None
    for i in range(min(line, len(lines)) - 1, -1, -1):
        m = re.match(r"\s*(?:private\s+|protected\s+)?(theorem|lemma|def|example|instance|abbrev|structure|inductive)\s*([^\s:({\[]*)", lines[i])
        if m:
            return (m.group(1) + " " + m.group(2)).strip()
    return None


def lake_build(targets, timeout=3600):
    with Lock("lake"):
        rc, out = run(["lake", "build"] + targets, cwd=LEAN, timeout=timeout)
    broken = []
    if rc != 0:
        for m in re.finditer(r"error: ([^\s:]+\.lean):(\d+):(\d+): (.*)", out):
            p = os.path.join(LEAN, m.group(1))
            broken.append({"file": m.group(1), "line": int(m.group(2)), "decl": enclosing_decl(p, int(m.group(2))),
                           "msg": m.group(4)[:300]})
        if not broken:
            broken.append({"file": "?", "line": 0, "decl": None, "msg": out[-800:]})
    return rc == 0, out, broken


def audit(mod, pid):
    """#print-axioms audit of every theorem of the Props module."""
    path = os.path.join(BUILD, "audit_%s.lean" % pid)
    write_if_changed(path, "import EgVerif.Audit.Tool\nimport %s\n#audit_module %s\n" % (mod, mod))
    with Lock("lake"):
        rc, out = run(["lake", "env", "lean", path], cwd=LEAN, timeout=1800)
    res = {}
    for m in re.finditer(r"AUDIT (\S+) \[(.*?)\]", out):
        axs = [a.strip() for a in m.group(2).split(",") if a.strip()]
        res[m.group(1)] = axs
    return rc == 0, res, out


# --------------------------------------------------------------------------
# go harness

def alt_modfile():
    """build/go.alt.mod = /repo/go.mod + replace of quic-go by the local stub."""
    with Lock("gomod"):
        mod = open(os.path.join(REPO, "go.mod")).read()
        mod += "\nreplace github.com/lucas-clemente/quic-go => %s\n" % os.path.join(VERIF, "harness/stubs/quic-go")
        write_if_changed(os.path.join(BUILD, "go.alt.mod"), mod)
        s = os.path.join(REPO, "go.sum")
        d = os.path.join(BUILD, "go.alt.sum")
        if not os.path.exists(d) or open(s).read() != open(d).read():
            # keep extra lines go may have added for the stub: rewrite only if the repo's file changed
            base = os.path.join(BUILD, "go.alt.sum.base")
            if not os.path.exists(base) or open(base).read() != open(s).read():
                shutil.copyfile(s, d)
                shutil.copyfile(s, base)
    return os.path.join(BUILD, "go.alt.mod")


def overlay_for(pid, h):
    rep = dict(HELPER_MAP)
    for rel in h.get("files", []):
        rep[os.path.join(REPO, rel)] = os.path.join(OVERLAY, rel)
    for rel, src in h.get("extra_overlay", {}).items():
        rep[os.path.join(REPO, rel)] = os.path.join(VERIF, src)
    path = os.path.join(BUILD, "overlay_%s_%s.json" % (pid, h["name"]))
    write_if_changed(path, json.dumps({"Replace": rep}, indent=1, sort_keys=True))
    return path


def build_harness(pid, h):
    binp = os.path.join(BUILD, "h_%s_%s.test" % (pid, h["name"]))
    try:
        os.remove(binp)          # never run a stale binary
    except OSError:
        pass
    cmd = ["go", "test", "-c", "-vet=off", "-overlay", overlay_for(pid, h), "-modfile", alt_modfile()]
    if h.get("race"):
        cmd.append("-race")
    if h.get("stub"):
        cmd.append("-ldflags=-checklinkname=0")
    cmd += ["-o", binp, h["pkg"]]
    t0 = time.time()
    rc, out = run(cmd, cwd=REPO, env=go_env(), timeout=1800)
    log("go test -c %s: rc=%d %.1fs" % (h["pkg"], rc, time.time() - t0))
    return rc == 0 and os.path.exists(binp), binp, out


def run_harness(binp, h, mode, seed, n, tier, out_path, in_path=None, timeout=600):
    env = go_env()
    env.update({"VERIF_MODE": mode, "VERIF_SEED": str(seed), "VERIF_N": str(n), "VERIF_TIER": tier,
                "VERIF_OUT": out_path, "GOMEMLIMIT": "6GiB"})
    if in_path:
        env["VERIF_IN"] = in_path
    cmd = [binp, "-test.run", "^%s$" % h["test"], "-test.timeout", "%ds" % (timeout + 30), "-test.count=1"]
    cwd = os.path.join(REPO, h["pkg"].lstrip("./"))
    try:
        rc, out = run(cmd, cwd=cwd, env=env, timeout=timeout + 60)
    except subprocess.TimeoutExpired:
        return 124, "harness timed out after %ds" % timeout
    return rc, out


def run_judge(pid, judge, cases_path, verdict_path, timeout=3600):
    exe = os.path.join(LEAN, ".lake", "build", "bin", "egjudge-" + pid)
    with open(cases_path) as fin, open(verdict_path, "w") as fout:
        p = subprocess.run([exe, judge], stdin=fin, stdout=fout, stderr=subprocess.PIPE, text=True, timeout=timeout)
    return p.returncode, p.stderr


def read_jsonl(path):
    out = []
    with open(path) as f:
        for line in f:
            line = line.strip()
            if line:
                try:
                    out.append(json.loads(line))
                except ValueError:
                    out.append({"_bad": line[:200]})
    return out


# --------------------------------------------------------------------------
# shrinking (generic, on the JSON input)

def _paths(v, pre=()):
    if isinstance(v, list):
        yield pre, v
        for i, x in enumerate(v):
            yield from _paths(x, pre + (i,))
    elif isinstance(v, dict):
        for k, x in v.items():
            yield from _paths(x, pre + (k,))


def _get(v, path):
    for k in path:
        v = v[k]
    return v


def _with(v, path, new):
    if not path:
        return new
    c = list(v) if isinstance(v, list) else dict(v)
    c[path[0]] = _with(v[path[0]], path[1:], new)
    return c


def shrink_candidates(inp, limit=300):
    c = []
    lists = [(p, l) for p, l in _paths(inp) if len(l) > 0]
    lists.sort(key=lambda t: -len(t[1]))
    for p, l in lists:            # drop halves first, then single elements
        n = len(l)
        if n >= 4:
            c.append(_with(inp, p, l[: n // 2]))
            c.append(_with(inp, p, l[n // 2:]))
    for p, l in lists:
        for i in range(len(l) - 1, -1, -1):
            c.append(_with(inp, p, l[:i] + l[i + 1:]))
            if len(c) >= limit:
                return c
    return c[:limit]


def linked_shrink(inp, links):
    """Lists that must be shortened together (e.g. arrivals/counts)."""
    c = []
    for group in links:
        ls = [inp.get(k) for k in group]
        if not all(isinstance(x, list) for x in ls) or len({len(x) for x in ls}) != 1:
            continue
        n = len(ls[0])
        cuts = []
        if n >= 4:
            cuts += [list(range(n // 2)), list(range(n // 2, n))]
        cuts += [[j for j in range(n) if j != i] for i in range(n - 1, -1, -1)]
        for keep in cuts:
            d = dict(inp)
            for k, l in zip(group, ls):
                d[k] = [l[j] for j in keep]
            c.append(d)
    return c


# --------------------------------------------------------------------------

def load_known():
    """known_findings.json + known_findings.d/*.json (committed, never written at run time)."""
    k = {"open": [], "fixed": []}
    paths = [os.path.join(VERIF, "known_findings.json")]
    d = os.path.join(VERIF, "known_findings.d")
    if os.path.isdir(d):
        paths += sorted(os.path.join(d, f) for f in os.listdir(d) if f.endswith(".json"))
    for p in paths:
        try:
            j = json.load(open(p))
        except (OSError, ValueError):
            continue
        k["open"] += j.get("open", [])
        k["fixed"] += j.get("fixed", [])
    return k


def match_known(pid, harness, sig, known):
    for k in known.get("open", []):
        if k.get("property") == pid and k.get("sig") == sig and k.get("harness", harness) == harness:
            return k
    return None


class Check:
    def __init__(self, pid, tier, seed):
        self.pid, self.tier, self.seed = pid, tier, seed
        self.cfg = json.load(open(os.path.join(VERIF, "props", pid + ".json")))
        self.t0 = time.time()
        self.violations = []     # (replay path, suffix)
        self.known_lines = []
        self.broken = []         # proof obligations / correspondences that no longer check
        self.cov = {}
        os.makedirs(BUILD, exist_ok=True)
        os.makedirs(os.path.join(VERIF, "replays"), exist_ok=True)
        os.makedirs(os.path.join(VERIF, "evidence"), exist_ok=True)

    # ---- proof side
    def proofs(self):
        # one proof phase at a time, for ALL properties: the generated facts live inside the Lean project and
        # some generated modules are shared (Gen/FactsMuxIR by C01, C05, C12), so a run against another checkout
        # (VERIF_REPO, seedverify) must not interleave its facts+build+audit with a run against /repo.
        with Lock("proof"):
            self._proofs()

    def _proofs(self):
        cfg = self.cfg
        ok, out = run_facts(cfg)
        if not ok:
            self.broken.append({"kind": "facts", "name": "factextract", "detail": out if len(out) <= 1500 else out[:80] + " … " + out[-1400:]})
        mod = cfg["props_module"]
        names = source_theorems(mod)
        ok, out, broken = lake_build([mod, "egjudge-" + self.pid])
        self.lake_ok = ok
        if not ok:
            for b in broken:
                self.broken.append({"kind": "proof", "name": b.get("decl") or b["file"], "detail": "%s:%s %s" % (b["file"], b["line"], b["msg"])})
            log("lake build failed: " + "; ".join(str(b.get("decl")) for b in broken))
        audited, bad_ax = {}, []
        if ok:
            aok, res, aout = audit(mod, self.pid)
            for full, axs in res.items():
                short = full.split(".")[-1]
                if short in names or full in names:
                    audited[full] = axs
                    extra = [a for a in axs if a not in ALLOWED_AXIOMS]
                    if extra:
                        bad_ax.append((full, extra))
            if not aok:
                self.broken.append({"kind": "audit", "name": "audit", "detail": aout[-800:]})
            for full, extra in bad_ax:
                self.broken.append({"kind": "axioms", "name": full, "detail": "uses " + ",".join(extra)})
            missing = [n for n in names if not any(f.split(".")[-1] == n.split(".")[-1] for f in audited)]
            for n in missing:
                self.broken.append({"kind": "audit", "name": n, "detail": "theorem not found by the audit"})
        hits = forbidden_scan(cfg)
        for h in hits:
            self.broken.append({"kind": "forbidden", "name": h, "detail": "forbidden token in Lean sources"})
        thorough_extra = None
        if ok and self.tier == "thorough" and not os.environ.get("VERIF_SKIP_LEANCHECKER"):
            with Lock("lake"):
                rc, o = run(["lake", "env", "leanchecker", mod], cwd=LEAN, timeout=3600)
            thorough_extra = "leanchecker rc=%d" % rc
            if rc != 0:
                self.broken.append({"kind": "leanchecker", "name": mod, "detail": o[-800:]})
        self.cov.update({
            "obligations": len(names),
            "discharged": len([n for n in names if any(f.split(".")[-1] == n.split(".")[-1] and not [a for a in ax if a not in ALLOWED_AXIOMS] for f, ax in audited.items())]) if ok else 0,
            "checker_cmd": "cd /verif/lean && lake build %s && lake env lean ../build/audit_%s.lean  # Lean 4.33.0 kernel; #audit_module = collectAxioms on every theorem" % (mod, self.pid)
                           + ("; lake env leanchecker %s" % mod if self.tier == "thorough" else ""),
            "theorems": sorted(audited.keys()) if ok else names,
            "axioms_used": sorted({a for ax in audited.values() for a in ax}),
        })
        if thorough_extra:
            self.cov["leanchecker"] = thorough_extra

    # ---- correspondence side
    def correspondence(self, replay=None):
        cfg = self.cfg
        known = load_known()
        tot_eval, tags, distinct, samples, per_h = 0, {}, set(), [], []
        searching = getattr(self, "search_factor", 1) > 1
        t_search0 = time.time()
        for h in cfg.get("harness", []):
            if replay and replay.get("harness") != h["name"]:
                continue
            # the search pass (an obligation / the correspondence broke, no failing input yet) is bounded: harnesses
            # marked no_search are not re-run, and no further harness is started after SEARCH_BUDGET_S seconds
            if searching and (h.get("no_search") or time.time() - t_search0 > SEARCH_BUDGET_S):
                continue
            hres = {"name": h["name"], "pkg": h["pkg"]}
            per_h.append(hres)
            n = h["n"].get(self.tier, 0)
            if n == 0 and not replay:
                per_h.pop()          # e.g. -race harnesses only in the thorough tier
                continue
            ok, binp, out = build_harness(self.pid, h)
            if not ok:
                self.broken.append({"kind": "correspondence", "name": "harness %s does not build against the working tree" % h["name"], "detail": out[-2500:]})
                hres["built"] = False
                continue
            if os.environ.get("VERIF_N_OVERRIDE"):
                n = int(os.environ["VERIF_N_OVERRIDE"])
            elif getattr(self, "search_factor", 1) > 1 and not h.get("no_search"):
                n = n * self.search_factor
            tmo = h.get("timeout_s", {}).get(self.tier, 900)
            if searching:
                tmo = min(tmo, SEARCH_BUDGET_S)
            base = os.path.join(BUILD, "run_%s_%s" % (self.pid, h["name"]))
            case_files = []
            # corpus of minimised past failures first
            cdir = os.path.join(VERIF, "corpus", self.pid)
            cfile = os.path.join(cdir, h["name"] + ".jsonl")
            if replay:
                rin = base + ".replay.in"
                with open(rin, "w") as f:
                    f.write(json.dumps({"id": 0, "input": replay["input"]}) + "\n")
                rc, o = run_harness(binp, h, "replay", self.seed, 1, self.tier, base + ".replay.out", rin, tmo)
                case_files.append(base + ".replay.out")
            else:
                if os.path.exists(cfile) and os.path.getsize(cfile) > 0:
                    rc, o = run_harness(binp, h, "replay", self.seed, 0, self.tier, base + ".corpus.out", cfile, tmo)
                    if rc == 0:
                        case_files.append(base + ".corpus.out")
                    else:
                        self.broken.append({"kind": "correspondence", "name": "harness %s crashed on the corpus" % h["name"], "detail": o[-1500:]})
                workers = h.get("workers", {}).get(self.tier, 1)
                procs = []
                for w in range(workers):
                    outp = "%s.gen%d.out" % (base, w)
                    try:
                        os.remove(outp)
                    except OSError:
                        pass
                    env = go_env()
                    env.update({"VERIF_MODE": "gen", "VERIF_SEED": str(self.seed * 1000 + w), "VERIF_N": str(max(1, n // workers)),
                                "VERIF_TIER": self.tier, "VERIF_OUT": outp, "GOMEMLIMIT": "6GiB"})
                    cmd = [binp, "-test.run", "^%s$" % h["test"], "-test.timeout", "%ds" % (tmo + 30), "-test.count=1"]
                    cwd = os.path.join(REPO, h["pkg"].lstrip("./"))
                    procs.append((subprocess.Popen(cmd, cwd=cwd, env=env, stdout=subprocess.PIPE, stderr=subprocess.STDOUT, text=True), outp))
                for p, outp in procs:
                    try:
                        o, _ = p.communicate(timeout=tmo + 60)
                    except subprocess.TimeoutExpired:
                        p.kill()
                        o, _ = p.communicate()
                        o = (o or "") + "\n[harness timed out]"
                    if p.returncode != 0:
                        self.broken.append({"kind": "correspondence", "name": "harness %s exited with %s" % (h["name"], p.returncode), "detail": (o or "")[-2500:]})
                    if os.path.exists(outp):
                        case_files.append(outp)
                    elif p.returncode == 0:
                        self.broken.append({"kind": "correspondence", "name": "harness %s: worker output %s is missing" % (h["name"], os.path.basename(outp)), "detail": (o or "")[-800:]})
            # judge
            fails, disagree = [], []
            hres.update({"evaluations": 0, "agree": 0, "spec_ok": 0})
            for cf in case_files:
                vf = cf + ".verdict"
                rc, err = run_judge(self.pid, h.get("judge", cfg.get("judge", self.pid)), cf, vf)
                if rc != 0:
                    self.broken.append({"kind": "correspondence", "name": "judge failed", "detail": err[-800:]})
                    continue
                cases, verdicts = read_jsonl(cf), read_jsonl(vf)
                if len(cases) != len(verdicts):
                    self.broken.append({"kind": "correspondence", "name": "judge output truncated", "detail": "%d cases, %d verdicts" % (len(cases), len(verdicts))})
                for c, v in zip(cases, verdicts):
                    hres["evaluations"] += 1
                    key = hashlib.sha1(json.dumps(c.get("input"), sort_keys=True).encode()).hexdigest()
                    for t in v.get("tags", []):
                        tags[h["name"] + ":" + t] = tags.get(h["name"] + ":" + t, 0) + 1
                    if v.get("nontrivial"):
                        distinct.add(key)
                    if v.get("agree"):
                        hres["agree"] += 1
                    if v.get("spec"):
                        hres["spec_ok"] += 1
                    if len(samples) < 3 and v.get("nontrivial") and v.get("agree") and v.get("spec"):
                        s = json.dumps(c)
                        samples.append(json.loads(s) if len(s) < 3000 else {"harness": h["name"], "input_prefix": s[:1500]})
                    if not v.get("spec", True):
                        fails.append((c, v))
                    elif not v.get("agree", True):
                        disagree.append((c, v))
            if self.tier == "thorough" and not os.environ.get("VERIF_KEEP"):
                for cf in case_files:
                    for f in (cf, cf + ".verdict"):
                        try:
                            os.remove(f)
                        except OSError:
                            pass
            tot_eval += hres["evaluations"]
            if hres["evaluations"] == 0 and hres.get("built", True) is not False:
                self.broken.append({"kind": "correspondence", "name": "harness %s produced no cases" % h["name"], "detail": ""})
            hres["spec_violations"] = len(fails)
            hres["model_disagreements"] = len(disagree)
            # spec violations: shrink one per signature, match known findings
            seen = set()
            for c, v in fails:
                sig = v.get("sig", "")
                if sig in seen:
                    continue
                seen.add(sig)
                small_c, small_v = self.shrink(binp, h, c, v, want_spec_fail=True)
                k = match_known(self.pid, h["name"], small_v.get("sig", sig), known)
                path = self.write_replay("counterexample", h, small_c, small_v, broken=None, shrunk_from=c)
                if k:
                    self.known_lines.append("KNOWN-FINDING: property=%s %s [%s] replay=%s" % (self.pid, k.get("description", sig), k.get("id", sig), path))
                else:
                    self.violations.append((path, ""))
            if disagree:
                c, v = disagree[0]
                small_c, small_v = self.shrink(binp, h, c, v, want_spec_fail=False)
                self.broken.append({"kind": "correspondence", "name": "model/implementation disagreement in harness %s" % h["name"],
                                    "detail": json.dumps({"input": small_c.get("input"), "obs": small_c.get("obs"), "expected_model": small_v.get("expected"), "note": small_v.get("note")})[:4000],
                                    "case": small_c, "verdict": small_v, "harness": h["name"], "count": len(disagree)})
        self.cov.update({"evaluations": tot_eval, "distinct_nontrivial": len(distinct), "samples": samples,
                         "histogram": dict(sorted(tags.items())), "harnesses": per_h})

    def judge_cases(self, binp, h, inputs):
        base = os.path.join(BUILD, "shrink_%s_%s_%d" % (self.pid, h["name"], os.getpid()))
        with open(base + ".in", "w") as f:
            for i, inp in enumerate(inputs):
                f.write(json.dumps({"id": i, "input": inp}) + "\n")
        rc, o = run_harness(binp, h, "replay", self.seed, len(inputs), self.tier, base + ".out", base + ".in", 300)
        if rc != 0 or not os.path.exists(base + ".out"):
            return [], []
        rc, err = run_judge(self.pid, h.get("judge", self.cfg.get("judge", self.pid)), base + ".out", base + ".verdict")
        if rc != 0:
            return [], []
        return read_jsonl(base + ".out"), read_jsonl(base + ".verdict")

    def shrink(self, binp, h, c, v, want_spec_fail, budget_s=90):
        if h.get("no_shrink"):
            return c, v
        t_end = time.time() + budget_s
        sig = v.get("sig", "")
        cur_c, cur_v = c, v
        progress = True
        while progress and time.time() < t_end:
            progress = False
            cands = linked_shrink(cur_c["input"], h.get("shrink_links", [])) if isinstance(cur_c.get("input"), dict) else []
            cands += shrink_candidates(cur_c["input"])
            if not cands:
                break
            cases, verdicts = self.judge_cases(binp, h, cands)
            for cc, vv in zip(cases, verdicts):
                bad = (not vv.get("spec", True) and vv.get("sig", "") == sig) if want_spec_fail else \
                      (vv.get("spec", True) and not vv.get("agree", True) and not vv.get("note", "").startswith("judge-bad-input"))
                if bad:
                    cur_c, cur_v, progress = cc, vv, True
                    break
        return cur_c, cur_v

    def write_replay(self, kind, h, c, v, broken, shrunk_from=None):
        n = len([f for f in os.listdir(os.path.join(VERIF, "replays")) if f.startswith("%s-%d-" % (self.pid, self.seed))])
        path = os.path.join(VERIF, "replays", "%s-%d-%d.json" % (self.pid, self.seed, n))
        doc = {"property": self.pid, "kind": kind, "broken": broken, "seed": self.seed, "tier": self.tier}
        if h is not None:
            doc["harness"] = h["name"]
        if c is not None:
            doc.update({"input": c.get("input"), "observed": c.get("obs")})
        if v is not None:
            doc.update({"expected_model": v.get("expected"), "sig": v.get("sig"), "note": v.get("note"),
                        "agree_model": v.get("agree"), "satisfies_spec": v.get("spec")})
        if shrunk_from is not None and c is not None and shrunk_from.get("input") != c.get("input"):
            s = json.dumps(shrunk_from.get("input"))
            doc["shrunk_from"] = json.loads(s) if len(s) < 20000 else s[:20000]
        with open(path, "w") as f:
            json.dump(doc, f, indent=1, sort_keys=True)
        return path

    # ---- verdict + evidence
    def finish(self):
        cfg = self.cfg
        if self.broken and not self.violations:
            # a proof obligation or the correspondence no longer checks, and the
            # (already executed) search over corpus + generator found no failing input
            b = self.broken[0]
            h = None
            path = self.write_replay("unproved", None, b.get("case"), b.get("verdict"),
                                     broken=[{k: x.get(k) for k in ("kind", "name", "detail")} for x in self.broken[:10]])
            self.violations.append((path, " no-failing-input-found"))
        for l in self.known_lines:
            print(l)
        for path, suffix in self.violations:
            print("VIOLATION property=%s replay=%s%s" % (self.pid, path, suffix))
        cov = self.cov
        cov.setdefault("obligations", 0)
        cov.setdefault("discharged", 0)
        cov.setdefault("checker_cmd", "lake build")
        cov["trusted_base"] = cfg.get("trusted_base", [])
        cov["rule"] = cfg.get("rule", "")
        cov["known_findings_reported"] = self.known_lines
        cov["broken"] = [{k: x.get(k) for k in ("kind", "name")} for x in self.broken]
        if not cov.get("discharged"):
            cov["discharged_count"] = cov.pop("discharged", 0)   # proof keys incomplete => generic fallback keys apply
        if not cov.get("samples"):
            cov["samples"] = [{"theorems": cov.get("theorems", [])[:5]}]
        ev = {"property_id": self.pid, "tier": self.tier, "seed": self.seed, "level": "proof", "coverage": cov,
              "assumptions": cfg.get("assumptions", []), "wall_s": round(time.time() - self.t0, 2),
              "violations": len(self.violations)}
        evdir = os.environ.get("VERIF_EVIDENCE_DIR") or os.path.join(VERIF, "evidence")   # seedverify redirects it
        os.makedirs(evdir, exist_ok=True)
        with open(os.path.join(evdir, self.pid + ".json"), "w") as f:
            json.dump(ev, f, indent=1, sort_keys=True)
        log("%s: obligations %s/%s, evaluations %s, distinct_nontrivial %s, violations %d, known %d, %.1fs" % (
            self.pid, cov.get("discharged"), cov.get("obligations"), cov.get("evaluations"), cov.get("distinct_nontrivial"),
            len(self.violations), len(self.known_lines), time.time() - self.t0))
        return 1 if self.violations else 0


def main(argv):
    import argparse
    ap = argparse.ArgumentParser()
    ap.add_argument("pid")
    ap.add_argument("--tier", default=os.environ.get("VERIF_TIER") or "quick", choices=["quick", "thorough"])
    ap.add_argument("--seed", type=int, default=int(os.environ.get("VERIF_SEED") or 1))
    ap.add_argument("--replay")
    ap.add_argument("--no-proof", action="store_true", help="debugging only: skip the Lean side")
    a = ap.parse_args(argv)
    os.environ["VERIF_TIER"] = a.tier
    # runs of the same property share build/ paths (binaries, case files, generated facts): serialise them
    with Lock("check_" + a.pid):
        return _main(a)


def _main(a):
    ck = Check(a.pid, a.tier, a.seed)
    replay = None
    if a.replay:
        replay = json.load(open(a.replay))
        if "input" not in replay or replay.get("input") is None:
            log("replay file names a broken obligation, not an input: re-running the full check")
            replay = None
    if not a.no_proof:
        ck.proofs()
    else:
        ck.lake_ok = True
    if getattr(ck, "lake_ok", True) or os.path.exists(os.path.join(LEAN, ".lake/build/bin/egjudge-" + a.pid)):
        ck.correspondence(replay)
    # A fact extractor that does not BUILD is a defect of /verif's own tooling (its sources are all in /verif),
    # not a change of the code under test: it is reported as a broken obligation, but a wider search of the
    # implementation cannot explain it, so none is run.
    tooling_only = bool(ck.broken) and all(b.get("kind") == "facts" and "factextract build failed" in b.get("detail", "") for b in ck.broken)
    if ck.broken and not tooling_only and not ck.violations and not replay and a.tier == "quick" and not os.environ.get("VERIF_NO_SEARCH"):
        # search: widen the generator run before giving up on a concrete failing input
        log("obligation/correspondence broken; searching for a failing input with a wider run")
        ck.search_factor = 5
        saved = ck.broken
        ck.broken = []
        ck.seed += 7919
        ck.correspondence(None)
        ck.seed -= 7919
        ck.broken = saved + [b for b in ck.broken if b not in saved][:3]
    return ck.finish()


if __name__ == "__main__":
    sys.exit(main(sys.argv[1:]))
