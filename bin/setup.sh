#!/bin/sh
# MANIFEST.setup_cmd: build the framework from files on disk only (offline).
set -e
cd "$(dirname "$0")/.."
export GOFLAGS=-mod=mod GOPROXY=off GOSUMDB=off GOTOOLCHAIN=local
mkdir -p build evidence replays
# facts first (generated Lean modules are not committed)
for f in harness/factextract/facts_c*.go; do
  [ -e "$f" ] || continue
  id=$(basename "$f" .go | sed 's/facts_\(c[0-9]*\).*/\1/' | tr a-z A-Z)
  if [ ! -x build/factextract_$id ]; then
    (cd harness/factextract && go build -o ../../build/factextract_$id main.go $(ls facts_$(echo $id | tr A-Z a-z)*.go))
  fi
  build/factextract_$id -repo /repo -out lean/EgVerif/Gen
done
targets=""
for p in props/C*.json; do
  id=$(basename "$p" .json)
  targets="$targets EgVerif.Props.$id egjudge-$id"
done
bin/lk build EgVerif $targets
echo "setup ok"
