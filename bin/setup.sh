#!/bin/sh
# MANIFEST.setup_cmd: build the framework from files on disk only (offline).
set -e
cd "$(dirname "$0")/.."
export GOFLAGS=-mod=mod GOPROXY=off GOSUMDB=off GOTOOLCHAIN=local
mkdir -p build evidence replays
if [ -d harness/factextract ]; then
  (cd harness/factextract && go build -o ../../build/factextract . && ../../build/factextract -repo /repo -out ../../lean/EgVerif/Gen)
fi
(cd lean && lake build)
echo "setup ok"
