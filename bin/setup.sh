#!/bin/sh
# MANIFEST.setup_cmd: build the framework from files on disk only (offline).
# Builds, for every property claimed in MANIFEST.json: its fact extractor (and the generated
# Lean facts from /repo's working tree), its Props module (all proofs) and its judge executable.
set -e
cd "$(dirname "$0")/.."
export GOFLAGS=-mod=mod GOPROXY=off GOSUMDB=off GOTOOLCHAIN=local
mkdir -p build evidence replays
ids=$(python3 -c "import json;print(' '.join(c['property_id'] for c in json.load(open('MANIFEST.json'))['checks']))")
targets=""
for id in $ids; do
  lid=$(echo $id | tr A-Z a-z)
  if ls harness/factextract/facts_${lid}*.go >/dev/null 2>&1; then
    extra=$(python3 -c "import json;print(' '.join(json.load(open('props/$id.json')).get('facts_extra', [])))")
    if (cd harness/factextract && go build -o ../../build/factextract_$id main.go irlib.go $(ls facts_${lid}*.go) $extra); then
      build/factextract_$id -repo /repo -out lean/EgVerif/Gen || echo "setup: fact extraction for $id failed (its check reports it)"
    else
      echo "setup: the fact extractor of $id does not build (its check reports it)"
    fi
  fi
  targets="$targets EgVerif.Props.$id egjudge-$id"
done
# A property whose proofs do not build must not take the others down: its own check rebuilds and reports
# the broken obligation. So build everything that builds and go on.
if bin/lk build EgVerif $targets; then
  echo "setup ok"
else
  echo "setup: some Lean targets failed to build (see above); every check rebuilds its own targets and reports a broken obligation itself"
  for id in $ids; do bin/lk build EgVerif.Props.$id egjudge-$id >/dev/null 2>&1 || echo "setup: $id does not build"; done
  echo "setup done (with build failures)"
fi
