#!/usr/bin/env python3
"""Regenerates /verif/MANIFEST.json from props/*.json (one file per claimed property)
and props/not_applicable.json. Run after editing any props file."""
import json, os, glob
V = os.path.dirname(os.path.dirname(os.path.abspath(__file__)))
ids = [json.loads(l)["id"] for l in open(os.path.join(V, "properties.jsonl"))]
na = {}
try:
    na = json.load(open(os.path.join(V, "props", "not_applicable.json")))
except OSError:
    pass
checks, not_app = [], []
for pid in ids:
    p = os.path.join(V, "props", pid + ".json")
    if os.path.exists(p) and pid not in na:
        c = json.load(open(p))
        checks.append({
            "property_id": pid,
            "quick_cmd": "bin/check %s --tier quick" % pid,
            "thorough_cmd": "bin/check %s --tier thorough" % pid,
            "evidence_file": "/verif/evidence/%s.json" % pid,
            "replay_cmd_template": "bin/check %s --replay {path}" % pid,
            "engine": "lean4-proof+correspondence",
            "level_claimed": {"category": "proof", "text": c["level_text"], "design_ref": c.get("design_ref", "DESIGN.md §7 " + pid)},
            "level_note": c["level_note"],
            "technique": c.get("technique", "Lean 4 theorem about a hand-written model + differential correspondence check against the Go code"),
        })
    else:
        not_app.append({"property_id": pid, "reason": na.get(pid, "check not built yet in this session (no claim is made)")})
m = {
    "version": 1,
    "setup_cmd": "bin/setup.sh",
    "hooks": {"guard": "verif", "enable": "no hooks in /repo: harnesses are in-package _test.go files injected with `go test -overlay` (+ -modfile with the quic-go http3 stub)",
              "baseline_off_cmd": json.load(open("/root/.vp/BASELINE.json"))["cmd"], "source_commits": [], "add_only": True},
    "engines": [{"name": "lean4-proof+correspondence", "path": "/verif/bin/check", "serves_properties": [c["property_id"] for c in checks],
                 "kind_free_text": "Lean 4 theorems (lake build + axiom audit) about executable models; Go overlay harness drives the real code, compiled Lean judge (egjudge) compares implementation, model and executable spec; regenerated facts (go/ast) re-proved on every run"}],
    "checks": checks,
    "notes": "See DESIGN.md. known findings: /verif/known_findings.json",
    "not_applicable": not_app,
}
json.dump(m, open(os.path.join(V, "MANIFEST.json"), "w"), indent=1)
print("claimed:", [c["property_id"] for c in checks])
