import Driver.PX
open Lean Driver EgVerif.Proxy

namespace Driver.C03
open Driver.PX

def hdrEqOn (keys : List String) (a b : Hdr) : Bool := keys.all fun k => a.get k == b.get k

def hdrEq (a b : Hdr) : Bool := hdrEqOn (a.map (·.1) ++ b.map (·.1)) a b

def hdrJson (h : Hdr) : Json :=
  Json.arr (h.map fun (k, vs) => Json.arr ((k :: vs).map Json.str).toArray).toArray

/-! ## unit judge (pkg/filters/proxy harness) -/

def parseIPTable (obs : Json) : List (String × Bool) :=
  match getArr obs "ips" with
  | .ok a => a.toList.filterMap fun e =>
      match e.getArr? with
      | .ok p => if p.size ≥ 2 then
          match p[0]!.getStr?, p[1]!.getBool? with
          | .ok s, .ok b => some (s, b)
          | _, _ => none
        else none
      | .error _ => none
  | .error _ => []

/-- Declarative reading of "IP-addressed server" for the well-formed authority shapes
`name`, `name:port`, `[v6]`, `[v6]:port`; `none` = shape not covered by the statement. -/
def specHostPart (host : List Char) : Option (List Char) :=
  let noSq (l : List Char) := !l.contains '[' && !l.contains ']'
  match host with
  | '[' :: rest =>
    let inner := rest.takeWhile (· != ']')
    let after := (rest.dropWhile (· != ']')).drop 1
    if rest.contains ']' && noSq inner && (after.isEmpty || (after.head? == some ':' && !(after.drop 1).contains ':' && noSq (after.drop 1)))
    then some inner else none
  | _ =>
    if !noSq host then none
    else
      let name := host.takeWhile (· != ':')
      let after := (host.dropWhile (· != ':')).drop 1
      if !host.contains ':' then some host
      else if !after.contains ':' then some name
      else none

def judgeClone (input obs : Json) : Except String Verdict := do
  let canon := mkCanon (parsePairs obs "canon")
  let lines := parsePairs input "hdrs"
  let h := linesToHdr canon lines
  let want := cloneHeader canon hopHeaders h
  let got := parseSeenHdr obs "hdrs"
  let agree := hdrEq want got
  let viol := Spec.headerViolation canon h got []
  let toks := connTokens canon h
  let hasHop := h.any fun e => Spec.rfcHopHeaders.contains e.1
  let tokHit := toks.any fun t => (h.get t) != []
  pure { agree := agree, spec := viol.isNone, expected := hdrJson want,
         tags := ["clone"] ++ (if toks.isEmpty then ["no-conn-token"] else ["conn-tokens"]) ++
                 (if tokHit then ["token-names-present-header"] else []) ++ (if hasHop then ["has-hop"] else []),
         nontrivial := hasHop || tokHit,
         sig := match viol with | some (kind, k) => s!"clone:{kind}:{k}" | none => "" }

def judgeAddr (input obs : Json) : Except String Verdict := do
  let parsed := optBool obs "parsed"
  let got := optBool obs "isHostName"
  if !parsed then
    return { agree := got == false, spec := true, tags := ["addr", "unparsable-url"], nontrivial := false,
             expected := Json.mkObj [("isHostName", false)] }
  let uhost := (optStr obs "uhost").toList
  let table := parseIPTable obs
  let missing := (table.lookup (String.ofList uhost)).isNone
  let isIP : List Char → Bool := fun l => (table.lookup (String.ofList l)).getD false
  let want := addrIsHostName isIP uhost
  let (spec, shape) := match specHostPart uhost with
    | some hp => (got == !isIP hp, "shaped")
    | none => (true, "odd-shape")
  let _ := input
  if missing && !uhost.isEmpty then throw "ip oracle lacks u.Host"
  pure { agree := got == want, spec := spec, expected := Json.mkObj [("isHostName", want)],
         tags := ["addr", shape, if want then "hostname" else "ip"] ++
                 (if uhost.contains '[' then ["bracket"] else []) ++ (if uhost.contains ':' then ["colon"] else []),
         nontrivial := uhost.contains ':' || uhost.contains '[',
         sig := if spec then "" else "addr:misclassified" }

def skipOnWire : List String := ["Transfer-Encoding", "Content-Length", "Host", "Trailer"]

def judgePrep (input obs : Json) : Except String Verdict := do
  let err := optStr obs "err"
  if err == "client-request-rejected-by-net/http" then
    return { agree := true, spec := true, tags := ["prep", "rejected-by-net/http"], nontrivial := false }
  let canon := mkCanon (parsePairs obs "canon")
  let lines := (parsePairs input "hdrs").filter fun (k, _) => !skipOnWire.contains (canon k)
  let bodyLen := (optInt input "bodyLen").toNat
  let h := linesToHdr canon (lines ++ [("Content-Length", toString bodyLen)])
  let serverURL := optStr input "url"
  let keepHost := optBool input "keepHost"
  let clientHost := optStr input "host"
  let escPath := optStr obs "escPath"
  let decPath := optStr obs "decPath"
  let rawQuery := optStr obs "rawQuery"
  let uhost := optStr obs "uhost"
  let isHostName := optBool obs "isHostName"
  if err == "spec-rejected" then
    return { agree := true, spec := true, tags := ["prep", "server-url-rejected-by-validation"], nontrivial := false }
  if err != "" then
    return { agree := false, spec := false, tags := ["prep", "error:" ++ err], sig := "prep:error:" ++ err,
             note := "the repaired prepareRequest never fails on a request net/http accepted" }
  -- model
  let url := targetURL serverURL escPath rawQuery
  let afterAuth : List Char :=
    -- strip "scheme://authority" (authority = u.Host, no userinfo in the generated server URLs)
    let l := url.toList
    let rec dropTo (l : List Char) (pat : List Char) (fuel : Nat) : List Char :=
      match fuel with
      | 0 => l
      | fuel + 1 => if pat.isPrefixOf l then l.drop pat.length else
          match l with | [] => [] | _ :: t => dropTo t pat fuel
    dropTo l ("//" ++ uhost).toList l.length
  let (mp, mq) := splitTarget afterAuth
  let wantURI := String.ofList ((if mp.isEmpty then ['/'] else mp) ++ (if mq.isEmpty then [] else '?' :: mq))
  let wantHost := hostSent ⟨serverURL, uhost, isHostName, keepHost⟩ clientHost
  let wantHdr := cloneHeader canon hopHeaders h
  let gotHdr := parseSeenHdr obs "hdrs"
  let outURI := optStr obs "outURI"
  let outHost := optStr obs "outHost"
  let agree := outURI == wantURI && outHost == wantHost && hdrEq wantHdr gotHdr
    && optStr obs "outMethod" == optStr input "method"
  -- spec (declarative, on the observation)
  let outPath := optStr obs "outPath"
  let pathOK := decPath.toList.isSuffixOf outPath.toList
  let queryOK := optStr obs "outQuery" == rawQuery
  let table := parseIPTable obs
  let isIP : List Char → Bool := fun l => (table.lookup (String.ofList l)).getD false
  let hostSpec := match specHostPart uhost.toList with
    | some hp => outHost == Spec.expectedHost (isIP hp) keepHost clientHost uhost
    | none => true
  let hv := Spec.headerViolation canon h gotHdr []
  let bodyOK := optBool obs "bodyOK"
  let methodOK := optStr obs "outMethod" == optStr input "method"
  -- retries: every attempt must put the same faithful request on the wire (model: `retrySeen true`)
  let atts : List (Bool × Bool) := match getArr obs "atts" with
    | .ok a => a.toList.map fun e => (optBool e "bodyOK", optBool e "same")
    | .error _ => []
  let retryMax := (optInt input "retryMax").toNat
  let fails := ((getStrList input "fails").toOption.getD []).length
  let wantAtts := attemptsMade (if retryMax == 0 then none else some retryMax) (optInt input "limit" < 0) fails
  let attsOK := atts.all fun (bo, same) => bo && same
  let agree := agree && atts.length == wantAtts
  let sig :=
    if !methodOK then "prep:method" else if !pathOK then "prep:path" else if !queryOK then "prep:query"
    else if !hostSpec then "prep:host" else if !bodyOK then "prep:body"
    else if !attsOK then (if atts.any (fun p => !p.1) then "prep:retry:body-differs-on-a-later-attempt" else "prep:retry:request-differs-on-a-later-attempt")
    else match hv with
      | some (kind, k) => s!"prep:{kind}:{k}"
      | none =>
        -- the gate the checks above refine (`run_meets_backendSeenOK`); "server is IP-addressed" from the declarative
        -- reading of the authority where it has one, else from what checkAddrPattern computed
        let serverIsIP := match specHostPart uhost.toList with | some hp => isIP hp | none => !isHostName
        if Spec.reqSideOK canon (optStr input "method") wantURI h [] serverIsIP keepHost clientHost uhost
            (optStr obs "outMethod") outURI outHost gotHdr then "" else "prep:target"
  let escaped := escPath != decPath
  pure { agree := agree, spec := sig == "", sig := sig,
         expected := Json.mkObj [("uri", wantURI), ("host", wantHost), ("hdrs", hdrJson wantHdr)],
         tags := ["prep", if escaped then "path-escaped" else "path-plain", if rawQuery == "" then "no-query" else "query",
                  if isHostName then "server-hostname" else "server-ip", if keepHost then "keepHost" else "no-keepHost",
                  if optInt input "limit" < 0 then "stream" else "buffered"] ++
                 (if retryMax == 0 then [] else ["retry", s!"attempts:{atts.length}"]),
         nontrivial := escaped || rawQuery != "" || atts.length > 1 }

def unitOps : BodyOps Nat :=
  { len := id, gz := fun n => n + 23, ungz := fun n => some (n - 23), ofStr := String.utf8ByteSize, take := min, empty := 0 }

def judgeCompress (input obs : Json) : Except String Verdict := do
  let ae := (getStrList input "ae").toOption.getD []
  let ce := (getStrList input "ce").toOption.getD []
  let cl := optInt input "cl" (-1)
  let minLength := (optInt input "minLength").toNat
  let bodyLen := (optInt input "bodyLen").toNat
  let reqHdr : Hdr := ae.map fun v => (keyAE, [v])
  let h0 : Hdr := ce.map fun v => (keyCE, [v])
  let h1 := if cl ≥ 0 then h0.set keyCL (toString cl) else h0
  let h := h1.set "X-Keep" "1"
  let r : Resp Nat := ⟨200, h, cl, .stream bodyLen⟩
  let want := proxyCompress unitOps minLength reqHdr r
  let wantDid := want.payload != r.payload
  let did := optBool obs "did"
  let gotHdr := parseSeenHdr obs "hdrs"
  let respCL := optInt obs "respCL" 0
  let agree := did == wantDid && hdrEq want.hdr gotHdr && respCL == want.cl
  let bodyOK := optBool obs "bodyOK"
  let sig :=
    if !bodyOK then "compress:body"
    else if did then
      if gotHdr.get keyCL != [] then "compress:content-length-header-kept"
      else if respCL != -1 then "compress:stale-ContentLength-field"
      else if !(gotHdr.get keyCE).any (fun v => strContains v "gzip") then "compress:unlabelled"
      else ""
    else if !hdrEq h gotHdr || respCL != cl then "compress:changed-without-compressing" else ""
  pure { agree := agree, spec := sig == "", sig := sig,
         expected := Json.mkObj [("did", wantDid), ("hdrs", hdrJson want.hdr), ("respCL", Json.num want.cl)],
         tags := ["compress", if did then "compressed" else "skipped", if cl < 0 then "unknown-length" else "declared-length"],
         nontrivial := did }

def judgeUnit : Judge := liftJudge fun input obs => do
  match obsPanic obs with
  | some m => pure { agree := false, spec := false, sig := "panic:unit:" ++ optStr input "kind", note := m }
  | none =>
  match optStr input "kind" with
  | "clone" => judgeClone input obs
  | "addr" => judgeAddr input obs
  | "prep" => judgePrep input obs
  | "compress" => judgeCompress input obs
  | k => throw ("unknown kind " ++ k)

/-! ## end-to-end judge (pkg/object/httpserver loopback harness) -/

def featureSuffix (sc : Scenario) : String :=
  (if sc.method == "HEAD" then "+head" else "") ++
  (if sc.compression ≥ 0 then "+pcomp" else "") ++
  (match sc.respAd with
    | some a => (if a.body != "" then "+adbody" else "") ++ (if a.compress then "+adcomp" else "") ++
                (if a.decompress then "+addecomp" else "")
    | none => "") ++
  (if sc.bBody.enc == "cl" then "+declared" else "")

/-- Verdict for one request/response pair that went (or should have gone) to the backend;
`res` is what the model says. -/
def judgeOne (sc : Scenario) (obs : Json) (o : Oracle) (b : Built) (res : Result Sym)
    (attempts : Option Nat := none) : Except String Verdict := do
  let hits := (optInt obs "hits").toNat
  let some c := parseSeenResp obs | throw "no client observation"
  let bSeen := parseSeenReq obs
  -- every request the backend saw (one per attempt when a retry policy is configured)
  let allSeen : List SeenReq := if attempts.isSome then parseSeenAll obs else bSeen.toList
  -- the request line after the RequestAdaptor's method / path / host sections (identity without one)
  let l0 : ReqLine := ⟨sc.method, o.decPath, o.escPath, sc.host⟩
  let l : ReqLine := match b.cfg.reqAd with | none => l0 | some _ => adaptReqLine b.cfg.σ b.cfg.esc b.cfg.reqLine l0
  let adaptedLine := l != l0
  if l.path != "" && !l.path.startsWith "/" then
    -- the adapted path is not absolute: `svr.URL + path` glues it to the authority (`http://h:1234b` is no URL ⇒ 500;
    -- `http://h:1234@b` is user-info + host `b` ⇒ 503; `http://h:1234?b` is a query): outside the model, not judged
    return { agree := true, spec := true, tags := ["adapted-path-not-absolute", s!"adapted-path-not-absolute:status-{c.status}"],
             nontrivial := false }
  let nobody := sc.method == "HEAD" || l.method == "HEAD" || bodylessStatus c.status
  -- ---------------- agreement with the model
  let (agree, expected) : Bool × Json := match res with
    | .early st => (hits == 0 && c.status == st, Json.mkObj [("early", st)])
    | .adaptorFailed => (hits == 0 && c.status == 503, Json.mkObj [("adaptorFailed", true)])
    | .proxied seen cl _ =>
      let exp := Json.mkObj [("backend", Json.mkObj [("url", seen.url), ("host", seen.host), ("hdrs", hdrJson seen.hdr),
          ("bodySum", seen.body.sum), ("bodyLen", seen.body.len)]),
        ("client", Json.mkObj [("status", cl.status), ("hdrs", hdrJson cl.hdr), ("bodySum", cl.payload.content.sum),
          ("bodyLen", cl.payload.content.len)])]
      match bSeen with
      | none => (false, exp)
      | some _ =>
        let wantURI := (if l.escapedPath == "" then "/" else l.escapedPath) ++ (if o.rawQuery == "" then "" else "?" ++ o.rawQuery)
        let adKeysQ := match b.cfg.reqAd with | some a => a.hkeys | none => []
        let keysB := (b.clientHdr.map (·.1) ++ adKeysQ ++ hopHeaders ++ [keyCE]).filter (· != keyCL)
        let okB := allSeen.all fun bs => bs.method == seen.method && bs.uri == wantURI && bs.host == seen.host
          && hdrEqOn keysB seen.hdr bs.hdr && bs.bodySum == seen.body.sum
        -- bodyless backend statuses: net/http itself drops Content-Type / Content-Length and the
        -- encoding headers carry no meaning; only the scenario's own headers are compared
        let adKeys := match b.cfg.respAd with | some a => a.hkeys | none => []
        let pOK := match res with | .proxied _ _ ok => ok | _ => false
        let keysC := if !pOK then (cl.hdr.map (·.1)).filter (fun k => k != keyCL && k != "Content-Type")   -- a failure response / the last failed attempt's reply
          else if bodylessStatus sc.bStatus then (b.backendHdr.map (·.1) ++ adKeys).filter (· != "Content-Type")
          else b.backendHdr.map (·.1) ++ adKeys ++ [keyCE, keyVary]
        -- known finding C03-head-method-adapted: the client sent HEAD, the adaptor rewrote the method, net/http writes
        -- the body (`bodyOnWire`); the model predicts exactly that framing error
        let headAdapted := sc.method == "HEAD" && l.method != "HEAD"
        let wantBody := bodyOnWire b.ops l.method cl
        let okC := if headAdapted then
            c.err == "" && c.status == cl.status && (if wantBody == 0 then c.frameOK else c.frameErr == "body-on-bodyless-response")
          else c.err == "" && c.status == cl.status && hdrEqOn keysC cl.hdr c.hdr && c.frameOK
          && (nobody || (c.bodySum == cl.payload.content.sum
                && (cl.hdr.get keyCL == [] || cl.hdr.get keyCL == [toString c.declared])))
        ((match attempts with | none => hits ≥ 1 | some n => hits == n && allSeen.length == n) && okB && okC, exp)
  -- ---------------- the property, on the observation
  let proxyOK := match res with | .proxied _ _ ok => ok | _ => false
  let honest := sc.bBody.enc != "lie"
  let expHdr : Hdr := match b.cfg.reqAd with | some a => adaptHeader a b.clientHdr | none => b.clientHdr
  let reqSigOf (bs : SeenReq) : String :=
      if bs.method != l.method then "req:method"
      else if bs.path != (if l.path == "" then "/" else l.path) then "req:path"
      else if bs.rawQuery != o.rawQuery then "req:query"
      else
        let skip := [keyCL] ++ (if sc.reqAd.isSome then [keyCE] else [])
        match Spec.headerViolation o.canon expHdr bs.hdr skip with
        | some (kind, k) => s!"req:{kind}:{k}"
        | none =>
          if bs.host != Spec.expectedHost (sc.serverKind == "ip") sc.keepHost l.host o.serverHP then "req:host"
          else
            let bodyOK := match sc.reqAd with
              | none => bs.bodySum == (wireSym sc.body o.req).sum
              | some a => bs.decErr == "" && bs.decSum == (if a.body != "" then o.reqAd.sum else o.req.sum)
            if !bodyOK then "req:body"
            else
              -- the gate every detailed check above refines (`run_meets_backendSeenOK`: the model passes it)
              let wantURI := (if l.escapedPath == "" then "/" else l.escapedPath) ++ (if o.rawQuery == "" then "" else "?" ++ o.rawQuery)
              if Spec.reqSideOK o.canon l.method wantURI expHdr skip (sc.serverKind == "ip") sc.keepHost l.host o.serverHP
                  bs.method bs.uri bs.host bs.hdr then "" else "req:target"
  let reqSig : String := match res with
    | .proxied _ _ _ =>
      if allSeen.isEmpty then "req:not-forwarded" ++ (if c.status == 500 then ":500" else "")
      else
        -- the first attempt that is not the faithful (modulo the configured adaption) request
        match (allSeen.zipIdx.map fun (bs, i) => (reqSigOf bs, i)).find? (fun p => p.1 != "") with
        | some (sg, i) => sg ++ (if adaptedLine then "+adapted" else "") ++ (if i == 0 then "" else ":retry-attempt")
        | none => ""
    | _ => ""
  let respSig : String :=
    if c.err != "" then "resp:unreadable:" ++ c.err
    else if !c.frameOK && sc.method == "HEAD" && l.method != "HEAD" && c.frameErr == "body-on-bodyless-response" then
      "resp:framing:body-sent-to-HEAD-client:method-adapted"
    else if !c.frameOK then "resp:framing:" ++ c.frameErr ++ featureSuffix sc
    else if !honest && hits ≥ 1 && c.status < 500 && !(sc.poolMax < 0 || (sc.poolMax == 0 && sc.proxyMax < 0))
        && sc.bBody.decl.toNat > sc.bBody.len && !nobody then
      -- a backend that sent fewer bytes than it declared, behind a buffered Proxy: never a success
      "resp:short-body-delivered" ++ featureSuffix sc
    else if proxyOK && honest && hits ≥ 1 then
      if c.status != sc.bStatus then s!"resp:status:{c.status}" ++ (if sc.method == "HEAD" then "+head" else "")
          ++ (if sc.compression ≥ 0 then "+pcomp" else "")
      else match Spec.respHeaderViolation
          ((match b.cfg.respAd with | some a => adaptHeader a | none => id)
            (if bodylessStatus sc.bStatus then b.backendHdr.filter (·.1 != "Content-Type") else b.backendHdr)) c.hdr with
        | some k => "resp:hdr-lost:" ++ k
        | none =>
          if nobody then ""
          else
            let want := match sc.respAd with
              | some a => if a.body != "" then o.respAd.sum else o.back.sum
              | none => o.back.sum
            if c.decErr != "" || c.decSum != want then "resp:content" ++ featureSuffix sc
            else
              -- the gate (`run_meets_clientSeenOK`: the model passes it): status, end-to-end headers, framing on the header as written
              let expH := (match b.cfg.respAd with | some a => adaptHeader a | none => id)
                (if bodylessStatus sc.bStatus then b.backendHdr.filter (·.1 != "Content-Type") else b.backendHdr)
              if Spec.clientSeenOK sc.bStatus expH c.status c.hdr c.bodyLen then "" else "resp:declared-length" ++ featureSuffix sc
    else ""
  let sig := if reqSig != "" then reqSig else respSig
  let toks := connTokens o.canon b.clientHdr
  let hopPresent := b.clientHdr.any fun e => Spec.isHop o.canon b.clientHdr e.1 && e.1 != "Connection"
  let tags := ["m:" ++ sc.method, "server:" ++ sc.serverKind, if sc.keepHost then "keepHost" else "no-keepHost",
      "req:" ++ sc.body.enc ++ ":" ++ sizeClass sc.body.len, "resp:" ++ sc.bBody.enc ++ ":" ++ sizeClass sc.bBody.len,
      s!"status:{sc.bStatus}",
      if o.escPath != o.decPath then "path-escaped" else "path-plain", if o.rawQuery == "" then "no-query" else "query",
      if sc.compression ≥ 0 then "pcomp" else "no-pcomp",
      match res with | .early st => s!"model:early-{st}" | .adaptorFailed => "model:adaptor-failed"
                     | .proxied _ _ ok => if ok then "model:proxied" else "model:proxy-500"]
    ++ (if sc.body.gzip then ["req-gzip"] else []) ++ (if sc.bBody.gzip then ["resp-gzip"] else [])
    ++ (if sc.reqAd.isSome then ["reqAd"] else []) ++ (if sc.respAd.isSome then ["respAd"] else [])
    ++ (if hopPresent then ["hop-header-sent"] else []) ++ (if toks.length > 1 then ["conn-tokens"] else [])
    ++ (if sc.poolMax < 0 || (sc.poolMax == 0 && sc.proxyMax < 0) then ["resp-stream"] else ["resp-buffered"])
    ++ (if sc.pathMax < 0 || (sc.pathMax == 0 && sc.serverMax < 0) then ["req-stream"] else ["req-buffered"])
  pure { agree := agree, spec := sig == "", sig := sig, expected := expected, tags := tags,
         nontrivial := hits ≥ 1 && (hopPresent || sc.body.len > 0 || sc.bBody.len > 0) }

/-- The mirror pool: what the mirror backend must (not) have seen, and that nothing of it shows at the client. -/
def judgeMirror (sc : Scenario) (obs : Json) (o : Oracle) (b : Built) (c : Option SeenResp) : Bool × String × List String :=
  match sc.mirror with
  | none => (true, "", [])
  | some m =>
    let mhits := (optInt obs "mhits").toNat
    let influence := match c with
      | some c => c.status == 418 || c.hdr.get "X-From-Mirror" != []
      | none => false
    match prepare b.ops o.canon b.cfg b.q with
    | .ready msg seen =>
      let matched := (msg.hdr.get (o.canon m.hdr)).any (· == m.val)
      let l0 : ReqLine := ⟨sc.method, o.decPath, o.escPath, sc.host⟩
      let l : ReqLine := match b.cfg.reqAd with | none => l0 | some _ => adaptReqLine b.cfg.σ b.cfg.esc b.cfg.reqLine l0
      let msvr : ServerCfg := ⟨o.mirrorURL, o.mirrorHP, m.serverKind == "name", m.keepHost⟩
      let want := mirrorSent o.canon (if matched then some (msvr, true) else none)
        o.stub.plainSym ⟨seen.method, l.escapedPath, o.rawQuery, l.host, msg.hdr, seen.body, seen.streamed⟩
      if !matched then (mhits == 0, if influence then "mirror:influence" else "", ["mirror:no-match"])
      else
        match parseSeenReqAt obs "m", want with
        | some ms, some w =>
          let wantBody := (w.payload.getD seen.body).sum
          let wantURI := (if l.escapedPath == "" then "/" else l.escapedPath) ++ (if o.rawQuery == "" then "" else "?" ++ o.rawQuery)
          let keys := (msg.hdr.map (·.1) ++ hopHeaders).filter (· != keyCL)
          -- the mirror request lives on the client request's context: it can also be cancelled while its body is
          -- being sent (the mirror backend then reads a truncated body: bodyErr) — admissible, the rest is compared
          let okM := mhits == 1 && ms.method == w.method && hdrEqOn keys w.hdr ms.hdr && (ms.bodySum == wantBody || ms.bodyErr != "")
            && ms.uri == wantURI && (l.host == "" || ms.host == w.wireHost msvr)
            && w.url == targetURL o.mirrorURL l.escapedPath o.rawQuery
          -- the property on the mirror's observation: hop-by-hop headers stripped there too
          let hv := Spec.headerViolation o.canon msg.hdr ms.hdr [keyCL, keyCE]
          let sig := if influence then "mirror:influence"
            else match hv with | some (kind, k) => s!"mirror:req:{kind}:{k}" | none => ""
          (okM, sig, ["mirror:sent", if seen.streamed then "mirror:stub-body" else "mirror:copy-body"] ++
            (if ms.bodyErr != "" then ["mirror:cut-short"] else []))
        -- the mirror request lives on the client request's context (cancelled when the primary's answer is
        -- complete): not arriving is admissible, but then nothing else may have arrived either
        | _, _ => (mhits == 0, if influence then "mirror:influence" else "", ["mirror:not-observed"])
    | _ => (mhits == 0, if influence then "mirror:influence" else "", ["mirror:not-reached"])

def judgeE2E : Judge := liftJudge fun input obs => do
  let sc := parseScenario input
  match obsPanic obs with
  | some m => pure { agree := false, spec := false, sig := "panic:e2e", note := m }
  | none =>
  if optStr obs "error" != "" then
    return { agree := false, spec := true, note := "harness: " ++ optStr obs "error", nontrivial := false, tags := ["harness-error"] }
  let o := parseOracle obs
  let b := build sc o defaultMax
  let v ← match sc.retry with
    | none => judgeOne sc obs o b (runModel b o.canon)
    | some _ =>
      match runModelRetry sc b o.canon with
      | .early st => judgeOne sc obs o b (.early st)
      | .adaptorFailed => judgeOne sc obs o b .adaptorFailed
      | .proxied seenAll cl ok =>
        match seenAll.head? with
        | some seen => judgeOne sc obs o b (.proxied seen cl ok) (some seenAll.length)
        | none => throw "retry model: no attempt"
  let (mAgree, mSig, mTags) := judgeMirror sc obs o b (parseSeenResp obs)
  let retryTags := match sc.retry with
    | some r => ["retry", s!"retry-max:{r.max}", s!"scripted-failures:{sc.pre.length}"] ++
        (if sc.pre.any (·.1 == "reset") then ["pre-reset"] else [])
    | none => []
  let adTags := (if sc.reqLine.method != "" then ["reqAd:method"] else []) ++ (if sc.reqLine.host != "" then ["reqAd:host"] else []) ++
    (if sc.reqLine.path.isSome then ["reqAd:path"] else []) ++
    (match sc.reqAd with | some a => if a.hkeys.isEmpty then [] else ["reqAd:header"] | none => []) ++
    (match sc.respAd with | some a => if a.hkeys.isEmpty then [] else ["respAd:header"] | none => []) ++
    (if sc.bBody.enc == "lie" then ["backend-short"] else [])
  pure { v with agree := v.agree && mAgree, spec := v.spec && mSig == "", sig := if v.sig != "" then v.sig else mSig,
                tags := v.tags ++ mTags ++ retryTags ++ adTags }

/-! ## history judge (pool with memoryCache + response-editing filters) -/

def hdrKeysNoDate (h : Hdr) : List String := (h.map (·.1)).filter (· != "Date")

/-- A response served from the cache must be the response the creating miss produced:
same status, same headers (all but `Date`), same body bytes, byte-exact framing. Stated on
the two *observations* only. -/
def hitViolation (first cur : SeenResp) : String :=
  if cur.err != "" then "unreadable:" ++ cur.err
  else if !cur.frameOK then "framing:" ++ cur.frameErr
  else if !Spec.hitSameAsMiss (hdrKeysNoDate first.hdr ++ hdrKeysNoDate cur.hdr) first.status first.hdr cur.status cur.hdr then
    -- (`hist_meets_cacheOK`: the model's hits pass `hitSameAsMiss`); which part differs:
    if cur.status != first.status then s!"status:{cur.status}"
    else match (hdrKeysNoDate first.hdr ++ hdrKeysNoDate cur.hdr).find? (fun k => first.hdr.get k != cur.hdr.get k) with
      | some k => "header:" ++ k
      | none => "header:?"
  else if cur.bodySum != first.bodySum || cur.decErr != "" then "content" else ""

def judgeHist : Judge := liftJudge fun input obs => do
  match obsPanic obs with
  | some m => pure { agree := false, spec := false, sig := "panic:hist", note := m }
  | none =>
  if optStr obs "error" != "" then
    return { agree := false, spec := true, note := "harness: " ++ optStr obs "error", nontrivial := false, tags := ["harness-error"] }
  let cfgJ := (input.getObjVal? "cfg").toOption.getD Json.null
  let ccfg := (parseCache cfgJ).getD ⟨[], [], 0⟩
  let steps ← getArr input "steps"
  let obsSteps ← getArr obs "steps"
  if steps.size != obsSteps.size then throw "steps/observations length mismatch"
  let mut cache : Cache Sym := []
  let mut agree := true
  let mut sig := ""
  let mut note := ""
  let mut expected : Array Json := #[]
  let mut tags : List String := []
  -- per key: index of the step whose miss created the entry, and number of hits so far
  let mut created : List (String × Nat) := []
  let mut hitCount : List (String × Nat) := []
  let mut maxHits : Nat := 0
  let mut idx : Nat := 0
  for (stJ, obJ) in steps.toList.zip obsSteps.toList do
    let sc := parseStepScenario input stJ
    let o := parseOracle obJ
    let b := build sc o defaultMax
    let key := cacheKey "http" sc.host o.decPath sc.method
    let (cache', res) := runStep b.ops o.canon b.cfg ccfg cache b.q o.decPath b.reply
    let stored : Bool := decide (cache'.length > cache.length)
    cache := cache'
    match res with
    | .hit cl =>
      let n := (hitCount.lookup key).getD 0 + 1
      hitCount := (key, n) :: hitCount
      maxHits := max maxHits n
      let ord := if n == 1 then "hit1" else "hit2+"
      tags := tags ++ [ord]
      expected := expected.push (Json.mkObj [("step", idx), ("model", ord), ("status", cl.status), ("hdrs", hdrJson cl.hdr),
        ("bodySum", cl.payload.content.sum)])
      let some c := parseSeenResp obJ | throw "no client observation"
      let hits := (optInt obJ "hits").toNat
      let keysC := hdrKeysNoDate cl.hdr ++ b.backendHdr.map (·.1) ++ [keyCE, keyVary]
      let nobody := sc.method == "HEAD" || bodylessStatus c.status
      let ok := hits == 0 && c.err == "" && c.status == cl.status && hdrEqOn (keysC.filter (· != keyCL)) cl.hdr c.hdr && c.frameOK
        && (nobody || (c.bodySum == cl.payload.content.sum && (cl.hdr.get keyCL == [] || cl.hdr.get keyCL == [toString c.declared])))
      if !ok then
        agree := false
        if note == "" then note := s!"step {idx}: model says cache {ord}"
      -- the property, observation against observation
      let firstObs := (created.lookup key).bind fun m => (obsSteps.toList[m]?).bind parseSeenResp
      match firstObs with
      | some f =>
        let v := hitViolation f c
        if v != "" && sig == "" then
          -- class of the violation only (framing / header / content / status): one replay per class
          sig := "hist:" ++ ord ++ ":" ++ String.ofList (v.toList.takeWhile (· != ':'))
          note := s!"step {idx} ({ord}) differs from the response of the creating miss: {v}"
      | none => pure ()
    | .miss seen cl ok =>
      if stored then created := (key, idx) :: created
      tags := tags ++ [if stored then "miss-stored" else "miss-not-stored"]
      let v ← judgeOne sc obJ o b (.proxied seen cl ok)
      expected := expected.push (Json.mkObj [("step", idx), ("model", "miss"), ("stored", stored), ("detail", v.expected)])
      if !v.agree then
        agree := false
        if note == "" then note := s!"step {idx}: miss"
      if !v.spec && sig == "" then sig := "hist:miss:" ++ v.sig
    | .early st =>
      let v ← judgeOne sc obJ o b (.early st)
      expected := expected.push (Json.mkObj [("step", idx), ("model", "early")])
      tags := tags ++ ["early"]
      if !v.agree then agree := false
      if !v.spec && sig == "" then sig := "hist:early:" ++ v.sig
    | .adaptorFailed =>
      let v ← judgeOne sc obJ o b .adaptorFailed
      expected := expected.push (Json.mkObj [("step", idx), ("model", "adaptorFailed")])
      if !v.agree then agree := false
      if !v.spec && sig == "" then sig := "hist:adaptor:" ++ v.sig
    idx := idx + 1
  let respAd := (parseAd cfgJ "respAd")
  let adTag := match respAd with
    | none => "no-respAd"
    | some a => "respAd" ++ (if a.body != "" then "+body" else "") ++ (if a.compress then "+compress" else "") ++
        (if a.decompress then "+decompress" else "") ++ (if a.hkeys.isEmpty then "" else "+hdr")
  pure { agree := agree, spec := sig == "", sig := sig, note := note, expected := Json.arr expected,
         tags := tags.eraseDups ++ [adTag, s!"steps:{steps.size}", s!"max-hits-on-a-key:{min maxHits 3}"]
                 ++ (if optInt cfgJ "compression" (-1) ≥ 0 then ["pcomp"] else []),
         nontrivial := maxHits ≥ 2 }

/-! ## overlapping compressed responses (harness `conc`): in the model no state is shared between responses
(`gzip_writers_never_shared`), so every response is the one its own request gets alone: its backend's status, labelled
gzip, and bit-exactly its backend's body once the label is undone. -/

def judgeConc : Judge := liftJudge fun input obs => do
  match obsPanic obs with
  | some m => pure { agree := false, spec := false, sig := "panic:conc", note := m }
  | none =>
  if optStr obs "error" != "" then
    return { agree := false, spec := false, sig := "conc:" ++ (if (optStr obs "error").startsWith "server-panic" then "server-panic" else "harness-error"),
             note := optStr obs "error" }
  let warm := (getArr input "warm").toOption.getD #[]
  let conc := (getArr input "conc").toOption.getD #[]
  let blobs := ((getArr obs "blobs").toOption.getD #[]).toList
  let wObs := ((getArr obs "warm").toOption.getD #[]).toList
  let cObs := ((getArr obs "conc").toOption.getD #[]).toList
  let via := optStr input "via" "proxy"
  let check (phase : String) (spec : Json) (blob : Json) (o : Json) : String :=
    let c := Json.mkObj [("c", o)]
    match parseSeenResp c with
    | none => s!"conc:{phase}:no-response"
    | some r =>
      let st := (optInt spec "status" 200).toNat
      let st := if st < 200 || st > 599 || st == 204 || st == 304 then 200 else st
      let own := r.decErr == "" && r.decSum == optStr blob "sum" && r.decLen == (optInt blob "len").toNat
      if r.err != "" then s!"conc:{phase}:unreadable"
      else if Spec.isolationOK st r.status (r.hdr.get keyCE) own && r.frameOK && r.hdr.get "X-Body" != [] then ""   -- `conc_meets_isolationOK`
      else if r.status != st then s!"conc:{phase}:status:{r.status}"
      else if !r.frameOK then s!"conc:{phase}:framing:{r.frameErr}"
      else if (r.hdr.get keyCE) != ["gzip"] then s!"conc:{phase}:not-labelled-gzip"
      else if r.decErr != "" then s!"conc:{phase}:undecodable"
      else if r.decSum != optStr blob "sum" || r.decLen != (optInt blob "len").toNat then s!"conc:{phase}:content"
      else if r.hdr.get "X-Body" == [] then s!"conc:{phase}:hdr-lost" else ""
  let wSigs := (warm.toList.zip (blobs.zip wObs)).map fun (sp, bl, o) => check "warm-up" sp bl o
  let cSigs := (conc.toList.zip ((blobs.drop warm.size).zip cObs)).map fun (sp, bl, o) => check "overlap" sp bl o
  let lenOK := wObs.length == warm.size && cObs.length == conc.size
  let sig := ((wSigs ++ cSigs).find? (· != "")).getD (if lenOK then "" else "conc:missing-observation")
  let gated := (optInt obs "gated").toNat
  pure { agree := sig == "", spec := sig == "", sig := sig,
         tags := ["via:" ++ via, if optInt input "poolMax" < 0 then "stream" else "buffered", s!"overlapping:{conc.size}",
                  s!"warm-ups:{warm.size}", if gated == conc.size then "all-in-flight-together" else "not-all-gated"],
         nontrivial := gated ≥ 2 && gated == conc.size }

def judges : List (String × Judge) := [("unit", judgeUnit), ("e2e", judgeE2E), ("hist", judgeHist), ("conc", judgeConc)]

end Driver.C03

def main (args : List String) : IO UInt32 := Driver.runMain Driver.C03.judges args
