import Driver.Common
/-! Judge for C03: not built yet (stub so that the target exists). -/
open Lean Driver

namespace Driver.C03

def judges : List (String × Judge) := []

end Driver.C03

def main (args : List String) : IO UInt32 := Driver.runMain Driver.C03.judges args
