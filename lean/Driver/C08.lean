import Driver.Common
import EgVerif.Spec.CircuitBreaker
open Lean EgVerif.CircuitBreaker

namespace Driver.C08

def parsePolicy (j : Json) : Except String Policy := do
  let pj ← j.getObjVal? "policy"
  pure { failTh := (← getNat pj "failTh"), slowTh := (← getNat pj "slowTh"),
         timeBased := (← getNat pj "timeBased") != 0, size := (← getNat pj "size"),
         permitted := (← getNat pj "permitted"), minCalls := (← getNat pj "minCalls"),
         slowDur := (← getInt pj "slowDur"), maxWaitHalf := (← getInt pj "maxWaitHalf"),
         waitOpen := (← getInt pj "waitOpen") }

/-- `[k, a, b, c]`, missing entries read as 0: k=0 acquire; k=1 record (a = index of the
acquire step, b = hasErr, c = duration ns); k=2 advance by a ns (negative: 0); other k: no-op. -/
def parseOp (j : Json) : Except String Op := do
  let a ← j.getArr?
  let g (i : Nat) : Except String Int := if h : i < a.size then a[i].getInt? else pure 0
  let k ← g 0
  if k == 0 then pure Op.acquire
  else if k == 1 then
    let r ← g 1
    -- a negative reference names no step
    pure (Op.record (if r < 0 then 1000000000 else r.toNat) ((← g 2) != 0) (← g 3))
  else if k == 2 then
    let d ← g 1
    pure (Op.advance (if d < 0 then 0 else d))
  else pure (Op.advance 0)

def parseObs (obs : Json) : Except String (List Obs) := do
  let a ← getArr obs "steps"
  a.toList.mapM fun e => do
    let p ← e.getArr?
    unless p.size == 4 do throw "step entry"
    let b : Int ← p[0]!.getInt?
    let i : Nat ← p[1]!.getNat?
    let s : Nat ← p[2]!.getNat?
    let t : Nat ← p[3]!.getNat?
    pure ({ permitted := b != 0, id := i, st := s, total := t } : Obs)

def obsToJson (os : List Obs) : Json :=
  Json.mkObj [("steps", Json.arr (os.map (fun o =>
    Json.arr #[Json.num (if o.permitted then 1 else 0), Json.num o.id, Json.num o.st, Json.num o.total])).toArray)]

def robsToJson (os : List RObs) : Json :=
  Json.arr (os.map (fun o =>
    Json.arr #[Json.num (if o.permitted then 1 else 0), Json.num o.st, Json.num o.total])).toArray

def opKind : Op → String
  | .acquire => "acquire" | .record .. => "record" | .advance .. => "advance"

def stName (n : Nat) : String :=
  match n with | 0 => "disabled" | 1 => "closed" | 2 => "halfOpen" | 3 => "open" | _ => "forceOpen"

/-- lock-step judge for the `core` harness (`pkg/util/circuitbreaker`) -/
def judgeCore : Judge := liftJudge fun input obs => do
  let p ← parsePolicy input
  let t0 ← getInt input "t0"
  let ops ← (← getArr input "ops").toList.mapM parseOp
  match obsPanic obs with
  | some m => pure { agree := false, spec := false, sig := "cb:panic", note := m }
  | none =>
  let got ← parseObs obs
  let want := run p (new p t0) t0 [] ops
  let agree := decide (got = want)
  let ref := Ref.run p (Ref.new p t0) t0 [] ops
  let dv := firstDivergence got ref 0
  let spec := dv.isNone
  let sig := match dv with
    | none => ""
    | some (i, f) =>
      let before := if i == 0 then 1 else (ref.getD (i - 1) ⟨false, 1, 0⟩).st
      "cb:" ++ stName before ++ ":" ++ (match ops[i]? with | some o => opKind o | none => "end") ++ ":" ++ f
  let sts := want.map (·.st)
  let opened := sts.any (· == 3)
  let half := sts.any (· == 2)
  let reclosed := (sts.zip (sts.drop 1)).any (fun (a, b) => a == 2 && b == 1)
  let reopened := (sts.zip (sts.drop 1)).any (fun (a, b) => a == 2 && b == 3)
  let rejected := ((ops.zip want).any fun (o, w) => o == Op.acquire && !w.permitted)
  -- a record step that changed nothing although it named an admitted call: a stale result
  let stale := ((ops.zip (want.zip (⟨false, 0, 1, 0⟩ :: want))).any fun (o, (w, prev)) =>
      (match o with | .record .. => true | _ => false) && w.total == prev.total && w.st == prev.st)
  let tags := [if p.timeBased then "time-window" else "count-window"]
    ++ (if opened then ["opened"] else []) ++ (if half then ["half-open"] else [])
    ++ (if reclosed then ["half-open->closed"] else []) ++ (if reopened then ["half-open->open"] else [])
    ++ (if rejected then ["short-circuit"] else []) ++ (if stale then ["stale-or-unreferenced-record"] else [])
    ++ (if p.permitted == 0 then ["permitted=0"] else []) ++ (if p.waitOpen == 0 then ["waitOpen=0"] else [])
    ++ (if p.maxWaitHalf > 0 then ["maxWaitHalf>0"] else [])
    ++ (if p.minCalls > p.size then ["minCalls>size"] else [])
  pure { agree := agree, spec := spec, expected := Json.mkObj [("model", obsToJson want), ("automaton", robsToJson ref)],
         tags := tags, nontrivial := opened, sig := sig,
         note := match dv with | some (i, f) => s!"first divergence from the reference automaton at step {i}: {f}" | none => "" }

/-- `wrap` harness (`pkg/resilience`): per call the handler outcome (0 ok, 1 err, 2 panic); observed
per call: [returned class (0 nil, 1 handler error, 2 ErrShortCircuited, 3 panic), handler invoked,
State() afterwards]. Durations are 0 or one minute so that real time does not matter. -/
def judgeWrap : Judge := liftJudge fun input obs => do
  let p ← parsePolicy input
  let calls ← getIntList input "calls"
  match obsPanic obs with
  | some m => pure { agree := false, spec := false, sig := "wrap:panic", note := m }
  | none =>
  let got ← (← getArr obs "calls").toList.mapM fun e => do
    let a ← e.getArr?
    unless a.size == 3 do throw "call entry"
    let x : Int ← a[0]!.getInt?
    let y : Int ← a[1]!.getInt?
    let z : Nat ← a[2]!.getNat?
    pure (x, y, z)
  -- model: every call = acquire; wrap trace; the recorded result feeds `record` (`Spec.wrapRunModel`); spec: the
  -- reference automaton (`Spec.wrapRunRef`); `wrap_spec_accepts_model` proves the two equal for every call list
  let want := wrapRunModel p (new p 0) calls
  let wantR := wrapRunRef p (Ref.new p 0) calls
  let agree := decide (got = want)
  let spec := decide (got = wantR)
  let sc := want.any (fun x => x.1 == 2)
  pure { agree := agree, spec := spec,
         expected := Json.arr (want.map (fun (a, b, c) => Json.arr #[Json.num a, Json.num b, Json.num c])).toArray,
         tags := (if sc then ["short-circuited"] else []) ++ (if calls.any (· == 2) then ["panic"] else [])
                 ++ (if want.any (fun x => x.2.2 == 2) then ["half-open"] else []),
         nontrivial := sc,
         sig := if spec then "" else "wrap:record-count-or-short-circuit" }

/-- `proxy` harness (`pkg/filters/proxy`): observed (result, status, backend calls) per request. -/
def judgeProxy : Judge := liftJudge fun input obs => do
  let p ← parsePolicy input
  let calls ← getIntList input "calls"    -- 0: backend answers 200, 1: connection error, 2: backend answers 500 (failure code)
  match obsPanic obs with
  | some m => pure { agree := false, spec := false, sig := "proxy:panic", note := m }
  | none =>
  let got ← (← getArr obs "calls").toList.mapM fun e => do
    let a ← e.getArr?
    unless a.size == 3 do throw "call entry"
    let x : String ← a[0]!.getStr?
    let y : Nat ← a[1]!.getNat?
    let z : Nat ← a[2]!.getNat?
    pure (x, y, z)
  -- model: `Spec.proxyRun` (acquire, wrap trace, records, `poolOutcome`); `proxy_spec_accepts_model`
  let want := proxyRun p (new p 0) calls
  let agree := decide (got = want)
  -- property: a short-circuited call is 503 / shortCircuited and contacts no server; and a call is
  -- short-circuited exactly when the model's breaker refuses it
  let spec := agree && proxyShortOK got
  let sc := want.any (fun x => x.1 == "shortCircuited")
  pure { agree := agree, spec := spec,
         expected := Json.arr (want.map (fun (a, b, c) => Json.arr #[Json.str a, Json.num b, Json.num c])).toArray,
         tags := (if sc then ["short-circuited"] else []), nontrivial := sc,
         sig := if spec then "" else "proxy:short-circuit-mapping" }

def judges : List (String × Judge) :=
  [("C08", judgeCore), ("core", judgeCore), ("wrap", judgeWrap), ("proxy", judgeProxy)]

end Driver.C08

def main (args : List String) : IO UInt32 := Driver.runMain Driver.C08.judges args
