import Driver.Common
/-! Judge for C08: not built yet (stub so that the target exists). -/
open Lean Driver

namespace Driver.C08

def judges : List (String × Judge) := []

end Driver.C08

def main (args : List String) : IO UInt32 := Driver.runMain Driver.C08.judges args
