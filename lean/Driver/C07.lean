import Driver.Common
/-! Judge for C07: not built yet (stub so that the target exists). -/
open Lean Driver

namespace Driver.C07

def judges : List (String × Judge) := []

end Driver.C07

def main (args : List String) : IO UInt32 := Driver.runMain Driver.C07.judges args
