import Driver.PX
open Lean Driver EgVerif.Proxy EgVerif.Payload

namespace Driver.C07
open Driver.PX

def outcomeStr : Outcome → String
  | .stream => "stream"
  | .ok n => s!"ok:{n}"
  | .tooLarge => "tooLarge"
  | .shortRead => "shortRead"

/-! ## pure judge (pkg/protocols/httpprot harness): Request/Response.FetchPayload -/

def judgeFetch : Judge := liftJudge fun input obs => do
  match obsPanic obs with
  | some m => pure { agree := false, spec := false, sig := "panic:FetchPayload", note := m }
  | none =>
  if optStr obs "error" != "" then throw "harness rejected the input"
  let dir := optStr input "dir" "req"
  let limit := optInt input "limit"
  let declared := optInt input "declared" (-1)
  let actual := (optInt input "actual").toNat
  let head := optBool input "head" && dir == "resp"
  let dflt := optInt obs "default" defaultMax
  let src : Src := ⟨declared, actual⟩
  let want := if dir == "resp" then fetchResp dflt limit head src else fetch dflt limit src
  let gotS := optStr obs "outcome"
  let n := (optInt obs "n").toNat
  let got : Option Outcome := match gotS with
    | "stream" => some .stream
    | "ok" => some (.ok n)
    | "tooLarge" => some .tooLarge
    | "shortRead" => some .shortRead
    | _ => none
  let lim := Spec.limitInForce dflt limit 0
  let consumed := (optInt obs "consumed").toNat
  -- the reply to HEAD has no body: its declared length is not a body size
  let srcSpec : Src := if head then ⟨0, 0⟩ else src
  let (spec, sig) : Bool × String := match got with
    | none => (false, "fetch:unexpected-error:" ++ dir)
    | some o =>
      if !Spec.fetchOK lim srcSpec o then
        (false, "fetch:" ++ dir ++ ":" ++ (if head then "head:" else "") ++ gotS ++
          (if lim < 0 then ":stream-limit" else if Spec.isShort srcSpec then ":short-body"
           else if (Spec.size srcSpec : Int) > lim then ":over-limit" else if (Spec.size srcSpec : Int) == lim then ":at-limit" else ":under-limit"))
      else if gotS == "ok" && !optBool obs "content" then (false, "fetch:content-corrupted")
      else if gotS == "tooLarge" && declared > lim && consumed != 0 then (false, "fetch:declared-too-large-but-read")
      else (true, "")
  let rel := if lim < 0 then "stream" else if (Spec.size src : Int) > lim then "over" else if (Spec.size src : Int) == lim then "at" else "under"
  pure { agree := got == some want, spec := spec, sig := sig,
         expected := Json.mkObj [("outcome", outcomeStr want)],
         tags := [dir, "size-" ++ rel, if declared < 0 then "chunked" else if Spec.isShort src then "lying-short"
                    else if declared.toNat < actual then "lying-long" else "declared", "model:" ++ (outcomeStr want).takeWhile (· != ':')]
                 ++ (if limit == 0 then ["default-limit"] else []) ++ (if head then ["head"] else []),
         nontrivial := rel != "under" || Spec.isShort src }

/-! ## end-to-end judge (pkg/object/httpserver loopback harness) -/

/-- one request / response pair of a scenario (also used per request step of an update history) -/
def judgeScenario (sc : Scenario) (obs : Json) : Except String Verdict := do
  if optStr obs "error" != "" then
    return { agree := false, spec := true, note := "harness: " ++ optStr obs "error", nontrivial := false, tags := ["harness-error"] }
  let o := parseOracle obs
  let hits := (optInt obs "hits").toNat
  let some c := parseSeenResp obs | throw "no client observation"
  let bSeen := parseSeenReq obs
  let b := build sc o defaultMax
  let res := runModel b o.canon
  let isHead := sc.method == "HEAD"
  let nobody := isHead || bodylessStatus c.status
  -- sources, as the statement sees them
  let reqSrc : Src := ⟨b.q.declared, b.q.body.len⟩
  let respWire := (wireSym sc.bBody o.back)
  let respSrc : Src := if isHead || bodylessStatus sc.bStatus then ⟨0, 0⟩ else
    match sc.bBody.enc with
    | "lie" => ⟨sc.bBody.decl, respWire.len⟩
    | "cl" => ⟨respWire.len, respWire.len⟩
    | _ => ⟨-1, respWire.len⟩
  let reqLim := Spec.limitInForce defaultMax sc.pathMax sc.serverMax
  let respLim := Spec.limitInForce defaultMax sc.poolMax sc.proxyMax
  -- agreement with the model
  -- stream mode + short backend body: the mux's copy fails and it aborts the connection (model: `clientAborted`)
  let aborted := clientAborted b.ops o.canon b.cfg b.q b.reply
  let sawAbort := c.err != "" || !c.frameOK
  let agree : Bool := if aborted then hits ≥ 1 && sawAbort else match res with
    | .early st => hits == 0 && c.status == st
    | .adaptorFailed => hits == 0 && c.status == 503
    | .proxied seen cl ok =>
      hits ≥ 1 && c.status == cl.status &&
      (match bSeen with | some bs => bs.bodySum == seen.body.sum | none => false) &&
      (nobody || !ok || cl.payload.isStream && Spec.isShort respSrc || c.bodySum == cl.payload.content.sum)
  let expected := match res with
    | .early st => Json.mkObj [("early", st)]
    | .adaptorFailed => Json.mkObj [("adaptorFailed", true)]
    | .proxied seen cl ok => Json.mkObj [("backendBodySum", seen.body.sum), ("status", cl.status), ("proxyOK", ok),
        ("clientBodySum", cl.payload.content.sum)]
  -- the property on the observation
  let contacted := hits ≥ 1
  let reqOK := Spec.requestOK reqLim reqSrc (if c.status == 413 || c.status == 400 then c.status else 0) contacted
  let intactAtBackend := match bSeen with
    | some bs => bs.bodySum == b.q.body.sum && bs.bodyLen == b.q.body.len
    | none => false
  let delivered := !nobody && c.decSum == o.back.sum
  let sig : String :=
    if c.err != "" && !(contacted && respLim < 0 && Spec.isShort respSrc) then "e2e:unreadable:" ++ c.err
    else if !reqOK then
      "e2e:request:" ++ (if c.status == 413 || c.status == 400 then toString c.status else "passed") ++ ":" ++
        (if contacted then "forwarded" else "not-forwarded") ++
        (if reqLim < 0 then ":stream" else if Spec.isShort reqSrc then ":short" else if (Spec.size reqSrc : Int) > reqLim then ":over" else ":within")
        ++ ":" ++ sc.body.enc
    else if contacted && !Spec.isShort reqSrc && !intactAtBackend then "e2e:request:body-not-intact:" ++ sc.body.enc
    else if !contacted then ""
    else if respLim < 0 then
      -- stream mode (`Spec.streamResponseOK`, accepted by the model: `run_meets_streamResponseOK`): a short body is a
      -- visibly aborted transfer — no readable response at all, or a framing error — with or without the Proxy's gzip
      -- compressor in between; an honest body of any size arrives complete with the backend's status (and intact)
      if !Spec.streamResponseOK respSrc sc.bStatus c.status (c.err != "" || !c.frameOK) then
        (if Spec.isShort respSrc then "e2e:response:short-body-clean-success:stream" ++ (if sc.compression ≥ 0 then "+pcomp" else "")
         else if c.err == "" && c.status != sc.bStatus then s!"e2e:response:status:{c.status}:stream"
         else "e2e:response:stream-not-intact")
      else if !Spec.isShort respSrc && !nobody && c.decSum != o.back.sum then "e2e:response:stream-not-intact"
      else ""
    else if !Spec.responseOK respLim respSrc sc.bStatus c.status delivered
        && !(nobody && c.status == sc.bStatus && !Spec.isShort respSrc && (Spec.size respSrc : Int) ≤ respLim) then
      "e2e:response:" ++ (if c.status ≥ 500 then "5xx" else if c.status == sc.bStatus then "backend-status" else toString c.status) ++ ":" ++
        (if delivered then "delivered" else "withheld") ++
        (if Spec.isShort respSrc then ":short" else if (Spec.size respSrc : Int) > respLim then ":over" else ":within") ++ ":" ++ sc.bBody.enc
    else if !c.frameOK then "e2e:response:framing:" ++ c.frameErr
    else ""
  let rel (lim : Int) (s : Src) : String :=
    if lim < 0 then "stream" else if Spec.isShort s then "short" else if (Spec.size s : Int) > lim then "over"
    else if (Spec.size s : Int) == lim then "at" else "under"
  let lvl (inner outer : Int) : String := if inner != 0 then "inner" else if outer != 0 then "outer" else "default"
  let sig := if sig != "" && isHead then sig ++ "+head" else sig
  pure { agree := agree, spec := sig == "", sig := sig, expected := expected,
         tags := ["req-" ++ rel reqLim reqSrc, "resp-" ++ rel respLim respSrc, "req-enc:" ++ sc.body.enc, "resp-enc:" ++ sc.bBody.enc,
                  "req-limit-level:" ++ lvl sc.pathMax sc.serverMax, "resp-limit-level:" ++ lvl sc.poolMax sc.proxyMax,
                  s!"client-status:{c.status}", if contacted then "backend-contacted" else "backend-not-contacted"]
                 ++ (if isHead then ["head"] else []) ++ (if sc.compression ≥ 0 then ["proxy-compression"] else [])
                 ++ (if aborted then ["model:client-aborted"] else []),
         nontrivial := rel reqLim reqSrc != "under" || (contacted && rel respLim respSrc != "under") }

def judgeE2E : Judge := liftJudge fun input obs => do
  match obsPanic obs with
  | some m => pure { agree := false, spec := false, sig := "panic:e2e", note := m }
  | none => judgeScenario (parseScenario input) obs

/-! ## update histories: `mux.reload` between requests (model: `Payload.muxHistory` — every request is served with the
limits of the spec in force when it arrives, `effective_limit_over_reload_histories`) -/

def judgeReload : Judge := liftJudge fun input obs => do
  match obsPanic obs with
  | some m => pure { agree := false, spec := false, sig := "panic:reload", note := m }
  | none =>
  if optStr obs "error" != "" then
    return { agree := false, spec := true, note := "harness: " ++ optStr obs "error", nontrivial := false, tags := ["harness-error"] }
  let cfg0 := (input.getObjVal? "cfg").toOption.getD Json.null
  let steps ← getArr input "steps"
  let obsSteps ← getArr obs "steps"
  if steps.size != obsSteps.size then throw "steps/observations length mismatch"
  let mut pathMax := optInt cfg0 "pathMax"
  let mut serverMax := optInt cfg0 "serverMax"
  let mut rulesN : Int := 0
  let mut lastKind := "initial"
  let mut agree := true
  let mut sig := ""
  let mut note := ""
  let mut tags : List String := []
  let mut nontrivial := false
  let mut expected : Array Json := #[]
  let mut idx : Nat := 0
  let mut sinceReload : Nat := 0
  let cacheOn := match cfg0.getObjVal? "cache" with | .ok (.obj _) => true | _ => false
  let mut allBad := true
  for (stJ, obJ) in steps.toList.zip obsSteps.toList do
    match stJ.getObjVal? "reload" with
    | .ok (.obj o) =>
      let r := Json.obj o
      let p := optInt r "pathMax"
      let sv := optInt r "serverMax"
      let rules := optInt r "rules"
      lastKind := if rules != rulesN then "rules-changed" else if p != pathMax then "path-level" else if sv != serverMax then "server-level-only" else "nothing-changed"
      pathMax := p
      serverMax := sv
      rulesN := rules
      sinceReload := 0
      tags := tags ++ ["reload:" ++ lastKind]
      if optStr obJ "error" != "" then throw ("harness: " ++ optStr obJ "error")
    | _ =>
      let cfg := (cfg0.setObjVal! "pathMax" (Json.num pathMax)).setObjVal! "serverMax" (Json.num serverMax)
      let sc := parseScenario (stJ.setObjVal! "cfg" cfg)
      let v ← judgeScenario sc obJ
      sinceReload := sinceReload + 1
      -- memoryCache histories: while every backend answer so far (and this one) is rejected by the response limit in
      -- force, the cache cannot hold an admissible entry, so a non-5xx answer given without contacting the backend can
      -- only be a rejected response that was stored ("never delivered to the client")
      let bad := v.tags.contains "resp-over" || v.tags.contains "resp-short"
      if cacheOn && allBad && bad && sig == "" && v.tags.contains "backend-not-contacted"
          && !(v.tags.any fun t => t.startsWith "client-status:5" || t == "client-status:413" || t == "client-status:400") then
        sig := "reload:cache:rejected-response-served-from-cache"
        note := s!"step {idx}: answered without contacting the backend although every backend answer of this history exceeds the response limit"
      if !bad then allBad := false
      if cacheOn then tags := tags ++ ["memory-cache"]
      expected := expected.push (Json.mkObj [("step", idx), ("pathMax", Json.num pathMax), ("serverMax", Json.num serverMax), ("model", v.expected)])
      if !v.agree then
        agree := false
        if note == "" then note := s!"step {idx} (limits path={pathMax} server={serverMax}, after {lastKind})"
      if !v.spec && sig == "" then
        sig := "reload:" ++ lastKind ++ ":" ++ v.sig
        note := s!"step {idx}: limits in force path={pathMax} server={serverMax} (last update: {lastKind})"
      if v.nontrivial && lastKind != "initial" then nontrivial := true
      tags := tags ++ (v.tags.filter fun t => t.startsWith "req-" && !t.startsWith "req-enc" && !t.startsWith "req-limit") 
    idx := idx + 1
  pure { agree := agree, spec := sig == "", sig := sig, note := note, expected := Json.arr expected,
         tags := tags.eraseDups ++ [s!"steps:{steps.size}"], nontrivial := nontrivial }

def judges : List (String × Judge) := [("fetch", judgeFetch), ("e2e", judgeE2E), ("reload", judgeReload)]

end Driver.C07

def main (args : List String) : IO UInt32 := Driver.runMain Driver.C07.judges args
