import Lean.Data.Json
/-!
Shared plumbing for the judge (`egjudge`). A judge for one property is a
function `Json (input) → Json (obs) → Verdict`.
-/
open Lean

namespace Driver

structure Verdict where
  /-- the implementation's observable behaviour equals the model's -/
  agree : Bool
  /-- the implementation's observable behaviour satisfies the property's executable spec -/
  spec : Bool
  /-- what the model expects (for the replay file) -/
  expected : Json := Json.null
  /-- classification tags: input distribution / branches hit (histogram in the evidence) -/
  tags : List String := []
  /-- the case exercises something non-trivial (rule documented per property) -/
  nontrivial : Bool := true
  /-- signature class of a spec violation (matched against known_findings.json) -/
  sig : String := ""
  note : String := ""

def Verdict.toJson (id : Json) (v : Verdict) : Json :=
  Json.mkObj [("id", id), ("agree", v.agree), ("spec", v.spec), ("expected", v.expected),
    ("tags", Json.arr (v.tags.map Json.str).toArray), ("nontrivial", v.nontrivial),
    ("sig", v.sig), ("note", v.note)]

def badInput (msg : String) : Verdict :=
  { agree := false, spec := true, note := "judge-bad-input: " ++ msg, nontrivial := false }

/-- The harness reported a panic / hang for this case. -/
def obsPanic (obs : Json) : Option String :=
  match obs.getObjVal? "panic" with
  | .ok (.str s) => some s
  | .ok j => some j.compress
  | .error _ =>
    match obs.getObjVal? "hang" with
    | .ok j => some ("hang " ++ j.compress)
    | .error _ => none

def getInt (j : Json) (k : String) : Except String Int := do
  let v ← j.getObjVal? k
  v.getInt?

def getNat (j : Json) (k : String) : Except String Nat := do
  let v ← j.getObjVal? k
  v.getNat?

def getStr (j : Json) (k : String) : Except String String := do
  let v ← j.getObjVal? k
  v.getStr?

def getBool (j : Json) (k : String) : Except String Bool := do
  let v ← j.getObjVal? k
  v.getBool?

def getArr (j : Json) (k : String) : Except String (Array Json) := do
  let v ← j.getObjVal? k
  match v with
  | .null => pure #[]      -- Go marshals nil slices as null
  | _ => v.getArr?

def getIntList (j : Json) (k : String) : Except String (List Int) := do
  let a ← getArr j k
  a.toList.mapM (·.getInt?)

def getStrList (j : Json) (k : String) : Except String (List String) := do
  let a ← getArr j k
  a.toList.mapM (·.getStr?)

def optStr (j : Json) (k : String) (d : String := "") : String :=
  match getStr j k with | .ok s => s | .error _ => d

def optInt (j : Json) (k : String) (d : Int := 0) : Int :=
  match getInt j k with | .ok s => s | .error _ => d

def optBool (j : Json) (k : String) (d : Bool := false) : Bool :=
  match getBool j k with | .ok s => s | .error _ => d

abbrev Judge := Json → Json → Verdict

/-- Wrap a judge written in `Except`. -/
def liftJudge (f : Json → Json → Except String Verdict) : Judge := fun i o =>
  match f i o with
  | .ok v => v
  | .error e => badInput e


partial def loop (h : IO.FS.Stream) (out : IO.FS.Stream) (j : Judge) : IO Unit := do
  let line ← h.getLine
  if line.isEmpty then return ()
  if line.trimAscii.isEmpty then
    loop h out j
  else
    let v : Json := match Json.parse line with
      | .error e => (badInput ("json: " ++ e)).toJson Json.null
      | .ok c =>
        let id := (c.getObjVal? "id").toOption.getD Json.null
        match c.getObjVal? "input", c.getObjVal? "obs" with
        | .ok i, .ok o => (j i o).toJson id
        | _, _ => (badInput "missing input/obs").toJson id
    out.putStrLn v.compress
    loop h out j

/-- `egjudge-Cxx <judge-name>`: reads harness lines `{"id":…,"input":…,"obs":…}` on stdin,
evaluates the Lean model and the executable specification on each, prints one verdict
line per case. -/
def runMain (judges : List (String × Judge)) (args : List String) : IO UInt32 := do
  match args with
  | [p] =>
    match judges.lookup p with
    | some j =>
      let stdin ← IO.getStdin
      let stdout ← IO.getStdout
      loop stdin stdout j
      stdout.flush
      return 0
    | none => IO.eprintln s!"egjudge: no judge named {p}"; return 2
  | _ => IO.eprintln "usage: egjudge-Cxx <judge-name>"; return 2

end Driver
