import Driver.MuxJudge
/-! Judge for C01 (HTTP routing): the shared mux judge of `Driver/MuxJudge.lean`. -/
open Lean Driver

namespace Driver.C01

def judges : List (String × Judge) := [("C01", MuxJudge.judge false)]

end Driver.C01

def main (args : List String) : IO UInt32 := Driver.runMain Driver.C01.judges args
