import Driver.Common
/-! Judge for C01: not built yet (stub so that the target exists). -/
open Lean Driver

namespace Driver.C01

def judges : List (String × Judge) := []

end Driver.C01

def main (args : List String) : IO UInt32 := Driver.runMain Driver.C01.judges args
