import Driver.Common
/-! Judge for C12: not built yet (stub so that the target exists). -/
open Lean Driver

namespace Driver.C12

def judges : List (String × Judge) := []

end Driver.C12

def main (args : List String) : IO UInt32 := Driver.runMain Driver.C12.judges args
