import Driver.C12Judge
/-! `egjudge-C12`: the judge itself lives in `Driver/C12Judge.lean` (shared with C05's cache-on harness). -/

def main (args : List String) : IO UInt32 := Driver.runMain Driver.C12.judges args
