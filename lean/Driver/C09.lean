import Driver.Common
import EgVerif.Spec.RateLimiter
import EgVerif.Spec.RateLimiterExt
import EgVerif.Model.URLRule
open Lean EgVerif.RateLimiter

namespace Driver.C09

def outsToJson (os : List Out) : Json :=
  Json.mkObj [("res", Json.arr (os.map (fun o =>
    Json.arr #[Json.num (if o.permitted then 1 else 0), Json.num o.wait])).toArray)]

def parseObs (obs : Json) : Except String (List Out) := do
  let a ← getArr obs "res"
  a.toList.mapM fun e => do
    let p ← e.getArr?
    unless p.size == 2 do throw "res entry"
    let b : Int ← p[0]!.getInt?
    let w : Int ← p[1]!.getInt?
    pure ({ permitted := b != 0, wait := w } : Out)

def judge : Judge := liftJudge fun input obs => do
  let L ← getInt input "L"
  let P ← getInt input "P"
  let T ← getInt input "T"
  let arr ← getIntList input "arrivals"
  let cntsRaw ← getIntList input "counts"
  let cnts := if cntsRaw.length == arr.length then cntsRaw else arr.map (fun _ => 1)
  let p : Policy := { L := L, P := P, T := T }
  match obsPanic obs with
  | some m => pure { agree := false, spec := false, sig := "panic", note := m }
  | none =>
  let got ← parseObs obs
  let want := run p init (arr.zip cnts)
  let agree := decide (got = want)
  let single := cnts.all (· == 1)
  -- the spec is evaluated on what the implementation returned
  let hist : Hist := arr.zip got
  let spec := if single then specHist p [] hist && got.length == arr.length else true
  let rej := got.any (fun o => !o.permitted)
  let waited := got.any (fun o => o.permitted && o.wait > 0)
  let boundary := arr.any (fun a => a % P == 0 && a != 0)
  let gap := (arr.zip (arr.drop 1)).any (fun (a, b) => b - a ≥ 2 * P)
  let tags := (if single then ["single"] else ["multi"])
    ++ (if rej then ["reject"] else []) ++ (if waited then ["wait"] else [])
    ++ (if boundary then ["boundary-arrival"] else []) ++ (if gap then ["idle-gap"] else [])
    ++ (if T < P then ["T<P"] else if T == 0 then ["T=0"] else ["T>=P"])
  pure { agree := agree, spec := spec, expected := outsToJson want, tags := tags,
         nontrivial := rej || waited,
         sig := if spec then "" else "limit-exceeded-or-wait-bound" }

/-! ### filter level (`pkg/filters/ratelimiter`) -/
section Filter
open EgVerif.RateLimiterFilter

def parseSpec (j : Json) (pt pp : List Int) : Except String Spec := do
  let ps ← getArr j "policies"
  let pols ← (ps.toList.zipIdx).mapM fun (pj, i) => do
    pure ({ name := (← getStr pj "name"), timeout := (← getStr pj "timeout"), refresh := (← getStr pj "refresh"),
            limit := (← getInt pj "limit"), timeoutNs := pt.getD i 0, refreshNs := pp.getD i 0 } : Pol)
  let us ← getArr j "urls"
  let urls ← us.toList.mapM fun uj => do
    pure ({ methods := (← getStrList uj "methods"), exact := (← getStr uj "exact"), pfx := (← getStr uj "prefix"),
            regex := (← getStr uj "regex"), policyRef := (← getStr uj "policyRef") } : URLRule)
  pure { policies := pols, defaultRef := (← getStr j "defaultRef"), urls := urls }

structure LimObs where
  id : Nat
  L : Int
  T : Int
  P : Int
  tokens : Int
deriving DecidableEq, Repr

def parseLims (o : Json) : Except String (List LimObs) := do
  let a ← getArr o "lims"
  a.toList.mapM fun l => do
    pure { id := (← getNat l "id"), L := (← getInt l "L"), T := (← getInt l "T"), P := (← getInt l "P"),
           tokens := (← getInt l "tokens") }

def limsOf (rls : List (Option Nat)) (h : Heap) : List LimObs :=
  rls.map fun r => match r with
    | none => ⟨0, 0, 0, 0, 0⟩
    | some id => match heapGet h id with
      | some l => ⟨id, l.policy.L, l.policy.T, l.policy.P, l.state.tokens⟩
      | none => ⟨id, 0, 0, 0, 0⟩

structure FState where
  cur : Option Gen := none
  heap : Heap := []
  next : Nat := 1
  agree : Bool := true
  spec : Bool := true
  sig : String := ""
  note : String := ""
  tags : List String := []
  lastLims : List LimObs := []     -- observed limiters of the current generation after the last step
  dead : Bool := false
  desync : Bool := false          -- a timing-dependent request was served: token counts no longer compared

def FState.fail (s : FState) (sg nt : String) : FState :=
  if s.spec then { s with spec := false, sig := sg, note := nt } else s

def hourNs : Int := 60000000000

def filterStep (s : FState) (stepIn obs : Json) : Except String FState := do
  if s.dead then return s
  let kind := optStr obs "kind"
  let panic := optStr obs "panic"
  if kind == "skip" then return { s with tags := "invalid-spec-skipped" :: s.tags }
  if kind == "reload" then
    let pt ← getIntList obs "parsedT"
    let pp ← getIntList obs "parsedP"
    let sp ← parseSpec (← stepIn.getObjVal? "reload") pt pp
    let st := reload sp s.cur s.heap s.next
    let dupNew := decide (sp.urls.eraseDups.length ≠ sp.urls.length)
    let tagsR := (if s.cur.isSome then ["inherit"] else ["init"]) ++ (if dupNew then ["duplicate-rule"] else [])
    if panic != "" then
      let s1 := { s with agree := s.agree && st.panicked, dead := true, tags := "reload-panic" :: tagsR ++ s.tags }
      return s1.fail (if dupNew then "filter:reload-panic:duplicate-rule" else "filter:reload-panic") panic
    let got ← parseLims obs
    let prevGot ← getIntList obs "prev"
    let want := limsOf st.rls st.heap
    let mask := fun (l : LimObs) => if s.desync then { l with tokens := 0 } else l
    let agree := !st.panicked && decide (got.map mask = want.map mask) && decide (prevGot = ((match s.cur with | some g => g.rls | none => []) : List (Option Nat)).map (fun r => ((r.getD 0 : Nat) : Int)))
    -- property: an unchanged rule (same rule, same policy content) keeps its limiter object and
    -- state; a new / changed one gets a fresh limiter with the documented defaults
    let mut s1 := { s with agree := s.agree && agree, tags := tagsR ++ s.tags }
    let prevLims := s.lastLims
    let mut carried := false
    let mut fresh := false
    for (u, g) in sp.urls.zip got do
      let carriedFrom : Option LimObs := match s.cur with
        | none => none
        | some pg =>
          (pg.spec.urls.zip prevLims).find? (fun (pu, _) => decide (pu = u) && isSamePolicy sp pg.spec u.policyRef)
            |>.map (·.2)
      match carriedFrom with
      | some pl =>
        carried := true
        unless g.id == pl.id && g.tokens == pl.tokens && g.id != 0 do
            s1 := s1.fail "filter:reload-lost-state" s!"rule {repr u} unchanged but limiter {repr pl} became {repr g}"
      | none =>
        fresh := true
        let pol := (bindPolicy sp u).map limiterPolicy
        let isNew := prevLims.all (fun pl => pl.id != g.id) && g.id != 0
        unless isNew && g.tokens == 0 && some (⟨g.L, g.P, g.T⟩ : Policy) == pol do
          s1 := s1.fail "filter:reload-not-fresh" s!"rule {repr u} changed/new but limiter is {repr g}"
    return { s1 with cur := some ⟨sp, st.rls⟩, heap := st.heap, next := st.next, lastLims := got,
                     tags := (if carried then ["carried-over"] else []) ++ (if fresh then ["fresh-limiter"] else []) ++ s1.tags }
  if kind == "req" then
    let some g := s.cur | throw "req before init"
    if panic != "" then
      return ({ s with agree := false, dead := true }).fail "filter:handle-panic" panic
    let msJ ← getArr obs "matches"
    let ms ← msJ.toList.mapM (·.getBool?)
    -- pkg/util/urlrule: what the model of `URLRule.Match` (after `Init`) and its declarative reading say, with
    -- the standard library's regexp answers as oracle
    let boolsOf (k : String) : List Bool := match obs.getObjVal? k with
      | .ok (.arr a) => a.toList.map (fun j => j.getBool?.toOption.getD false) | _ => []
    let reOra := boolsOf "reOra"
    let empties := boolsOf "empties"
    let method := optStr obs "method"
    let path := optStr obs "path"
    let rules : List (EgVerif.URLRule.Rule × Bool) := (g.spec.urls.zipIdx).map fun (u, k) =>
      (({ methods := u.methods, url := { exact := u.exact, pfx := u.pfx, regex := u.regex, empty := empties.getD k false },
          policyRef := u.policyRef } : EgVerif.URLRule.Rule), reOra.getD k false)
    let msModel := rules.map fun (r, o) => r.inited.matches (fun _ _ => o) method path
    let msSpec := rules.map fun (r, o) => r.spec (fun _ _ => o) method path
    let haveOracle := reOra.length == g.spec.urls.length && method != ""
    let result := optStr obs "result"
    let status := (optInt obs "status").toNat
    let got ← parseLims obs
    let timing := s.lastLims.any (fun l => l.id != 0 && l.P < hourNs)
    let mut s1 := s
    if haveOracle then
      unless msModel == ms do
        s1 := { s1 with agree := false, note := s!"urlrule model {msModel} vs Match {ms} for {method} {path}" }
      unless msSpec == ms do
        s1 := s1.fail "filter:urlrule-match-wrong" s!"rules should match {msSpec} but Match answered {ms} for {method} '{path}'"
    match handle (fun _ => 0) ms g.rls s.heap with
    | none => s1 := { s1 with agree := false, note := "model: nil limiter" }
    | some (h', out) =>
      if timing then s1 := { s1 with desync := true }
      unless timing || s.desync do
        let ok := out.result == result && out.status.getD 0 == status && decide (limsOf g.rls h' = got)
        s1 := { s1 with agree := s1.agree && ok, heap := h' }
    -- property, on the observed behaviour
    let before := s.lastLims
    let first := (ms.zip before).find? (·.1)
    let changed := (before.zip got).filter (fun (a, b) => a.id != b.id || a.tokens != b.tokens)
    match first with
    | none =>
      unless result == "" && status == 0 && (timing || changed.isEmpty) do
        s1 := s1.fail "filter:unmatched-limited" s!"no rule matches but result={result} status={status}"
      s1 := { s1 with tags := "unmatched" :: s1.tags }
    | some (_, l) =>
      unless timing do
        -- every request is in cycle 0: rejected iff the horizon L*(T/P+1) is full
        let full := decide (l.tokens ≥ l.L * (l.T / l.P + 1))
        unless (result == "rateLimited") == full do
          s1 := s1.fail "filter:wrong-decision" s!"first matching limiter {repr l} result={result}"
        unless changed.all (fun (a, _) => a.id == l.id) do
          s1 := s1.fail "filter:other-rule-consumed" s!"limiters other than the first matching rule's changed"
      s1 := { s1 with tags := "matched" :: s1.tags }
    unless (result == "rateLimited") == (status == 429) && (result == "" || result == "rateLimited") do
      s1 := s1.fail "filter:429-mapping" s!"result={result} status={status}"
    if result == "rateLimited" then
      unless optStr obs "header" == "too-many-requests" do
        s1 := s1.fail "filter:429-mapping" "X-EG-Rate-Limiter header missing"
      s1 := { s1 with tags := "429" :: s1.tags }
    return { s1 with lastLims := got, tags := (if timing then ["timing-dependent"] else []) ++ s1.tags }
  throw s!"unknown step kind {kind}"

def judgeFilter : Judge := liftJudge fun input obs => do
  match obsPanic obs with
  | some m => pure { agree := false, spec := false, sig := "filter:harness-panic", note := m }
  | none =>
  let steps ← getArr input "steps"
  let os ← getArr obs "steps"
  let mut s : FState := {}
  for (i, o) in steps.toList.zip os.toList do
    s ← filterStep s i o
  let tags := s.tags.eraseDups
  pure { agree := s.agree, spec := s.spec, tags := tags, sig := s.sig, note := s.note,
         nontrivial := tags.contains "429" && tags.contains "carried-over" }

end Filter

/-! ### MultiRateLimiter (`pkg/util/ratelimiter`) and the MQTT `Limiter` (`pkg/object/mqttproxy`) -/

def judgeMulti : Judge := liftJudge fun input obs => do
  let Ls ← getIntList input "Ls"
  let P ← getInt input "P"
  let T ← getInt input "T"
  let arr ← getIntList input "arrivals"
  let cj ← getArr input "counts"
  let cntsRaw ← cj.toList.mapM fun c => match c with
    | .null => pure ([] : List Int)
    | _ => do (← c.getArr?).toList.mapM (·.getInt?)
  let cnts := (List.range arr.length).map (fun i => cntsRaw.getD i [])
  match obsPanic obs with
  | some m => pure { agree := false, spec := false, sig := "multi:panic", note := m }
  | none =>
  let p : MPolicy := { Ls := Ls, P := P, T := T }
  let got ← (← getArr obs "res").toList.mapM fun e => do
    let a ← e.getArr?
    unless a.size == 3 do throw "res entry"
    let b : Int ← a[0]!.getInt?
    let w : Int ← a[1]!.getInt?
    let er : Int ← a[2]!.getInt?
    pure ({ permitted := b != 0, wait := w, err := er != 0 } : MOut)
  let want := mrun p (minit p) (arr.zip cnts)
  let agree := decide (got = want)
  -- property (timeout 0): every admission is immediate; per period and dimension the admitted
  -- amount stays below limit + largest admitted request (so ≤ limit where every request asks 1)
  let wellFormed := cnts.all (fun c => c.length == Ls.length && c.all (· ≥ 0)) && Ls.all (· > 0)
  let spec :=
    if T == 0 && wellFormed then
      got.length == arr.length && got.all (fun o => !o.err && (!o.permitted || o.wait == 0)) &&
      (List.range Ls.length).all (fun d =>
        let h : NHist := (arr.zip (cnts.zip got)).map (fun (a, c, o) => (a, c.getD d 0, o.permitted))
        overshootOk (Ls.getD d 1) P h)
    else true
  let rej := got.any (fun o => !o.permitted && !o.err)
  let tags := (if T == 0 then ["T=0"] else ["T>0"]) ++ (if rej then ["reject"] else [])
    ++ (if got.any (·.err) then ["arity-error"] else []) ++ (if got.any (fun o => o.wait > 0 && o.permitted) then ["wait"] else [])
    ++ [s!"dims={Ls.length}"]
  pure { agree := agree, spec := spec, tags := tags, nontrivial := rej,
         expected := Json.arr (want.map (fun o => Json.arr #[Json.num (if o.permitted then 1 else 0), Json.num o.wait,
           Json.num (if o.err then 1 else 0)])).toArray,
         sig := if spec then "" else "multi:period-bound-exceeded" }

def judgeMqtt : Judge := liftJudge fun input obs => do
  let isNil := optBool input "nil"
  let rr ← getInt input "requestRate"
  let br ← getInt input "bytesRate"
  let tp ← getInt input "timePeriod"
  let pk ← getIntList input "packets"
  match obsPanic obs with
  | some m => pure { agree := false, spec := false, sig := "mqtt:panic", note := m }
  | none =>
  let got := (← getIntList obs "permitted").map (· != 0)
  let kind := optStr obs "kind"
  let l := newLimiter (if isNil then none else some ⟨rr, br, tp⟩)
  let wantKind := match l with
    | .none => "none" | .multi .. => "multi" | .request .. => "request" | .byte .. => "byte"
  -- virtual clock: packet k arrives after the advances dts[0..k] (absent = 0: everything in period 0)
  let dts := (getIntList input "dts").toOption.getD []
  let times := arrivalTimes 0 dts pk.length
  let arr := times.zip pk
  let want := l.run arr
  let wantPol : Int × Int × List Int := match l with
    | .none => (0, 0, []) | .multi p _ => (p.P, p.T, p.Ls)
    | .request p _ => (p.P, p.T, [p.L]) | .byte p _ => (p.P, p.T, [p.L])
  let gotPol : Int × Int × List Int := (optInt obs "P", optInt obs "T", (getIntList obs "Ls").toOption.getD [])
  let agree := decide (got = want) && kind == wantKind && decide (gotPol = wantPol)
  -- property: per period at most requestRate packets; admitted bytes < bytesRate + largest admitted packet
  -- (`requestsOk` / `overshootOk` over the observed history; accepted for the model's run by
  -- `mqtt_request_run_bound`, `mqtt_bytes_run_bound`, `mqtt_multi_run_bounds`)
  let limited := !isNil
  let P : Int := (if tp > 0 then tp else 1) * 1000000000
  -- "per period": the limiter's period is the configured one (whole seconds, at least 1) and nothing waits
  let polOk := kind == "none" || (gotPol.1 == (if tp > 0 then tp else 1) * 1000000000 && gotPol.2.1 == 0)
  let spec := got.length == pk.length && polOk &&
    (!(limited && rr > 0) || requestsOk rr P (runHist arr got (fun _ => 1))) &&
    (!(limited && br > 0) || overshootOk br P (runHist arr got (·.2))) &&
    (!(isNil || (rr ≤ 0 && br ≤ 0)) || got.all id)
  let periods := (times.map (· / P)).eraseDups.length
  pure { agree := agree, spec := spec, tags := [wantKind] ++ (if got.any (!·) then ["reject"] else [])
           ++ (if periods ≥ 2 then ["periods>=2"] else []) ++ (if periods ≥ 4 then ["periods>=4"] else []),
         nontrivial := got.any (!·),
         expected := Json.arr (want.map (fun b => Json.num (if b then 1 else 0))).toArray,
         sig := if spec then "" else "mqtt:period-bound-exceeded" }

/-! ### filter level, waiting requests and cancellations (`wait` harness, Extension resil) -/

def judgeWait : Judge := liftJudge fun input obs => do
  match obsPanic obs with
  | some m => pure { agree := false, spec := false, sig := "wait:panic", note := m }
  | none =>
  match getStr obs "error" with
  | .ok e => pure { agree := true, spec := true, note := "harness-error: " ++ e, tags := ["harness-error"], nontrivial := false }
  | .error _ =>
  let inconclusive := optStr obs "inconclusive"
  if inconclusive != "" then
    pure { agree := true, spec := true, note := "inconclusive: " ++ inconclusive, tags := ["inconclusive"], nontrivial := false }
  else
  let L ← getInt input "L"
  let P ← getInt input "periodNs"
  let T := P * optInt input "timeoutN"
  let p : Policy := { L := L, P := P, T := T }
  let ops := (← getArr input "ops").toList
  let reqOps := ops.filter (fun o => optStr o "op" == "req")
  let reqs := (← getArr obs "reqs").toList
  -- model: the arrivals in order, one permit each; a cancellation leaves the reservation where it is
  let (_, outs) := reqs.foldl (fun (acc : RL × List Out) r =>
    let o := acquire p acc.1 (optInt r "arrivalNs") 1
    (o.1, acc.2 ++ [o.2])) (init, [])
  let rows := reqs.zip outs
  let agree := reqs.length == reqOps.length && rows.all fun (r, o) =>
    let res := optStr r "result"; let w := optInt r "waitNs" (-1); let canc := optBool r "cancelled"
    if !o.permitted then res == "rateLimited" && optInt r "status" == 429
    else if o.wait ≤ 0 then res == "" && w == -1
    else res == "" && (w == o.wait || (canc && w == -1))
  -- spec on the observation: the requests the limiter released (timer fired: arrival + the wait it was
  -- given; admitted at once and not cancelled: arrival); cancelled waiters are not counted — a subset of
  -- the reservations, so the bound must hold for it whatever the code does with a cancelled slot
  let hist : Hist := reqs.filterMap fun r =>
    let res := optStr r "result"; let w := optInt r "waitNs" (-1); let canc := optBool r "cancelled"
    if res != "" then none
    else if w ≥ 0 then some (optInt r "arrivalNs", ⟨true, w⟩)
    else if !canc then some (optInt r "arrivalNs", ⟨true, 0⟩)
    else none
  let boundOK := hist.all fun e => decide (cnt P hist (relCycle P e) ≤ L.toNat)
  let waitOK := hist.all fun e => decide (0 ≤ e.2.wait) && decide (e.2.wait ≤ T)
  let anyCancel := reqs.any (fun r => optBool r "cancelled")
  let midCancel := ops.any (fun o => optStr o "op" == "cancel")
  let waited := hist.any (fun e => decide (e.2.wait > 0))
  let rej := reqs.any (fun r => optStr r "result" != "")
  pure { agree := agree, spec := boundOK && waitOK,
         expected := outsToJson outs,
         tags := [s!"L={L}"] ++ (if waited then ["wait"] else []) ++ (if rej then ["reject"] else [])
           ++ (if midCancel then ["cancel:while-waiting"] else []) ++ (if anyCancel then ["cancelled-request"] else []),
         nontrivial := waited && anyCancel,
         sig := if boundOK && waitOK then "" else if !boundOK then
                  (if anyCancel then "wait:period-overfull-after-cancel" else "wait:period-overfull")
                else "wait:wait-out-of-bounds" }

def judges : List (String × Judge) :=
  [("C09", judge), ("core", judge), ("filter", judgeFilter), ("multi", judgeMulti), ("mqtt", judgeMqtt),
   ("wait", judgeWait)]

end Driver.C09

def main (args : List String) : IO UInt32 := Driver.runMain Driver.C09.judges args
