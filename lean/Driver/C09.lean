import Driver.Common
import EgVerif.Spec.RateLimiter
open Lean EgVerif.RateLimiter

namespace Driver.C09

def outsToJson (os : List Out) : Json :=
  Json.mkObj [("res", Json.arr (os.map (fun o =>
    Json.arr #[Json.num (if o.permitted then 1 else 0), Json.num o.wait])).toArray)]

def parseObs (obs : Json) : Except String (List Out) := do
  let a ← getArr obs "res"
  a.toList.mapM fun e => do
    let p ← e.getArr?
    unless p.size == 2 do throw "res entry"
    let b : Int ← p[0]!.getInt?
    let w : Int ← p[1]!.getInt?
    pure ({ permitted := b != 0, wait := w } : Out)

def judge : Judge := liftJudge fun input obs => do
  let L ← getInt input "L"
  let P ← getInt input "P"
  let T ← getInt input "T"
  let arr ← getIntList input "arrivals"
  let cntsRaw ← getIntList input "counts"
  let cnts := if cntsRaw.length == arr.length then cntsRaw else arr.map (fun _ => 1)
  let p : Policy := { L := L, P := P, T := T }
  match obsPanic obs with
  | some m => pure { agree := false, spec := false, sig := "panic", note := m }
  | none =>
  let got ← parseObs obs
  let want := run p init (arr.zip cnts)
  let agree := decide (got = want)
  let single := cnts.all (· == 1)
  -- the spec is evaluated on what the implementation returned
  let hist : Hist := arr.zip got
  let spec := if single then specHist p [] hist && got.length == arr.length else true
  let rej := got.any (fun o => !o.permitted)
  let waited := got.any (fun o => o.permitted && o.wait > 0)
  let boundary := arr.any (fun a => a % P == 0 && a != 0)
  let gap := (arr.zip (arr.drop 1)).any (fun (a, b) => b - a ≥ 2 * P)
  let tags := (if single then ["single"] else ["multi"])
    ++ (if rej then ["reject"] else []) ++ (if waited then ["wait"] else [])
    ++ (if boundary then ["boundary-arrival"] else []) ++ (if gap then ["idle-gap"] else [])
    ++ (if T < P then ["T<P"] else if T == 0 then ["T=0"] else ["T>=P"])
  pure { agree := agree, spec := spec, expected := outsToJson want, tags := tags,
         nontrivial := rej || waited,
         sig := if spec then "" else "limit-exceeded-or-wait-bound" }

def judges : List (String × Judge) := [("C09", judge)]

end Driver.C09

def main (args : List String) : IO UInt32 := Driver.runMain Driver.C09.judges args
