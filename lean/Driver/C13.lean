import Driver.Common
import EgVerif.Model.SpecGuards
/-! Judge for C13: evaluates `pipelineValid`, `pipelineInitOK`, `pipelineHandleOK` of
`Model/SpecGuards.lean` on the very document the harness handed to `supervisor.NewSpec`, and compares
with what the real validation / instantiation / request handling did. -/
open Lean EgVerif.SpecGuards

namespace Driver.C13

partial def normNum (m : Int) (e : Nat) : Int × Nat :=
  if e > 0 && m % 10 == 0 then normNum (m / 10) (e - 1) else (m, e)

partial def toJ : Json → J
  | .null => .null
  | .bool b => .bool b
  | .num n => let (m, e) := normNum n.mantissa n.exponent; .num m e
  | .str s => .str s
  | .arr a => .arr (a.toList.map toJ)
  | .obj kvs => .obj (kvs.toList.map fun (k, v) => (k, toJ v))

structure StrO where
  re : Bool := false
  dur : Option Int := none
  url : Bool := false
  tmpl : Bool := false

def parseOracle (obs : Json) : List (String × StrO) :=
  match obs.getObjVal? "oracle" with
  | .ok (.obj kvs) => kvs.toList.map fun (k, v) =>
      (k, { re := optBool v "re", dur := if optBool v "dur" then some (optInt v "ns") else none,
            url := optBool v "url", tmpl := optBool v "tmpl" })
  | _ => []

/-- the empty string is answered here (Go: `regexp.Compile("")` ok, `ParseDuration("")` error,
`url.Parse("")` ok), everything else comes from the harness. -/
def mkOracle (tbl : List (String × StrO)) : Oracle :=
  let look (s : String) : StrO :=
    if s == "" then { re := true, dur := none, url := true } else (tbl.lookup s).getD {}
  { re := fun s => (look s).re, dur := fun s => (look s).dur, url := fun s => (look s).url,
    tmpl := fun l r t => ((tbl.lookup ("tmpl|" ++ l ++ "|" ++ r ++ "|" ++ t)).getD {}).tmpl }

def kindsTag (j : J) : List String :=
  (j.aget "filters").map fun f => "kind:" ++ f.sget "kind"

/-- does a site reported by the harness belong to the guard the model blames? -/
def siteMatches (guard site : String) : Bool :=
  let k := ((guard.splitOn ".").headD "").toLower
  (site.toLower.splitOn k).length > 1 || (k == "pipeline") || (k == "retry" && (site.splitOn "proxy").length > 1)

def judge : Judge := liftJudge fun input obs => do
  let specJ ← input.getObjVal? "spec"
  let j := toJ specJ
  let o := mkOracle (parseOracle obs)
  match obs.getObjVal? "accepted" with
  | .error _ => pure { agree := false, spec := true, note := "harness: " ++ obs.compress, nontrivial := false }
  | .ok _ =>
  match obsPanic obs with
  | some m => pure { agree := false, spec := false, sig := "panic:harness", note := m }
  | none =>
  let accepted := optBool obs "accepted"
  let valid := pipelineValid o j
  let initOK := pipelineInitOK o j
  let handleOK := pipelineHandleOK o j
  let crash := (obs.getObjVal? "crash").toOption.getD Json.null
  let crashed := match crash with | .null => false | _ => true
  let phase := optStr crash "phase"
  let site := optStr crash "site"
  let expected := Json.mkObj [("valid", valid), ("initOK", initOK), ("handleOK", handleOK), ("inheritOK", pipelineInheritOK j),
    ("initGuard", match initGuard o j with | some (p, g) => Json.str (p ++ ":" ++ g) | none => Json.null),
    ("handleGuards", Json.arr ((handleGuards o j).map Json.str).toArray)]
  let tags := kindsTag j ++ [if accepted then "accepted" else "rejected"]
    ++ (if (j.aget "flow").isEmpty then [] else ["flow"])
    ++ (if (j.aget "resilience").isEmpty then [] else ["resilience"])
    ++ (if crashed then ["crash:" ++ phase] else [])
    ++ (if accepted && !initOK then ["hazard:init"] else [])
    ++ (if accepted && initOK && !pipelineInheritOK j then
          [(if phase == "Inherit" then "hazard-hit:" else "hazard-idle:") ++ "RateLimiter.duplicate-url-rule"] else [])
    ++ (if accepted && initOK && !handleOK then
          (handleGuards o j).map (fun g => (if crashed then "hazard-hit:" else "hazard-idle:") ++ g) else [])
  if hasNullElem 12 j then
    -- malformed stream: YAML null in place of an object; accept/reject is not modelled
    pure { agree := true, spec := !(accepted && crashed), expected := expected,
           tags := tags ++ ["null-element"], nontrivial := accepted,
           sig := if accepted && crashed then "panic:null-element" else "",
           note := if crashed then optStr crash "msg" ++ " @ " ++ site else "" }
  else if accepted != valid then
    -- accept/reject disagreement: the correspondence is broken (and a crash is still a violation)
    pure { agree := false, spec := !(accepted && crashed), expected := expected, tags := tags ++ ["valid-mismatch"],
           sig := if accepted && crashed then "panic:" ++ phase ++ ":" ++ site else "",
           note := "validation " ++ (if accepted then "accepted" else "rejected: " ++ optStr obs "err")
                   ++ " but model valid=" ++ toString valid }
  else if !accepted then
    pure { agree := true, spec := true, expected := expected, tags := tags, nontrivial := false }
  else
    let initPhase := phase == "Init" || phase == "Inject" || phase == "Inherit"
    if crashed then
      let (agree, sig) :=
        if initPhase then
          match initGuard o j with
          | some (p, g) => (p == phase || phase == "Inherit", "panic:" ++ p ++ ":" ++ g)
          | none =>
            if phase == "Inherit" && !pipelineInheritOK j then (true, "panic:Inherit:RateLimiter.duplicate-url-rule")
            else (false, "panic:" ++ phase ++ ":" ++ site)
        else
          let gs := (handleGuards o j).eraseDups
          if !initOK then (false, "panic:" ++ phase ++ ":" ++ site)
          else match gs.find? (siteMatches · site) with
            | some g => (true, "panic:Handle:" ++ g)
            | none =>
              -- a panic in a deferred function can hide the site of the first one
              match gs with
              | [g] => (true, "panic:Handle:" ++ g)
              | _ => (false, "panic:" ++ phase ++ ":" ++ site)
      pure { agree := agree, spec := false, expected := expected, tags := tags, sig := sig,
             note := optStr crash "msg" ++ " @ " ++ site }
    else
      -- no crash: Init/Inject guards are deterministic, so the model must not predict one
      pure { agree := initOK, spec := true, expected := expected, tags := tags,
             note := if initOK then "" else "model predicts an Init/Inject panic, none observed" }

def judges : List (String × Judge) := [("C13", judge)]

end Driver.C13

def main (args : List String) : IO UInt32 := Driver.runMain Driver.C13.judges args
