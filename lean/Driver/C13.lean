import Driver.Common
import EgVerif.Model.SpecGuards
/-! Judge for C13: evaluates `pipelineValid`, `pipelineInitOK`, `pipelineHandleOK` of
`Model/SpecGuards.lean` on the very document the harness handed to `supervisor.NewSpec`, and compares
with what the real validation / instantiation / request handling did. -/
open Lean EgVerif.SpecGuards

namespace Driver.C13

partial def normNum (m : Int) (e : Nat) : Int × Nat :=
  if e > 0 && m % 10 == 0 then normNum (m / 10) (e - 1) else (m, e)

partial def toJ : Json → J
  | .null => .null
  | .bool b => .bool b
  | .num n => let (m, e) := normNum n.mantissa n.exponent; .num m e
  | .str s => .str s
  | .arr a => .arr (a.toList.map toJ)
  | .obj kvs => .obj (kvs.toList.map fun (k, v) => (k, toJ v))

structure StrO where
  re : Bool := false
  dur : Option Int := none
  url : Bool := false
  tmpl : Bool := false

def parseOracle (obs : Json) : List (String × StrO) :=
  match obs.getObjVal? "oracle" with
  | .ok (.obj kvs) => kvs.toList.map fun (k, v) =>
      (k, { re := optBool v "re", dur := if optBool v "dur" then some (optInt v "ns") else none,
            url := optBool v "url", tmpl := optBool v "tmpl" })
  | _ => []

/-- the empty string is answered here (Go: `regexp.Compile("")` ok, `ParseDuration("")` error,
`url.Parse("")` ok), everything else comes from the harness. -/
def mkOracle (tbl : List (String × StrO)) : Oracle :=
  let look (s : String) : StrO :=
    if s == "" then { re := true, dur := none, url := true } else (tbl.lookup s).getD {}
  { re := fun s => (look s).re, dur := fun s => (look s).dur, url := fun s => (look s).url,
    tmpl := fun l r t => ((tbl.lookup ("tmpl|" ++ l ++ "|" ++ r ++ "|" ++ t)).getD {}).tmpl }

def kindsTag (j : J) : List String :=
  (j.aget "filters").map fun f => "kind:" ++ f.sget "kind"

def has (s sub : String) : Bool := (s.splitOn sub).length > 1

/-- What the harness observed about a crash. -/
structure Crash where
  phase : String
  site : String
  msg : String
  frames : List String

def Crash.onStack (c : Crash) (sub : String) : Bool := c.frames.any (has · sub)

/-- Does the observed crash belong to this modelled guard? Decided on the **whole stack** (`frames`,
every phase: Init, Inject, Inherit, Handle, Handle2 …) plus the panic message where the stack alone is
ambiguous — never on the top frame only. Every guard is
matched only by its own crash site, so that a known finding is never matched by a different crash. -/
def explains (guard : String) (c : Crash) : Bool :=
  if guard == "Pipeline.flow.namespace" then
    has c.msg "protocols.Request is nil" && has c.msg "interface conversion"
  else if guard == "Retry.waitDuration-overflow" then
    c.onStack "resilience.(*RetryPolicy).Wrap" && c.onStack "math/rand."
  else if guard == "RateLimiter.limitRefreshPeriod" then
    c.onStack "util/ratelimiter.(*RateLimiter).acquirePermission"
  else if guard == "Validator.signature.accessKeys" then
    c.onStack "util/signer.(*Signer).Verify"
  else if guard == "Proxy.retryPolicy" then
    c.onStack "InjectResiliencePolicy" && has c.msg "retry policy"
  else if guard == "Proxy.circuitBreakerPolicy" then
    c.onStack "InjectResiliencePolicy" && (has c.msg "circuitbreaker policy" || has c.msg "circuitBreaker policy")
  else if guard.startsWith "RequestAdaptor." then c.onStack "requestadaptor.(*RequestAdaptor).Init"
  else if guard.startsWith "ResponseAdaptor." then c.onStack "responseadaptor.(*ResponseAdaptor).Init"
  else if guard == "RequestBuilder.template" || guard == "ResponseBuilder.template" then
    c.onStack "builder.(*Builder).reload"
  else if has guard ".regex" then c.onStack "regexp.MustCompile"
  else false

/-- sig of a crash: the failing modelled guard that explains the observed site, else the site. -/
def attributeCrash (o : Oracle) (j : J) (c : Crash) : Bool × String :=
  let initPhase := c.phase == "Init" || c.phase == "Inject" || c.phase == "Inherit"
  let fallback := (false, "panic:" ++ c.phase ++ ":" ++ c.site)
  if initPhase then
    match initGuard o j with
    | some (p, g) =>
      if (p == c.phase || c.phase == "Inherit") && explains g c then (true, "panic:" ++ p ++ ":" ++ g) else fallback
    | none => fallback
  else
    match (handleGuards o j).eraseDups.find? (explains · c) with
    | some g => (true, "panic:Handle:" ++ g)
    | none => fallback

def judge : Judge := liftJudge fun input obs => do
  let specJ ← input.getObjVal? "spec"
  let j := toJ specJ
  let o := mkOracle (parseOracle obs)
  match obs.getObjVal? "accepted" with
  | .error _ => pure { agree := false, spec := true, note := "harness: " ++ obs.compress, nontrivial := false }
  | .ok _ =>
  match obsPanic obs with
  | some m => pure { agree := false, spec := false, sig := "panic:harness", note := m }
  | none =>
  let accepted := optBool obs "accepted"
  let valid := pipelineValid o j
  let initOK := pipelineInitOK o j
  let handleOK := pipelineHandleOK o j
  let crash := (obs.getObjVal? "crash").toOption.getD Json.null
  let crashed := match crash with | .null => false | _ => true
  let phase := optStr crash "phase"
  let site := optStr crash "site"
  let cr : Crash := { phase := phase, site := site, msg := optStr crash "msg",
                      frames := (getStrList crash "frames").toOption.getD [] }
  let expected := Json.mkObj [("valid", valid), ("initOK", initOK), ("handleOK", handleOK),
    ("initGuard", match initGuard o j with | some (p, g) => Json.str (p ++ ":" ++ g) | none => Json.null),
    ("handleGuards", Json.arr ((handleGuards o j).map Json.str).toArray)]
  let tags := kindsTag j ++ [if accepted then "accepted" else "rejected"]
    ++ (if (j.aget "flow").isEmpty then [] else ["flow"])
    ++ (if (j.aget "resilience").isEmpty then [] else ["resilience"])
    ++ (if crashed then ["crash:" ++ phase] else [])
    ++ (if accepted && !initOK then ["hazard:init"] else [])
    ++ (if accepted && initOK && !handleOK then
          (handleGuards o j).eraseDups.map (fun g => (if crashed && explains g cr then "hazard-hit:" else "hazard-idle:") ++ g) else [])
  if hasNullElem 12 j then
    -- malformed stream: YAML null in place of an object; accept/reject is not modelled
    pure { agree := true, spec := !(accepted && crashed), expected := expected,
           tags := tags ++ ["null-element"], nontrivial := accepted,
           sig := if accepted && crashed then
                    (match attributeCrash o j cr with
                     | (true, g) => g
                     | (false, g) => if has cr.msg "nil pointer dereference" then "panic:null-element" else g)
                  else "",
           note := if crashed then optStr crash "msg" ++ " @ " ++ site else "" }
  else if accepted != valid then
    -- accept/reject disagreement: the correspondence is broken (and a crash is still a violation)
    pure { agree := false, spec := !(accepted && crashed), expected := expected, tags := tags ++ ["valid-mismatch"],
           sig := if accepted && crashed then (attributeCrash o j cr).2 else "",
           note := "validation " ++ (if accepted then "accepted" else "rejected: " ++ optStr obs "err")
                   ++ " but model valid=" ++ toString valid }
  else if !accepted then
    pure { agree := true, spec := true, expected := expected, tags := tags, nontrivial := false }
  else
    if crashed then
      let (agree0, sig) := attributeCrash o j cr
      -- a Handle crash of a spec whose Init should already have failed is a disagreement
      let agree := agree0 && (initOK || phase == "Init" || phase == "Inject" || phase == "Inherit")
      pure { agree := agree, spec := false, expected := expected, tags := tags, sig := sig,
             note := optStr crash "msg" ++ " @ " ++ site }
    else
      -- no crash: Init/Inject guards are deterministic, so the model must not predict one
      pure { agree := initOK, spec := true, expected := expected, tags := tags,
             note := if initOK then "" else "model predicts an Init/Inject panic, none observed" }

def judges : List (String × Judge) := [("C13", judge)]

end Driver.C13

def main (args : List String) : IO UInt32 := Driver.runMain Driver.C13.judges args
