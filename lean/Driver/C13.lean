import Driver.Common
/-! Judge for C13: not built yet (stub so that the target exists). -/
open Lean Driver

namespace Driver.C13

def judges : List (String × Judge) := []

end Driver.C13

def main (args : List String) : IO UInt32 := Driver.runMain Driver.C13.judges args
