import Driver.Common
import EgVerif.Model.SpecGuards
import EgVerif.Spec.SpecGuards
/-! Judge for C13: evaluates `pipelineValid`, `pipelineInitOK`, `pipelineHandleOK` of
`Model/SpecGuards.lean` on the very document the harness handed to `supervisor.NewSpec`, and compares
with what the real validation / instantiation / request handling did. -/
open Lean EgVerif.SpecGuards

namespace Driver.C13

partial def normNum (m : Int) (e : Nat) : Int × Nat :=
  if e > 0 && m % 10 == 0 then normNum (m / 10) (e - 1) else (m, e)

partial def toJ : Json → J
  | .null => .null
  | .bool b => .bool b
  | .num n => let (m, e) := normNum n.mantissa n.exponent; .num m e
  | .str s => .str s
  | .arr a => .arr (a.toList.map toJ)
  | .obj kvs => .obj (kvs.toList.map fun (k, v) => (k, toJ v))

structure StrO where
  re : Bool := false
  dur : Option Int := none
  url : Bool := false
  tmpl : Bool := false
  ip : Bool := false

def parseOracle (obs : Json) : List (String × StrO) :=
  match obs.getObjVal? "oracle" with
  | .ok (.obj kvs) => kvs.toList.map fun (k, v) =>
      (k, { re := optBool v "re", dur := if optBool v "dur" then some (optInt v "ns") else none,
            url := optBool v "url", tmpl := optBool v "tmpl", ip := optBool v "ip" })
  | _ => []

/-- the empty string is answered here (Go: `regexp.Compile("")` ok, `ParseDuration("")` error,
`url.Parse("")` ok), everything else comes from the harness. -/
def mkOracle (tbl : List (String × StrO)) : Oracle :=
  let look (s : String) : StrO :=
    if s == "" then { re := true, dur := none, url := true } else (tbl.lookup s).getD {}
  { re := fun s => (look s).re, dur := fun s => (look s).dur, url := fun s => (look s).url,
    tmpl := fun l r t => ((tbl.lookup ("tmpl|" ++ l ++ "|" ++ r ++ "|" ++ t)).getD {}).tmpl,
    ipcidr := fun s => ((tbl.lookup s).getD {}).ip }

def kindsTag (j : J) : List String :=
  (j.aget "filters").map fun f => "kind:" ++ f.sget "kind"

def has (s sub : String) : Bool := (s.splitOn sub).length > 1

/-- What the harness observed about a crash. -/
structure Crash where
  phase : String
  site : String
  msg : String
  frames : List String

def Crash.onStack (c : Crash) (sub : String) : Bool := c.frames.any (has · sub)

/-- Does the observed crash belong to this modelled guard? Decided on the **whole stack** (`frames`,
every phase: Init, Inject, Inherit, Handle, Handle2 …) plus the panic message where the stack alone is
ambiguous — never on the top frame only. Every guard is
matched only by its own crash site, so that a known finding is never matched by a different crash. -/
def explains (guard : String) (c : Crash) : Bool :=
  if guard == "Pipeline.flow.namespace" then
    has c.msg "protocols.Request is nil" && has c.msg "interface conversion"
  else if guard == "Retry.waitDuration-overflow" then
    c.onStack "resilience.(*RetryPolicy).Wrap" && c.onStack "math/rand."
  else if guard == "RateLimiter.limitRefreshPeriod" then
    c.onStack "util/ratelimiter.(*RateLimiter).acquirePermission"
  else if guard == "Validator.signature.accessKeys" then
    c.onStack "util/signer.(*Signer).Verify"
  else if guard == "Proxy.retryPolicy" then
    c.onStack "InjectResiliencePolicy" && has c.msg "retry policy"
  else if guard == "Proxy.circuitBreakerPolicy" then
    c.onStack "InjectResiliencePolicy" && (has c.msg "circuitbreaker policy" || has c.msg "circuitBreaker policy")
  else if guard.startsWith "RequestAdaptor." then c.onStack "requestadaptor.(*RequestAdaptor).Init"
  else if guard.startsWith "ResponseAdaptor." then c.onStack "responseadaptor.(*ResponseAdaptor).Init"
  else if guard == "RequestBuilder.template" || guard == "ResponseBuilder.template" then
    c.onStack "builder.(*Builder).reload"
  else if guard.startsWith "MQTTProxy.rules" then
    c.onStack "mqttproxy.getPipelineMap" || (c.onStack "mqttproxy.newBroker" && has c.msg "create pipeline map failed")
  else if has guard ".regex" then c.onStack "regexp.MustCompile"
  else false

/-- The harness could not produce an observation. A case that ran into the per-case time budget
(`{"hang": …}`: e.g. a bounded network wait of a helper library on a loaded machine) is **inconclusive** — C13 is
about panics, a wait is not one — and never a disagreement; anything else is a harness problem. -/
def noVerdict (obs : Json) : Verdict :=
  match obs.getObjVal? "hang" with
  | .ok _ => { agree := true, spec := true, tags := ["inconclusive:hang"], nontrivial := false,
               note := "inconclusive: case exceeded its time budget (" ++ obs.compress ++ ")" }
  | .error _ => { agree := false, spec := true, note := "harness: " ++ obs.compress, nontrivial := false }

/-- What the model says about one case (a Pipeline document, or an object built from such documents). -/
structure Pred where
  valid : Bool
  initOK : Bool
  handleOK : Bool
  /-- first failing Init/Inject guard (phase, guard) -/
  initGuard : Option (String × String)
  /-- all failing Handle guards -/
  handleGuards : List String
  nullElem : Bool
  tags : List String

/-- sig of a crash: the failing modelled guard that explains the observed site, else the site. -/
def attributeCrash (m : Pred) (c : Crash) : Bool × String :=
  let initPhase := c.phase == "Init" || c.phase == "Inject" || c.phase == "Inherit"
  let fallback := (false, "panic:" ++ c.phase ++ ":" ++ c.site)
  if initPhase then
    match m.initGuard with
    | some (p, g) =>
      if (p == c.phase || c.phase == "Inherit") && explains g c then (true, "panic:" ++ p ++ ":" ++ g) else fallback
    | none => fallback
  else
    match m.handleGuards.eraseDups.find? (explains · c) with
    | some g => (true, "panic:Handle:" ++ g)
    | none => fallback

/-- the verdict, given the model's predicates and what the harness observed (`accepted`, `crash`, `err`) -/
def verdict (m : Pred) (obs : Json) : Verdict :=
  let accepted := optBool obs "accepted"
  let valid := m.valid
  let initOK := m.initOK
  let handleOK := m.handleOK
  let crash := (obs.getObjVal? "crash").toOption.getD Json.null
  let crashed := match crash with | .null => false | _ => true
  let phase := optStr crash "phase"
  let site := optStr crash "site"
  let cr : Crash := { phase := phase, site := site, msg := optStr crash "msg",
                      frames := (getStrList crash "frames").toOption.getD [] }
  let expected := Json.mkObj [("valid", valid), ("initOK", initOK), ("handleOK", handleOK),
    ("initGuard", match m.initGuard with | some (p, g) => Json.str (p ++ ":" ++ g) | none => Json.null),
    ("handleGuards", Json.arr (m.handleGuards.map Json.str).toArray)]
  let tags := m.tags ++ [if accepted then "accepted" else "rejected"]
    ++ (if crashed then ["crash:" ++ phase] else [])
    ++ (if accepted && !initOK then ["hazard:init"] else [])
    ++ (if accepted && initOK && !handleOK then
          m.handleGuards.eraseDups.map (fun g => (if crashed && explains g cr then "hazard-hit:" else "hazard-idle:") ++ g) else [])
  -- agree / spec come from the executable specification `Spec/SpecGuards.judgeCore` (the function the
  -- acceptance lemmas of Props/C13.lean are about); the rest below only chooses sig / note / tags
  let attr := attributeCrash m cr
  let core := judgeCore valid initOK m.nullElem
    { accepted := accepted, crashed := crashed,
      initPhase := phase == "Init" || phase == "Inject" || phase == "Inherit", explained := attr.1 }
  if m.nullElem then
    { agree := core.1, spec := core.2, expected := expected,
      tags := tags ++ ["null-element"], nontrivial := accepted,
      sig := if accepted && crashed then
               (match attr with
                | (true, g) => g
                | (false, g) => if has cr.msg "nil pointer dereference" then "panic:null-element" else g)
             else "",
      note := if crashed then optStr crash "msg" ++ " @ " ++ site else "" }
  else if accepted != valid then
    { agree := core.1, spec := core.2, expected := expected, tags := tags ++ ["valid-mismatch"],
      sig := if accepted && crashed then attr.2 else "",
      note := "validation " ++ (if accepted then "accepted" else "rejected: " ++ optStr obs "err")
              ++ " but model valid=" ++ toString valid }
  else if !accepted then
    { agree := core.1, spec := core.2, expected := expected, tags := tags, nontrivial := false }
  else
    if crashed then
      { agree := core.1, spec := core.2, expected := expected, tags := tags, sig := attr.2,
        note := optStr crash "msg" ++ " @ " ++ site }
    else
      { agree := core.1, spec := core.2, expected := expected, tags := tags,
        note := if initOK then "" else "model predicts an Init/Inject panic, none observed" }

def judge : Judge := liftJudge fun input obs => do
  let specJ ← input.getObjVal? "spec"
  let j := toJ specJ
  let o := mkOracle (parseOracle obs)
  match obs.getObjVal? "accepted" with
  | .error _ => pure (noVerdict obs)
  | .ok _ =>
  match obsPanic obs with
  | some m => pure { agree := false, spec := false, sig := "panic:harness", note := m }
  | none =>
  pure (verdict { valid := pipelineValid o j, initOK := pipelineInitOK o j, handleOK := pipelineHandleOK o j,
                  initGuard := initGuard o j, handleGuards := handleGuards o j, nullElem := hasNullElem 12 j,
                  tags := kindsTag j ++ (if (j.aget "flow").isEmpty then [] else ["flow"])
                    ++ (if (j.aget "resilience").isEmpty then [] else ["resilience"]) } obs)

/-- GlobalFilter object (harness `gf`): the document is `{beforePipeline, afterPipeline}`; a case whose
main pipeline could not be built is trivial. -/
def judgeGF : Judge := liftJudge fun input obs => do
  let specJ ← input.getObjVal? "gf"
  let j := toJ specJ
  let o := mkOracle (parseOracle obs)
  match obs.getObjVal? "accepted" with
  | .error _ => pure (noVerdict obs)
  | .ok _ =>
  match obsPanic obs with
  | some m => pure { agree := false, spec := false, sig := "panic:harness", note := m }
  | none =>
  if optStr obs "main" != "ok" then
    pure { agree := true, spec := true, tags := ["main:" ++ optStr obs "main"], nontrivial := false }
  else
  let part (k : String) : List String :=
    let p := j.get k
    if !j.has k then [k ++ ":absent"]
    else [k ++ (if gfActive p then ":instantiated" else ":no-flow")] ++ (kindsTag p).map (fun t => k ++ ":" ++ t)
  pure (verdict { valid := globalFilterValid o j, initOK := globalFilterInitOK o j,
                  handleOK := globalFilterHandleOK o j, initGuard := gfInitGuard o j,
                  handleGuards := gfHandleGuards o j, nullElem := hasNullElem 14 j,
                  tags := ["object:GlobalFilter"] ++ part "beforePipeline" ++ part "afterPipeline" } obs)

/-- HTTPServer object at mux level (harness `http`). -/
def judgeHTTP : Judge := liftJudge fun input obs => do
  let specJ ← input.getObjVal? "spec"
  let j := toJ specJ
  let o := mkOracle (parseOracle obs)
  match obs.getObjVal? "accepted" with
  | .error _ => pure (noVerdict obs)
  | .ok _ =>
  match obsPanic obs with
  | some m => pure { agree := false, spec := false, sig := "panic:harness", note := m }
  | none =>
  let paths := (j.aget "rules").flatMap (·.aget "paths")
  let initOK := httpServerInitOK o j
  pure (verdict { valid := httpServerValid o j, initOK := initOK, handleOK := true,
                  initGuard := if initOK then none else some ("Init", "HTTPServer.header.regexp"),
                  handleGuards := [], nullElem := false,
                  tags := ["object:HTTPServer", "rules:" ++ toString (j.aget "rules").length]
                    ++ (if paths.any (fun p => p.sget "rewriteTarget" != "") then ["rewrite"] else [])
                    ++ (if paths.any (fun p => !(p.aget "headers").isEmpty) then ["headers"] else [])
                    ++ (if j.has "ipFilter" || paths.any (·.has "ipFilter") then ["ipFilter"] else []) } obs)

/-- MQTTProxy object (harness `mqtt`). -/
def judgeMQTT : Judge := liftJudge fun input obs => do
  let specJ ← input.getObjVal? "spec"
  let j := toJ specJ
  match obs.getObjVal? "accepted" with
  | .error _ => pure (noVerdict obs)
  | .ok _ =>
  match obsPanic obs with
  | some m => pure { agree := false, spec := false, sig := "panic:harness", note := m }
  | none =>
  let g := mqttRuleGuard (j.aget "rules") []
  pure (verdict { valid := mqttProxyValid j, initOK := mqttProxyInitOK j, handleOK := true,
                  initGuard := g.map (fun x => ("Init", x)), handleGuards := [], nullElem := false,
                  tags := ["object:MQTTProxy", "rules:" ++ toString (j.aget "rules").length]
                    ++ (match g with | some x => ["guard:" ++ x] | none => []) } obs)

def judges : List (String × Judge) := [("C13", judge), ("C13gf", judgeGF), ("C13http", judgeHTTP), ("C13mqtt", judgeMQTT)]

end Driver.C13

def main (args : List String) : IO UInt32 := Driver.runMain Driver.C13.judges args
