import Driver.Common
/-! Judge for C06: not built yet (stub so that the target exists). -/
open Lean Driver

namespace Driver.C06

def judges : List (String × Judge) := []

end Driver.C06

def main (args : List String) : IO UInt32 := Driver.runMain Driver.C06.judges args
