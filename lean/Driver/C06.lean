import Driver.Common
import EgVerif.Spec.Validator
import EgVerif.Model.Sha512
/-!
Judges for C06.

* `validator` — one case = a list of requests run through `Validator.Handle`
  (`harness/overlay/pkg/filters/validator/zz_verif_c06_validator_test.go`). For every request the
  judge rebuilds the model request from what net/http parsed, recomputes every digest with the
  Lean SHA-256 / HMAC (`Model/Sha256.lean`), parses JSON web tokens itself (HS256 verified in Lean,
  HS384/512 by the harness' independent `crypto/hmac` oracle), and compares Go's result / status /
  `X-AUTH-USER` / forwarded payload with `Validator.handle` (agree) and with `Spec.expected` (spec).
* `canon` — `pkg/util/signer`: Go's `Sign` / `Presign` / `Verify` against the Lean `sign`, `presign`,
  `verify`, component by component (canonical URI, query, headers, signed headers, body hash,
  hash of the canonical request, signature, Authorization header).
-/
open Lean EgVerif.Sha256 EgVerif.Signer EgVerif.Validator

namespace Driver.C06

/-- strings that are not valid UTF-8 arrive as `"\x01hex:<hex>"` (see `c06S` in the harness) -/
def sbRaw (s : String) : Bytes := s.toUTF8.toList

def bs (x : Bytes) : String :=
  match String.fromUTF8? (ByteArray.mk x.toArray) with
  | some s => s
  | none => "hex:" ++ toStr (hex x)

def hexVal (c : UInt8) : Option Nat :=
  if 48 ≤ c ∧ c ≤ 57 then some (c.toNat - 48) else if 97 ≤ c ∧ c ≤ 102 then some (c.toNat - 87)
  else if 65 ≤ c ∧ c ≤ 70 then some (c.toNat - 55) else none

def unhex : Bytes → Option Bytes
  | [] => some []
  | [_] => none
  | a :: c :: r => do
    let x ← hexVal a
    let y ← hexVal c
    let t ← unhex r
    pure (UInt8.ofNat (x * 16 + y) :: t)

def sb (s : String) : Bytes :=
  let raw := sbRaw s
  match EgVerif.Signer.stripPrefix [1, 104, 101, 120, 58] raw with
  | some h => (unhex h).getD raw
  | none => raw

def getBytes (j : Json) (k : String) : Except String Bytes := do pure (sb (← getStr j k))
def optBytes (j : Json) (k : String) : Bytes := sb (optStr j k)

def getHex (j : Json) (k : String) : Except String Bytes := do
  match unhex (sb (optStr j k)) with
  | some x => pure x
  | none => throw s!"bad hex in {k}"

/-- array under `k`; missing / null = empty (hand-written corpus lines and shrunk inputs omit keys) -/
def arrOf (j : Json) (k : String) : Array Json := (getArr j k).toOption.getD #[]

def strsOf (j : Json) (k : String) : List String :=
  (arrOf j k).toList.filterMap fun x => (x.getStr?).toOption

/-- `[[key, v1, v2, …], …]` -/
def getAssoc (j : Json) (k : String) : Except String Header := do
  let a := arrOf j k
  a.toList.mapM fun e => do
    let xs ← e.getArr?
    let ss ← xs.toList.mapM (·.getStr?)
    match ss with
    | [] => throw "empty assoc entry"
    | key :: vs => pure (sb key, vs.map sb)

def optObj (j : Json) (k : String) : Option Json :=
  match j.getObjVal? k with
  | .ok .null => none
  | .ok v => some v
  | .error _ => none

/-! ## configuration -/

def parseLiteral (j : Json) : Literal :=
  match optObj j "literal" with
  | none => defaultLiteral
  | some l => ⟨optBytes l "scopeSuffix", optBytes l "algorithmName", optBytes l "algorithmValue", optBytes l "signedHeaders",
      optBytes l "signature", optBytes l "date", optBytes l "expires", optBytes l "credential", optBytes l "contentSha256",
      optBytes l "signingKeyPrefix"⟩

def dedupStore : List (Bytes × Bytes) → List (Bytes × Bytes)
  | [] => []
  | (k, v) :: r => -- Go map literal semantics: the last entry for a key wins
    let rest := dedupStore r
    if rest.any (·.1 = k) then rest else (k, v) :: rest

def parseSigCfg (j : Json) : Except String EgVerif.Signer.Cfg := do
  let keys := arrOf j "keys"
  let store := keys.toList.filterMap fun e =>
    match e.getArr? with
    | .ok xs => match xs.toList.map (fun x => (x.getStr?).toOption.getD "") with
      | k :: v :: _ => some (sb k, sb v)
      | _ => none
    | .error _ => none
  let ign := (strsOf j "ignored").map sb
  pure { lit := parseLiteral j, ignored := ign, ttl := optInt j "ttl_s" * 1000000000, excludeBody := optBool j "exclude_body",
         store := dedupStore store }

def parseRules (cfg : Json) (p : Json) : Except String (Option (List HeaderRule)) := do
  let rs := arrOf cfg "headers"
  if rs.isEmpty then return none
  let os := arrOf p "rules"
  let rules := rs.toList.zipIdx.map fun (r, i) =>
    let o := os[i]?.getD Json.null
    let re := optStr r "regexp"
    let vals := ((getStrList r "values").toOption.getD []).map sb
    ({ key := optBytes r "key", values := vals,
       regexp := if re ≠ "" && optBool o "re_ok" then some (sb (toString i)) else none } : HeaderRule)
  pure (some rules)

/-- regexp oracle: pattern id = rule index; the harness evaluated the rule's regexp on the first value -/
def reOracle (p : Json) : Bytes → Bytes → Bool := fun pat v =>
  match (getArr p "rules").toOption with
  | none => false
  | some os =>
    match (bs pat).toNat? with
    | none => false
    | some i =>
      let o := os[i]?.getD Json.null
      optBool o "present" && sb (optStr o "first") = v && optBool o "re_match"

/-! ## JSON web tokens, parsed independently of golang-jwt -/

def registeredAlgs : List String :=
  ["HS256", "HS384", "HS512", "RS256", "RS384", "RS512", "ES256", "ES384", "ES512", "PS256", "PS384", "PS512", "none"]

def segJson (seg : Bytes) : Option Json := do
  let raw ← b64UrlDecodeSeg seg
  let s ← String.fromUTF8? (ByteArray.mk raw.toArray)
  match Json.parse s with
  | .ok j@(.obj _) => some j
  | _ => none

def tokenSegs (tok : Bytes) : Option (Bytes × Bytes × Bytes) :=
  match splitOn 46 tok with
  | [a, c, d] => some (a, c, d)
  | _ => none

/-- the claim `k` as it stands in the token's JSON (any numeric spelling; another JSON type = `other`) -/
def claimVal (cl : Json) (k : String) : ClaimVal :=
  match cl.getObjVal? k with
  | .ok (.num n) => .num n.mantissa n.exponent
  | .ok _ => .other
  | .error _ => .absent

def timeClaimsOf (tok : Bytes) : Option TimeClaims :=
  match tokenSegs tok with
  | none => none
  | some (_, c, _) =>
    match segJson c with
    | none => none
    | some cl => some ⟨claimVal cl "exp", claimVal cl "iat", claimVal cl "nbf"⟩

/-- the string claim `k` of a token (empty if absent or not a string): what `claims[k].(string)` yields -/
def claimStrOf (tok : Bytes) (k : String) : Bytes :=
  match tokenSegs tok with
  | none => []
  | some (_, c, _) =>
    match segJson c with
    | none => []
    | some cl => match cl.getObjVal? k with
      | .ok (.str v) => sb v
      | _ => []

def claimFormTag (k : String) : ClaimVal → List String
  | .absent => []
  | .other => ["jwt:" ++ k ++ ":non-number"]
  | .num _ 0 => ["jwt:" ++ k ++ ":integer"]
  | .num m e => if m % (10 : Int) ^ e == 0 then ["jwt:" ++ k ++ ":integer-valued-fraction-or-exponent"] else ["jwt:" ++ k ++ ":fraction"]

def jwtLibOf (nowS : Int) (p : Json) (mismatch : Bool → Bool → Bool) : JwtLib where
  headerAlg tok := do
    let (h, c, _) ← tokenSegs tok
    let hj ← segJson h
    let _ ← segJson c
    match hj.getObjVal? "alg" with
    | .ok (.str a) => if registeredAlgs.contains a then some (sb a) else none
    | _ => none
  claimsOK tok := claimsOKAt nowS timeClaimsOf tok
  sigOK tok alg key :=
    let orc : Json := ((getArr p "toks").toOption.getD #[]).toList.find? (fun o => sb (optStr o "tok") = tok) |>.getD Json.null
    match tokenSegs tok with
    | none => false
    | some (h, c, s) =>
      if alg = sb "HS256" then
        let mine := b64UrlDecodeSeg s == some (hmac key (h ++ 46 :: c))
        mismatch mine (optBool orc "hs256")
      else if alg = sb "HS384" then
        mismatch (b64UrlDecodeSeg s == some (EgVerif.Sha512.hmac384 key (h ++ 46 :: c))) (optBool orc "hs384")
      else if alg = sb "HS512" then
        mismatch (b64UrlDecodeSeg s == some (EgVerif.Sha512.hmac512 key (h ++ 46 :: c))) (optBool orc "hs512")
      else false

/-! ## clock oracles -/

def clockOf (p : Json) : Clock :=
  let ts := ((getArr p "times").toOption.getD #[]).toList
  let us := ((getArr p "uints").toOption.getD #[]).toList
  { fmtDate := fun t => match ts.find? (fun o => optBool o "ok" && optInt o "unix_ns" = t) with
      | some o => sb (optStr o "date") | none => sb "?"
    fmtTime := fun t => match ts.find? (fun o => optBool o "ok" && optInt o "unix_ns" = t) with
      | some o => sb (optStr o "refmt") | none => sb "?"
    parseTime := fun s => match ts.find? (fun o => sb (optStr o "s") = s) with
      | some o => if optBool o "ok" then some (optInt o "unix_ns") else none
      | none => none
    parseExpires := fun s => match us.find? (fun o => sb (optStr o "s") = s) with
      | some o => if optBool o "ok" then some (optInt o "ns") else none
      | none => none }

def leanCrypto : Crypto := { sha256hex := sha256hex, hmac := hmac }

/-! ## one request -/

def parseReq (p : Json) : Except String Request := do
  let q ← getAssoc p "query"
  let h ← getAssoc p "headers"
  let payload ← getHex p "payload_hex"
  pure { std := { method := optBytes p "method", epath := optBytes p "epath", query := q, headers := h,
                  host := optBytes p "host", urlHost := optBytes p "url_host", scheme := optBytes p "scheme",
                  queryErr := optBool p "query_err" },
         payload := payload }

def outcomeOf (result : String) (hasResp : Bool) (status : Nat) : Option Outcome :=
  if result = "" then (if hasResp then some .pass else some .pass)
  else if result = "invalid" && hasResp then some (.invalid status) else none

def outcomeJson : Outcome → Json
  | .pass => Json.mkObj [("result", ""), ("status", (0 : Nat))]
  | .invalid s => Json.mkObj [("result", "invalid"), ("status", s)]

structure ReqVerdict where
  agree : Bool
  spec : Bool
  expected : Json
  tags : List String
  accepted : Bool
  sig : String := ""
  note : String := ""

def usersOf (cfg : Json) : Bytes → Bytes → Bool :=
  let us : List (Bytes × Bytes) := match optObj cfg "basic" with
    | none => []
    | some bcfg => ((getArr bcfg "users").toOption.getD #[]).toList.filterMap fun e =>
        match e.getArr? with
        | .ok xs => match xs.toList.map (fun x => (x.getStr?).toOption.getD "") with
          | u :: pw :: _ => some (sb u, sb pw)
          | _ => none
        | .error _ => none
  -- go-htpasswd: a later line for the same user replaces the earlier one
  fun u pw => match (us.reverse.find? (·.1 = u)) with
    | some e => e.2 = pw
    | none => false

def verrTag : Except VErr Unit → String
  | .ok _ => "sig:ok"
  | .error e => "sig:" ++ (reprStr e).replace "EgVerif.Signer.VErr." ""

def judgeReq (cfgJ : Json) (ro : Json) : Except String ReqVerdict := do
  let label := optStr ro "label"
  let kind := match label.splitOn ":" with | [_, k] => k | _ => label
  match obsPanic ro with
  | some m => return { agree := false, spec := false, expected := Json.null, tags := ["panic"], accepted := false,
                       sig := "panic:Validator.Handle", note := m }
  | none =>
  if optStr ro "parse_err" ≠ "" || optStr ro "fetch_err" ≠ "" then
    -- net/http refused the bytes: the request never reaches a filter
    return { agree := true, spec := true, expected := Json.null, tags := ["unparsable", "mut:" ++ kind], accepted := false }
  let p ← ro.getObjVal? "p"
  let r ← parseReq p
  let sigCfg ← match optObj cfgJ "sig" with
    | none => pure none
    | some s => do pure (some (← parseSigCfg s))
  let jwtCfg : Option JwtCfg := (optObj cfgJ "jwt").map fun j =>
    { alg := optBytes j "alg", secret := (unhex (optBytes j "secret_hex")).getD [], cookieName := optBytes j "cookie" }
  let rules ← parseRules cfgJ p
  let oauthCfg : Option JwtCfg := (optObj cfgJ "oauth2").map fun j =>
    { alg := optBytes j "alg", secret := (unhex (optBytes j "secret_hex")).getD [], cookieName := [] }
  let cfg : EgVerif.Validator.Cfg := ⟨rules, jwtCfg, sigCfg, (optObj cfgJ "basic").isSome, oauthCfg⟩
  -- a disagreement between the Lean HMAC and crypto/hmac on an HS256 token is recorded here
  let shaBad := (jwtLibOf (optInt ro "jwt_now_s") p (fun mine go => mine != go)).sigOK
  let lib := jwtLibOf (optInt ro "jwt_now_s") p (fun mine _ => mine)
  let mkEnv (now : Int) : Env :=
    { re := reOracle p, jwtLib := lib, cookie := fun _ => if optBool p "cookie_ok" then some (optBytes p "cookie_val") else none,
      crypto := leanCrypto, clock := clockOf p, now := now, users := usersOf cfgJ }
  let env0 := mkEnv (optInt ro "t0_ns")
  let env1 := mkEnv (optInt ro "t1_ns")
  let status := (getNat ro "status").toOption.getD 0
  let got := outcomeOf (optStr ro "result") (optBool ro "has_resp") status
  let m0 := handle cfg env0 r
  let m1 := handle cfg env1 r
  let s0 := Spec.expected cfg env0 r
  let s1 := Spec.expected cfg env1 r
  let agreeOutcome := got == some m0 || got == some m1
  let specOutcome := got == some s0 || got == some s1
  -- side observations: forwarded payload untouched, X-AUTH-USER
  let fwdOK := optStr ro "fwd_hex" == optStr p "payload_hex"
  let user := if cfg.basic then basicValidate env0.users r.std.headers else none
  let userOK := if got == some .pass && cfg.basic then some (optBytes ro "auth_user") == user else true
  -- OAuth2 validator (JWT mode): on acceptance X-Authenticated-Userid / -Scope are the token's `sub` / `scope` string claims
  let oauthOK := match oauthCfg, got == some .pass with
    | some _, true =>
      match stripPrefix (sb "Bearer ") (hget r.std.headers authHeader) with
      | some t => oauthHeaders (optBytes ro "oauth_user") (optBytes ro "oauth_scope") ==
          oauthHeaders (claimStrOf t "sub") (claimStrOf t "scope")
      | none => false
    | _, _ => true
  let opaqueOK := optStr p "opaque" == ""
  -- parser contract of the trusted base (`nolf_contract_checked`): no LF in method / hosts / header values
  let nolfOK := noLFb r.std
  -- a passing request must not carry an error response
  let respOK := optStr ro "result" != "" || !optBool ro "has_resp"
  let shaOK := match jwtCfg with
    | some j => match jwtToken j env0.cookie r.std.headers with
      | some t => !(shaBad t (sb "HS256") j.secret) && !(shaBad t (sb "HS384") j.secret) && !(shaBad t (sb "HS512") j.secret)
      | none => true
    | none => true
  -- classify
  let accepted := got == some .pass
  let vtag := match sigCfg with
    | some s => [verrTag (verify s leanCrypto env0.clock env0.now r.std (some r.payload))]
    | none => []
  let tags := ["mut:" ++ kind, (if accepted then "accepted" else s!"rejected-{status}")]
    ++ (if rules.isSome then ["cfg:headers"] else []) ++ (if jwtCfg.isSome then ["cfg:jwt"] else [])
    ++ (if sigCfg.isSome then ["cfg:signature"] else []) ++ (if cfg.basic then ["cfg:basic"] else []) ++ vtag
    ++ (if oauthCfg.isSome then ["cfg:oauth2-jwt"] else [])
    ++ (if m0 != m1 then ["time-ambiguous"] else [])
    ++ (match jwtCfg with
        | some j => match jwtToken j env0.cookie r.std.headers with
          | some t => match timeClaimsOf t with
            | some c => claimFormTag "exp" c.exp ++ claimFormTag "nbf" c.nbf ++
                (if timeClaimsOK (optInt ro "jwt_now_s") c then [] else ["jwt:time-claims-reject"])
            | none => []
          | none => []
        | none => [])
    ++ (if r.payload.isEmpty then [] else ["body"])
    ++ (if r.std.queryErr then ["query:unparsed-pair"] else [])
    ++ (match sigCfg with | some s => if s.excludeBody then ["exclude-body"] else [] | none => [])
  let sig :=
    if specOutcome then ""
    else if got == some (handleWith (fun _ => some []) parseCreds cfg env0 r) then "signature:body-not-covered"
    else if got == some (handleWith (fun r => some r.payload) parseCredsSplitAll cfg env0 r) then "basic:colon-in-password"
    else if got == some (handleWith (fun _ => some []) parseCredsSplitAll cfg env0 r) then "signature:body-not-covered+basic:colon-in-password"
    else if r.std.queryErr && got == some (handle cfg env0 { r with std := { r.std with queryErr := false } }) then
      "signature:unparsed-query-not-covered"
    else if accepted && tags.contains "jwt:time-claims-reject" then "jwt:expired-or-not-yet-valid-admitted:" ++ kind
    else if accepted then "validator:accepted-invalid:" ++ kind
    else if got.isNone then "validator:malformed-outcome"
    else if s0 == .pass then "validator:rejected-valid:" ++ kind
    else "validator:wrong-status"
  let note := (if fwdOK then "" else "forwarded payload changed; ") ++ (if userOK then "" else "X-AUTH-USER mismatch; ") ++ (if oauthOK then "" else "X-Authenticated-Userid/-Scope mismatch; ")
    ++ (if opaqueOK then "" else "URL.Opaque non-empty; ") ++ (if nolfOK then "" else "net/http contract NoLF violated (LF in method / host / header value); ") ++ (if respOK then "" else "passing request carries an error response; ") ++ (if shaOK then "" else "Lean HMAC-SHA256/384/512 != crypto/hmac on the token; ")
  pure { agree := agreeOutcome && fwdOK && userOK && oauthOK && opaqueOK && shaOK && respOK && nolfOK, spec := specOutcome && fwdOK,
         expected := Json.mkObj [("label", label), ("model", outcomeJson m0), ("spec", outcomeJson s0)],
         tags := tags, accepted := accepted, sig := sig, note := note }

def validatorJudge : Judge := liftJudge fun input obs => do
  match obsPanic obs with
  | some m => pure { agree := false, spec := false, sig := "panic:harness", note := m }
  | none =>
  if optStr obs "error" ≠ "" then
    return { agree := true, spec := true, nontrivial := false, tags := ["harness-error:" ++ optStr obs "error"] }
  let cfgJ ← input.getObjVal? "cfg"
  let reqs := arrOf obs "reqs"
  let vs ← reqs.toList.mapM (judgeReq cfgJ)
  let firstBad := vs.find? (fun v => !v.spec)
  let firstDis := vs.find? (fun v => !v.agree)
  let baseAcc := match vs with | v :: _ => v.accepted | [] => false
  let rejMut := (vs.drop 1).any (fun v => !v.accepted)
  let tags := (vs.map (·.tags)).flatten.eraseDups ++ (if baseAcc then ["base-accepted"] else ["base-rejected"])
  pure { agree := firstDis.isNone, spec := firstBad.isNone,
         expected := Json.arr (vs.map (·.expected)).toArray, tags := tags,
         nontrivial := baseAcc && rejMut,
         sig := match firstBad with | some v => v.sig | none => "",
         note := match firstBad, firstDis with
           | some v, _ => v.note ++ (v.expected.compress)
           | none, some v => "disagree: " ++ v.note ++ (v.expected.compress)
           | none, none => "" }

/-! ## canon: Go's Sign / Presign / Verify against the Lean model -/

def parseStd (p : Json) : Except String Req := do
  let q ← getAssoc p "query"
  let h ← getAssoc p "headers"
  pure { method := optBytes p "method", epath := optBytes p "epath", query := q, headers := h,
         host := optBytes p "host", urlHost := optBytes p "url_host", scheme := optBytes p "scheme",
         queryErr := optBool p "query_err" }

def canonLiteral (cfgJ : Json) : Literal :=
  match optObj cfgJ "literal" with
  | none => defaultLiteral
  | some l =>
    -- the Go struct's JSON tag for AlgorithmValue is misspelt `alrithmValue`
    let av := if optStr l "alrithmValue" ≠ "" then optBytes l "alrithmValue" else optBytes l "algorithmValue"
    ⟨optBytes l "scopeSuffix", optBytes l "algorithmName", av, optBytes l "signedHeaders",
      optBytes l "signature", optBytes l "date", optBytes l "expires", optBytes l "credential", optBytes l "contentSha256",
      optBytes l "signingKeyPrefix"⟩

def canonClock (obs : Json) : Clock :=
  let c := clockOf obs
  let fs := ((getArr obs "fmt").toOption.getD #[]).toList
  { c with
    fmtDate := fun t => match fs.find? (fun o => optInt o "unix_ns" = t) with
      | some o => sb (optStr o "date") | none => c.fmtDate t
    fmtTime := fun t => match fs.find? (fun o => optInt o "unix_ns" = t) with
      | some o => sb (optStr o "time") | none => c.fmtTime t }

def sortAssoc (h : Header) : Header := sortBy (·.1) h

def errTag : Except VErr Unit → String
  | .ok _ => ""
  | .error .expired => "expired"
  | .error .unknownKey => "unknownKey"
  | .error .mismatch => "mismatch"
  | .error .timestampMismatch => "timestampMismatch"
  | .error _ => "other"

def canonJudge : Judge := liftJudge fun input obs => do
  match obsPanic obs with
  | some m => pure { agree := false, spec := false, sig := "panic:signer", note := m }
  | none =>
  if optStr obs "error" ≠ "" then
    return { agree := true, spec := true, nontrivial := false, tags := ["harness-error:" ++ optStr obs "error"] }
  let cfgJ ← input.getObjVal? "cfg"
  let lit := canonLiteral cfgJ
  let ign := ((getStrList cfgJ "ignored").toOption.getD []).map sb
  let store : List (Bytes × Bytes) := [(optBytes input "store_key", optBytes input "store_secret")]
  let cfg : EgVerif.Signer.Cfg := ⟨lit, ign, 0, optBool cfgJ "exclude_body", store⟩
  let before ← parseStd (← obs.getObjVal? "before")
  let after ← parseStd (← obs.getObjVal? "after")
  let tampered ← parseStd (← obs.getObjVal? "tampered")
  let clock := canonClock obs
  let t := optInt obs "sign_time_ns"
  let presignMode := optBool input "presign"
  let bodyBytes ← getHex input "body_hex"
  let body : Option Bytes := if optBool input "body_nil" then none else some bodyBytes
  let seen : Bytes := body.getD []
  let key := optBytes input "key"
  let secret := optBytes input "secret"
  let scopes := ((getStrList input "scopes").toOption.getD []).map sb
  let expire := optInt input "expires_s" * 1000000000
  let cr := leanCrypto
  -- the model's signed request
  let mAfter := if presignMode then presign cfg cr clock key secret t scopes expire before body
                else sign cfg cr clock key secret t scopes before body
  let sameReq := sortAssoc mAfter.headers == sortAssoc after.headers && sortAssoc mAfter.query == sortAssoc after.query
  -- component by component
  let ps := signPairs cfg { after with headers := after.headers }
  let scope := scopeString lit clock t scopes
  let pre : Option Presign := if presignMode then some ⟨key, expire, signedHeadersOf ps⟩ else none
  let cq := (canonQuery lit clock t scope pre before.query).1
  let bh := (hashBodySign cfg cr before.headers body).1
  let creq := canonicalRequest before.method (canonURI before.epath) cq (canonHeadersOf ps) (signedHeadersOf ps) bh
  let comps : List (String × Bytes × String) := [
    ("canon_uri", canonURI before.epath, optStr obs "canon_uri"), ("canon_query", cq, optStr obs "canon_query"),
    ("canon_headers", canonHeadersOf ps, optStr obs "canon_headers"), ("signed_headers", signedHeadersOf ps, optStr obs "signed_headers"),
    ("body_hash", bh, optStr obs "body_hash"), ("hcr", cr.sha256hex creq, optStr obs "hcr"),
    ("signature", signature lit cr clock secret t scopes creq, optStr obs "signature")]
  let badComps := comps.filter (fun c => c.2.1 != sb c.2.2)
  -- Verify (wall clock read once somewhere between the two instants)
  let v0 := verify cfg cr clock (optInt obs "verify_now_ns") after (some seen)
  let v1 := verify cfg cr clock (optInt obs "verify_now2_ns") after (some seen)
  let goV := optStr obs "verify_err"
  let verifyAgree := (errTag v0 == goV || errTag v1 == goV) && (optBool obs "verify_ok" == (goV == ""))
  let tb ← getHex obs "tamper_body_hex"
  let w0 := verify cfg cr clock (optInt obs "verify_now2_ns") tampered (some tb)
  let tamperAgree := optBool obs "tamper_ok" == w0.toBool || errTag w0 == "expired"
  -- spec 1 (completeness): credentials known to the store, content-hash header not supplied by the caller,
  -- presigned URL still valid ⇒ Verify accepts
  let honest := optBytes input "store_key" == key && optBytes input "store_secret" == secret
    && hget before.headers lit.contentSha256 == []
    && (!presignMode || (optInt input "off_s" ≥ -5 && optInt input "expires_s" ≥ 60))
  let complete := !honest || optBool obs "verify_ok"
  -- spec 2 (tamper): an accepted tampered request agrees with the signed one on everything covered
  let sound := match initFromSignedRequest lit clock after with
    | .ok ctx =>
      !(optBool obs "verify_ok" && optBool obs "tamper_ok") ||
        (covered cfg clock ctx after == covered cfg clock ctx tampered && (cfg.excludeBody || tb == seen)
          -- … and every pair of the raw query is among the covered ones (`accepted_query_fully_parsed`)
          && !tampered.queryErr)
    | .error _ => !(optBool obs "verify_ok")
  -- spec 3: only a key id of the store, signed with its secret, is accepted
  let credOK := !optBool obs "verify_ok" || (optBytes input "store_key" == key && optBytes input "store_secret" == secret)
  let kind := optStr input "tamper"
  let tags := [if presignMode then "presign" else "header-mode", "tamper:" ++ kind,
      (if optBool obs "verify_ok" then "verify-ok" else "verify-" ++ goV),
      (if optBool obs "tamper_ok" then "tamper-accepted" else "tamper-rejected")]
    ++ (if cfg.excludeBody then ["exclude-body"] else []) ++ (if body.isNone then ["body-nil"] else [])
    ++ (if (optObj cfgJ "literal").isSome then ["custom-literal"] else [])
    ++ (if honest then ["honest"] else ["dishonest"])
    ++ (if noLFb after && noLFb tampered then [] else ["contract:lf-in-client-built-request"])
  let note := (if sameReq then "" else "signed request differs; ") ++ String.intercalate "," (badComps.map (·.1))
    ++ (if verifyAgree then "" else " verify: go=" ++ goV ++ " model=" ++ errTag v0)
    ++ (if tamperAgree then "" else " tamper verdict differs")
  pure { agree := sameReq && badComps.isEmpty && verifyAgree && tamperAgree, spec := complete && sound && credOK,
         expected := Json.mkObj (comps.map fun c => (c.1, Json.str (bs c.2.1))),
         tags := tags, nontrivial := optBool obs "verify_ok" && !optBool obs "tamper_ok",
         sig := if !credOK then "signer:accepted-unknown-credential" else if !complete then "signer:valid-signature-rejected" else if !sound then (if tampered.queryErr && optBool obs "tamper_ok" then "signer:unparsed-query-not-covered" else "signer:tamper-accepted:" ++ kind) else "",
         note := note }

/-! ## basichist: Basic credentials across generations of the filter -/

def pairsOf (j : Json) (k : String) : UserTable :=
  (arrOf j k).toList.filterMap fun e =>
    match e.getArr? with
    | .ok xs => match xs.toList.map (fun x => (x.getStr?).toOption.getD "") with
      | u :: pw :: _ => some (sb u, sb pw)
      | _ => none
    | .error _ => none

/-- walk the history: `(table, judgeable)`; `judgeable = false` while the last update is not (yet) visible although the
current generation's cache is alive (`inconclusive`: no verdict from wall-clock luck) -/
def basicHistJudge : Judge := liftJudge fun input obs => do
  match obsPanic obs with
  | some m => pure { agree := false, spec := false, sig := "panic:harness", note := m }
  | none =>
  if optStr obs "error" ≠ "" then
    return { agree := true, spec := true, nontrivial := false, tags := ["harness-error:" ++ optStr obs "error"] }
  let ops := (arrOf input "ops").toList
  let steps := (arrOf obs "steps").toList
  let mode := optStr input "mode"
  let mut table : UserTable := pairsOf input "users"
  let mut judgeable := true
  let mut neverVis := false
  let mut bad : Option (String × String) := none
  let mut disagree : Option String := none
  let mut nInh : Nat := 0
  let mut nUpd : Nat := 0
  let mut nReq : Nat := 0
  let mut nInc : Nat := 0
  let mut sawAfter := false
  let mut deadSeen := false
  for (op, st) in ops.zip steps do
    if optStr st "panic" ≠ "" && bad.isNone then
      bad := some ("panic:basichist:" ++ optStr op "k", optStr st "panic")
    match optStr op "k" with
    | "inherit" =>
      nInh := nInh + 1
      -- the generation that was closed must not take the new generation's cache with it
      if !optBool st "alive" then deadSeen := true
    | "update" =>
      nUpd := nUpd + 1
      table := pairsOf op "users"
      -- judged when the change is visible, or can never become visible (cache dead), or demonstrably reached the notification
      -- mechanism (control instance / syncer hand-off) and still did not show within the bound
      judgeable := optBool st "visible" || !optBool st "alive" || optBool st "ctl_visible"
      neverVis := !optBool st "visible" && optBool st "alive" && optBool st "ctl_visible"
      if !optBool st "alive" then deadSeen := true
    | "req" =>
      -- two entries for one user: which one wins is unspecified in ETCD mode (map order): not judged
      let dup := (table.filter (·.1 == optBytes op "u")).length > 1
      if !judgeable || dup then nInc := nInc + 1
      else
        nReq := nReq + 1
        if nInh > 0 && nUpd > 0 then sawAfter := true
        let u := optBytes op "u"
        let p := optBytes op "p"
        -- model = spec (`basic_history_current_table`): answered from the current table
        let want := tableMatch table u p
        let got := optStr st "result" == ""
        let okShape := if got then optBytes st "auth_user" == u
          else optStr st "result" == "invalid" && (getNat st "status").toOption.getD 0 == 401
        if got != want && bad.isNone then
          bad := some ((if !optBool st "alive" then "basic:stale-user-table-after-inherit:"
              else if neverVis then "basic:update-never-visible:" else "basic:wrong-user-table:")
            ++ (if got then "accepted-" else "rejected-") ++ mode.toLower, s!"user {bs u}: got accepted={got}, current table says {want}")
        else if !okShape && disagree.isNone then
          disagree := some s!"user {bs u}: outcome shape (status / X-AUTH-USER)"
    | _ => pure ()
  let tags := ["mode:" ++ mode, s!"inherits:{min nInh 3}", s!"updates:{min nUpd 3}"] ++ (if nInc > 0 then ["inconclusive-requests"] else [])
    ++ (if deadSeen then ["current-generation-cache-dead"] else [])
  pure { agree := bad.isNone && disagree.isNone, spec := bad.isNone,
         expected := Json.mkObj [("judged_requests", nReq), ("inconclusive", nInc)],
         tags := tags, nontrivial := sawAfter,
         sig := match bad with | some b => b.1 | none => "",
         note := match bad, disagree with | some b, _ => b.2 | none, some d => "disagree: " ++ d | none, none => "" }

def judges : List (String × Judge) := [("validator", validatorJudge), ("canon", canonJudge), ("basichist", basicHistJudge)]

end Driver.C06

def main (args : List String) : IO UInt32 := Driver.runMain Driver.C06.judges args
