import Driver.Common
/-! Judge for C17: not built yet (stub so that the target exists). -/
open Lean Driver

namespace Driver.C17

def judges : List (String × Judge) := []

end Driver.C17

def main (args : List String) : IO UInt32 := Driver.runMain Driver.C17.judges args
