import Driver.Common
import EgVerif.Spec.ConnCap
/-! Judges for C17: `sem` (Semaphore alone), `listener` (LimitListener over real sockets),
`mqtt` (Broker.maxAllowedConnection), `reload` (= `listener` on a real HTTPServer driven by reloads). Each replays the harness operations in the model,
exploring every order of the asynchronous parts where the harness let them race, and
evaluates the property on the implementation's observations. -/
open Lean Driver EgVerif.ConnCap

namespace Driver.C17

def natList (j : Json) (k : String) : Except String (List Nat) := do
  let a ← getArr j k
  a.toList.mapM (·.getNat?)

def intList (j : Json) (k : String) : Except String (List Int) := do
  let a ← getArr j k
  a.toList.mapM (·.getInt?)

def insertSorted (x : Nat) : List Nat → List Nat
  | [] => [x]
  | y :: r => if x ≤ y then x :: y :: r else y :: insertSorted x r
def sortN (l : List Nat) : List Nat := l.foldr insertSorted []

structure Op where
  op : String
  k : Nat
  n : Int
  race : Bool

def parseOp (j : Json) : Except String Op := do
  pure { op := ← getStr j "op", k := (optInt j "k").toNat, n := optInt j "n", race := optBool j "race" }

def dedup (l : List String) : List String := l.foldl (fun acc x => if acc.contains x then acc else acc ++ [x]) []

/-! ## Semaphore / listener -/

/-- judge-level schedule: model + pending asynchronous steps + listener bookkeeping -/
structure LS where
  s : Sched
  backlog : Nat := 0     -- dialled, not yet accepted
  nextAcc : Nat := 0     -- id of the acceptor's next Accept call
  nextAcq : Nat := 0     -- sem harness: id of the next acquisition
  sets : Nat := 0
deriving DecidableEq

def dedupL (l : List LS) : List LS := l.foldl (fun acc x => if acc.contains x then acc else acc ++ [x]) []

/-- listener: while the acceptor holds a unit and a dialled connection waits, it accepts it and
calls Accept again (an asynchronous acquire) -/
def drive : Nat → LS → LS
  | 0, x => x
  | fuel + 1, x =>
    match x.s.cap.inAccept with
    | id :: _ =>
      if x.backlog > 0 then
        match step x.s.cap (.acceptDone id) with
        | some c => drive fuel { x with s := ⟨c, x.s.async ++ [.acquire x.nextAcc]⟩, backlog := x.backlog - 1,
                                        nextAcc := x.nextAcc + 1 }
        | none => x
      else x
    | [] => x

def fireL (listener : Bool) (x : LS) (i : Nat) : Option LS :=
  match fire (!listener) x.s i with
  | none => none
  | some s' => some (if listener then drive 64 { x with s := s' } else { x with s := s' })

def closureL (listener : Bool) : Nat → List LS → List LS
  | 0, l => l
  | fuel + 1, l =>
    let next := l.flatMap (fun x => (List.range x.s.async.length).filterMap (fireL listener x))
    if next.isEmpty then l else dedupL (l ++ closureL listener fuel (dedupL next))

/-- apply the synchronous part of an operation to one candidate; `sk` = the harness skipped it -/
def applyOp (listener : Bool) (x : LS) (o : Op) (sk : Bool) : Option LS :=
  match o.op with
  | "acq" =>
    if sk then none else
    some { x with s := ⟨x.s.cap, x.s.async ++ [.acquire x.nextAcq]⟩, nextAcq := x.nextAcq + 1 }
  | "dial" =>
    if sk then some x else some (drive 64 { x with backlog := x.backlog + 1 })
  | "rel" | "close" =>
    -- Semaphore harness: Release only for a granted, not yet released acquisition;
    -- listener harness: Close on any accepted connection (a second Close is legal)
    let known := x.s.cap.opened.contains o.k || (listener && x.s.cap.closed.contains o.k)
    if sk then (if known then none else some x) else
    if !known then none else
    match step x.s.cap (.connClose o.k) with
    | some c => some (if listener then drive 64 { x with s := ⟨c, x.s.async⟩ } else { x with s := ⟨acceptAll c, x.s.async⟩ })
    | none => none
  | "half" =>
    -- the peer half-closes an accepted, not yet closed connection: no effect on the count
    let known := x.s.cap.opened.contains o.k
    if sk then (if known then none else some x) else
    if !known then none else
    match step x.s.cap (.peerHalfClose o.k) with
    | some c => some { x with s := ⟨c, x.s.async⟩ }
    | none => none
  | "set" =>
    if sk then some x else
    -- (the model's `setMax` clamps its argument to `maxCapacity` like `SetMaxCount`)
    match step x.s.cap (.setMax o.n) with
    | some c => some { x with s := ⟨c, x.s.async ++ [.adjust x.sets]⟩, sets := x.sets + 1 }
    | none => none
  | _ => if sk then some x else none

structure SnapObs where
  after : Int
  granted : List Nat      -- sem: granted ids; listener: [accepted count]
  setDone : List Nat
  openIdx : List Nat
  cur : Int
  waiters : List Int
  skipped : List Nat
  settled : Bool
  maxOpen : Nat
  inInner : Bool
  adjParked : Nat

def parseSnap (listener : Bool) (j : Json) : Except String SnapObs := do
  let granted ← if listener then pure [(optInt j "accepted").toNat] else natList j "granted"
  let setDone ← if listener then pure [] else natList j "setDone"
  let openIdx ← if listener then natList j "open" else pure []
  let waiters ← intList j "waiters"
  let skipped ← natList j "skipped"
  pure { after := optInt j "after" (-1), granted := granted, setDone := setDone, openIdx := openIdx,
         cur := optInt j "cur", waiters := waiters, skipped := skipped,
         settled := optBool j "settled", maxOpen := (optInt j "maxOpen").toNat,
         inInner := optBool j "inInner", adjParked := (optInt j "adjParked").toNat }

def adjDone (c : Cap) (sets : Nat) : List Nat :=
  (List.range sets).filter (fun i => !(c.pending.any (·.1 == i)) &&
    !(c.waiters.any (fun w => w.kind == WKind.adj && w.id == i)))

def snapMatches (listener : Bool) (x : LS) (o : SnapObs) : Bool :=
  let c := x.s.cap
  c.cur == o.cur && c.waiters.map (·.n) == o.waiters &&
  (if listener then
     [c.opened.length + c.closed.length] == o.granted && sortN c.opened == o.openIdx &&
     (!c.inAccept.isEmpty) == o.inInner &&
     (c.waiters.filter (·.kind == WKind.adj)).length == o.adjParked
   else
     sortN (c.opened ++ c.closed) == o.granted && adjDone c x.sets == o.setDone)

structure Acc where
  cands : List LS
  agree : Bool := true
  note : String := ""
  sig : String := ""
  tags : List String := []
  capNow : Int
  prevQuiet : Bool := true
  setSince : Bool := false       -- a SetMax was issued since the previous snapshot
  accBase : Option Nat := none   -- accepted count at the first snapshot after a SetMax that left a shrink parked
  relCount : Nat := 0
  opIdx : Nat := 0
  expected : List Json := []

def capJson (c : Cap) : Json :=
  Json.mkObj [("cur", Json.num c.cur), ("waiters", Json.arr (c.waiters.map (fun w => Json.num w.n)).toArray),
    ("inAccept", Json.arr (c.inAccept.map (fun (n : Nat) => Json.num n)).toArray),
    ("open", Json.arr ((sortN c.opened).map (fun (n : Nat) => Json.num n)).toArray),
    ("closed", Json.arr ((sortN c.closed).map (fun (n : Nat) => Json.num n)).toArray),
    ("realCap", Json.num c.realCap), ("effCap", Json.num c.effCap)]

/-- `child` cases of the sem harness (history executed sequentially in a child process, observed: did the
process die with a panic). Model: each operation settled; a spawned grow whose guard `d ≤ cur` fails is where
Go's `Weighted.Release` panics (`guards_enabled`). -/
def childModelPanics (cap0 : Int) (ops : List Op) : Bool := Id.run do
  let mut c := newCap cap0
  let mut nextAcq : Nat := 0
  let mut sets : Nat := 0
  for o in ops do
    match o.op with
    | "acq" =>
      match step c (.acquire nextAcq) with
      | some c' => c := acceptAll c'
      | none => pure ()
      nextAcq := nextAcq + 1
    | "set" =>
      match step c (.setMax o.n) with
      | some c' =>
        c := c'
        match step c (.adjust sets) with
        | some c'' => c := acceptAll c''
        | none => return true
        sets := sets + 1
      | none => pure ()
    | _ => pure ()
  return false

def childJudge (input child : Json) : Except String Verdict := do
  let cap0 := optInt input "cap0"
  let opsJ ← getArr input "ops"
  let ops ← opsJ.toList.mapM parseOp
  let inc := optStr child "inconclusive"
  if inc != "" then
    return { agree := true, spec := true, tags := ["child", "inconclusive:" ++ inc], nontrivial := false }
  let died := optBool child "died"
  let msg := optStr child "panic"
  let relMore := msg == "semaphore: released more than held"
  let modelPanics := childModelPanics cap0 ops
  let sig := if !died then "" else if relMore then "panic:semaphore-released-more-than-held" else "panic:child:" ++ msg
  pure { agree := (modelPanics == died) && (!died || relMore), spec := !died, sig := sig,
         note := if died then s!"the process died: panic: {msg} (model: grow guard fails = {modelPanics})" else "",
         tags := ["child"] ++ (if died then ["child-died"] else ["child-survived"]), nontrivial := true,
         expected := Json.mkObj [("modelGuardFails", modelPanics)] }

def semJudge (listener : Bool) : Judge := liftJudge fun input obs => do
  match obsPanic obs with
  | some m => pure { agree := false, spec := false, sig := "panic-or-hang", note := m }
  | none =>
  match obs.getObjVal? "child" with
  | .ok child => childJudge input child
  | .error _ =>
  let cap0 := optInt input "cap0"
  let opsJ ← getArr input "ops"
  let ops ← opsJ.toList.mapM parseOp
  let snapsJ ← getArr obs "snaps"
  let snaps ← snapsJ.toList.mapM (parseSnap listener)
  let allSkipped := snaps.flatMap (·.skipped)
  let init : LS := { s := ⟨newCap cap0, if listener then [.acquire 0] else []⟩, nextAcc := if listener then 1 else 0 }
  let mut acc : Acc := { cands := [init], capNow := cap0 }
  let mut rest := snaps
  let mut i : Nat := 0
  let mut held : Int := 0     -- observed: units held by acquirers
  for o in ops do
    let sk := allSkipped.contains i
    -- racing: asynchronous steps may run before this operation
    let before := closureL listener 8 acc.cands
    let after := dedupL (before.filterMap (fun x => applyOp listener x o sk))
    let isSet := o.op == "set" && !sk
    acc := { acc with cands := after, capNow := if isSet then (if o.n > M then M else o.n) else acc.capNow,
                      setSince := acc.setSince || isSet,
                      tags := acc.tags ++ [o.op] ++ (if o.race then ["race"] else []) ++ (if sk then ["skipped"] else []) }
    if after.isEmpty && acc.agree then
      acc := { acc with agree := false, note := s!"op {i} {o.op}: no model state allows it (skipped={sk})", cands := before }
    let last := i + 1 == ops.length
    if !o.race || last then
      match rest with
      | [] => acc := { acc with agree := false, note := if acc.note == "" then "missing snapshot" else acc.note }
      | sn :: more =>
        rest := more
        let fin := (closureL listener 8 acc.cands).filter (·.s.async.isEmpty)
        let ok := fin.filter (fun x => snapMatches listener x sn)
        acc := { acc with expected := acc.expected ++ [match fin with | x :: _ => capJson x.s.cap | [] => Json.null] }
        if ok.isEmpty then
          if acc.agree then
            acc := { acc with agree := false, note := s!"snapshot after op {i}: observation matches none of {fin.length} model states" }
          acc := { acc with cands := if fin.isEmpty then acc.cands else fin.take 1 }
        else
          -- (bounded: symmetric queue orders of racing acquirers can multiply the candidates)
          acc := { acc with cands := ok.take 64 }
        -- the property on the observation
        let openNow : Int := if listener then sn.openIdx.length else 0
        let countOps (name : String) : Nat := ((List.range (i + 1)).filter (fun j =>
                 match ops[j]? with
                 | some p => p.op == name && !allSkipped.contains j
                 | none => false)).length
        let quietNow := if listener then sn.adjParked == 0 else sn.setDone.length == countOps "set"
        let unitsHeld : Int :=
          if listener then openNow + (if sn.inInner then 1 else 0)
          else (sn.granted.length : Int) - (countOps "rel" : Int)
        held := unitsHeld
        -- somebody waits for a unit (meaningful when quiet: then every queued waiter is a unit acquirer)
        let unitWaiting := if listener then (!sn.inInner) else !sn.waiters.isEmpty
        let backlogObs : Int := (countOps "dial" : Int) - (sn.granted.headD 0 : Int)
        -- the property on the observation: `Spec.obsViolation` (accepted for every settled model state:
        -- `spec_accepts_model`) and, for the listener harnesses, `Spec.intervalOK`
        -- (`interval_spec_accepts_model`)
        let parked : Nat := if listener then sn.adjParked else countOps "set" - sn.setDone.length
        let o : Obs := { cur := sn.cur, unitsHeld := unitsHeld, parked := parked, capNow := acc.capNow,
                         unitWaiting := if listener then (!sn.inInner && backlogObs > 0) else unitWaiting,
                         settled := sn.settled }
        let mut sig := acc.sig
        if sig == "" then
          match obsViolation o with
          | some v => sig := v
          | none => pure ()
        if sig == "" && listener && quietNow && acc.prevQuiet && !acc.setSince && !intervalOK sn.maxOpen acc.capNow then
          sig := "cap:accepted-above-cap"
        -- FIFO: while a shrink stays parked, at most the one Accept that was ahead of it gets a unit
        let acceptedNow : Nat := sn.granted.headD 0
        let mut accBase := acc.accBase
        if listener then
          if acc.setSince then accBase := if sn.settled && parked > 0 then some acceptedNow else none
          else if parked == 0 then accBase := none
          match accBase with
          | some b =>
            if sig == "" && !acc.setSince && parked > 0 && !acceptsWhileParkedOK b acceptedNow then
              sig := "cap:accepted-while-shrink-parked"
          | none => pure ()
        acc := { acc with sig := sig, prevQuiet := quietNow, setSince := false, accBase := accBase }
    i := i + 1
  -- established connections stay usable
  let mut sig := acc.sig
  if listener then
    let alive := (optInt obs "alive")
    match snaps.getLast? with
    | some sn => if sig == "" && alive != sn.openIdx.length then sig := "established-connection-dropped"
    | none => pure ()
  let shrinkBelow := acc.tags.contains "set"
  pure { agree := acc.agree, spec := sig == "", sig := sig, note := acc.note, tags := dedup acc.tags,
         nontrivial := shrinkBelow && (snaps.any (fun s => !s.waiters.isEmpty)),
         expected := Json.arr acc.expected.toArray }

/-! ## MQTT -/

structure MOp where
  op : String
  cid : Nat
  cids : List Nat

def parseMOp (j : Json) : Except String MOp := do
  pure { op := ← getStr j "op", cid := (optInt j "cid").toNat, cids := (natList j "cids").toOption.getD [] }

/-- BFS over the interleavings of `early; locked` of several connections; a state carries the
model and the CONNACK of every connection so far -/
structure BS where
  m : Mq
  todo : List (Nat × Nat × Bool)      -- (conn, cid, early done?)
  out : List (Nat × Nat)              -- (conn, code)
deriving DecidableEq

def dedupB (l : List BS) : List BS := l.foldl (fun acc x => if acc.contains x then acc else acc ++ [x]) []

def code : MOut → Nat
  | .accepted => 0
  | .refused => 3
  | .none => 99

def bstep (b : BS) (i : Nat) : Option BS :=
  match b.todo[i]? with
  | none => none
  | some (conn, cid, false) =>
    match mstep b.m (.early conn cid) with
    | some (m', .refused) => some { m := m', todo := b.todo.eraseIdx i, out := b.out ++ [(conn, 3)] }
    | some (m', _) => some { m := m', todo := b.todo.set i (conn, cid, true), out := b.out }
    | none => none
  | some (conn, _, true) =>
    match mstep b.m (.locked conn) with
    | some (m', o) => some { m := m', todo := b.todo.eraseIdx i, out := b.out ++ [(conn, code o)] }
    | none => none

def bfs : Nat → List BS → List BS
  | 0, l => l
  | fuel + 1, l =>
    if l.all (·.todo.isEmpty) then l else
    bfs fuel (dedupB (l.flatMap (fun b =>
      if b.todo.isEmpty then [b] else (List.range b.todo.length).filterMap (bstep b))))

def mqttJudge : Judge := liftJudge fun input obs => do
  match obsPanic obs with
  | some m => pure { agree := false, spec := false, sig := "panic-or-hang", note := m }
  | none =>
  let cap := (optInt input "cap").toNat
  let opsJ ← getArr input "ops"
  let ops ← opsJ.toList.mapM parseMOp
  let snapsJ ← getArr obs "snaps"
  if snapsJ.size != ops.length then
    return { agree := false, spec := true, note := "judge-bad-input: snaps/ops length" }
  let mut cands : List Mq := [{ cap := cap, clients := [], passed := [] }]
  let mut agree := true
  let mut note := ""
  let mut sig := ""
  let mut tags : List String := []
  let mut i := 0
  let mut prevClients : List Nat := []
  let mut atCapTakeover := false
  for (o, sj) in ops.zip snapsJ.toList do
    let codes ← intList sj "codes"
    let clients ← natList sj "clients"
    let maxSeen := (optInt sj "maxSeen").toNat
    let sk := optBool sj "skipped"
    let err := optStr sj "err"
    tags := tags ++ [o.op]
    let conns : List Nat := match o.op with
      | "connect" => [o.cid]
      | "burst" => o.cids
      | _ => []
    -- model
    let results : List (Mq × List Int) :=
      match o.op with
      | "drop" =>
        cands.map (fun m => match mstep m (.remove o.cid) with
          | some (m', _) => (m', [])
          | none => (m, []))
      | "connect" | "burst" =>
        cands.flatMap (fun m =>
          let start : BS := { m := m, todo := (List.range conns.length).zip conns |>.map (fun p => (p.1, p.2, false)), out := [] }
          (bfs 16 [start]).map (fun b =>
            (b.m, (List.range conns.length).map (fun c => match b.out.find? (·.1 == c) with
              | some (_, cd) => (cd : Int) | none => -1))))
      | _ => cands.map (fun m => (m, []))
    let ok := results.filter (fun r => r.2 == codes && sortN r.1.clients == clients)
    let dropSkipOk := o.op != "drop" || (sk == !(prevClients.contains o.cid))
    if (ok.isEmpty || !dropSkipOk || err != "") && agree then
      agree := false
      note := s!"op {i} {o.op}: codes {codes} clients {clients} err='{err}' not among {results.length} model outcomes"
    cands := if ok.isEmpty then (results.map (·.1)).take 1 else (ok.map (·.1))
    cands := cands.foldl (fun acc x => if acc.contains x then acc else acc ++ [x]) []
    -- property
    if sig == "" && cap > 0 && maxSeen > cap then sig := "mqtt:more-clients-than-cap"
    if sig == "" && cap > 0 && clients.length > cap then sig := "mqtt:more-clients-than-cap"
    if sig == "" && codes.any (fun c => c != 0 && c != 3) then sig := "mqtt:unexpected-connack"
    if sig == "" && o.op == "connect" && cap > 0 && prevClients.length ≥ cap && !prevClients.contains o.cid
        && codes != [3] then sig := "mqtt:served-beyond-cap"
    if sig == "" && o.op == "connect" && (cap == 0 || prevClients.length < cap) && codes != [0] then
      sig := "mqtt:refused-below-cap"
    if sig == "" && (o.op == "connect" || o.op == "burst") then
      -- nobody who was connected and did not reconnect is dropped by a connect
      if !(prevClients.all (clients.contains ·)) then sig := "mqtt:established-client-dropped"
    if sig == "" && err != "" then sig := "harness-error:" ++ err
    if cap > 0 && prevClients.length ≥ cap && conns.any (prevClients.contains ·) then atCapTakeover := true
    if o.op == "burst" then tags := tags ++ [s!"burst{conns.length}"]
    prevClients := clients
    i := i + 1
  pure { agree := agree, spec := sig == "", sig := sig, note := note,
         tags := dedup (tags ++ (if atCapTakeover then ["takeover-at-cap"] else []) ++ [s!"cap{cap}"]),
         nontrivial := tags.contains "burst" }

/-- `reload`: the listener judge on observations taken from a real `HTTPServer` whose capacity changes
are configuration reloads (`runtime.reload → SetMaxConnection`). A case in which the server could not be
started on a free port (or was restarted) is inconclusive. -/
def reloadJudge : Judge := fun input obs =>
  match obs.getObjVal? "inconclusive" with
  | .ok (.str why) => { agree := true, spec := true, tags := ["inconclusive:" ++ why], nontrivial := false }
  | _ =>
    if optBool obs "restarted" then
      { agree := false, spec := false, sig := "reload:server-restarted-on-cap-change",
        note := "a reload that changes only maxConnections / cacheSize restarted the HTTP server (established connections dropped)" }
    else
    let v := semJudge true input obs
    { v with tags := v.tags ++ ["via-httpserver-reload"] }

def judges : List (String × Judge) :=
  [("sem", semJudge false), ("listener", semJudge true), ("mqtt", mqttJudge), ("reload", reloadJudge)]

end Driver.C17

def main (args : List String) : IO UInt32 := Driver.runMain Driver.C17.judges args
