import Driver.Common
import EgVerif.Spec.MuxCache
/-!
Judge for C12 (harness `twin`): two mux instances built from the same spec — cache disabled and
`cacheSize = n` — were fed the same request history.

* `agree`  — the cache-less instance equals `Mux.search`, the cached instance equals
  `MuxCache.runCached` (eviction oracle := the hit/miss bits the harness probed), and the hit bits are
  consistent with the model's put sites (a hit only on a key the model has put; no miss on a resident
  key when the history has no more distinct keys than `cacheSize`).
* `spec`   — the property on the *implementation's* observations: for every request the cached
  instance shows (status, backend, handler-visible path) what the cache-less instance shows.
* `sig`    — class of a divergence, determined by replaying pairs of requests on the model of the
  code before the repair (`MuxCache.Old`).
-/
open Lean Driver EgVerif.Mux EgVerif.MuxCache

namespace Driver.C12

structure Parsed where
  cfg : Cfg
  nFilters : Nat
  pats : Array String
  lvlServer : Bool
  lvlRule : Bool
  lvlPath : Bool
  hasHdr : Bool

def optArr (j : Json) (k : String) : Array Json :=
  match getArr j k with | .ok a => a | .error _ => #[]

def optStrList (j : Json) (k : String) : List String :=
  (optArr j k).toList.filterMap (fun x => x.getStr?.toOption)

def isNull (j : Json) (k : String) : Bool :=
  match j.getObjVal? k with
  | .ok .null => true
  | .ok _ => false
  | .error _ => true

/-- id of a regexp pattern = index of its first occurrence in traversal order. -/
def patId (pats : Array String) (p : String) : Array String × Option Nat :=
  if p == "" then (pats, none)
  else match pats.toList.idxOf? p with
    | some i => (pats, some i)
    | none => (pats.push p, some pats.size)

def parseCfg (input : Json) : Parsed := Id.run do
  let mut pats : Array String := #[]
  let mut nf : Nat := 0
  let mut lvlS := false
  let mut lvlR := false
  let mut lvlP := false
  let mut hasHdr := false
  let mut sf : Option Nat := none
  if !isNull input "filter" then
    sf := some nf; nf := nf + 1; lvlS := true
  let mut rules : Array Rule := #[]
  for rj in optArr input "rules" do
    let (p1, hre) := patId pats (optStr rj "hostRegexp")
    pats := p1
    let mut rf : Option Nat := none
    if !isNull rj "filter" then
      rf := some nf; nf := nf + 1; lvlR := true
    let mut paths : Array PathEntry := #[]
    for pj in optArr rj "paths" do
      let (p2, pre) := patId pats (optStr pj "regexp")
      pats := p2
      let mut pf : Option Nat := none
      if !isNull pj "filter" then
        pf := some nf; nf := nf + 1; lvlP := true
      let mut hs : Array HeaderCond := #[]
      for hj in optArr pj "headers" do
        let (p3, hre') := patId pats (optStr hj "regexp")
        pats := p3
        hs := hs.push ⟨optStr hj "key", optStrList hj "values", hre'⟩
        hasHdr := true
      let pe : PathEntry := ⟨optStr pj "path", optStr pj "prefix", pre, optStrList pj "methods", hs.toList,
        optBool pj "matchAll", optStr pj "rewrite", optStr pj "backend", pf, 0⟩
      paths := paths.push pe
    let ru : Rule := ⟨optStr rj "host", hre, rf, paths.toList⟩
    rules := rules.push ru
  let cfg : Cfg := ⟨sf, rules.toList⟩
  return ⟨cfg, nf, pats, lvlS, lvlR, lvlP, hasHdr⟩

def parseReqs (input obs : Json) : List Req := Id.run do
  let hnp := optStrList obs "hostNoPort"
  let mut out : Array Req := #[]
  let mut i := 0
  for qj in optArr input "reqs" do
    let host := optStr qj "host"
    let hdr : List (String × String) := (optArr qj "hdr").toList.map fun kv =>
      match kv.getArr? with
      | .ok a => ((a[0]?.bind (·.getStr?.toOption)).getD "", (a[1]?.bind (·.getStr?.toOption)).getD "")
      | .error _ => ("", "")
    out := out.push ⟨host, (hnp[i]?).getD host, optStr qj "method", optStr qj "path", hdr, optStr qj "ip"⟩
    i := i + 1
  return out.toList

def parseObsList (obs : Json) (k : String) : List Obs :=
  (optArr obs k).toList.map fun r =>
    ⟨(optInt r "status").toNat, optStr r "backend", optStr r "path"⟩

def mkOracle (p : Parsed) (reqs : List Req) (obs : Json) : Oracle :=
  let reTab : List (String × String × Bool) := (optArr obs "re").toList.filterMap fun t =>
    match t.getArr? with
    | .ok a => match a[0]?, a[1]?, a[2]? with
      | some x, some y, some z => some ((x.getStr?.toOption).getD "", (y.getStr?.toOption).getD "", (z.getStr?.toOption).getD "" == "1")
      | _, _, _ => none
    | .error _ => none
  let allowTab : List (List Bool) := (optArr obs "allow").toList.map fun row =>
    match row.getArr? with
    | .ok a => a.toList.map (fun b => (b.getBool?.toOption).getD true)
    | .error _ => []
  let ips := reqs.map (·.ip)
  { ρ := fun i s => match p.pats[i]? with
      | some pat => match reTab.find? (fun t => t.1 == pat && t.2.1 == s) with
        | some t => t.2.2
        | none => false
      | none => false
    allow := fun i ip => match ips.idxOf? ip with
      | some k => ((allowTab[i]?).bind (·[k]?)).getD true
      | none => true }

def obsToJson (os : List Obs) : Json :=
  Json.arr (os.map (fun o => Json.mkObj [("status", Json.num o.status), ("backend", o.backend), ("path", o.path)])).toArray

/-- Class of the divergence at request `i` (see module doc). -/
def classify (o : Oracle) (cfg : Cfg) (known : String → Bool) (rw : PathEntry → String → String)
    (reqs : List Req) (i : Nat) (got want : Obs) : String :=
  match reqs[i]? with
  | none => "cache:length-mismatch"
  | some qi =>
    let noEv : String → Bool := fun _ => false
    let cands := ((reqs.take i).filter (fun qj => Old.keyOf qj == Old.keyOf qi)).reverse
    let explains (qj : Req) : Bool :=
      let cj := (Old.searchCached o cfg noEv [] qj).2
      !cj.isEmpty && obsOf known rw (Old.searchCached o cfg noEv cj qi).1 qi == got
    let same := cands.filter (fun qj => keyOf qj == keyOf qi)
    let coll := cands.filter (fun qj => keyOf qj != keyOf qi)
    let unexplained := if want.status == 403 || got.status == 403 then "cache:unexplained-ip" else "cache:unexplained-route"
    -- an explanation by an earlier request with the very same (host, method, path) is preferred
    match same.find? explains with
    | some qj =>
      match (Old.searchCached o cfg noEv [] qj).2.head? with
      | some (_, .code _) => if want.status == 403 then "cache:ip-bypass-404" else "cache:stale-code"
      | some (_, .path ri pi e) =>
        let open_ : Oracle := { ρ := o.ρ, allow := fun _ _ => true }
        if search open_ cfg qi == .path ri pi e then "cache:ip-bypass-rule" else "cache:header-shadow"
      | none => unexplained
    | none =>
      match coll.find? explains with
      | some _ => "cache:key-collision"
      | none => unexplained

def judge : Judge := liftJudge fun input obs => do
  match obsPanic obs with
  | some m => pure { agree := false, spec := false, sig := "panic", note := m }
  | none =>
  match getStr obs "error" with
  | .ok e => pure { agree := true, spec := true, tags := ["harness-error:" ++ e], nontrivial := false }
  | .error _ =>
  let p := parseCfg input
  let reqs := parseReqs input obs
  let o := mkOracle p reqs obs
  let missing := optStrList input "missing"
  let known : String → Bool := fun b => !missing.contains b
  let rw := rewrite (fun _ path => path)
  let cacheSize := (optInt input "cacheSize" 1).toNat
  let gotU := parseObsList obs "uncached"
  let gotC := parseObsList obs "cached"
  let hitBits : List Bool := (optArr obs "hit").toList.map (fun b => (b.getBool?.toOption).getD false)
  -- model
  let routesU := reqs.map (search o p.cfg)
  let wantU := List.zipWith (obsOf known rw) routesU reqs
  let ev : Nat → Key → Bool := fun n _ => !((hitBits[n]?).getD false)
  let routesC := runCached o p.cfg ev reqs
  let wantC := List.zipWith (obsOf known rw) routesC reqs
  let resident := residentFrom o p.cfg ev 0 [] reqs
  let distinctKeys := (reqs.map keyOf).eraseDups.length
  let hitOK := (List.zipWith (fun h r => !h || r) hitBits resident).all id
  let missOK := distinctKeys > cacheSize || (List.zipWith (fun h r => h || !r) hitBits resident).all id
  let agreeU := decide (gotU = wantU)
  let agreeC := decide (gotC = wantC)
  let agree := agreeU && agreeC && hitOK && missOK && hitBits.length == reqs.length
  -- the property, on what the implementation did
  let spec := specOK gotC gotU && gotC.length == reqs.length
  let sig := if spec then "" else
    match firstDiff gotC gotU 0 with
    | some i => classify o p.cfg known rw reqs i ((gotC[i]?).getD ⟨0, "", ""⟩) ((gotU[i]?).getD ⟨0, "", ""⟩)
    | none => "cache:length-mismatch"
  let note := if agree then "" else
    (if !agreeU then "uncached!=model " else "") ++ (if !agreeC then "cached!=model " else "")
    ++ (if !hitOK then "hit-on-key-the-model-never-put " else "")
    ++ (if !missOK then "miss-on-resident-key-without-eviction-pressure " else "")
  -- classification of the case
  let nHit := (hitBits.filter id).length
  let evicted := (List.zipWith (fun h r => !h && r) hitBits resident).any id
  let hitRoutes := (routesC.zip hitBits).filter (·.2) |>.map (·.1)
  let hitStat (c : Nat) := hitRoutes.any (fun r => r == .code c)
  let hitPath := hitRoutes.any (fun r => match r with | .path .. => true | _ => false)
  let collide := reqs.any (fun a => reqs.any (fun b => Old.keyOf a == Old.keyOf b && keyOf a != keyOf b))
  let sameKeyOtherClient := reqs.any (fun a => reqs.any (fun b => keyOf a == keyOf b && (a.ip != b.ip || a.hdr != b.hdr)))
  let stat (c : Nat) := wantU.any (fun x => x.status == c)
  let tags := [s!"cacheSize:{if cacheSize ≥ 16 then "16+" else toString cacheSize}"]
    ++ (if nHit > 0 then ["hit"] else ["no-hit"])
    ++ (if evicted then ["eviction"] else [])
    ++ (if hitStat 403 then ["hit:403"] else []) ++ (if hitStat 404 then ["hit:404"] else [])
    ++ (if hitStat 405 then ["hit:405"] else []) ++ (if hitPath then ["hit:path"] else [])
    ++ (if collide then ["colliding-concatenation"] else [])
    ++ (if sameKeyOtherClient then ["same-key-other-client"] else [])
    ++ (if p.hasHdr then ["cfg:header-cond"] else [])
    ++ (if p.lvlServer then ["cfg:filter-server"] else []) ++ (if p.lvlRule then ["cfg:filter-rule"] else [])
    ++ (if p.lvlPath then ["cfg:filter-path"] else [])
    ++ ([200, 400, 403, 404, 405, 503].filter stat).map (fun c => s!"status:{c}")
    ++ (if reqs.length ≤ 6 then ["short-history"] else [])
  pure { agree := agree, spec := spec, expected := Json.mkObj [("uncached", obsToJson wantU), ("cached", obsToJson wantC)],
         tags := tags, nontrivial := nHit > 0, sig := sig, note := note }

def judges : List (String × Judge) := [("C12", judge)]

end Driver.C12
