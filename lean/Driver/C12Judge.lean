import Driver.Common
import EgVerif.Spec.MuxCache
/-!
Judge for C12 (harness `twin`): two mux objects built from the same spec — cache disabled and
`cacheSize = n` — were fed the same history of requests and in-place reloads (`mux.reload` on the same
object; an element of `reqs` with a `reload` member is a reload with that spec, applied to both twins,
the cache-less twin always with cacheSize 0). The model run is `MuxCache.runOps` (fresh cache per
reload), the reference `refOps` (cache-less search under the configuration current at that point).

* `agree`  — the cache-less instance equals `Mux.search`, the cached instance equals
  `MuxCache.runCached` (eviction oracle := the hit/miss bits the harness probed), and the hit bits are
  consistent with the model's put sites (a hit only on a key the model has put; no miss on a resident
  key when the history has no more distinct keys than `cacheSize`).
* `spec`   — the property on the *implementation's* observations: for every request the cached
  instance shows (status, backend, handler-visible path) what the cache-less instance shows.
* `sig`    — class of a divergence, determined by replaying pairs of requests on the model of the
  code before the repair (`MuxCache.Old`).
-/
open Lean Driver EgVerif.Mux EgVerif.MuxCache

namespace Driver.C12

structure Acc where
  pats : Array String := #[]
  nFilters : Nat := 0
  lvlServer : Bool := false
  lvlRule : Bool := false
  lvlPath : Bool := false
  hasHdr : Bool := false

def optArr (j : Json) (k : String) : Array Json :=
  match getArr j k with | .ok a => a | .error _ => #[]

def optStrList (j : Json) (k : String) : List String :=
  (optArr j k).toList.filterMap (fun x => x.getStr?.toOption)

def isNull (j : Json) (k : String) : Bool :=
  match j.getObjVal? k with
  | .ok .null => true
  | .ok _ => false
  | .error _ => true

/-- id of a regexp pattern = index of its first occurrence in traversal order (over all specs). -/
def patId (pats : Array String) (p : String) : Array String × Option Nat :=
  if p == "" then (pats, none)
  else match pats.toList.idxOf? p with
    | some i => (pats, some i)
    | none => (pats.push p, some pats.size)

/-- One spec (`filter`, `rules`) → `Cfg`. Filter ids are global over all specs of the case: one id per
filter occurrence in traversal order (server, then per rule: rule filter, per path: path filter), spec
after spec — the row index of the harness' `allow` table. -/
def parseSpec (input : Json) (acc : Acc) : Cfg × Acc := Id.run do
  let mut pats := acc.pats
  let mut nf := acc.nFilters
  let mut lvlS := acc.lvlServer
  let mut lvlR := acc.lvlRule
  let mut lvlP := acc.lvlPath
  let mut hasHdr := acc.hasHdr
  let mut sf : Option Nat := none
  if !isNull input "filter" then
    sf := some nf; nf := nf + 1; lvlS := true
  let mut rules : Array Rule := #[]
  for rj in optArr input "rules" do
    let (p1, hre) := patId pats (optStr rj "hostRegexp")
    pats := p1
    let mut rf : Option Nat := none
    if !isNull rj "filter" then
      rf := some nf; nf := nf + 1; lvlR := true
    let mut paths : Array PathEntry := #[]
    for pj in optArr rj "paths" do
      let (p2, pre) := patId pats (optStr pj "regexp")
      pats := p2
      let mut pf : Option Nat := none
      if !isNull pj "filter" then
        pf := some nf; nf := nf + 1; lvlP := true
      let mut hs : Array HeaderCond := #[]
      for hj in optArr pj "headers" do
        let (p3, hre') := patId pats (optStr hj "regexp")
        pats := p3
        hs := hs.push ⟨optStr hj "key", optStrList hj "values", hre'⟩
        hasHdr := true
      let pe : PathEntry := ⟨optStr pj "path", optStr pj "prefix", pre, optStrList pj "methods", hs.toList,
        optBool pj "matchAll", optStr pj "rewrite", optStr pj "backend", pf, 0⟩
      paths := paths.push pe
    let ru : Rule := ⟨optStr rj "host", hre, rf, paths.toList⟩
    rules := rules.push ru
  let cfg : Cfg := ⟨sf, rules.toList⟩
  return (cfg, ⟨pats, nf, lvlS, lvlR, lvlP, hasHdr⟩)

structure Parsed where
  acc : Acc
  ops : List Op                 -- `reload spec0 :: …` as applied to the cached twin
  reqs : List Req               -- the request elements, in order
  genOf : List Nat              -- per request: index of the generation serving it
  gens : List (Cfg × Nat)       -- per generation: configuration and cacheSize

def parseReq (qj : Json) (hnp : Option String) : Req :=
  let host := optStr qj "host"
  let hdr : List (String × String) := (optArr qj "hdr").toList.map fun kv =>
    match kv.getArr? with
    | .ok a => ((a[0]?.bind (·.getStr?.toOption)).getD "", (a[1]?.bind (·.getStr?.toOption)).getD "")
    | .error _ => ("", "")
  ⟨host, hnp.getD host, optStr qj "method", optStr qj "path", hdr, optStr qj "ip"⟩

def parseCase (input obs : Json) : Parsed := Id.run do
  let hnp := optStrList obs "hostNoPort"
  let (cfg0, acc0) := parseSpec input {}
  let size0 := (optInt input "cacheSize" 1).toNat
  let size0 := if size0 == 0 then 1 else size0
  let mut acc := acc0
  let mut ops : Array Op := #[.reload ⟨cfg0, true⟩]
  let mut gens : Array (Cfg × Nat) := #[(cfg0, size0)]
  let mut reqs : Array Req := #[]
  let mut genOf : Array Nat := #[]
  for qj in optArr input "reqs" do
    if !isNull qj "reload" then
      match qj.getObjVal? "reload" with
      | .ok sj =>
        let (c, a) := parseSpec sj acc
        acc := a
        let sz := (optInt sj "cacheSize" 0).toNat
        ops := ops.push (.reload ⟨c, sz > 0⟩)
        gens := gens.push (c, sz)
      | .error _ => pure ()
    else
      let q := parseReq qj (hnp[reqs.size]?)
      ops := ops.push (.request q)
      reqs := reqs.push q
      genOf := genOf.push (gens.size - 1)
  return ⟨acc, ops.toList, reqs.toList, genOf.toList, gens.toList⟩

def parseObsList (obs : Json) (k : String) : List Obs :=
  (optArr obs k).toList.map fun r =>
    ⟨(optInt r "status").toNat, optStr r "backend", optStr r "path"⟩

def mkOracle (pats : Array String) (reqs : List Req) (obs : Json) : Oracle :=
  let reTab : List (String × String × Bool) := (optArr obs "re").toList.filterMap fun t =>
    match t.getArr? with
    | .ok a => match a[0]?, a[1]?, a[2]? with
      | some x, some y, some z => some ((x.getStr?.toOption).getD "", (y.getStr?.toOption).getD "", (z.getStr?.toOption).getD "" == "1")
      | _, _, _ => none
    | .error _ => none
  let allowTab : List (List Bool) := (optArr obs "allow").toList.map fun row =>
    match row.getArr? with
    | .ok a => a.toList.map (fun b => (b.getBool?.toOption).getD true)
    | .error _ => []
  let ips := reqs.map (·.ip)
  { ρ := fun i s => match pats[i]? with
      | some pat => match reTab.find? (fun t => t.1 == pat && t.2.1 == s) with
        | some t => t.2.2
        | none => false
      | none => false
    allow := fun i ip => match ips.idxOf? ip with
      | some k => ((allowTab[i]?).bind (·[k]?)).getD true
      | none => true }

def obsToJson (os : List Obs) : Json :=
  Json.arr (os.map (fun o => Json.mkObj [("status", Json.num o.status), ("backend", o.backend), ("path", o.path)])).toArray

/-- Class of the divergence at request `i` (see module doc). -/
def classify (o : Oracle) (cfg : Cfg) (known : String → Bool) (rw : PathEntry → String → String)
    (reqs : List Req) (i : Nat) (got want : Obs) : String :=
  match reqs[i]? with
  | none => "cache:length-mismatch"
  | some qi =>
    let noEv : String → Bool := fun _ => false
    let cands := ((reqs.take i).filter (fun qj => Old.keyOf qj == Old.keyOf qi)).reverse
    let explains (qj : Req) : Bool :=
      let cj := (Old.searchCached o cfg noEv [] qj).2
      !cj.isEmpty && obsOf known rw (Old.searchCached o cfg noEv cj qi).1 qi == got
    let same := cands.filter (fun qj => keyOf qj == keyOf qi)
    let coll := cands.filter (fun qj => keyOf qj != keyOf qi)
    let unexplained := if want.status == 403 || got.status == 403 then "cache:unexplained-ip" else "cache:unexplained-route"
    -- an explanation by an earlier request with the very same (host, method, path) is preferred
    match same.find? explains with
    | some qj =>
      match (Old.searchCached o cfg noEv [] qj).2.head? with
      | some (_, .code _) => if want.status == 403 then "cache:ip-bypass-404" else "cache:stale-code"
      | some (_, .path ri pi e) =>
        let open_ : Oracle := { ρ := o.ρ, allow := fun _ _ => true }
        if search open_ cfg qi == .path ri pi e then "cache:ip-bypass-rule" else "cache:header-shadow"
      | none => unexplained
    | none =>
      match coll.find? explains with
      | some _ => "cache:key-collision"
      | none => unexplained

/-- indices (request numbers) served by generation `g` -/
def genIdxs (genOf : List Nat) (g : Nat) : List Nat :=
  (List.range genOf.length).filter (fun i => genOf[i]? == some g)

def judge : Judge := liftJudge fun input obs => do
  match obsPanic obs with
  | some m => pure { agree := false, spec := false, sig := "panic", note := m }
  | none =>
  match getStr obs "error" with
  | .ok e => pure { agree := true, spec := true, tags := ["harness-error:" ++ e], nontrivial := false }
  | .error _ =>
  let p := parseCase input obs
  let reqs := p.reqs
  let o := mkOracle p.acc.pats reqs obs
  let missing := optStrList input "missing"
  let known : String → Bool := fun b => !missing.contains b
  let rw := rewrite (fun _ path => path)
  let gotU := parseObsList obs "uncached"
  let gotC := parseObsList obs "cached"
  let hitBits : List Bool := (optArr obs "hit").toList.map (fun b => (b.getBool?.toOption).getD false)
  -- model
  let routesU := refOps o {} p.ops
  let wantU := List.zipWith (obsOf known rw) routesU reqs
  let ev : Nat → Key → Bool := fun n _ => !((hitBits[n]?).getD false)
  let routesC := runOps o ev 0 newMux p.ops
  let wantC := List.zipWith (obsOf known rw) routesC reqs
  let resident := residentOps o ev 0 newMux p.ops
  let hitOK := (List.zipWith (fun h r => !h || r) hitBits resident).all id
  -- per generation: without eviction pressure (no more distinct keys than cacheSize) a resident key must hit
  let nGens := p.gens.length
  let missOK := (List.range nGens).all fun g =>
    let idxs := genIdxs p.genOf g
    let size := ((p.gens[g]?).map (·.2)).getD 0
    let keys := (idxs.filterMap (fun i => (reqs[i]?).map keyOf)).eraseDups
    keys.length > size || idxs.all (fun i => (hitBits[i]?).getD false || !((resident[i]?).getD false))
  let agreeU := decide (gotU = wantU)
  let agreeC := decide (gotC = wantC)
  let agree := agreeU && agreeC && hitOK && missOK && hitBits.length == reqs.length
  -- the property, on what the implementation did
  let spec := specOK gotC gotU && gotC.length == reqs.length
  let sig := if spec then "" else
    match firstDiff gotC gotU 0 with
    | some i =>
      let got := (gotC[i]?).getD ⟨0, "", ""⟩
      let want := (gotU[i]?).getD ⟨0, "", ""⟩
      let g := (p.genOf[i]?).getD 0
      -- the implementation answered this key, in this generation, from an entry the model's
      -- (fresh) cache of this generation never held: it can only stem from an earlier generation
      let residentKeep := residentOpsKeep o ev 0 newMux p.ops
      let staleHit := g > 0 && (List.range (i + 1)).any fun j =>
        (p.genOf[j]?).getD 0 == g && (reqs[j]?).map keyOf == (reqs[i]?).map keyOf
          && (hitBits[j]?).getD false && !((resident[j]?).getD false) && (residentKeep[j]?).getD false
      let keep := runOpsKeep o ev 0 newMux p.ops
      let keepExplains := match keep[i]?, reqs[i]? with
        | some r, some q => obsOf known rw r q == got
        | _, _ => false
      if staleHit then (if keepExplains then "cache:stale-generation" else "cache:stale-generation-unexplained")
      else
        -- classify inside the generation serving request i
        let idxs := genIdxs p.genOf g
        let start := idxs.head?.getD 0
        let cfg := ((p.gens[g]?).map (·.1)).getD {}
        classify o cfg known rw (reqs.drop start) (i - start) got want
    | none => "cache:length-mismatch"
  let note := if agree then "" else
    (if !agreeU then "uncached!=model " else "") ++ (if !agreeC then "cached!=model " else "")
    ++ (if !hitOK then "hit-on-key-the-model-never-put-in-this-generation " else "")
    ++ (if !missOK then "miss-on-resident-key-without-eviction-pressure " else "")
  -- classification of the case
  let cacheSize := ((p.gens[0]?).map (·.2)).getD 1
  let nHit := (hitBits.filter id).length
  let evicted := (List.zipWith (fun h r => !h && r) hitBits resident).any id
  let hitRoutes := (routesC.zip hitBits).filter (·.2) |>.map (·.1)
  let hitStat (c : Nat) := hitRoutes.any (fun r => r == .code c)
  let hitPath := hitRoutes.any (fun r => match r with | .path .. => true | _ => false)
  let collide := reqs.any (fun a => reqs.any (fun b => Old.keyOf a == Old.keyOf b && keyOf a != keyOf b))
  let sameKeyOtherClient := reqs.any (fun a => reqs.any (fun b => keyOf a == keyOf b && (a.ip != b.ip || a.hdr != b.hdr)))
  let stat (c : Nat) := wantU.any (fun x => x.status == c)
  -- reloads
  let nReload := nGens - 1
  let genPairs := p.gens.zip (p.gens.drop 1)
  let hitAfterReload := (List.range reqs.length).any (fun i => (hitBits[i]?).getD false && (p.genOf[i]?).getD 0 > 0)
  -- a key requested (and, in the model, resident) before a reload is requested again after it
  let keyAcross := (List.range reqs.length).any fun i => (List.range reqs.length).any fun j =>
    i < j && (p.genOf[i]?).getD 0 < (p.genOf[j]?).getD 0 && (reqs[i]?).map keyOf == (reqs[j]?).map keyOf
      && (resident[i]?).getD false
  let strip (c : Cfg) : Cfg := { c with ipFilter := none, rules := c.rules.map (fun r =>
    { r with ipFilter := none, paths := r.paths.map (fun e => { e with ipFilter := none }) }) }
  let onlyServer := genPairs.any (fun (a, b) => a.1.rules.map (·.paths.length) == b.1.rules.map (·.paths.length)
    && strip a.1 == strip b.1 && a.2 == b.2 && a.1.ipFilter.isSome != b.1.ipFilter.isSome)
  let sameRouting := genPairs.any (fun (a, b) => strip a.1 == strip b.1)
  let rulesChange := genPairs.any (fun (a, b) => strip a.1 != strip b.1)
  let sizeChange := genPairs.any (fun (a, b) => a.2 != b.2)
  let cacheOff := (p.gens.drop 1).any (fun g => g.2 == 0)
  let tags := [s!"cacheSize:{if cacheSize ≥ 16 then "16+" else toString cacheSize}"]
    ++ (if nHit > 0 then ["hit"] else ["no-hit"])
    ++ (if evicted then ["eviction"] else [])
    ++ (if hitStat 403 then ["hit:403"] else []) ++ (if hitStat 404 then ["hit:404"] else [])
    ++ (if hitStat 405 then ["hit:405"] else []) ++ (if hitPath then ["hit:path"] else [])
    ++ (if collide then ["colliding-concatenation"] else [])
    ++ (if sameKeyOtherClient then ["same-key-other-client"] else [])
    ++ (if p.acc.hasHdr then ["cfg:header-cond"] else [])
    ++ (if p.acc.lvlServer then ["cfg:filter-server"] else []) ++ (if p.acc.lvlRule then ["cfg:filter-rule"] else [])
    ++ (if p.acc.lvlPath then ["cfg:filter-path"] else [])
    ++ ([200, 400, 403, 404, 405, 503].filter stat).map (fun c => s!"status:{c}")
    ++ (if reqs.length ≤ 6 then ["short-history"] else [])
    ++ [s!"reloads:{if nReload ≥ 3 then "3+" else toString nReload}"]
    ++ (if hitAfterReload then ["reload:hit-in-later-generation"] else [])
    ++ (if keyAcross then ["reload:cached-key-requested-again-after"] else [])
    ++ (if onlyServer then ["reload:server-filter-added-or-removed-only"] else [])
    ++ (if sameRouting then ["reload:filters-only-or-identical"] else [])
    ++ (if rulesChange then ["reload:rules-change"] else [])
    ++ (if sizeChange then ["reload:cacheSize-change"] else [])
    ++ (if cacheOff then ["reload:to-cache-off"] else [])
  pure { agree := agree, spec := spec, expected := Json.mkObj [("uncached", obsToJson wantU), ("cached", obsToJson wantC)],
         tags := tags, nontrivial := nHit > 0, sig := sig, note := note }

def judges : List (String × Judge) := [("C12", judge)]

end Driver.C12
