import Driver.Common
import EgVerif.Spec.Pipeline
/-! Judge for C02: runs `Model.Pipeline` (validate / handle / handleBA / gfHandle) and the executable
specification (`Spec.valid`, `Spec.runFlow`, `Spec.runBA`) on every harness case.
One judge serves both harnesses (pipeline: modes `handle`, `hwba`; globalfilter: mode `gf`). -/
open Lean Driver EgVerif.Pipeline

namespace Driver.C02

def parsePair (j : Json) : Except String (String × String) := do
  let a ← j.getArr?
  unless a.size == 2 do throw "pair"
  pure (← a[0]!.getStr?, ← a[1]!.getStr?)

def parseNode (j : Json) : Except String Node := do
  let js ← getArr j "j"
  let jm ← js.toList.mapM parsePair
  pure ⟨optStr j "f", optStr j "a", optStr j "ns", jm⟩

def parsePart (j : Json) : Except String PSpec := do
  let fs ← (← getArr j "filters").toList.mapM parsePair
  let fl ← (← getArr j "flow").toList.mapM parseNode
  pure ⟨fs, fl⟩

def optPart (input : Json) (k : String) : Except String (Option PSpec) :=
  match input.getObjVal? k with
  | .ok .null => pure none
  | .ok j => do pure (some (← parsePart j))
  | .error _ => pure none

def parseKinds (input : Json) : Except String (List (String × List String)) := do
  let ks ← (← getArr input "kinds").toList.mapM fun e => do
    pure (optStr e "k", ← getStrList e "r")
  pure (ks.filter (fun k => k.1 != ""))   -- the harness does not register a kind without a name

/-- One observed run, as (alias, filter instance, kind, namespace, result) per invocation. -/
structure ORun where
  rows : List (String × String × String × String × String)
  result : String
  wellFormed : Bool

def parseRun (j : Json) : Except String ORun := do
  let calls ← (← getArr j "calls").toList.mapM fun c => do
    let a ← c.getArr?
    unless a.size == 3 do throw "call"
    pure (← a[0]!.getStr?, ← a[1]!.getStr?, ← a[2]!.getStr?)
  let stats ← (← getArr j "stats").toList.mapM parsePair
  let raw := optStr j "raw"
  let wf := calls.length == stats.length && raw == "" && optInt j "ntags" 1 == 1
  let rows := (stats.zip calls).map fun (s, c) => (s.1, c.1, c.2.1, c.2.2, s.2)
  pure ⟨rows, optStr j "result", wf⟩

def rowsOf (tr : List Stat) : List (String × String × String × String × String) :=
  tr.map fun s => (s.name, s.filter, s.kind, s.ns, s.result)

def rowsJson (rows : List (String × String × String × String × String)) (result : String) : Json :=
  Json.mkObj [("result", result), ("trace", Json.arr (rows.map (fun r =>
    Json.arr #[r.1, r.2.1, r.2.2.1, r.2.2.2.1, r.2.2.2.2])).toArray)]

/-- Specific class of a run mismatch (expected per spec vs observed). -/
def diffSig : List (String × String × String × String × String) →
    List (String × String × String × String × String) → String
  | [], [] => "result"
  | _ :: _, [] => "stopped-early"
  | [], _ :: _ => "ran-after-end"
  | e :: es, g :: gs =>
    if e == g then diffSig es gs
    else if e.1 != g.1 || e.2.1 != g.2.1 then "wrong-node"
    else if e.2.2.1 != g.2.2.1 then "wrong-kind"
    else if e.2.2.2.1 != g.2.2.2.1 then "wrong-namespace"
    else "wrong-result"

def script (s : List String) : Nat → String := fun k => s.getD k ""

def judge : Judge := liftJudge fun input obs => do
  let mode := optStr input "mode" "handle"
  let kinds ← parseKinds input
  let main := (← optPart input "main").getD ⟨[], []⟩
  let before ← if mode == "handle" then pure none else optPart input "before"
  let after ← if mode == "handle" then pure none else optPart input "after"
  let scripts ← (← getArr input "scripts").toList.mapM fun s => do
    match s with
    | .null => pure []
    | _ => (← s.getArr?).toList.mapM (·.getStr?)
  match obsPanic obs with
  | some m => pure { agree := false, spec := false, sig := "panic:" ++ mode, note := m }
  | none =>
  let validObs ← obs.getObjVal? "valid"
  let parts : List (String × PSpec) := [("main", main)] ++
    (if mode == "gf" then [("before", before.getD ⟨[], []⟩), ("after", after.getD ⟨[], []⟩)]
     else (before.map (("before", ·))).toList ++ (after.map (("after", ·))).toList)
  -- validation
  let mut agree := true
  let mut spec := true
  let mut sig := ""
  let mut note := ""
  let mut tags : List String := ["mode:" ++ mode]
  let mut allOk := true
  let mut flowReject := false
  for (nm, p) in parts do
    let o := optStr validObs nm "missing"
    let okObs := o == "ok"
    if !okObs then
      allOk := false
      tags := tags ++ ["reject:" ++ o]
      if o == "no-target" || o == "dup-target" || o == "undeclared-result" || o == "filter-not-found" then
        flowReject := true
    if okObs != validate kinds p then
      agree := false
      note := note ++ s!"validate({nm}): model {validate kinds p}, observed {o}; "
    if okObs != Spec.valid kinds p then
      if spec then
        sig := if okObs then "validate:accepts-invalid" else "validate:rejects-valid:" ++ o
      spec := false
  if mode == "gf" then
    -- globalfilter.Spec.Validate = both parts valid
    let g := optStr obs "gf" "missing"
    let want := gfValidate kinds (before.getD ⟨[], []⟩) (after.getD ⟨[], []⟩)
    if (g == "ok") != want then
      agree := false
      note := note ++ s!"gfValidate: model {want}, observed {g}; "
  if allOk then tags := tags ++ ["valid"] else tags := tags ++ ["invalid"]
  let runs ← (← getArr obs "runs").toList.mapM parseRun
  let init := optStr obs "init" "missing"
  let mut nontrivial := flowReject
  let mut expected : List Json := []
  if !allOk then
    -- a rejected spec must not have been run
    if runs.length != 0 then
      agree := false; note := note ++ "rejected spec was run; "
  else
    if init != "ok" then
      agree := false; note := note ++ s!"init: {init}; "
    else
      let mp := mkPipe main
      if main.flow.isEmpty then tags := tags ++ ["noflow"]
      if (effFlow main).any (fun n => n.filter == END) then tags := tags ++ ["has-end-node"]
      if (effFlow main).any (fun n => n.filter == END && n.alias != "") then tags := tags ++ ["aliased-end-node"]
      if (effFlow main).any (fun n => ((effFlow main).filter (fun m => m.filter == n.filter && m.filter != END)).length > 1)
        then tags := tags ++ ["filter-reused"]
      tags := tags ++ [s!"nodes:{(effFlow main).length}"]
      if runs.length != scripts.length then
        agree := false; note := note ++ "number of runs; "
      let mut jumped := false
      let mut endedEarly := false
      let mut baEnd := false
      for (s, r) in scripts.zip runs do
        let res := script s
        -- model
        let (mres, mtr, _) :=
          if mode == "handle" then let h := handle res mp; (h.1, h.2, false)
          else if mode == "gf" then gfHandle res mp (before.getD ⟨[], []⟩) (after.getD ⟨[], []⟩)
          else handleBA res mp (before.map mkPipe) (after.map mkPipe)
        -- executable specification
        let sp :=
          if mode == "handle" then (Spec.runFlow mp.kind res mp.flow []).map (fun o => (o.1, o.2.1, o.2.2))
          else if mode == "gf" then Spec.runBA res mp (gfPipe (before.getD ⟨[], []⟩)) (gfPipe (after.getD ⟨[], []⟩))
          else Spec.runBA res mp (before.map mkPipe) (after.map mkPipe)
        expected := expected ++ [rowsJson (rowsOf mtr) mres]
        if !(r.wellFormed && r.rows == rowsOf mtr && r.result == mres) then
          agree := false
          if note.length < 400 then note := note ++ s!"run {s}: model {(rowsJson (rowsOf mtr) mres).compress}; "
        match sp with
        | none =>
          if spec then sig := "run:" ++ mode ++ ":spec-stuck"
          spec := false
        | some (sres, str, ended) =>
          if !(r.wellFormed && r.rows == rowsOf str && r.result == sres) then
            if spec then
              sig := "run:" ++ mode ++ ":" ++ (if !r.wellFormed then "malformed-stats" else diffSig (rowsOf str) r.rows)
              note := note ++ s!"run {s}: spec {(rowsJson (rowsOf str) sres).compress}; "
            spec := false
          -- classification
          let tr := str
          if (tr.zip (tr.drop 1)).any (fun (a, _) => a.result != "") then jumped := true
          if ended then endedEarly := true
          if mode != "handle" && ended then baEnd := true
      if jumped then tags := tags ++ ["jump-taken"]
      if endedEarly then tags := tags ++ ["ended"]
      if baEnd then tags := tags ++ ["ba-ended"]
      if before.isSome then tags := tags ++ ["with-before"]
      if after.isSome then tags := tags ++ ["with-after"]
      nontrivial := nontrivial || jumped || endedEarly
  pure { agree := agree, spec := spec, expected := Json.arr expected.toArray, tags := tags,
         nontrivial := nontrivial, sig := if spec then "" else sig, note := note }

def judges : List (String × Judge) := [("C02", judge)]

end Driver.C02

def main (args : List String) : IO UInt32 := Driver.runMain Driver.C02.judges args
