import Driver.Common
/-! Judge for C02: not built yet (stub so that the target exists). -/
open Lean Driver

namespace Driver.C02

def judges : List (String × Judge) := []

end Driver.C02

def main (args : List String) : IO UInt32 := Driver.runMain Driver.C02.judges args
