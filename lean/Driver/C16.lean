import Driver.Common
import EgVerif.Spec.BrokerSessions
/-! Judge for C16: replays the harness schedule in the model (`orunMacro false`: the coarse model of the
CURRENT code with the origin of every queued delete event), compares the snapshot after every macro
action, evaluates the executable property (`violationO`: `violation` + the origin-aware clause for a
delivered delete event, origins tracked from the actions and the observed `watch` counter) on what the
implementation showed. The current code breaks the teardown-origin clause (known finding
`C16-own-delete-event`, sig `stale-teardown-event:new-connection-disconnected`): such a case is
`spec = false` with `agree = true` (the model predicts it). -/
open Lean Driver EgVerif.BrokerSessions

namespace Driver.C16

partial def parseMacro (j : Json) : Except String MAct := do
  let op ← getStr j "op"
  let k := (optInt j "k").toNat
  let f := (optInt j "f").toNat
  match op with
  | "connect" => pure (.connect k (optBool j "clean"))
  | "sub" => pure (.sub k f)
  | "unsub" => pure (.unsub k f)
  | "drop" => pure (.drop k)
  | "admindel" => pure .admindel
  | "watch" => pure .watch
  | "par" =>
    let a ← getArr j "par"
    match a.toList with
    | [x, y] => do
      let mx ← parseMacro x
      let my ← parseMacro y
      pure (.par mx my)
    | [x] => parseMacro x
    | _ => throw "par arity"
  | _ => throw ("op " ++ op)

def natList (j : Json) (k : String) : Except String (List Nat) := do
  let a ← getArr j k
  a.toList.mapM (·.getNat?)

structure ObsStep where
  snap : Snap
  skipped : Bool
  err : String
  code : Int
  seen : List Nat
  disc : List Nat

def parseStep (j : Json) : Except String ObsStep := do
  let reg := optInt j "reg" (-1)
  let st ← natList j "sessTopics"
  let dbt ← natList j "dbTopics"
  let tm ← natList j "tm"
  let snap : Snap :=
    { reg := if reg < 0 then none else some reg.toNat, regDisc := optBool j "regDisc",
      sessMap := optBool j "sessMap", sessTopics := st, sessClean := optBool j "sessClean",
      sessClosed := optBool j "sessClosed",
      db := if optBool j "db" then some (dbt, optBool j "dbClean") else none,
      tm := tm, watch := (optInt j "watch").toNat }
  pure { snap := snap, skipped := optBool j "skipped", err := optStr j "err", code := optInt j "code" (-1),
         seen := ← natList j "seen", disc := ← natList j "disc" }

def snapJson (s : Snap) : Json :=
  Json.mkObj [("reg", match s.reg with | some k => Json.num k | none => Json.num (-1 : Int)),
    ("regDisc", s.regDisc), ("sessMap", s.sessMap),
    ("sessTopics", Json.arr (s.sessTopics.map (fun (n : Nat) => Json.num n)).toArray),
    ("sessClean", s.sessClean), ("sessClosed", s.sessClosed),
    ("db", match s.db with
      | some (t, c) => Json.mkObj [("topics", Json.arr (t.map (fun (n : Nat) => Json.num n)).toArray), ("clean", c)]
      | none => Json.null),
    ("tm", Json.arr (s.tm.map (fun (n : Nat) => Json.num n)).toArray), ("watch", s.watch)]

def macroTag : MAct → String
  | .connect _ c => if c then "connect-clean" else "connect-persistent"
  | .sub .. => "sub" | .unsub .. => "unsub" | .drop _ => "drop"
  | .admindel => "admindel" | .watch => "watch" | .par .. => "par"

structure Acc where
  cands : List OSt           -- model states compatible with the observations so far
  prev : Snap
  track : Track := {}        -- spec side: origins of the queued delete events (actions + observed counter)
  agree : Bool := true
  sig : String := ""
  note : String := ""
  tags : List String := []
  expected : List Json := []

def discOk (o : ObsStep) (s : St) : Bool :=
  o.seen.all (fun k => (o.disc.contains k) == (s.conn k).disc)

/-- everything of a model state that later steps can depend on (connections 0..15) -/
def stKey (o : OSt) : Snap × List Conn × List Sess × Option Nat × Bool × List Origin × Nat :=
  let s := o.base
  (project s, (List.range 16).map s.conn, (List.range s.nextSess).map s.sess, s.sessMap, s.doubleClose, o.origins, o.own)

def dedupSt (l : List (OSt × Bool)) : List (OSt × Bool) :=
  (l.foldl (fun (acc : List ((Snap × List Conn × List Sess × Option Nat × Bool × List Origin × Nat) × Bool × OSt))
      (p : OSt × Bool) =>
    let k := stKey p.1
    if acc.any (fun e => e.1 == k && e.2.1 == p.2) then acc else acc ++ [(k, p.2, p.1)]) []).map
    (fun e => (e.2.2, e.2.1))

def originTag : Option Origin → String
  | some (.admin _) => "watch-admin-origin"
  | some (.teardownOf _) => "watch-teardown-origin"
  | none => "watch-unknown-origin"

def stepJudge (acc : Acc) (m : MAct) (o : ObsStep) : Acc :=
  -- model (ostep: enabled exactly when the base step is)
  let nexts : List (OSt × Bool) := acc.cands.flatMap (fun s =>
    let sk := skipped true s.base m
    (if sk then [s] else orunMacro false s m).map (fun s' => (s', sk)))
  let nexts := dedupSt nexts
  let matching := nexts.filter (fun (s', sk) => project s'.base == o.snap && sk == o.skipped && discOk o s'.base)
  let agree := acc.agree && !matching.isEmpty && o.err == ""
  let note := if acc.note == "" && (matching.isEmpty || o.err != "") then
      s!"step {acc.expected.length} {macroTag m}: err='{o.err}' skipped={o.skipped}" else acc.note
  -- spec on the implementation's observations
  let superseded := match m, acc.prev.reg with
    | .drop j, some k => k != j && !acc.prev.regDisc
    | _, _ => false
  let head := acc.track.head
  let v := violationO acc.track acc.prev m o.skipped o.snap
  let v := match v, m, head with
    | none, .watch, some (.admin _) =>
      -- the registered connection's broker-side Client must report disconnected()
      (match acc.prev.reg with
       | some k => if !o.skipped && o.seen.contains k && !o.disc.contains k then
           some "admin-delete:client-not-disconnected" else none
       | none => none)
    | none, .watch, some (.teardownOf j) =>
      -- a live connection other than the event's origin must not be flagged disconnected by it
      (match liveReg acc.prev with
       | some k => if !o.skipped && k != j && o.disc.contains k then
           some "stale-teardown-event:new-connection-disconnected" else none
       | none => none)
    | v, _, _ => v
  let v := if v.isNone && o.err != "" then some ("harness-error:" ++ o.err) else v
  let sig := if acc.sig == "" then (match v with | some s => s | none => "") else acc.sig
  let tags := acc.tags ++ [macroTag m] ++ (if superseded && !o.skipped then ["superseded-teardown"] else [])
    ++ (if o.skipped then ["skipped"] else [])
    ++ (match m, acc.prev.reg with
        | .connect .., some _ => if !o.skipped then ["takeover"] else []
        | _, _ => [])
    ++ (match m with
        | .watch => if o.skipped then [] else
            [originTag head] ++ (match head, liveReg acc.prev with
              | some (.teardownOf j), some k => if k != j then ["stale-teardown-event-with-live-connection"] else []
              | _, _ => [])
        | _ => [])
  { cands := if matching.isEmpty then nexts.map (·.1) |>.take 1 else matching.map (·.1),
    prev := o.snap, track := trackStep acc.track acc.prev m o.skipped o.snap,
    agree := agree, sig := sig, note := note, tags := tags,
    expected := acc.expected ++ [match nexts with | (s', _) :: _ => snapJson (project s'.base) | [] => Json.null] }

def dedup (l : List String) : List String := l.foldl (fun acc x => if acc.contains x then acc else acc ++ [x]) []

/-! ### QoS of the subscriptions (extension mqtt)

Spec on the observation alone, independent of the step model (which tracks filters only): wherever a filter
is present — in the live session, in the persisted copy, in the TopicManager — its QoS is the QoS of the latest
executed SUBSCRIBE for it ("a reconnect with cleanSession=false gets its previous subscriptions back": filter AND
QoS). Every subscribe updates TopicManager, session and (the harness awaits the put) the persisted copy, and a
persistent reconnect re-subscribes from the session, so on the unchanged code the three always agree with it. -/

def lookupNat (k : Nat) : List (Nat × Nat) → Option Nat
  | [] => none
  | (a, b) :: r => if a == k then some b else lookupNat k r

def setNat (k v : Nat) (l : List (Nat × Nat)) : List (Nat × Nat) := (k, v) :: l.filter (fun e => e.1 != k)

def qosMismatch (last : List (Nat × Nat)) (topics qos : List Nat) : Option (Nat × Nat × Nat) :=
  (topics.zip qos).findSome? fun (f, q) =>
    match lookupNat f last with
    | some q' => if q != q' then some (f, q, q') else none
    | none => none

/-- first QoS violation over the run: (sig, note) -/
def qosCheck (acts steps : List Json) : Option (String × String) := Id.run do
  let mut last : List (Nat × Nat) := []
  let mut i := 0
  for (a, o) in acts.zip steps do
    if optStr a "op" == "sub" && !optBool o "skipped" && optStr o "err" == "" then
      last := setNat (optInt a "f").toNat (optInt a "q").toNat last
    let lst := fun (k : String) => ((natList o k).toOption.getD [])
    if optStr o "err" == "" then
      match qosMismatch last (lst "sessTopics") (lst "sessQos") with
      | some (f, q, q') => return some ("qos:session-differs-from-last-subscribe", s!"step {i}: topic {f} has QoS {q} in the live session, last SUBSCRIBE asked {q'}")
      | none => pure ()
      if optBool o "db" then
        match qosMismatch last (lst "dbTopics") (lst "dbQos") with
        | some (f, q, q') => return some ("qos:persisted-copy-differs-from-last-subscribe", s!"step {i}: topic {f} has QoS {q} in the persisted session, last SUBSCRIBE asked {q'}")
        | none => pure ()
      match qosMismatch last (lst "tm") (lst "tmQos") with
      | some (f, q, q') => return some ("qos:routing-differs-from-last-subscribe", s!"step {i}: topic {f} is routed with QoS {q}, last SUBSCRIBE asked {q'}")
      | none => pure ()
    i := i + 1
  return none

def judge : Judge := liftJudge fun input obs => do
  match obsPanic obs with
  | some m => pure { agree := false, spec := false, sig := "panic-or-hang", note := m }
  | none =>
  -- the harness stopped executing cases after repeated hangs (reported by the cases they happened in)
  if (obs.getObjVal? "aborted").isOk then
    return { agree := true, spec := true, tags := ["aborted-after-hangs"], note := optStr obs "aborted" }
  let acts ← getArr input "actions"
  let macros ← acts.toList.mapM parseMacro
  let stepsJ ← getArr obs "steps"
  let steps ← stepsJ.toList.mapM parseStep
  if steps.length != macros.length then
    pure { agree := false, spec := true, note := "judge-bad-input: steps/actions length" }
  else
  let acc := (macros.zip steps).foldl (fun acc (m, o) => stepJudge acc m o)
    { cands := [EgVerif.BrokerSessions.oinit], prev := project EgVerif.BrokerSessions.init }
  -- delivery probe: the surviving connection receives exactly the messages of the topics its session holds
  let probed := optBool obs "probed"
  let delivered ← natList obs "delivered"
  let last := acc.prev
  let liveCur := last.reg.isSome && !last.regDisc
  let probeSig :=
    if probed && liveCur && !subset last.sessTopics delivered then "delivery:subscribed-topic-not-received"
    else ""
  let probeAgree := !probed || delivered == last.tm
  let qv := qosCheck acts.toList stepsJ.toList
  let sig := if acc.sig != "" then acc.sig else if probeSig != "" then probeSig else (match qv with | some (g, _) => g | none => "")
  let qosTags := if acts.toList.any (fun a => optStr a "op" == "sub" && optInt a "q" == 1) then ["sub-qos1"] else []
  let nt := acc.tags.contains "superseded-teardown" || acc.tags.contains "takeover" || acc.tags.contains "watch"
  pure { agree := acc.agree && probeAgree && (probed == liveCur), spec := sig == "", sig := sig,
         note := if acc.note != "" then acc.note else if !probeAgree then "probe differs from TopicManager view"
           else (match qv with | some (_, n) => n | none => ""),
         tags := dedup acc.tags ++ (if probed then ["probed"] else []) ++ qosTags,
         nontrivial := nt, expected := Json.arr acc.expected.toArray }

def judges : List (String × Judge) := [("C16", judge)]

end Driver.C16

def main (args : List String) : IO UInt32 := Driver.runMain Driver.C16.judges args
