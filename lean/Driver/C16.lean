import Driver.Common
/-! Judge for C16: not built yet (stub so that the target exists). -/
open Lean Driver

namespace Driver.C16

def judges : List (String × Judge) := []

end Driver.C16

def main (args : List String) : IO UInt32 := Driver.runMain Driver.C16.judges args
