import Driver.Common
import EgVerif.Spec.Topic
/-!
Judge for C14. Harness case: `{"cache":n, "ops":[{"k":"s"|"u"|"d","c":cid,"f":[filters],"q":[qos]}], "topics":[…]}`;
observation: `{"steps":[{"ack":bool,"res":["c0:1,c2:0", "", "!" …]}]}` — after every op the (sorted)
result of `findSubscribers` for every topic of the batch (`!` = error).

* `agree`: the implementation equals the model — same acknowledgements, same error/ok per query, the
  same *set* of routed clients, and every reported QoS is one of the model's hits for that client (the
  Go map keeps one QoS per client; which one is not fixed by the unrepaired `addClients`).
* `spec`: what the implementation returned satisfies the executable specification evaluated on the
  abstract subscription set (`specRun`): `routedOK`, malformed SUBSCRIBE packets not acknowledged.
-/
open Lean EgVerif.Topic

namespace Driver.C14

structure JOp where
  op : Op
  kind : String

def parseOp (j : Json) : Except String Op := do
  let k := optStr j "k"
  let c := optStr j "c"
  let fs := (getStrList j "f").toOption.getD []
  let qs := (getIntList j "q").toOption.getD []
  match k with
  | "s" =>
    let qs' := (List.range fs.length).map (fun i => ((qs[i]?).getD 0).toNat)
    pure (.subscribe c ((fs.map String.toList).zip qs'))
  | "u" => pure (.unsubscribe c (fs.map String.toList))
  | "d" => pure (.disconnect c)
  | _ => throw s!"op kind {k}"

/-- "c0:1,c2:0" ↦ [("c0",1),("c2",0)] -/
def parseRes (s : String) : Option (List (Client × QoS)) :=
  if s == "!" then none
  else if s.isEmpty then some []
  else some ((s.splitOn ",").map fun e =>
    match e.splitOn ":" with
    | [c, q] => (c, q.toNat!)
    | _ => (e, 99))

def showRes (l : List (Client × QoS)) : String :=
  ",".intercalate (l.map fun p => s!"{p.1}:{p.2}")

def dedupClients (l : List (Client × QoS)) : List Client := (l.map (·.1)).eraseDups

def sameSet (a b : List Client) : Bool := a.all b.contains && b.all a.contains

structure Acc where
  agree : Bool := true
  spec : Bool := true
  sig : String := ""
  note : String := ""
  tags : List String := []
  hits : Nat := 0
  multi : Bool := false

def Acc.fail (a : Acc) (sig note : String) : Acc :=
  if a.spec then { a with spec := false, sig := sig, note := note } else a

def Acc.dis (a : Acc) (note : String) : Acc :=
  if a.agree then { a with agree := false, note := if a.note.isEmpty then note else a.note } else a

def Acc.tag (a : Acc) (t : String) : Acc := if a.tags.contains t then a else { a with tags := t :: a.tags }

def opWellFormed : Op → Bool
  | .subscribe _ fs => fs.all (fun p => wellFormed p.1)
  | .unsubscribe _ fs => fs.all wellFormed
  | .disconnect _ => true

def judge : Judge := liftJudge fun input obs => do
  match obsPanic obs with
  | some m => pure { agree := false, spec := false, sig := "panic", note := m }
  | none =>
  let opsJ ← getArr input "ops"
  let ops ← opsJ.toList.mapM parseOp
  let topics := ((getStrList input "topics").toOption.getD []).map String.toList
  let steps ← getArr obs "steps"
  if steps.size != ops.length then
    return { agree := false, spec := true, note := s!"{steps.size} steps for {ops.length} ops" }
  let mut st : State := State.init
  let mut subs : Subs := []
  let mut acc : Acc := {}
  let mut expected : Array Json := #[]
  let mut i := 0
  for op in ops do
    let stepObs := steps[i]!
    i := i + 1
    let (st', err) := step st op
    let before := subs
    subs := specStep subs op
    st := st'
    -- tags
    match op with
    | .subscribe c fs =>
      acc := acc.tag (if fs.length > 1 then "op:subscribe-multi" else "op:subscribe")
      if fs.any (fun p => (before.get (splitSlash p.1) c).isSome) then acc := acc.tag "resubscribe"
      if fs.any (fun p => p.1.contains '#') then acc := acc.tag "filter:#"
      if fs.any (fun p => p.1.contains '+') then acc := acc.tag "filter:+"
      if fs.any (fun p => (splitSlash p.1).contains []) then acc := acc.tag "filter:empty-level"
    | .unsubscribe c fs =>
      acc := acc.tag "op:unsubscribe"
      if fs.any (fun f => wellFormed f && (before.get (splitSlash f) c).isNone) then acc := acc.tag "unsubscribe-unknown"
      if subs.length < before.length then acc := acc.tag "unsubscribe-removes"
    | .disconnect _ =>
      acc := acc.tag "op:disconnect"
      if subs.length < before.length then acc := acc.tag "disconnect-removes"
    if !opWellFormed op then acc := acc.tag "malformed-filter"
    -- acknowledgement
    let ack := optBool stepObs "ack"
    let wantAck := match op with
      | .subscribe _ _ => !err
      | .unsubscribe _ _ => true
      | .disconnect _ => false
    if ack != wantAck then acc := acc.dis s!"op {i-1}: ack {ack}, model {wantAck}"
    match op with
    | .subscribe _ _ =>
      if ack && !opWellFormed op then acc := acc.fail "ack:malformed-subscribe-accepted" s!"op {i-1}"
      if !ack && opWellFormed op then acc := acc.fail "ack:wellformed-subscribe-rejected" s!"op {i-1}"
    | _ => pure ()
    -- routing
    let res := (getStrList stepObs "res").toOption.getD []
    if res.length != topics.length then
      acc := acc.dis s!"op {i-1}: {res.length} results for {topics.length} topics"
    let mut exp : Array Json := #[]
    for (tp, r) in topics.zip res do
      let got := parseRes r
      match split tp, got with
      | none, none => exp := exp.push "!"
      | none, some _ => acc := acc.dis s!"op {i-1}: malformed topic accepted"; exp := exp.push "!"
      | some _, none => acc := acc.dis s!"op {i-1}: topic rejected"; exp := exp.push ""
      | some lv, some g =>
        let hits := find st.trie lv
        let m := collapseMax hits
        exp := exp.push (showRes m)
        if !(sameSet (dedupClients hits) (g.map (·.1)) && g.all hits.contains) then
          acc := acc.dis s!"op {i-1} topic {String.ofList tp}: got {r}, model hits {showRes hits}"
        if g == m then acc := acc.tag "qos=max" else if g.all hits.contains then acc := acc.tag "qos=own-not-max"
        -- executable spec on the observation
        let want := specFind subs lv
        if !routedOK subs lv g then
          let extra := g.any (fun p => !(want.any (fun w => w.1 == p.1)))
          let missing := want.any (fun w => !(g.any (fun p => p.1 == w.1)))
          let sig := if extra then "route:extra-client" else if missing then "route:missing-client"
            else if g.any (fun p => !want.contains p) then "route:foreign-qos" else "route:duplicate-client"
          acc := acc.fail sig s!"op {i-1} topic {String.ofList tp}: got {r}, spec {showRes want}"
        if g.length > 0 then acc := { acc with hits := acc.hits + 1 }
        if g.length > 1 then acc := { acc with multi := true }
        if (dedupClients hits).length < hits.length then acc := acc.tag "overlapping-own-filters"
        if g.length > 0 && subs.any (fun e => e.1.getLast? == some hash && e.1.length == lv.length + 1
            && «matches» e.1 lv) then
          acc := acc.tag "parent-level-#"
    expected := expected.push (Json.mkObj [("ack", wantAck), ("res", Json.arr exp)])
  let tags := acc.tags ++ [s!"cache={optInt input "cache" 0}"]
    ++ (if subs.isEmpty && st.trie.isEmpty then ["ends-empty"] else [])
  pure { agree := acc.agree, spec := acc.spec, expected := Json.mkObj [("steps", Json.arr expected)],
         tags := tags, nontrivial := acc.multi && acc.hits ≥ 3, sig := acc.sig, note := acc.note }

def judges : List (String × Judge) := [("C14", judge)]

end Driver.C14

def main (args : List String) : IO UInt32 := Driver.runMain Driver.C14.judges args
