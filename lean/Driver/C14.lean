import Driver.Common
/-! Judge for C14: not built yet (stub so that the target exists). -/
open Lean Driver

namespace Driver.C14

def judges : List (String × Judge) := []

end Driver.C14

def main (args : List String) : IO UInt32 := Driver.runMain Driver.C14.judges args
