import Driver.Common
/-! Judge for C19: not built yet (stub so that the target exists). -/
open Lean Driver

namespace Driver.C19

def judges : List (String × Judge) := []

end Driver.C19

def main (args : List String) : IO UInt32 := Driver.runMain Driver.C19.judges args
