import Driver.Common
import EgVerif.Spec.Syncer
/-! Judges for C19: `C19` (syncer against an embedded etcd) and `C19eq` (isDataEqual, pure). -/
open Lean Driver EgVerif.Syncer

namespace Driver.C19

def parseSub (j : Json) : Except String Sub := do
  let op ← getStr j "op"
  let k := optStr j "k"
  let v := optStr j "v"
  match op with
  | "put" => pure (.put k v)
  | "del" => pure (.del k)
  | "delp" => pure (.delPrefix k)
  | _ => throw s!"sub op {op}"

def parseWrites (j : Json) (k : String) : Except String (List (List Sub)) := do
  let a ← getArr j k
  a.toList.mapM fun w => do
    let ss ← getArr w "subs"
    ss.toList.mapM parseSub

def parsePairs (j : Json) : Except String (List (String × String)) := do
  let a ← j.getArr?
  a.toList.mapM fun p => do
    let q ← p.getArr?
    unless q.size == 2 do throw "pair"
    let k ← q[0]!.getStr?
    let v ← q[1]!.getStr?
    pure (k, v)

def toData (ps : List (String × String)) : Data := ps.map fun (k, v) => (k, some ⟨k, v⟩)

def dataJson (d : Data) : Json :=
  Json.arr (d.map (fun e => Json.arr #[Json.str e.1,
    match e.2 with | none => Json.null | some kv => Json.str kv.value])).toArray

/-- insertion sort by key, for a canonical rendering -/
def sortData (d : Data) : Data :=
  d.foldl (fun acc e =>
    let (lo, hi) := acc.span (fun x => x.1 < e.1)
    lo ++ [e] ++ hi) []

/-- Large-prefix cases (`input.big`): the store's history is `first = last = i` for `i = 0 … commits`, all
other keys constant, so a delivered snapshot is a content the store had iff it has all keys, the other
keys untouched and `first = last = i` for a committed `i`. A snapshot assembled from reads at two
different revisions shows up as `first ≠ last` (sig `mixed-revision-snapshot`). -/
def judgeBig (big obs : Json) : Except String Verdict := do
  match obsPanic obs with
  | some m => pure { agree := false, spec := false, sig := "panic-or-hang", note := m }
  | none =>
  if optStr obs "setupErr" != "" then
    return { agree := true, spec := true, tags := ["big-prefix", "big:setup-failed"], nontrivial := false }
  let keys := (optInt obs "keys").toNat
  let commits := (optInt obs "commits").toNat
  let writeErrs := (optInt obs "writeErrs").toNat
  let snapsJ ← getArr obs "snaps"
  let snaps ← snapsJ.toList.mapM fun j => do
    let c := (optInt j "count").toNat
    let f ← getStr j "first"
    let l ← getStr j "last"
    pure (c, f, l, optBool j "others")
  let mixed := snaps.any fun (c, f, l, o) => f != l || c != keys || !o
  let vals := snaps.map fun (_, f, _, _) => f.toNat?
  let inRange := vals.all fun v => match v with | some n => n ≤ commits + writeErrs | none => false
  let nums := vals.filterMap id
  let ordered := (nums.zip (nums.drop 1)).all fun (a, b) => a < b
  let converged := writeErrs != 0 || (optBool obs "converged" && nums.getLast? == some commits)
  let real := !mixed && inRange && ordered
  let spec := real && converged
  let sig := if spec then "" else
    if mixed then "mixed-revision-snapshot"
    else if !real then "phantom-or-reordered-snapshot"
    else "not-converged"
  let tags := ["big-prefix", "mode:" ++ optStr big "mode"]
    ++ (if writeErrs != 0 then ["write-errors-inconclusive"] else [])
    ++ (if snaps.length ≥ 10 then ["snaps>=10"] else if snaps.isEmpty then ["snaps=0"] else ["snaps<10"])
    ++ (if commits ≥ 30 then ["big:commits>=30"] else ["big:commits<30"])
  pure { agree := real, spec := spec, tags := tags, nontrivial := commits ≥ 10 && snaps.length ≥ 3, sig := sig,
         expected := Json.mkObj [("keys", Json.num keys), ("commits", Json.num commits)],
         note := if mixed then "a snapshot is not a content the store ever had (first ≠ last, or keys missing / changed)" else "" }

def judge : Judge := liftJudge fun input obs => do
  match input.getObjVal? "big" with
  | .ok big => if big != Json.null then return ← judgeBig big obs
  | .error _ => pure ()
  let mode ← getStr input "mode"
  let key ← getStr input "key"
  let init ← parseWrites input "init"
  let writes ← parseWrites input "writes"
  let seq := optBool input "seq"
  let fault := optStr input "fault"
  match obsPanic obs with
  | some m => pure { agree := false, spec := false, sig := "panic-or-hang", note := m }
  | none =>
  match obs.getObjVal? "error" with
  | .ok e => pure { agree := false, spec := true, note := "harness: " ++ e.compress, nontrivial := false }
  | .error _ =>
  let snapsJ ← getArr obs "snaps"
  let snaps ← snapsJ.toList.mapM parsePairs
  let finalJ ← obs.getObjVal? "final"
  let final ← parsePairs finalJ
  let writeErrs := optInt obs "writeErrs"
  let faultDone := optBool obs "faultDone"
  let pfx := mode == "prefix" || mode == "rawprefix"
  let pre := init.length
  let stores := storeStates [] (init ++ writes)
  let states := stores.map (restrict pfx key)
  let n := states.length - 1
  let obsData := snaps.map toData
  let ck := check states pre obsData
  -- the store model itself against what etcd finally contains
  let finalStore : Data := toData ((stores.getLast?.getD []))
  let storeOK := mapEqB finalStore (toData final)
  -- model run reproducing the observation
  let S : Nat → Data := fun i => states.getD i []
  -- linearisation point of the initial pull: `pre`, or (when the first snapshot is later / absent)
  -- the first later index with an empty content, or the first snapshot's own index
  let firstEmpty (lo hi : Nat) : Option Nat :=
    (List.range (hi - lo)).map (· + lo) |>.find? fun j => (S j).isEmpty
  let (pre', r0, rest) : Nat × Option Nat × List Nat :=
    match ck.indices with
    | [] => match firstEmpty pre (n + 1) with
            | some j => (j, some j, [])
            | none => (pre, some pre, [])
    | i :: is =>
      if i == pre then (pre, some pre, is)
      else match firstEmpty pre i with
           | some j => (j, some j, i :: is)
           | none => (i, some i, is)
  let tr := traceFor n pre' rest
  let st := run S pre' r0 tr
  let modelSnaps := st.sentRev.reverse.map (·.2)
  let same (a b : List Data) : Bool := a.length == b.length && (a.zip b).all fun (x, y) => mapEqB x y
  let agreeTrace := ck.real && validRun S pre' r0 tr && same modelSnaps obsData
  -- deterministic prediction for sequentialised runs
  let stSeq := run S pre (some pre) (seqTrace n pre)
  let seqSnaps := stSeq.sentRev.reverse.map (·.2)
  let clean := writeErrs == 0 && fault == ""
  let agreeSeq := !(seq && clean) || same seqSnaps obsData
  -- a failed write may or may not have been applied: such a case is inconclusive
  if writeErrs != 0 then
    return { agree := true, spec := true, tags := ["write-errors-inconclusive"], nontrivial := false }
  let agree := storeOK && agreeTrace && agreeSeq
  let spec := ck.real && ck.differ && ck.converged
  let sig := if spec then "" else
    if !ck.real then "phantom-or-reordered-snapshot"
    else if !ck.differ then "duplicate-snapshot"
    else "not-converged"
  let changes := (states.zip (states.drop 1)).countP fun (a, b) => !mapEqB a b
  let skipped := changes + (if (S pre).isEmpty then 0 else 1) > obsData.length
  let hasOutside := (init ++ writes).any fun w => w.any fun s =>
    match s with
    | .put k _ => !(if pfx then key.isPrefixOf k else k == key)
    | .del k => !(if pfx then key.isPrefixOf k else k == key)
    | .delPrefix _ => false
  let sameVal := (states.zip (states.drop 1)).any fun (a, b) => mapEqB a b
  let tags := ["mode:" ++ mode, if seq then "sequential" else "free-running"]
    ++ (if skipped then ["coalesced-states"] else [])
    ++ (if hasOutside then ["outside-keys"] else [])
    ++ (if sameVal then ["no-change-write"] else [])
    ++ (if (S pre).isEmpty then ["start-empty"] else ["start-nonempty"])
    ++ (if (S n).isEmpty then ["final-empty"] else [])
    ++ (if optInt input "consumeUs" > 0 then ["slow-consumer"] else ["fast-consumer"])
    ++ (if optInt input "pullMs" ≥ 1000 then ["watch-driven"] else ["ticker+watch"])
    ++ (if optInt obs "convergeMs" > 5000 then ["late-convergence"] else [])
    ++ (if fault != "" then ["fault:" ++ fault ++ (if faultDone then ":done" else ":failed")] else [])
    ++ (if optInt input "holdMs" > 0 then [if obsData.length ≥ 12 then "consumer-away:buffer-full" else "consumer-away:buffer-not-full"] else [])
    ++ (if fault == "compact" then [if optBool obs "cancelSeen" then "watch-cancel-seen" else "watch-cancel-not-seen"] else [])
    ++ (if obsData.length ≥ 10 then ["snaps>=10"] else if obsData.isEmpty then ["snaps=0"] else ["snaps<10"])
  pure { agree := agree, spec := spec,
         expected := Json.mkObj [("indices", Json.arr (ck.indices.map (fun (i : Nat) => Json.num i)).toArray),
           ("final", dataJson (sortData (S n))),
           ("seqPrediction", if seq then Json.arr (seqSnaps.map (fun d => dataJson (sortData d))).toArray else Json.null)],
         tags := tags, nontrivial := changes ≥ 2 && !obsData.isEmpty, sig := sig,
         note := if !storeOK then "store model differs from etcd content" else
                 if !agreeSeq then "sequential prediction differs" else "" }

/-! ### pure judge -/

def parseEntries (j : Json) (k : String) : Except String (List (String × Option KV)) := do
  let a ← getArr j k
  a.toList.mapM fun e => do
    let key ← getStr e "k"
    if optBool e "nil" then pure (key, none)
    else pure (key, some ⟨optStr e "kk", optStr e "kv"⟩)

/-- Go map construction: a later entry with the same key overwrites. -/
def mkMap (es : List (String × Option KV)) : Data :=
  es.foldl (fun acc e => if (acc.lookup e.1).isSome then acc.map (fun x => if x.1 == e.1 then e else x) else acc ++ [e]) []

def judgeEq : Judge := liftJudge fun input obs => do
  let ea ← parseEntries input "a"
  let eb ← parseEntries input "b"
  match obsPanic obs with
  | some m => pure { agree := false, spec := false, sig := "panic:isDataEqual", note := m }
  | none =>
  let a := mkMap ea
  let b := mkMap eb
  let eq ← getBool obs "eq"
  let rev ← getBool obs "rev"
  let self ← getBool obs "self"
  let kvJ ← getArr obs "kveq"
  let kveq ← kvJ.toList.mapM (·.getBool?)
  let wantKV := (ea.zip eb).map fun (x, y) => isKeyValueEqual x.2 y.2
  let wantEq := isDataEqual a b
  let agree := eq == wantEq && rev == isDataEqual b a && self == isDataEqual a a && kveq == wantKV
    && optInt obs "lenA" == a.length && optInt obs "lenB" == b.length
  -- the property: equal exactly when the maps are equal as key → (key,value) maps
  let sem := mapEqB a b
  let spec := eq == sem && rev == sem && self
  let hasNil := (ea ++ eb).any (·.2.isNone)
  let tags := [if sem then "equal" else "different"]
    ++ (if a.length == b.length then ["same-size"] else ["size-differs"])
    ++ (if hasNil then ["nil-entry"] else []) ++ (if a.isEmpty || b.isEmpty then ["empty-map"] else [])
  pure { agree := agree, spec := spec, expected := Json.mkObj [("eq", wantEq), ("semantic", sem)],
         tags := tags, nontrivial := a.length == b.length && !a.isEmpty,
         sig := if spec then "" else "isDataEqual-wrong" }

/-! ### data path below pull -/

def sortPairs (l : List (String × String)) : List (String × String) :=
  l.foldl (fun acc e =>
    let (lo, hi) := acc.span (fun x => x.1 < e.1)
    lo ++ [e] ++ hi) []

def judgeOps : Judge := liftJudge fun input obs => do
  match obsPanic obs with
  | some m => pure { agree := false, spec := false, sig := "panic:cluster-get", note := m }
  | none =>
  match obs.getObjVal? "error" with
  | .ok e => pure { agree := false, spec := true, note := "harness: " ++ e.compress, nontrivial := false }
  | .error _ =>
  let storeJ ← input.getObjVal? "store"
  let store ← parsePairs storeJ
  let callsJ ← getArr input "calls"
  let resJ ← getArr obs "res"
  let mut agree := resJ.size == callsJ.size
  let mut spec := true
  let mut sig := ""
  let mut tags : List String := []
  for (cJ, rJ) in callsJ.toList.zip resJ.toList do
    let fn ← getStr cJ "fn"
    let key ← getStr cJ "key"
    let fail := optBool cJ "fail"
    let err ← getBool rJ "err"
    let isNil := optBool rJ "nil"
    let kvsJ ← rJ.getObjVal? "kvs"
    let kvs ← parsePairs kvsJ
    let pfx := fn == "GetRawPrefix" || fn == "GetPrefix" || fn == "pullPrefix"
    let content := sortPairs (store.filter fun e => if pfx then key.isPrefixOf e.1 else e.1 == key)
    let resp : EtcdResp := if fail then .error else .kvs (content.map fun (k, v) => ⟨k, v⟩)
    -- model
    let (mErr, mNil, mKvs) : Bool × Option Bool × List (String × String) :=
      match fn with
      | "GetRaw" => let r := getRaw resp; (r.2, some r.1.isNone, (r.1.map fun kv => [(kv.key, kv.value)]).getD [])
      | "Get" => let r := get resp; (r.2, some r.1.isNone, (r.1.map fun v => [(key, v)]).getD [])
      | "GetRawPrefix" => let r := getRawPrefix resp; (r.2, none, r.1.map fun e => (e.1, (e.2.map (·.value)).getD "<nil>"))
      | "GetPrefix" => let r := getPrefix resp; (r.2, none, r.1)
      | _ => match pull pfx resp with
             | none => (true, none, [])
             | some d => (false, none, d.map fun e => (e.1, (e.2.map (·.value)).getD "<nil>"))
    let okModel := err == mErr && sortPairs kvs == sortPairs mKvs && (match mNil with | some b => b == isNil | none => true)
    -- property: a failed read reports an error and no content; a successful read the store's content
    let okSpec := if fail then err && kvs.isEmpty else !err && sortPairs kvs == content
    if !okModel then agree := false
    if !okSpec then
      spec := false
      if sig == "" then sig := (if fail then "read-error-swallowed:" else "read-result-wrong:") ++ fn
    tags := tags ++ [fn ++ (if fail then ":error" else if content.isEmpty then ":not-found" else ":found")]
  pure { agree := agree, spec := spec, tags := tags.eraseDups, nontrivial := true, sig := sig }

def judges : List (String × Judge) := [("C19", judge), ("C19eq", judgeEq), ("C19ops", judgeOps)]

end Driver.C19

def main (args : List String) : IO UInt32 := Driver.runMain Driver.C19.judges args
