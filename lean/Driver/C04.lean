import Driver.Common
/-! Judge for C04: not built yet (stub so that the target exists). -/
open Lean Driver

namespace Driver.C04

def judges : List (String × Judge) := []

end Driver.C04

def main (args : List String) : IO UInt32 := Driver.runMain Driver.C04.judges args
