import Driver.Common
import EgVerif.Spec.LoadBalance
/-! Judge for C04: runs `Model.LoadBalance` and `Spec.LoadBalance` on every harness case. -/
open Lean Driver EgVerif.LoadBalance

namespace Driver.C04

def bytes (s : String) : List Nat := s.toUTF8.toList.map (·.toNat)

def parseTags (j : Json) : List String :=
  match getStrList j "tags" with | .ok l => l | .error _ => []

def parseServers (input : Json) : Except String (List Server) := do
  let a ← getArr input "servers"
  a.toList.mapM fun e => do
    let u ← getStr e "url"
    pure (⟨u, optInt e "weight", parseTags e⟩ : Server)

def parseGens (input : Json) : Except String (List (List Instance)) := do
  let a ← getArr input "gens"
  a.toList.mapM fun g => do
    let is ← match g with | .null => pure #[] | _ => g.getArr?
    is.toList.mapM fun e => do
      let addr ← getStr e "addr"
      let port ← getNat e "port"
      pure (⟨s!"http://{addr}:{port}", parseTags e, optInt e "weight"⟩ : Instance)

/-- insertion sort on strings (canonical order of a published list) -/
def insertS (s : String) : List String → List String
  | [] => [s]
  | a :: r => if s ≤ a then s :: a :: r else a :: insertS s r
def sortS (l : List String) : List String := l.foldr insertS []

def showSrv (s : Server) : String := s!"{s.url}|{s.weight}"

def idxOf (ss : List Server) (r : Res) : Int :=
  match r with
  | .nil => -1
  | .panic => -3
  | .srv s => match ss.findIdx? (fun x => x.url == s.url) with
    | some i => i
    | none => -2

def addAt : List Nat → Nat → Nat → List Nat
  | [], _, _ => []
  | a :: r, 0, d => (a + d) :: r
  | a :: r, i + 1, d => a :: addAt r i d

def tallyOf (n : Nat) (idxs : List Int) : List Nat :=
  idxs.foldl (fun t i => if i ≥ 0 then addAt t i.toNat 1 else t) (List.replicate n 0)

def natList (j : Json) (k : String) : List Nat :=
  match getIntList j k with | .ok l => l.map Int.toNat | .error _ => []

def isDet (p : Policy) : Bool := p == .roundRobin || p == .ipHash || p == .headerHash
def isHash (p : Policy) : Bool := p == .ipHash || p == .headerHash

def policyTag : Policy → String
  | .roundRobin => "roundRobin" | .random => "random" | .weightedRandom => "weightedRandom"
  | .ipHash => "ipHash" | .headerHash => "headerHash"

def weightClass (ss : List Server) : String :=
  if ss.isEmpty then "w:none"
  else if ss.all (fun s => s.weight == 0) then "w:all-zero"
  else if ss.all (fun s => decide (s.weight > 0)) then "w:all-positive"
  else if ss.any (fun s => decide (s.weight < 0)) then "w:some-negative"
  else "w:mixed"

def panicSig (lb : LB) (lists : List (List Server)) (m : String) : String :=
  if lb.policy == .weightedRandom && lists.any (fun l => decide (totalWeightOrig l ≤ 0) && !l.isEmpty) then
    "panic:weightedRandom:totalWeight<=0"
  else s!"panic:{policyTag lb.policy}:{(m.take 40).toString}"

/-- `LoadBalanceSpec.Policy` jsonschema enum (re-derived from the source: `Props.C04.policy_enum_fact`). -/
def schemaPolicies : List String := ["", "roundRobin", "random", "weightedRandom", "ipHash", "headerHash"]

def judge : Judge := liftJudge fun input obs => do
  let mode := optStr input "mode" "seq"
  let policyS := optStr input "policy"
  let headerKey := optStr input "headerKey"
  let servers ← parseServers input
  let keys := match getStrList input "keys" with | .ok l => l | .error _ => []
  let K := (optInt input "k").toNat
  let K := if K > 200000 then 200000 else K
  let G := (optInt input "g" 1).toNat
  let G := if G < 1 then 1 else if G > 256 then 256 else G
  let path := optStr input "path" "/"
  let path := if path == "" then "/" else path
  let lb := newLB policyS servers
  let n := servers.length
  let keyAt (i : Nat) : String := if keys.isEmpty then "" else keys[i % keys.length]!
  let selOf (c : Nat) (key : String) : Sel :=
    { counter := c, rnd := 0, ip := bytes key, hdr := if headerKey == "" then [] else bytes key }
  let baseTags := [s!"mode:{mode}", s!"policy:{policyTag lb.policy}", weightClass servers,
    if n == 0 then "n=0" else if n == 1 then "n=1" else if n ≤ 4 then "n=2-4" else "n>4"]
  match obsPanic obs with
  | some m =>
    let stags : List String := match getStrList input "serverTags" with | .ok l => l | .error _ => []
    let gens := match parseGens input with | .ok g => g | .error _ => []
    let lists := servers :: (if mode == "swap" then gens.map (useService ⟨"svc", stags, servers, policyS⟩) else [])
    pure { agree := false, spec := false, tags := baseTags ++ ["panic"], sig := panicSig lb lists m, note := m,
           nontrivial := true }
  | none =>
  let weights := servers.map (·.weight)
  let somePos := weights.any (fun w => decide (w > 0))
  if mode == "seq" || mode == "conc" then
    let tally := natList obs "tally"
    let nilc ← getNat obs "nil"
    let foreign ← getNat obs "foreign"
    let total ← getNat obs "total"
    let echo := optBool obs "keyEcho" true
    let seqObs : List Int := match getIntList obs "seq" with | .ok l => l | .error _ => []
    -- the selections made: (counter, key) in seq mode; per goroutine in conc mode
    let per := K / G
    let Ktot := if mode == "seq" then K else per * G
    -- model: expected index sequence / tally for the deterministic policies
    let expIdx : List Int :=
      if mode == "seq" then (List.range K).map (fun i => idxOf servers (choose lb (selOf i (keyAt i))))
      else if lb.policy == .roundRobin then (List.range Ktot).map (fun i => idxOf servers (choose lb (selOf i "")))
      else (List.range G).flatMap (fun g => List.replicate per (idxOf servers (choose lb (selOf 0 (keyAt g)))))
    let expTally := tallyOf n expIdx
    let expNil := if n == 0 then Ktot else 0
    let membership := foreign == 0 && nilc == expNil && total == Ktot && sumNat tally + nilc == Ktot
      && tally.length == n
    let agree :=
      if isDet lb.policy then
        membership && tally == expTally && (mode != "seq" || seqObs == expIdx.take 512)
      else
        membership && (lb.policy != .weightedRandom || decide (totalWeight servers ≤ 0) ||
          (weights.zip tally).all (fun p => decide (p.1 > 0) || p.2 == 0))
    -- spec on the observation
    let specMem := foreign == 0 && (if n == 0 then nilc == total else nilc == 0)
    let specRR := lb.policy != .roundRobin || n == 0 || fairTally total n tally
    let specSticky := !isHash lb.policy || mode != "seq" ||
      sticky ((List.range seqObs.length).map (fun i => (bytes (keyAt i), seqObs[i]!)))
    let specW := lb.policy != .weightedRandom || weightedOK weights tally
    let spec := specMem && specRR && specSticky && specW && echo
    let sig := if spec then "" else
      if !specMem then "membership:" ++ (if foreign != 0 then "foreign-server" else "nil-vs-empty")
      else if !specRR then s!"roundRobin:unfair:{mode}"
      else if !specSticky then "hash:not-sticky"
      else if !specW then "weightedRandom:zero-weight-chosen"
      else "harness:key-not-echoed"
    pure { agree := agree, spec := spec,
           expected := Json.mkObj [("tally", Json.arr (expTally.map (fun (c : Nat) => Json.num (Int.ofNat c))).toArray),
                                   ("nil", Json.num (Int.ofNat expNil)), ("deterministic", isDet lb.policy)],
           tags := baseTags ++ (if Ktot > n then ["k>n"] else ["k<=n"]) ++
             (if mode == "conc" then [s!"g={G}"] else []) ++ (if somePos then [] else ["no-positive-weight"]),
           nontrivial := n ≥ 2 && Ktot ≥ 2, sig := sig }
  else if mode == "swap" then
    let gens ← parseGens input
    let stags : List String := match getStrList input "serverTags" with | .ok l => l | .error _ => []
    let sps : PoolSpec := ⟨optStr input "serviceName", stags, servers, policyS⟩
    let modelLists : List (List Server) := servers :: gens.map (useService sps)
    let specLists : List (List Server) := servers :: gens.map (currentList sps)
    let obsLists : List (List String) ← do
      let a ← getArr obs "lists"
      a.toList.mapM (fun l => match l with | .null => pure [] | _ => do
        let x ← l.getArr?
        x.toList.mapM (·.getStr?))
    let agreeLists := obsLists == modelLists.map (fun l => sortS (l.map showSrv))
    let specListsOK := obsLists == specLists.map (fun l => sortS (l.map showSrv))
    let urlLists := specLists.map (fun l => l.map (·.url))
    let triples ← getArr obs "triples"
    let trs ← triples.toList.mapM fun t => do
      let a ← getNat t "a"
      let b ← getNat t "b"
      let u ← getStr t "url"
      pure (a, b, if u == "<nil>" then none else some u)
    let modelUrlLists := modelLists.map (fun l => l.map (·.url))
    let winModel := trs.all (fun (a, b, u) => windowOK modelUrlLists a b u)
    let winSpec := trs.all (fun (a, b, u) => windowOK urlLists a b u)
    -- selections made between the reports (a pool with the case's policy): each must come from the list of
    -- the LAST report (with its last weights); weightedRandom never a non-positive weight when one is positive
    let obsSel : List (List String) := match obs.getObjVal? "sel" with
      | .ok (.arr a) => a.toList.map (fun l => match l.getArr? with
          | .ok x => x.toList.filterMap (fun j => j.getStr?.toOption) | .error _ => [])
      | _ => []
    let selOK (ls : List (List Server)) : Bool := EgVerif.LoadBalance.selOK showSrv ls obsSel
    let wSelOK (ls : List (List Server)) : Bool :=
      EgVerif.LoadBalance.wSelOK showSrv (lb.policy == .weightedRandom) ls obsSel
    -- `histLists = specLists = modelLists` for every report history: `swap_spec_lists_are_model_lists`
    let histLists : List (List Server) := EgVerif.LoadBalance.histLists sps gens
    let selModel := selOK histLists && wSelOK histLists && (obsSel.isEmpty || obsSel.length == gens.length + 1)
    let selSpec := selOK specLists && wSelOK specLists
    let weightOnly := (List.range (gens.length - 1)).any fun i =>
      let a := currentList sps (gens.getD i []); let b := currentList sps (gens.getD (i + 1) [])
      a != b && a.map (·.url) == b.map (·.url)
    let fallback := (gens.map (useService sps)).any (fun l => l == servers)
    let spanning := trs.any (fun (a, b, _) => a != b)
    pure { agree := agreeLists && winModel && selModel, spec := specListsOK && winSpec && selSpec,
           expected := Json.arr (modelLists.map (fun l => Json.arr ((sortS (l.map showSrv)).map Json.str).toArray)).toArray,
           tags := baseTags ++ [s!"gens={gens.length}"] ++ (if fallback then ["fallback-static"] else [])
             ++ (if spanning then ["selection-spans-swap"] else [])
             ++ (if sps.serverTags.isEmpty then ["no-server-tags"] else [])
             ++ (if weightOnly then ["report:weights-only-change"] else []),
           nontrivial := gens.length ≥ 1 && !trs.isEmpty,
           sig := if !specListsOK then "useService:wrong-list"
             else if !selOK specLists then "useService:selection-not-from-last-report"
             else if !wSelOK specLists then "weightedRandom:zero-weight-chosen:after-report"
             else if !winSpec then "swap:server-outside-current-lists" else "" }
  else -- handle
    let sps : PoolSpec := ⟨optStr input "serviceName", [], servers, policyS⟩
    let validObs := optBool obs "valid"
    let validModel := validate sps && schemaPolicies.contains policyS
    if !validObs || !validModel then
      pure { agree := validObs == validModel, spec := true, expected := Json.mkObj [("valid", validModel)],
             tags := baseTags ++ ["rejected-by-validation"], nontrivial := false }
    else
    let reqs ← getArr obs "reqs"
    let rs ← reqs.toList.mapM fun r => do
      pure (optStr r "result", optInt r "status", optStr r "target")
    let Kh := if K > 4096 then 4096 else K
    let exp : List (String × Int × String) := (List.range Kh).map fun i =>
      match doHandleTarget lb (selOf i (keyAt i)) path with
      | .unavailable => ("internalError", 503, "")
      | .send u => ("", 200, u)
      | .panic => ("<panic>", 0, "")
    let urls := servers.map (fun s => s.url ++ path)
    let posUrls := (servers.filter (fun s => decide (s.weight > 0))).map (fun s => s.url ++ path)
    let memOK := rs.all fun (res, st, tgt) =>
      if n == 0 then res == "internalError" && st == 503 && tgt == ""
      else res == "" && st == 200 && urls.contains tgt
    let wOK := lb.policy != .weightedRandom || !somePos || rs.all (fun (_, _, tgt) => posUrls.contains tgt)
    let agree := rs.length == Kh && (if isDet lb.policy then rs == exp else memOK && wOK)
    let stickyOK := !isHash lb.policy ||
      sticky ((List.range rs.length).map (fun i =>
        (bytes (keyAt i), match urls.findIdx? (· == (rs[i]!).2.2) with | some j => (j : Int) | none => -2)))
    let tallyRR := tallyOf n (rs.map (fun (_, _, tgt) => match urls.findIdx? (· == tgt) with | some j => (j : Int) | none => -2))
    let fairOK := lb.policy != .roundRobin || n == 0 || fairTally rs.length n tallyRR
    let spec := memOK && wOK && stickyOK && fairOK && rs.length == Kh
    pure { agree := agree, spec := spec,
           expected := Json.arr (exp.map (fun (a, b, c) => Json.arr #[Json.str a, Json.num (b : Int), Json.str c])).toArray,
           tags := baseTags ++ ["validated-spec"] ++ (if somePos then [] else ["no-positive-weight"]),
           nontrivial := n ≥ 2 && Kh ≥ 1,
           sig := if spec then "" else if !memOK then "handle:target-not-in-list-or-wrong-503"
             else if !wOK then "weightedRandom:zero-weight-chosen" else if !stickyOK then "hash:not-sticky"
             else if !fairOK then "roundRobin:unfair:handle" else "handle:request-count" }

def judges : List (String × Judge) := [("C04", judge)]

end Driver.C04

def main (args : List String) : IO UInt32 := Driver.runMain Driver.C04.judges args
