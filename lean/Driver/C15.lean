import Driver.Common
import EgVerif.Spec.Delivery
/-!
Judges for C15.

`inproc`: case `{"clients":[{"id","subs":[{"f","q"}],"ghost"}], "events":[…]}` (see the harness
`zz_verif_c15_inproc_test.go`); observation per event: HTTP status and, per client, the PUBLISH packets
`"id:qos:payload"` queued to it. The model is deterministic here (the visiting order of the subscriber map
does not influence *what* a client gets), so `agree` is equality of the per-client packet lists and of the
HTTP status. `spec` is evaluated on the observation alone: eligibility from the abstract subscription set
(`Delivery.eligible`), QoS0 drop only when full, a tick re-sends exactly the oldest packet *observed* as
unacknowledged, never an acknowledged one, pending ids distinct.

`wire`: real broker on loopback, raw packet clients, real 200 ms ticker: timing is not deterministic, the
judge checks inequalities only (see the harness `zz_verif_c15_wire_test.go`).
-/
open Lean EgVerif.Topic EgVerif.Delivery EgVerif.SessionQueue

namespace Driver.C15

structure JClient where
  id : String
  subs : List (String × Nat)
  ghost : Bool
  pers : Bool := false

def parseClient (j : Json) : Except String JClient := do
  let id := optStr j "id"
  let subsJ ← getArr j "subs"
  let subs := subsJ.toList.map fun s => (optStr s "f", (optInt s "q").toNat)
  pure ⟨id, subs, optBool j "ghost", optBool j "pers"⟩

/-- "3:1:p7" -/
def parsePkt (s : String) : Packet :=
  match s.splitOn ":" with
  | i :: q :: rest => ⟨i.toNat!, q.toNat!, "", ":".intercalate rest⟩
  | _ => ⟨99999, 99, "", s⟩

def getOut (step : Json) (c : String) : List Packet :=
  match step.getObjVal? "out" with
  | .ok o => ((getStrList o c).toOption.getD []).map parsePkt
  | .error _ => []

def showPkts (l : List Packet) : String := ",".intercalate (l.map fun p => s!"{p.id}:{p.qos}:{p.payload}")

structure Acc where
  agree : Bool := true
  spec : Bool := true
  sig : String := ""
  note : String := ""
  tags : List String := []

def Acc.fail (a : Acc) (sig note : String) : Acc :=
  if a.spec then { a with spec := false, sig := sig, note := note } else a
def Acc.dis (a : Acc) (note : String) : Acc :=
  if a.agree then { a with agree := false, note := if a.note.isEmpty then note else a.note } else a
def Acc.tag (a : Acc) (t : String) : Acc := if a.tags.contains t then a else { a with tags := t :: a.tags }

def lookupD {β : Type} (k : String) (l : List (String × β)) (d : β) : β := (alGet k l).getD d

def inprocOne : Judge := liftJudge fun input obs => do
  match obsPanic obs with
  | some m => pure { agree := false, spec := false, sig := "panic", note := m }
  | none =>
  let clientsJ ← getArr input "clients"
  let clients0 ← clientsJ.toList.mapM parseClient
  -- the harness ignores empty ids and repeated ids of connected clients
  let mut clients : List JClient := []
  for c in clients0 do
    if c.id.isEmpty then continue
    if !c.ghost && clients.any (fun d => d.id == c.id && !d.ghost) then continue
    clients := clients ++ [c]
  let events ← getArr input "events"
  let steps ← getArr obs "steps"
  if steps.size != events.size then
    return { agree := false, spec := true, note := s!"{steps.size} steps for {events.size} events" }
  -- subscription state through the C14 model / spec
  let ops : List Op := (clients.filter (fun c => !c.subs.isEmpty)).map fun c =>
    .subscribe c.id (c.subs.map fun s => (s.1.toList, s.2))
  let mut tst : State := EgVerif.Topic.run State.init ops
  let mut subs := specRun [] ops
  let mut real := (clients.filter (fun c => !c.ghost)).map (·.id)
  let nClients := real.length
  let limit := (optInt input "limit").toNat
  let mut pubSeen : List (String × Nat) := []
  let mut online : List String := real
  let mut sess : List (String × Sess) := real.map (fun c => (c, Sess.init))
  -- per client: the Spec's observation-based bookkeeping (`Spec/Delivery.lean` `obsStep` / `specTick`) — the
  -- same functions the theorems of Props/C15 speak about (`unacked`, `resend_oldest_unacked`, …)
  let mut unackObs : List (String × List (Id × Msg)) := real.map (fun c => (c, []))
  -- extension mqtt: ids consumed per client (model count) and, per observed pending id, the count at its publish;
  -- `strict` (opt-in, set only by corpus lines) makes a tick demand EVERY unacknowledged message
  let mut idCnt : List (String × Nat) := []
  let mut pendSince : List (String × List (Nat × Nat)) := []
  let strict := optBool input "strict_resend"
  let mut acc : Acc := {}
  let mut expected : Array Json := #[]
  let mut nontriv := false
  let mut i := 0
  for ev in events.toList do
    let so := steps[i]!
    i := i + 1
    let k := optStr ev "k"
    let mut expOut : List (String × List Packet) := []
    let mut expStatus : Int := 0
    if optStr so "note" != "" then acc := acc.dis s!"event {i-1}: harness note {optStr so "note"}"
    if k == "m" then
      let via := optStr ev "via"
      let topic := optStr ev "topic"
      let qosI := optInt ev "qos"
      let bad := optStr ev "bad"
      let b64 := optBool ev "b64"
      let payload := if b64 then optStr ev "dec" else optStr ev "payload"
      let fullL := (getStrList ev "full").toOption.getD []
      let req : HttpReq := ⟨if bad == "method" then "GET" else "POST", bad != "json", qosI, b64,
        optBool ev "b64ok"⟩
      let valid := if via == "h" then httpAccepts req else true
      if via == "h" then
        expStatus := if valid then 200 else 400
        acc := acc.tag (if valid then "http:ok" else s!"http:400")
        let st := optInt so "st"
        if st != expStatus then acc := acc.dis s!"event {i-1}: status {st}, model {expStatus}"
        if valid && st != 200 then acc := acc.fail "http:rejected-good" s!"event {i-1}: status {st}"
        if !valid && st == 200 then acc := acc.fail "http:accepted-bad" s!"event {i-1}: status {st}"
      else acc := acc.tag "via:direct"
      let q := qosI.toNat
      let fullOn := qosI == 0 && bad == ""
      let lvO := split topic.toList
      if lvO.isNone then acc := acc.tag "topic:malformed"
      let hits := match lvO with | some lv => find tst.trie lv | none => []
      let m := collapseMax hits
      let conn : Client → Bool := fun c => online.contains c
      let delivered := if valid then send conn q m else []
      acc := acc.tag s!"msg-qos={qosI}"
      if m.any (fun p => p.2 < q) && m.any (fun p => p.2 ≥ q) then acc := acc.tag "mixed-subscriber-qos"
      if (hits.map (·.1)).eraseDups.length < hits.length then acc := acc.tag "overlapping-own-filters"
      if m.any (fun p => !conn p.1) then acc := acc.tag "subscriber-offline"
      if delivered.length ≥ 2 then nontriv := true
      for c in real do
        let got := getOut so c
        -- model
        let s := lookupD c sess Sess.init
        let full := fullOn && fullL.contains c
        let (s', want) := if delivered.contains c then publish true full ⟨topic, payload, q⟩ s else (s, [])
        sess := alSet c s' sess
        let cntBefore := lookupD c idCnt 0
        if delivered.contains c then idCnt := alSet c (cntBefore + 1) idCnt
        let want' := want.map fun p => { p with topic := "" }
        if !want'.isEmpty then expOut := expOut ++ [(c, want')]
        if got != want' then acc := acc.dis s!"event {i-1} client {c}: got [{showPkts got}], model [{showPkts want'}]"
        -- spec on the observation
        let el := valid && (match lvO with | some lv => eligible subs conn lv q c | none => false)
        if full then acc := acc.tag "qos0-queue-full"
        let good := got.filter (fun p => p.payload == payload && p.qos == q)
        if got.length > 1 then acc := acc.fail "fanout:duplicate" s!"event {i-1} client {c}: [{showPkts got}]"
        else if !el && !got.isEmpty then
          acc := acc.fail "fanout:ineligible-served" s!"event {i-1} client {c}: [{showPkts got}]"
        else if el && got.length == 1 && good.isEmpty then
          acc := acc.fail "fanout:wrong-packet" s!"event {i-1} client {c}: [{showPkts got}]"
        else if el && got.isEmpty && !(q == 0 && full) then
          let ownLower := subs.any (fun e => e.2.1 == c && (match lvO with | some lv => «matches» e.1 lv | none => false) && e.2.2 < q)
          let otherLower := hits.any (fun p => p.1 != c && p.2 < q)
          let sig := if q == 0 then "qos0:dropped-not-full"
            else if ownLower then "fanout:eligible-missed:own-lower-qos-overlap"
            else if otherLower then "fanout:eligible-missed:lower-qos-subscriber-present"
            else "fanout:eligible-missed"
          acc := acc.fail sig s!"event {i-1} client {c} topic {topic} qos {q}: nothing delivered"
        else if el && q == 0 && full && !got.isEmpty then
          acc := acc.fail "qos0:delivered-into-full-queue" s!"event {i-1} client {c}"
        -- bookkeeping of observed unacked QoS1 packets
        for p in got do
          if p.qos == 1 then
            let u := lookupD c unackObs []
            if u.any (fun e => e.1 == p.id) then
              -- a full lap of the uint16 counter since the pending message was sent = the known wrap-around
              let since := (alGet p.id (lookupD c pendSince [])).getD cntBefore
              let wrapped := cntBefore ≥ since + 65536
              acc := acc.fail (if wrapped then "ids:wrap-overwrote-pending" else "ids:pending-collision")
                s!"event {i-1} client {c}: id {p.id} still pending ({cntBefore - since} ids consumed since it was sent)"
              if wrapped then acc := acc.tag "ids:wrapped"
            unackObs := alSet c (obsStep u (.publish true full ⟨topic, payload, q⟩) [p]) unackObs
            let ps := lookupD c pendSince []
            if (alGet p.id ps).isNone then pendSince := alSet c (ps ++ [(p.id, cntBefore)]) pendSince
    else if k == "a" then
      let c := optStr ev "c"
      let id := (optInt ev "id").toNat
      if real.contains c then
        acc := acc.tag "puback"
        let s := lookupD c sess Sess.init
        if (alGet id s.pending).isNone then acc := acc.tag "puback-bogus-id"
        sess := alSet c (puback id s) sess
        unackObs := alSet c (obsStep (lookupD c unackObs []) (.puback id) []) unackObs
        pendSince := alSet c ((lookupD c pendSince []).filter (fun e => e.1 != id)) pendSince
    else if k == "mn" then
      -- N sends of one QoS0 message (queues drained after each): observation = count, first and last packet
      let topic := optStr ev "topic"
      let payload := optStr ev "payload"
      let n := min (optInt ev "n").toNat 70000
      let lvO := split topic.toList
      let hits := match lvO with | some lv => find tst.trie lv | none => []
      let conn : Client → Bool := fun c => online.contains c
      let delivered := send conn 0 (collapseMax hits)
      acc := acc.tag "msg-burst-qos0"
      for c in real do
        let got := getOut so c
        let gotCnt := match so.getObjVal? "cnt" with
          | .ok o => (optInt o c).toNat
          | .error _ => 0
        let mut s := lookupD c sess Sess.init
        let mut first : List Packet := []
        let mut last : List Packet := []
        let wantCnt := if delivered.contains c then n else 0
        if delivered.contains c then
          for j in [0:n] do
            let (s', w) := publish true false ⟨topic, payload, 0⟩ s
            s := s'
            if j == 0 then first := w
            if j + 1 == n && n > 1 then last := w
          idCnt := alSet c (lookupD c idCnt 0 + n) idCnt
        sess := alSet c s sess
        let want' := (first ++ last).map fun p => { p with topic := "" }
        if !want'.isEmpty then expOut := expOut ++ [(c, want')]
        if got != want' || gotCnt != wantCnt then
          acc := acc.dis s!"event {i-1} client {c}: got {gotCnt} packets [{showPkts got}], model {wantCnt} [{showPkts want'}]"
        let el := match lvO with | some lv => eligible subs conn lv 0 c | none => false
        if el && gotCnt != n then
          acc := acc.fail "qos0:dropped-not-full" s!"event {i-1} client {c}: {gotCnt} of {n} QoS0 copies delivered"
        else if !el && gotCnt != 0 then
          acc := acc.fail "fanout:ineligible-served" s!"event {i-1} client {c}: {gotCnt} packets"
    else if k == "t" then
      let c := optStr ev "c"
      if real.contains c then
        let s := lookupD c sess Sess.init
        let on := online.contains c
        let (s', want) := doResend on s
        sess := alSet c s' sess
        let want' := want.map fun p => { p with topic := "" }
        if !want'.isEmpty then expOut := expOut ++ [(c, want')]
        let got := getOut so c
        if got != want' then acc := acc.dis s!"event {i-1} tick {c}: got [{showPkts got}], model [{showPkts want'}]"
        let u := lookupD c unackObs []
        acc := acc.tag (if u.isEmpty then "tick:nothing-pending" else if u.length > 1 then "tick:several-pending" else "tick:one-pending")
        if !on then acc := acc.tag "tick:offline"
        -- the executable spec: a tick writes exactly `specTick` of the observed bookkeeping
        let wantSpec := (specTick on u).map fun p => { p with topic := "" }
        if got == wantSpec then
          if !got.isEmpty then
            nontriv := true
        else
          match u, on with
          | (id, mm) :: _, true =>
            if got.isEmpty then acc := acc.fail "resend:missing" s!"event {i-1} client {c}: oldest unacked {id} not re-sent"
            else if got.length > 1 then acc := acc.fail "resend:more-than-oldest" s!"event {i-1} client {c}: [{showPkts got}]"
            else
              let acked := got.any (fun p => !(u.any (fun e => e.1 == p.id)))
              acc := acc.fail (if acked then "resend:after-ack" else "resend:not-oldest")
                s!"event {i-1} client {c}: [{showPkts got}], oldest unacked {id}:{mm.payload}"
          | _, _ =>
            acc := acc.fail "resend:after-ack" s!"event {i-1} client {c}: [{showPkts got}] but nothing pending / offline"
        -- opt-in literal reading of the statement: every unacknowledged message is retransmitted
        if on && strict && u.length ≥ 2 && !(u.all fun e => got.any fun p => p.id == e.1 && p.payload == e.2.payload) then
          acc := acc.fail "resend:younger-not-resent-behind-unacked-head"
            s!"event {i-1} client {c}: {u.length} unacknowledged, re-sent only [{showPkts got}]"
    else if k == "sub" || k == "unsub" || k == "disc" then
      -- the routing state changes between messages: C14's model / abstract set, step by step
      let c := optStr ev "c"
      if real.contains c then
        let op : Option Op :=
          if k == "sub" then
            let l := ((getArr ev "subs").toOption.getD #[]).toList.map fun j => ((optStr j "f").toList, (optInt j "q").toNat)
            if l.isEmpty then none else some (.subscribe c l)
          else if k == "unsub" then
            let l := ((getStrList ev "fs").toOption.getD []).map String.toList
            if l.isEmpty then none else some (.unsubscribe c l)
          else some (.disconnect c)
        match op with
        | some o =>
          let before := subs.length
          tst := (step tst o).1
          subs := specStep subs o
          acc := acc.tag s!"history:{k}"
          if subs.length < before then acc := acc.tag "history:removes-subscription"
        | none => pure ()
        if k == "disc" then
          real := real.filter (· != c)
          online := online.filter (· != c)
    else if k == "pub" then
      let c := optStr ev "c"
      if real.contains c then
        let pubs := ((getArr ev "pubs").toOption.getD #[]).toList.map fun j =>
          (optStr j "topic", (optInt j "qos").toNat, (optInt j "id").toNat)
        let mut seen := lookupD c pubSeen 0
        let mut wantAcks : List Nat := []
        let mut wantPipe : List (String × Nat × Nat) := []
        for (tp, q, id) in pubs do
          let limiterOK := limit == 0 || seen < limit
          seen := seen + 1
          let v : PipeVerdict := if tp.startsWith "drop/" then .drop else .ok
          let o := onPublish limiterOK v q id
          if o.handed then wantPipe := wantPipe ++ [(tp, id, q)]
          match o.puback with
          | some a => wantAcks := wantAcks ++ [a]
          | none => pure ()
          if !limiterOK then acc := acc.tag "inbound:limited"
          if optBool (((getArr ev "pubs").toOption.getD #[]).toList.getD 0 Json.null) "dup" then acc := acc.tag "inbound:dup-flag"
          if v == .drop then acc := acc.tag "inbound:pipeline-drop"
        pubSeen := alSet c seen pubSeen
        let gotAcks := ((getIntList so "acks").toOption.getD []).map Int.toNat
        let gotPipe := ((getArr so "pipe").toOption.getD #[]).toList.map fun j =>
          (optStr j "topic", (optInt j "id").toNat, (optInt j "qos").toNat)
        acc := acc.tag (if wantAcks.length ≥ 2 then "inbound:puback-burst" else "inbound:publish")
        if wantAcks.length ≥ 2 then nontriv := true
        if gotAcks != wantAcks then
          acc := acc.dis s!"event {i-1} client {c}: PUBACK ids on the wire {gotAcks}, model {wantAcks}"
          -- spec = the statement itself: every admitted QoS1 PUBLISH is acknowledged with its own id
          acc := acc.fail (if gotAcks.length == wantAcks.length then "inbound:puback-wrong-id" else "inbound:puback-count")
            s!"event {i-1} client {c}: PUBACK ids on the wire {gotAcks}, published (admitted, QoS1, not dropped) {wantAcks}"
        if gotPipe != wantPipe then
          acc := acc.dis s!"event {i-1} client {c}: pipeline saw {gotPipe}, model {wantPipe}"
          acc := acc.fail "inbound:pipeline-mismatch" s!"event {i-1} client {c}: pipeline saw {gotPipe}, expected {wantPipe}"
    else if k == "refill" then
      -- the publish limiter's period has elapsed: it admits `limit` publishes again
      let c := optStr ev "c"
      if real.contains c && limit > 0 then
        pubSeen := alSet c 0 pubSeen
        acc := acc.tag "inbound:limiter-refilled"
    else if k == "resume" then
      -- a persistent client's connection ends normally and it reconnects with cleanSession=false WITHOUT
      -- re-subscribing: its live subscriptions (filter and QoS, the abstract set `subs`) must be routed again;
      -- the new session object starts with an empty outbound state (pending messages are not persisted)
      let c := optStr ev "c"
      if real.contains c && clients.any (fun d => d.id == c && d.pers && !d.ghost) then
        acc := acc.tag "resume-persistent"
        let mine : List (List Char × Nat) := (subs.filter (fun e => e.2.1 == c)).reverse.map fun e =>
          (List.intercalate ['/'] e.1, e.2.2)
        tst := (step tst (.disconnect c)).1
        subs := specStep subs (.disconnect c)
        if !mine.isEmpty then
          tst := (step tst (.subscribe c mine)).1
          subs := specStep subs (.subscribe c mine)
          if mine.any (fun e => e.2 == 1) then acc := acc.tag "resume-with-qos1-subscription"
        sess := alSet c Sess.init sess
        unackObs := alSet c [] unackObs
        pendSince := alSet c [] pendSince
        idCnt := alSet c 0 idCnt
        pubSeen := alSet c 0 pubSeen   -- the new connection has its own publish limiter
        if !online.contains c then online := online ++ [c]
    else if k == "off" then
      online := online.filter (· != optStr ev "c"); acc := acc.tag "client-offline"
    else if k == "on" then
      let c := optStr ev "c"
      if real.contains c && !online.contains c then online := online ++ [c]
    -- packets for clients that should get none at this event (ack / off / on, or other clients at a tick)
    if k != "m" && k != "mn" then
      for c in real do
        if !(k == "t" && c == optStr ev "c") && !(getOut so c).isEmpty then
          acc := acc.dis s!"event {i-1}: unexpected packets for {c}"
          acc := acc.fail "unexpected-packet" s!"event {i-1} ({k}): client {c} got [{showPkts (getOut so c)}]"
    expected := expected.push (Json.mkObj [("st", Json.num expStatus),
      ("out", Json.mkObj (expOut.map fun (c, ps) => (c, Json.arr (ps.map fun p => Json.str s!"{p.id}:{p.qos}:{p.payload}").toArray)))])
  pure { agree := acc.agree, spec := acc.spec, expected := Json.mkObj [("steps", Json.arr expected)],
         tags := acc.tags ++ [s!"clients={nClients}"], nontrivial := nontriv, sig := acc.sig, note := acc.note }

/-- the harness may run a scenario several times on fresh state (`"runs"`): the first run that violates
the spec (else the first that disagrees with the model) decides. -/
def inproc : Judge := fun input obs =>
  match obs.getObjVal? "runs" with
  | .ok (.arr rs) =>
    let vs := rs.toList.map (inprocOne input)
    match vs.find? (fun v => !v.spec), vs.find? (fun v => !v.agree), vs.getLast? with
    | some v, _, _ => v
    | none, some v, _ => v
    | none, none, some v => { v with tags := v.tags ++ [s!"runs={rs.size}"] }
    | none, none, none => badInput "no runs"
  | _ => inprocOne input obs

/-! ### wire judge -/

def countId (l : List Packet) (i : Nat) : Nat := (l.filter (fun p => p.id == i)).length

/-- index of the `k`-th (1-based) copy of id `i` in the arrival order -/
def idxOfCopy (l : List Packet) (i k : Nat) : Option Nat :=
  let rec go (l : List Packet) (pos seen : Nat) : Option Nat :=
    match l with
    | [] => none
    | p :: r => if p.id == i then (if seen + 1 == k then some pos else go r (pos + 1) (seen + 1)) else go r (pos + 1) seen
  go l 0 0

def wire : Judge := liftJudge fun input obs => do
  match obsPanic obs with
  | some m => pure { agree := false, spec := false, sig := "panic", note := m }
  | none =>
  if optStr obs "err" != "" then
    -- the scenario could not be set up / a generous wait expired (slow box): nothing can be concluded
    return { agree := true, spec := true, note := "harness: " ++ optStr obs "err", nontrivial := false,
             tags := ["inconclusive:setup"] }
  let clientsJ ← getArr input "clients"
  -- (id, subs, ack mode, unsubscribed filters, leaves)
  let mut clients : List (String × List (String × Nat) × String × List String × Bool) := []
  for j in clientsJ.toList do
    let id := optStr j "id"
    if id.isEmpty || clients.any (fun c => c.1 == id) then continue
    let subsJ ← getArr j "subs"
    clients := clients ++ [(id, subsJ.toList.map (fun s => (optStr s "f", (optInt s "q").toNat)), optStr j "ack",
      (getStrList j "unsub").toOption.getD [], optBool j "leave")]
  let msgs ← getArr input "msgs"
  let inbound ← getArr input "inbound"
  let limit := (optInt input "limit").toNat
  let canary := (optInt obs "canary").toNat
  -- the history: everybody subscribes, then the UNSUBSCRIBEs, then the disconnects (C14's abstract set)
  let ops : List Op :=
    ((clients.filter (fun c => !c.2.1.isEmpty)).map fun c => Op.subscribe c.1 (c.2.1.map fun s => (s.1.toList, s.2)))
    ++ ((clients.filter (fun c => !c.2.2.2.1.isEmpty)).map fun c => Op.unsubscribe c.1 (c.2.2.2.1.map String.toList))
    ++ ((clients.filter (fun c => c.2.2.2.2)).map fun c => Op.disconnect c.1)
  let subs := specRun [] ops
  let present := clients.filter (fun c => !c.2.2.2.2)
  let conn : Client → Bool := fun c => present.any (fun d => d.1 == c)
  let rxO := (obs.getObjVal? "rx").toOption.getD Json.null
  let paO := (obs.getObjVal? "pubacks").toOption.getD Json.null
  let mut acc : Acc := {}
  let mut nontriv := false
  if clients.any (fun c => c.2.2.2.2) then acc := acc.tag "history:leave"
  if clients.any (fun c => !c.2.2.2.1.isEmpty) then acc := acc.tag "history:unsubscribe"
  if optBool input "burst" then acc := acc.tag "inbound-burst"
  -- HTTP: every injection is valid
  let http := (getIntList obs "http").toOption.getD []
  if http.length != msgs.size || http.any (· != 200) then
    acc := acc.fail "http:rejected-good" s!"http statuses {http}"
  for (cid, _, ackMode, _, _) in present do
    let log := (getStrList rxO cid).toOption.getD []
    let barriers := (log.filter (· == "!barrier")).length
    let rxAll := (log.filter (fun e => !e.startsWith "!")).map parsePkt
    acc := acc.tag s!"ack={ackMode}"
    if barriers < 1 then acc := acc.tag "inconclusive:no-barrier"
    -- delivery: payloads of the messages this client is eligible for, each at least once, nothing else.
    -- "never arrived" is conclusive only after barrier 1 (all fan-outs finished + one round trip).
    for mj in msgs.toList do
      let topic := optStr mj "topic"; let q := (optInt mj "qos").toNat; let pl := optStr mj "payload"
      let lvO := split topic.toList
      let el := match lvO with | some lv => eligible subs conn lv q cid | none => false
      let copies := rxAll.filter (fun p => p.payload == pl)
      if el && copies.isEmpty && barriers ≥ 1 then
        let otherLower := subs.any (fun e => e.2.1 != cid && (match lvO with | some lv => «matches» e.1 lv | none => false) && e.2.2 < q)
        let ownLower := subs.any (fun e => e.2.1 == cid && (match lvO with | some lv => «matches» e.1 lv | none => false) && e.2.2 < q)
        acc := acc.fail (if ownLower then "wire:eligible-missed:own-lower-qos-overlap"
            else if otherLower then "wire:eligible-missed:lower-qos-subscriber-present" else "wire:eligible-missed")
          s!"client {cid}: message {pl} (topic {topic}, qos {q}) never arrived"
      if !el && !copies.isEmpty then acc := acc.fail "wire:ineligible-served" s!"client {cid}: got {pl}"
      if copies.any (fun p => p.qos != q) then acc := acc.fail "wire:wrong-qos" s!"client {cid}: {pl}"
      if el then acc := acc.tag s!"delivered-qos={q}"
    if rxAll.any (fun p => !(msgs.toList.any (fun mj => optStr mj "payload" == p.payload))) then
      acc := acc.fail "wire:unknown-packet" s!"client {cid}: [{showPkts rxAll}]"
    -- (QoS0 PUBLISH packets carry no packet id on the wire)
    let rx0 := rxAll.filter (fun p => p.qos == 0)
    let rx := rxAll.filter (fun p => p.qos != 0)
    let q1 := (rx.map (·.id)).eraseDups
    if (rx0.map (·.payload)).eraseDups.length != rx0.length then
      acc := acc.fail "wire:qos0-resent" s!"client {cid}: [{showPkts rx0}]"
    for i in q1 do
      let cs := rx.filter (fun p => p.id == i)
      match cs with
      | p0 :: _ =>
        if cs.any (fun p => p.payload != p0.payload || p.qos != p0.qos) then
          acc := acc.fail "wire:resend-changed-packet" s!"client {cid}: id {i} [{showPkts cs}]"
      | [] => pure ()
    -- no resend after the acknowledgement: "!ack:i" is logged when the PINGRESP of the PINGREQ sent right
    -- after our PUBACK(i) arrives, i.e. the broker has processed the PUBACK and everything it had queued
    -- before is already here. A copy of i after that marker was produced after the acknowledgement.
    let mut confirmed : List Nat := []
    for e in log do
      if e.startsWith "!ack:" then confirmed := (e.drop 5).toNat! :: confirmed
      else if !e.startsWith "!" then
        let p := parsePkt e
        if p.qos == 1 && confirmed.contains p.id then
          acc := acc.fail "wire:resend-after-ack" s!"client {cid}: id {p.id} arrived again after its PUBACK was processed"
    if !confirmed.isEmpty then acc := acc.tag "ack-confirmed"
    -- retransmission of the oldest unacknowledged message; "missing" only when the in-process canary
    -- ticker (same 200 ms period) fired at least 10 times during the watch
    if ackMode == "never" then
      match q1 with
      | [] => pure ()
      | h :: younger =>
        nontriv := true
        acc := acc.tag (if younger.isEmpty then "never-ack:one-pending" else "never-ack:several-pending")
        if countId rx h < 2 then
          if canary ≥ 10 then
            acc := acc.fail "wire:resend-missing" s!"client {cid} (never acks): oldest id {h} not re-sent during {canary} ticker periods"
          else acc := acc.tag "inconclusive:resend-wait"
        for i in younger do
          if countId rx i > 1 then
            acc := acc.fail "wire:resend-not-oldest" s!"client {cid} (never acks): id {i} re-sent while {h} is unacknowledged"
    else if ackMode == "late" then
      match q1 with
      | [] => pure ()
      | h :: _ =>
        nontriv := true
        acc := acc.tag "late-ack"
        if countId rx h < 2 then
          if canary ≥ 10 then
            acc := acc.fail "wire:resend-missing" s!"client {cid} (acks after 1st resend): oldest id {h} not re-sent during {canary} ticker periods"
          else acc := acc.tag "inconclusive:resend-wait"
        -- head of line: the second copy of a younger id comes after the second copy of every older id
        let mut prev : Option Nat := some 0
        for i in q1 do
          match idxOfCopy rx i 2, prev with
          | some k, some pk => if k < pk then acc := acc.fail "wire:resend-not-oldest" s!"client {cid}: id {i}" else prev := some k
          | some _, none => acc := acc.fail "wire:resend-not-oldest" s!"client {cid}: id {i} re-sent before an older unacknowledged one"
          | none, _ => prev := none
    -- inbound PUBLISH of this client (conclusive after barrier 2: the broker has read them all and every
    -- PUBACK it queued is here): the limiter admits the first `limit`, the pipeline sees exactly those,
    -- and the PUBACK ids *as written on the wire* are, in order, the ids of the admitted QoS1 packets
    -- that the pipeline did not drop.
    let mine := inbound.toList.filter (fun j => optStr j "c" == cid)
    let admitted := if limit == 0 then mine else mine.take limit
    let wantPipe := admitted.map (fun j => (optStr j "topic",
      (if optInt j "qos" == 0 then 0 else (optInt j "id").toNat), (optInt j "qos").toNat))
    let gotPipe := ((getArr obs "pipe").toOption.getD #[]).toList.filter (fun j => optStr j "c" == cid)
      |>.map (fun j => (optStr j "topic", (optInt j "id").toNat, (optInt j "qos").toNat))
    let wantAck := (admitted.filter (fun j => optInt j "qos" == 1 && !(optStr j "topic").startsWith "drop/")).map
      (fun j => (optInt j "id").toNat)
    let gotAck := ((getIntList paO cid).toOption.getD []).map Int.toNat
    if barriers ≥ 2 then
      if gotPipe != wantPipe then
        acc := acc.fail "wire:pipeline-mismatch" s!"client {cid}: pipeline saw {gotPipe}, expected {wantPipe}"
      if gotAck != wantAck then
        acc := acc.fail (if gotAck.length == wantAck.length then "wire:puback-wrong-id" else "wire:puback-count")
          s!"client {cid}: PUBACK ids on the wire {gotAck}, published (admitted, QoS1, not dropped) {wantAck}"
      if wantAck.length ≥ 3 then nontriv := true
    else if !mine.isEmpty then acc := acc.tag "inconclusive:no-barrier"
    if !mine.isEmpty then acc := acc.tag "inbound-publish"
    if mine.length > admitted.length then acc := acc.tag "inbound-limited"
    if mine.any (fun j => (optStr j "topic").startsWith "drop/") then acc := acc.tag "inbound-pipeline-drop"
  -- timing makes the run non-deterministic: the model side is the same set of order facts
  pure { agree := acc.spec, spec := acc.spec, tags := acc.tags ++ [s!"clients={clients.length}"],
         nontrivial := nontriv, sig := acc.sig, note := acc.note }

def judges : List (String × Judge) := [("inproc", inproc), ("wire", wire)]

end Driver.C15

def main (args : List String) : IO UInt32 := Driver.runMain Driver.C15.judges args
