import Driver.Common
/-! Judge for C15: not built yet (stub so that the target exists). -/
open Lean Driver

namespace Driver.C15

def judges : List (String × Judge) := []

end Driver.C15

def main (args : List String) : IO UInt32 := Driver.runMain Driver.C15.judges args
