import Driver.Common
import EgVerif.Model.HotUpdate
/-!
Judges for C11 (hot update):

* `mux`      — pkg/object/httpserver: requests against `mux.ServeHTTP` while `reload` alternates
               between two specs; every response must be `serve A` or `serve B`, sequential
               phases must be exactly the current generation.
* `filters`  — pkg/object/pipeline: old.Init, new.Inherit(old) (+Close), then Handle on the old
               and the new generation; RateLimiter is compared with the explicit model.
* `registry` — pkg/object/trafficcontroller: create/update/apply/delete histories against the
               registry model, background readers on untouched names.
-/
open Lean Driver EgVerif EgVerif.HotUpdate

namespace Driver.C11

/-! ### filters -/

def strListOpt' (j : Json) (k : String) : List String :=
  match getStrList j k with | .ok l => l | .error _ => []

structure FOut where
  panic : String
  result : String
  status : Int
  /-- canonical digest of what `Handle` left in the context (request line, headers, payload for
  HTTP; disconnect/drop flags and context data for MQTT) -/
  eff : String
deriving BEq, Repr

def parseOut (j : Json) : FOut :=
  { panic := optStr j "panic", result := optStr j "result", status := optInt j "status", eff := optStr j "eff" }

/-- Kinds that handle MQTT contexts. -/
def mqttKinds : List String := ["TopicMapper", "MQTTClientAuth", "ConnectControl", "KafkaMQTT"]

/-- The `@inventory` case: the harness reports its generator table and the kinds registered in the
test binary; the table must be exactly `exercisedFilterKinds` (so the Lean list that the coverage
obligation `filter_kinds_classified` rests on is the list the harness really drives), every
generator kind must be registered and creatable, and every registered kind must be classified. -/
def judgeInventory (obs : Json) : Verdict :=
  let gens := strListOpt' obs "generators"
  let reg := strListOpt' obs "registered"
  let wanted := exercisedFilterKinds.filter (fun k => !kafkaHarnessKinds.contains k)
  let missing := wanted.filter (fun k => !gens.contains k)
  let extra := gens.filter (fun k => !wanted.contains k)
  let unreg := gens.filter (fun k => !reg.contains k)
  let unclassified := reg.filter fun k =>
    !exercisedFilterKinds.contains k && !(notInstantiableFilterKinds.map (·.1)).contains k
  let ok := missing.isEmpty && extra.isEmpty && unreg.isEmpty && unclassified.isEmpty
  { agree := ok, spec := ok, tags := ["inventory"] ++ gens.map ("generator:" ++ ·), nontrivial := false,
    sig := if ok then "" else
      if !missing.isEmpty then "inventory:exercised-kind-without-generator:" ++ ",".intercalate missing
      else if !extra.isEmpty then "inventory:generator-kind-not-in-exercised-list:" ++ ",".intercalate extra
      else if !unreg.isEmpty then "inventory:generator-kind-not-registered:" ++ ",".intercalate unreg
      else "inventory:registered-kind-unclassified:" ++ ",".intercalate unclassified,
    expected := Json.arr (wanted.map Json.str).toArray }

def parseOuts (obs : Json) (k : String) : List FOut :=
  match getArr obs k with
  | .ok a => a.toList.map parseOut
  | .error _ => []

def parseFReq (j : Json) : FReq :=
  { method := optStr j "method" "GET", path := optStr j "path" "/" }

def strListOpt (j : Json) (k : String) : List String :=
  match getStrList j k with | .ok l => l | .error _ => []

def parseRLSpec (j : Json) : Except String RLSpec := do
  let pols ← getArr j "policies"
  let urls ← getArr j "urls"
  let ps := pols.toList.map fun p =>
    ({ name := optStr p "name", limit := (optInt p "limitForPeriod").toNat } : RLPolicy)
  let us := urls.toList.map fun u =>
    let m := (u.getObjVal? "url").toOption.getD Json.null
    ({ methods := strListOpt u "methods", exact := optStr m "exact", pfx := optStr m "prefix",
       policyRef := optStr u "policyRef" } : URL)
  pure { defaultRef := optStr j "defaultPolicyRef", policies := ps, urls := us }

def houtOf (o : FOut) : HOut :=
  if o.panic != "" then .panic
  else if o.result == "rateLimited" then .limited else .pass

def houtJson (l : List HOut) : Json :=
  Json.arr (l.map fun o => Json.str (match o with | .pass => "pass" | .limited => "limited" | .panic => "panic")).toArray

def judgeFilters : Judge := liftJudge fun input obs => do
  let kind := optStr input "kind" "?"
  if kind == "@inventory" then
    return judgeInventory obs
  let level := optStr input "level" "pipeline"
  let err := optStr obs "err"
  let opsIn := (← getArr input "ops").toList
  let preIn := (← getArr input "pre").toList
  let ops : List (Bool × FReq) := opsIn.map fun o =>
    (optInt o "g" != 0, parseFReq ((o.getObjVal? "req").toOption.getD Json.null))
  let pre : List FReq := preIn.map parseFReq
  let tags0 := ["kind:" ++ kind, "level:" ++ level, if mqttKinds.contains kind then "ctx:mqtt" else "ctx:http"] ++
    (if exercisedFilterKinds.contains kind then [] else ["kind-not-in-exercised-list"])
  if err == "bad-input" || err == "bad-spec" || err == "init-panic" || err == "budget-exhausted" then
    return { agree := true, spec := true, tags := tags0 ++ ["skipped:" ++ err], nontrivial := false }
  if err == "inherit-panic" || err == "close-panic" then
    return { agree := false, spec := false, tags := tags0 ++ [err], sig := "panic:" ++ err ++ ":" ++ kind,
             note := optStr obs "note" }
  if let some m := obsPanic obs then
    return { agree := false, spec := false, sig := "panic:harness:" ++ kind, note := m }
  let gotPre := parseOuts obs "pre"
  let gotOps := parseOuts obs "ops"
  let base := parseOuts obs "base"
  let triple := (ops.zip gotOps).zip base
  -- a panic the never-updated baseline instance does not have is caused by the update
  let badPanic := triple.find? fun ((_, o), b) => o.panic != "" && b.panic == ""
  let bad5xx := triple.find? fun ((_, o), b) => o.panic == "" && o.status ≥ 500 && b.status < 500
  let lenOk := gotOps.length == ops.length && base.length == ops.length && gotPre.length == pre.length
  let spec := badPanic.isNone && bad5xx.isNone && lenOk
  let sig :=
    match badPanic, bad5xx with
    | some ((g, _), _), _ => (if g.1 then "panic:new-generation-after-inherit:" else "panic:old-generation-after-inherit:") ++ kind
    | none, some ((g, _), _) => (if g.1 then "5xx:new-generation-after-inherit:" else "5xx:old-generation-after-inherit:") ++ kind
    | none, none => if lenOk then "" else "truncated:" ++ kind
  let oldOps := ops.any (fun o => !o.1)
  let tags1 := tags0 ++ (if oldOps then ["op-on-old-generation"] else []) ++
    (if ops.any (·.1) then ["op-on-new-generation"] else []) ++
    (if optBool input "close" || level == "pipeline" then ["old-closed"] else ["old-not-closed"])
  if kind == "RateLimiter" then
    let oldS ← parseRLSpec ((input.getObjVal? "old").toOption.getD Json.null)
    let newS ← parseRLSpec ((input.getObjVal? "new").toOption.getD Json.null)
    let want := rlScenario false oldS newS pre ops
    let agree := gotPre.map houtOf == want.1 && gotOps.map houtOf == want.2
      && (gotPre ++ gotOps).all (fun o => o.panic != "" || (o.result == "rateLimited") == (o.status == 429))
    let i := rlInit [] oldS
    let inh := rlInherit false i.1 newS i.2
    let shared := inh.1.length < i.1.length + newS.urls.length
    let tags := tags1 ++ (if want.2.contains .limited || want.1.contains .limited then ["limited"] else [])
      ++ (if shared then ["limiter-shared"] else ["no-limiter-shared"])
      ++ (if oldS == newS then ["spec-unchanged"] else [])
    return { agree := agree, spec := spec, expected := Json.mkObj [("pre", houtJson want.1), ("ops", houtJson want.2)],
             tags := tags, nontrivial := oldOps, sig := sig, note := optStr obs "note" }
  else
    -- kinds whose Inherit ignores the previous generation: the model predicts exactly what a
    -- never-updated instance of the same spec does
    let agree := lenOk && exercisedFilterKinds.contains kind && triple.all fun ((_, o), b) => o == b
    let effTags := (if gotOps.any (fun o => o.result != "") then ["some-nonempty-result"] else []) ++
      (if (ops.zip gotOps).any (fun (g, o) => !g.1 && o.result != "") then ["nonempty-result-on-old-generation"] else [])
    return { agree := agree, spec := spec, expected := Json.null, tags := tags1 ++ effTags, nontrivial := oldOps,
             sig := sig, note := optStr obs "note" }


/-! ### kafka / kafkamqtt: the Kafka kinds against an in-process MockBroker -/

def koutStr : KOut → String
  | .sent => "sent" | .failed => "failed" | .panic => "panic"

/-- The kind's failure result string. -/
def kafkaFail (kind : String) : String := if kind == "KafkaMQTT" then "getDataFailed" else "parseErr"

def judgeKafka : Judge := liftJudge fun input obs => do
  let kind := optStr input "kind" "?"
  let err := optStr obs "err"
  let wait := optBool input "wait"
  let tags0 := ["kind:" ++ kind, if wait then "waited-for-shutdown" else "not-waited"] ++
    (if kafkaHarnessKinds.contains kind then [] else ["kind-not-a-kafka-kind"])
  if err == "bad-input" || err == "bad-spec" || err == "init-panic" || err == "budget-exhausted" || err == "inconclusive" then
    return { agree := true, spec := true, tags := tags0 ++ ["skipped:" ++ err], nontrivial := false, note := optStr obs "note" }
  if err == "inherit-panic" || err == "close-panic" then
    return { agree := false, spec := false, tags := tags0 ++ [err], sig := "panic:" ++ err ++ ":" ++ kind, note := optStr obs "note" }
  if let some m := obsPanic obs then
    return { agree := false, spec := false, sig := "panic:harness:" ++ kind, note := m }
  let opsIn := (← getArr input "ops").toList
  let preIn := (← getArr input "pre").toList
  let isNew : List Bool := opsIn.map fun o => optInt o "g" != 0
  let gotPre := parseOuts obs "pre"
  let basePre := parseOuts obs "basePre"
  let gotOps := parseOuts obs "ops"
  let base := parseOuts obs "base"
  let lenOk := gotOps.length == isNew.length && base.length == isNew.length && gotPre.length == preIn.length &&
    basePre.length == preIn.length
  -- the model (repaired Close): the old generation answers `failed` whatever the timing of the shutdown
  let want := kafkaScenario true wait isNew
  let rows := (isNew.zip want).zip (gotOps.zip base)
  let rowOk := fun (r : (Bool × KOut) × (FOut × FOut)) =>
    let ((_, w), (o, b)) := r
    match w with
    | .sent => o.panic == "" && b.panic == "" && o.result == b.result          -- same as the never-updated instance
    | .failed => o.panic == "" && o.result == kafkaFail kind
    | .panic => o.panic != ""
  let agree := lenOk && kafkaHarnessKinds.contains kind && rows.all rowOk &&
    (gotPre.zip basePre).all (fun (o, b) => o.panic == "" && o.result == b.result)
  let badOld := rows.find? fun ((n, _), (o, b)) => !n && o.panic != "" && b.panic == ""
  let badNew := rows.find? fun ((n, _), (o, b)) => n && o.panic != "" && b.panic == ""
  let badPre := (gotPre.zip basePre).any fun (o, b) => o.panic != "" && b.panic == ""
  let spec := badOld.isNone && badNew.isNone && !badPre && lenOk
  let sig := if badOld.isSome then "panic:old-generation-after-inherit:" ++ kind
    else if badNew.isSome then "panic:new-generation-after-inherit:" ++ kind
    else if badPre then "panic:before-update:" ++ kind
    else if !lenOk then "truncated:" ++ kind else ""
  let oldOps := isNew.any (!·)
  let tags := tags0 ++ (if oldOps then ["op-on-old-generation"] else []) ++ (if isNew.any id then ["op-on-new-generation"] else []) ++
    (if optStr obs "shutdown" == "closed" then ["old-producer-shutdown-observed"] else []) ++
    (if (gotOps ++ gotPre).any (fun o => o.panic == "" && o.result == "") then ["message-sent"] else []) ++
    (if ((input.getObjVal? "old").toOption.getD Json.null).compress == ((input.getObjVal? "new").toOption.getD Json.null).compress
      then ["spec-unchanged"] else [])
  return { agree := agree, spec := spec, expected := Json.arr (want.map (fun o => Json.str (koutStr o))).toArray,
           tags := tags, nontrivial := oldOps && wait, sig := sig,
           note := match badOld with | some (_, (o, _)) => o.panic | none => optStr obs "note" }

/-! ### validatorgen: the Validator's basicAuth cache across generations -/

def judgeValidatorGen : Judge := liftJudge fun input obs => do
  let mode := optStr input "mode" "?"
  let err := optStr obs "err"
  let tags0 := ["mode:" ++ mode]
  if err == "bad-input" || err == "bad-spec" || err == "init-panic" || err == "budget-exhausted" then
    return { agree := true, spec := true, tags := tags0 ++ ["skipped:" ++ err], nontrivial := false, note := optStr obs "note" }
  if err == "inherit-panic" || err == "close-panic" then
    return { agree := false, spec := false, tags := tags0 ++ [err], sig := "panic:" ++ err ++ ":Validator", note := optStr obs "note" }
  if let some m := obsPanic obs then
    return { agree := false, spec := false, sig := "panic:harness:Validator", note := m }
  let stepsIn := (← getArr input "steps").toList
  let auths := stepsIn.map fun s => optInt s "auth"
  let hdrs := stepsIn.map fun s => optInt s "hdr"
  -- per update: is the basicAuth section unchanged?
  let same : List Bool := (auths.zip (auths.drop 1)).map fun (a, b) => a == b
  let got := (← getArr obs "steps").toList
  let curAlive := got.map fun s => optStr s "curAlive"
  let prevDead := got.map fun s => optStr s "prevDead"
  -- model: fresh cache per generation ⇒ alive after every step
  let want := vTrace false vInit same
  let lenOk := got.length == stepsIn.length && (stepsIn.isEmpty || want.length == got.length)
  let agree := lenOk && (curAlive.zip want).all (fun (g, w) => (g == "alive") == w) &&
    (prevDead.drop 1).all (· == "dead") && got.all (fun s => !optBool s "shared")
  let firstDead := (curAlive.zipIdx.find? (fun (g, _) => g == "dead")).map (·.2)
  let spec := firstDead.isNone && lenOk
  let sig := if firstDead.isSome then "closed-by-previous-generation:Validator:" ++ mode
    else if !lenOk then "truncated:Validator" else ""
  let hdrOnly := ((auths.zip (auths.drop 1)).zip (hdrs.zip (hdrs.drop 1))).any fun ((a, b), (c, d)) => a == b && c != d
  let tags := tags0 ++ (if same.any id then ["update-with-unchanged-basicAuth"] else []) ++
    (if same.any (!·) then ["update-with-changed-basicAuth"] else []) ++
    (if hdrOnly then ["header-rule-only-edit"] else []) ++
    (if got.any (fun s => optBool s "shared") then ["cache-shared-with-previous-generation"] else []) ++
    ["updates:" ++ toString same.length]
  return { agree := agree, spec := spec, expected := Json.arr (want.map Json.bool).toArray, tags := tags,
           nontrivial := same.any id, sig := sig,
           note := match firstDead with | some i => "current generation's user cache dead after step " ++ toString i | none => optStr obs "note" }

/-! ### resilience: pipeline-level policies after an update -/

def judgeResilience : Judge := liftJudge fun input obs => do
  let policy := optStr input "policy" "?"
  let err := optStr obs "err"
  let tags0 := ["policy:" ++ policy]
  if err == "bad-input" || err == "bad-spec" || err == "init-panic" || err == "budget-exhausted" then
    return { agree := true, spec := true, tags := tags0 ++ ["skipped:" ++ err], nontrivial := false, note := optStr obs "note" }
  if err == "inherit-panic" then
    return { agree := false, spec := false, tags := tags0 ++ [err], sig := "panic:inherit-panic:Pipeline", note := optStr obs "note" }
  if let some m := obsPanic obs then
    return { agree := false, spec := false, sig := "panic:harness:resilience", note := m }
  let isCB := policy == "cb"
  let clamp := fun (n : Int) => if n < 1 then 1 else if n > 6 then 6 else n.toNat
  let gens : List PGen := (← getArr input "gens").toList.map fun g =>
    ({ filterSpec := (optInt g "fs").natAbs % 3, policy := clamp (optInt g "p") } : PGen)
  let k := let k := optInt input "k"; if k < 1 then 1 else if k > 8 then 8 else k.toNat
  let got : List (List Int) := (← getArr obs "calls").toList.map fun row =>
    match row.getArr? with | .ok a => a.toList.map (fun x => (x.getInt?).toOption.getD (-9)) | .error _ => []
  match gens with
  | [] => return { agree := got.isEmpty, spec := true, tags := tags0 ++ ["empty"], nontrivial := false }
  | g0 :: rest =>
    -- the policy in force after each step = the policy of the last applied spec
    let pols := pTrace false (pInit g0) rest
    let want : List (List Int) := pols.map fun p => (List.range k).map fun j => (policyCalls isCB p j : Int)
    let ok := got == want
    let firstBad := ((got.zip want).zipIdx.find? (fun ((g, w), _) => g != w)).map (·.2)
    let panicked := got.any (fun row => row.any (· == -1))
    -- what the contrast semantics (instance reused, not re-injected) would show
    -- (a kept CircuitBreaker instance also keeps its window: it goes on counting where it was)
    let staleRetry := (pTrace true (pInit g0) rest).map fun p => (List.range k).map fun j => (policyCalls false p j : Int)
    let staleCB : List (List Int) :=
      let rec go (fs inj used : Nat) : List PGen → List (List Int)
        | [] => []
        | g :: gs =>
          let (fs', inj', used') := if fs == g.filterSpec then (fs, inj, used) else (g.filterSpec, g.policy, 0)
          let served := min k (inj' - used')
          ((List.range k).map fun j => if j < served then (1 : Int) else 0) :: go fs' inj' (used' + served) gs
      ((List.range k).map fun j => (policyCalls true g0.policy j : Int)) :: go g0.filterSpec g0.policy (min k g0.policy) rest
    let stale := if isCB then staleCB else staleRetry
    let sig := if ok then "" else if panicked then "panic:request-after-update:Pipeline"
      else if got.length != want.length then "truncated:resilience"
      else if got == stale then "stale-resilience-policy-after-update:Proxy"
      else "wrong-resilience-policy-after-update:Proxy"
    let pairs := gens.zip rest
    let polOnly := pairs.any fun (a, b) => a.filterSpec == b.filterSpec && a.policy != b.policy
    let tags := tags0 ++ (if polOnly then ["update-changes-only-the-policy"] else []) ++
      (if pairs.any (fun (a, b) => a.filterSpec != b.filterSpec) then ["update-changes-the-filter-spec"] else []) ++
      (if pairs.any (fun (a, b) => a == b) then ["no-op-update"] else []) ++ ["updates:" ++ toString rest.length]
    return { agree := ok, spec := ok, expected := toJson want, tags := tags, nontrivial := polOnly && stale != want, sig := sig,
             note := match firstBad with | some i => "first step whose requests ran under another policy: " ++ toString i | none => "" }

/-! ### mux -/

/-- Parse state: the filter table built so far (ids are positions). -/
def parseIPF (tbl : List IPSpec) (j : Json) : List IPSpec × Option Nat :=
  match j.getObjVal? "ipFilter" with
  | .ok (.obj o) =>
    let f := Json.obj o
    (tbl ++ [{ blockByDefault := optBool f "blockByDefault", allowIPs := strListOpt f "allowIPs",
               blockIPs := strListOpt f "blockIPs" }], some tbl.length)
  | _ => (tbl, none)

def parsePath (tbl : List IPSpec) (j : Json) : List IPSpec × Mux.PathEntry :=
  let (tbl, f) := parseIPF tbl j
  (tbl, { path := optStr j "path", pathPrefix := optStr j "pathPrefix", methods := strListOpt j "methods",
          rewriteTarget := optStr j "rewriteTarget", backend := optStr j "backend", ipFilter := f })

def parseRule (tbl : List IPSpec) (j : Json) : List IPSpec × Mux.Rule :=
  let (tbl, f) := parseIPF tbl j
  let ps := match getArr j "paths" with | .ok a => a.toList | .error _ => []
  let (tbl, paths) := ps.foldl (fun (acc : List IPSpec × List Mux.PathEntry) p =>
    let (t, e) := parsePath acc.1 p; (t, acc.2 ++ [e])) (tbl, [])
  (tbl, { host := optStr j "host", ipFilter := f, paths := paths })

def parseGen (j : Json) : HGen :=
  let (tbl, f) := parseIPF [] j
  let rs := match getArr j "rules" with | .ok a => a.toList | .error _ => []
  let (tbl, rules) := rs.foldl (fun (acc : List IPSpec × List Mux.Rule) r =>
    let (t, e) := parseRule acc.1 r; (t, acc.2 ++ [e])) (tbl, [])
  { rules := { cfg := { ipFilter := f, rules := rules }, filters := tbl },
    options := { xForwardedFor := optBool j "xForwardedFor" },
    mapper := { tag := optStr j "tag", backends := strListOpt j "backends" } }

def parseHReq (j : Json) : HReq :=
  { q := { host := optStr j "host", hostNoPort := optStr j "hostNoPort", method := optStr j "method" "GET",
           path := optStr j "path" "/", hdr := [], ip := optStr j "ip" },
    xffIn := optStr j "xff", xffContains := optBool j "xffContains" }

def parseOutcome (j : Json) : Outcome :=
  { status := (optInt j "status").toNat, handler := optStr j "handler", path := optStr j "path", xff := optStr j "xff" }

def outcomeJson (o : Outcome) : Json :=
  Json.mkObj [("status", Json.num (o.status : Int)), ("handler", o.handler), ("path", o.path), ("xff", o.xff)]

/-- Request templates; the answers of the Go standard library (SplitHostPort, realip,
strings.Contains) travel in `obs.oracle`. -/
def parseReqs (input obs : Json) : Except String (List HReq) := do
  let oracle := (← getArr obs "oracle").toList
  pure <| ((← getArr input "reqs").toList.zip oracle).map fun (q, o) =>
    let h := parseHReq q
    ({ h with q := { h.q with hostNoPort := optStr o "hostNoPort", ip := optStr o "ip",
                              host := if optStr q "host" == "" then "a.com" else optStr q "host" },
              xffContains := optBool o "xffContains" } : HReq)

def judgeMux : Judge := liftJudge fun input obs => do
  if let some m := obsPanic obs then
    return { agree := false, spec := false, sig := "panic:mux", note := m }
  if optStr obs "err" != "" then
    return { agree := true, spec := true, tags := ["skipped:" ++ optStr obs "err"], nontrivial := false }
  let gA := parseGen ((input.getObjVal? "a").toOption.getD Json.null)
  let gB := parseGen ((input.getObjVal? "b").toOption.getD Json.null)
  -- answers of the Go standard library (SplitHostPort, realip, strings.Contains) travel in obs.oracle
  let reqs ← parseReqs input obs
  let wantA := reqs.map (serve gA)
  let wantB := reqs.map (serve gB)
  let seqA := (← getArr obs "seqA").toList.map parseOutcome
  let seqB := (← getArr obs "seqB").toList.map parseOutcome
  -- storm: per request template the list of distinct outcomes seen while reloads were running
  let storm := (← getArr obs "storm").toList.map fun a =>
    match a.getArr? with | .ok l => l.toList.map parseOutcome | .error _ => []
  let seqOk := seqA == wantA && seqB == wantB
  let rows := (storm.zip wantA).zip wantB
  let mixed := rows.find? fun ((seen, a), b) => seen.any (fun o => o != a && o != b)
  let stormOk := mixed.isNone && storm.length == reqs.length
  let fiveXX := rows.any fun ((seen, a), b) => seen.any (fun o => o.status ≥ 500 && a.status < 500 && b.status < 500)
  let both := rows.filter (fun ((seen, a), b) => a != b && seen.contains a && seen.contains b) |>.length
  let differ := (wantA.zip wantB).filter (fun (a, b) => a != b) |>.length
  let jointly := (wantA.zip wantB).any fun (a, b) => a.status == 200 && b.status == 200 &&
      a.handler != b.handler && a.xff != b.xff
  let tags := (if differ > 0 then ["outcomes-differ"] else ["outcomes-equal"]) ++
      (if both > 0 then ["both-generations-observed"] else []) ++
      (if jointly then ["differ-jointly-in-backend-and-xff"] else []) ++
      (if (wantA ++ wantB).any (·.status == 503) then ["503"] else []) ++
      (if (wantA ++ wantB).any (·.status == 404) then ["404"] else []) ++
      (if (wantA ++ wantB).any (·.status == 405) then ["405"] else []) ++
      (if (wantA ++ wantB).any (fun o => o.status == 200 && o.path != "") then ["200"] else [])
  let spec := seqOk && stormOk
  let panicked := storm.any (fun seen => seen.any (fun o => o.handler.startsWith "panic:")) ||
      (seqA ++ seqB).any (fun o => o.handler.startsWith "panic:")
  let reloadPanic := optStr obs "reloadPanic"
  let sig := if reloadPanic != "" then "mux:reload-panicked"
    else if panicked then "mux:request-panicked-during-reload"
    else if !stormOk then (if fiveXX then "mux:5xx-during-reload" else "mux:mixed-generation-response")
    else if !seqOk then "mux:stale-or-wrong-generation-after-reload" else ""
  let spec := spec && reloadPanic == ""
  return { agree := spec, spec := spec,
           expected := Json.mkObj [("a", Json.arr (wantA.map outcomeJson).toArray), ("b", Json.arr (wantB.map outcomeJson).toArray)],
           tags := tags, nontrivial := differ > 0 && both > 0, sig := sig,
           note := match mixed with | some ((seen, _), _) => "seen " ++ (Json.arr (seen.map outcomeJson).toArray).compress | none => "" }

/-! ### muxhist: sequential histories -/

/-- Which single aspect (if exactly one) distinguishes two generations. -/
def aspectOf (a b : HGen) : String :=
  let dr := a.rules != b.rules
  let dop := a.options != b.options
  let dm := a.mapper.backends != b.mapper.backends
  if !dr && !dop && !dm then "same"
  else if dr && !dop && !dm then
    (if a.rules.filters != b.rules.filters then "ipfilter-only" else "rules-only")
  else if !dr && dop && !dm then "options-only"
  else if !dr && !dop && dm then "mapper-only"
  else "several"

def judgeMuxHist : Judge := liftJudge fun input obs => do
  if let some m := obsPanic obs then
    return { agree := false, spec := false, sig := "panic:muxhist", note := m }
  if optStr obs "err" != "" then
    return { agree := true, spec := true, tags := ["skipped:" ++ optStr obs "err"], nontrivial := false }
  let specsJ := (← getArr input "specs").toList
  let specs := specsJ.map parseGen
  let cacheSizes := specsJ.map (fun j => optInt j "cacheSize")
  let reqs ← parseReqs input obs
  let hist := (← getArr input "hist").toList
  -- the harness skips out-of-range indices; so does the model
  let ops : List (MOp × Option Nat) := hist.filterMap fun h =>
    let i := (optInt h "i").toNat
    match optStr h "op" with
    | "set" => if optStr h "name" == "" then none else some (MOp.set (optStr h "name") (optStr h "tag"), none)
    | "del" => some (MOp.del (optStr h "name"), none)
    | "reload" => if optInt h "i" < 0 then none else (specs[i]?).map (fun g => (MOp.reload g, some i))
    | "req" => if optInt h "i" < 0 then none else (reqs[i]?).map (fun q => (MOp.req q, none))
    | _ => none
  -- before the first reload the harness executes no request and has no mapper to change
  let ops := ops.dropWhile (fun o => match o.1 with | .reload _ => false | _ => true)
  let mapChanges := ops.any (fun o => match o.1 with | .set .. | .del _ => true | _ => false)
  let want := mapServe (emptyGen "") [] (ops.map (·.1))
  let got := (← getArr obs "out").toList.map parseOutcome
  let ok := got == want
  -- classification: which single-aspect transitions happened, with which cache sizes, and was a
  -- request key repeated across a reload (the situation in which stale state could show)
  let reloadIdx := ops.filterMap (·.2)
  let trans := (reloadIdx.zip (reloadIdx.drop 1)).map fun (a, b) =>
    match specs[a]?, specs[b]? with
    | some x, some y => (if a == b then "same-spec-again" else aspectOf x y)
    | _, _ => "?"
  let cachedTrans := (reloadIdx.zip (reloadIdx.drop 1)).any fun (a, b) =>
    cacheSizes.getD a 0 > 0 && cacheSizes.getD a 0 == cacheSizes.getD b 0
  let firstBad := ((got.zip want).zipIdx.find? (fun ((g, w), _) => g != w)).map (·.2)
  let tags := (trans.eraseDups.map ("transition:" ++ ·)) ++
    (cacheSizes.eraseDups.map (fun c => "cacheSize:" ++ toString c)) ++
    (if want.any (·.status == 403) then ["403"] else []) ++
    (if want.any (·.status == 503) then ["503"] else []) ++
    (if want.any (·.status == 200) then ["200"] else []) ++
    (if cachedTrans then ["reload-keeps-cacheSize>0"] else []) ++
    (if ops.any (fun o => match o.1 with | .set .. => true | _ => false) then ["mapper-set-without-reload"] else []) ++
    (if ops.any (fun o => match o.1 with | .del _ => true | _ => false) then ["mapper-del-without-reload"] else [])
  let firstPair := (got.zip want).find? (fun (g, w) => g != w)
  let sig := if ok then "" else
    if got.length != want.length then "muxhist:truncated"
    else match firstPair with
      | some (g, w) =>
        if mapChanges && w.status == 503 && g.status == 200 then "mux:handler-after-delete"
        else if mapChanges && g.status == 200 && w.status == 200 && g.handler != w.handler && g.path == w.path then
          "mux:stale-handler-after-pipeline-update"
        else if mapChanges && w.status == 200 && g.status == 503 then "mux:handler-missing-after-pipeline-create"
        else "muxhist:response-not-of-current-generation"
      | none => "muxhist:response-not-of-current-generation"
  return { agree := ok, spec := ok, expected := Json.arr (want.map outcomeJson).toArray, tags := tags,
           nontrivial := reloadIdx.length ≥ 2 && want.eraseDups.length ≥ 2, sig := sig,
           note := match firstBad with | some i => "first differing response: #" ++ toString i | none => "" }

/-! ### registry -/

def parseOp (j : Json) : Option Op :=
  let n := optStr j "name"
  let s := (optInt j "spec").toNat
  match optStr j "op" with
  | "create" => some (.create n s)
  | "update" => some (.update n s)
  | "apply" => some (.apply n s)
  | "delete" => some (.delete n)
  | _ => none

def resStr : Res → String
  | .created => "created" | .updated => "updated" | .unchanged => "unchanged"
  | .deleted => "deleted" | .notFound => "notFound"

/-- Snapshot of the model: for every name of interest (instance id, spec, closed?) or null. -/
def snapJson (r : Reg) (names : List String) : Json :=
  Json.arr (names.map fun n => match r.ents n with
    | none => Json.null
    | some e => Json.arr #[Json.num (e.inst : Int), Json.num (e.spec : Int), Json.num (e.generation : Int)]).toArray

def judgeRegistry : Judge := liftJudge fun input obs => do
  if let some m := obsPanic obs then
    return { agree := false, spec := false, sig := "panic:registry", note := m }
  if optStr obs "err" != "" then
    return { agree := true, spec := true, tags := ["skipped:" ++ optStr obs "err"], nontrivial := false }
  let names ← getStrList input "names"
  let setup := match getArr input "setup" with | .ok a => a.toList | .error _ => []
  let ops := (setup ++ (← getArr input "ops").toList).filterMap parseOp
  let steps := (← getArr obs "steps").toList
  -- run the model, collecting (result, snapshot) after every op
  let rec go (r : Reg) : List Op → List (String × Json)
    | [] => []
    | o :: rest => let x := r.step o; (resStr x.2, snapJson x.1 names) :: go x.1 rest
  let want := go Reg.empty ops
  let got := steps.map fun s => (optStr s "res", (s.getObjVal? "snap").toOption.getD Json.null)
  let agree := got.length == want.length && (got.zip want).all fun (g, w) => g.1 == w.1 && g.2.compress == w.2.compress
  -- executable spec on what the implementation did: frame + no-op, evaluated on the observed snapshots
  let snapOf (j : Json) (i : Nat) : Json := match j.getArr? with | .ok a => a.toList.getD i Json.null | .error _ => Json.null
  let idxs := List.range names.length
  let rec frame (prev : Json) : List (Op × (String × Json)) → Option String
    | [] => none
    | (o, (res, snap)) :: rest =>
      let others := idxs.all fun i => names.getD i "" == o.name || (snapOf prev i).compress == (snapOf snap i).compress
      -- "applying an unchanged spec is a no-op": decided from the *input* and the previous
      -- observed snapshot (spec of that name), not from what the implementation reported
      let self := names.idxOf o.name
      let sameSpec := match o with
        | .apply _ sp => match (snapOf prev self).getArr? with
            | .ok a => (a.toList.getD 1 Json.null).compress == (Json.num (sp : Int)).compress
            | .error _ => false
        | _ => false
      let noop := (res != "unchanged" && !sameSpec) || prev.compress == snap.compress
      -- "once the update has been applied every new request sees the new generation"
      let visible := match o with
        | .delete _ => true
        | .create _ sp | .update _ sp | .apply _ sp =>
          res == "notFound" || (match (snapOf snap self).getArr? with
            | .ok a => (a.toList.getD 1 Json.null).compress == (Json.num (sp : Int)).compress
            | .error _ => false)
      if !others then some "registry:other-object-changed"
      else if !visible then some "registry:applied-update-not-visible"
      else if !noop then some "registry:unchanged-apply-not-a-noop"
      else frame snap rest
  let emptySnap := snapJson Reg.empty names
  let fr := frame emptySnap (ops.zip got)
  let bgMiss := optInt obs "bgMiss"
  let bgWrong := optInt obs "bgWrong"
  let handleBad := optInt obs "handleBad"
  let spec := fr.isNone && bgMiss == 0 && bgWrong == 0 && handleBad == 0
  let sig := match fr with
    | some s => s
    | none => if bgMiss != 0 then "registry:untouched-object-unavailable"
              else if bgWrong != 0 then "registry:untouched-object-wrong-generation"
              else if handleBad != 0 then "registry:handler-of-live-object-failed" else ""
  let tags := (ops.map fun o => match o with
      | .create .. => "create" | .update .. => "update" | .apply .. => "apply" | .delete .. => "delete").eraseDups
    ++ (want.map (·.1)).eraseDups.map ("res:" ++ ·)
  return { agree := agree, spec := spec, expected := Json.arr (want.map fun w => Json.mkObj [("res", w.1), ("snap", w.2)]).toArray,
           tags := tags, nontrivial := (want.any (·.1 == "updated")) && optInt obs "bgReads" > 0, sig := sig }

def judges : List (String × Judge) :=
  [("filters", judgeFilters), ("kafka", judgeKafka), ("validatorgen", judgeValidatorGen), ("resilience", judgeResilience), ("mux", judgeMux), ("muxhist", judgeMuxHist), ("registry", judgeRegistry)]

end Driver.C11

def main (args : List String) : IO UInt32 := Driver.runMain Driver.C11.judges args
