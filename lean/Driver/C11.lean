import Driver.Common
/-! Judge for C11: not built yet (stub so that the target exists). -/
open Lean Driver

namespace Driver.C11

def judges : List (String × Judge) := []

end Driver.C11

def main (args : List String) : IO UInt32 := Driver.runMain Driver.C11.judges args
